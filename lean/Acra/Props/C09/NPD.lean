/-
  C09 for NPD and its segment classes.  The total-length check of `NPD.unpack` is exact (`NPD_accepts_iff`);
  the segment decoders do NOT check the length a segment header declares (outside C09's list, DESIGN §12.4,
  notes/fti.md §4 F1), so what is proved about a segment is the exact closed form of what the code does with
  ANY declared length (`NPDSegment_unpack_payload`) and, as a corollary, that a declared length lying inside the
  buffer gives a payload of exactly the declared length (`NPDSegment_exact`).
  `segDeclared`, `segLen` (the declared length clamped into [8, len] — the value the `payload` setter leaves in
  `segmentlen`), `segAdvance`, `segPayload`, `TypedHdrOk`, `SegOk`, `SegWalk` are defined in Acra.Lemmas.NPDWalk.
-/
import Acra.Model.NPD
import Acra.Lemmas.Bits
import Acra.Lemmas.NPDWalk
import Acra.Lemmas.NPDFits
import Acra.Lemmas.ReviewC09Loop
namespace Acra.Props.C09
open Acra.Py Acra.Model.NPD Acra.Gen.NPD Acra.Lemmas.Bits Acra.Lemmas.NPD Acra.Lemmas.Walk

/-- the packet length the NPD header declares, in 32-bit words: big-endian 16 bits at bytes 2..3 -/
def declaredWords (buf : Bytes) : Nat := beNat ((buf.drop 2).take 2)
/-- the header length nibble and the data type -/
def declaredHdrlen (buf : Bytes) : Nat := beNat (buf.take 1) % 16
def declaredType (buf : Bytes) : Nat := beNat ((buf.drop 1).take 1)

theorem NPD_hdr (buf : Bytes) (h : 20 ≤ buf.length) :
    ∃ cc fl sq ds mc ts, structUnpackFrom NPD_HEADER_FORMAT buf 0 =
      .ok [beNat (buf.take 1), declaredType buf, declaredWords buf, cc, fl, sq, ds, mc, ts] := by
  simp only [structUnpackFrom, NPD_HEADER_FORMAT, Fmt.size, codesSize, Code.size, unpackCodes, decInt, List.drop_zero,
    declaredWords, declaredType, List.drop_drop]
  have : 0 + (1 + (1 + (2 + (1 + (1 + (2 + (4 + (4 + (4 + 0))))))))) ≤ buf.length := by omega
  simp only [this, if_true]
  exact ⟨_, _, _, _, _, _, rfl⟩

/-- the segment walk `NPD.unpack` performs after the two header checks -/
def segmentsOk (buf : Bytes) : Bool :=
  (decOff (decSeg (kindOf (declaredType buf))) moreNe (buf.drop (declaredHdrlen buf * 4))
    ((buf.drop (declaredHdrlen buf * 4)).length + 1) 0).isOk

/-- NPD accepts a buffer exactly when it holds the 20-byte header, the declared total length (in 32-bit
    words) equals the real length, and the model's own segment loop succeeds (see `NPD_accepts_iff` for the
    closed form of the third conjunct) -/
theorem NPD_accepts_iff_loop (t : State) (buf : Bytes) :
    (unpack t buf).2 = .ok () ↔ 20 ≤ buf.length ∧ declaredWords buf * 4 = buf.length ∧ segmentsOk buf = true := by
  by_cases h20 : 20 ≤ buf.length
  · obtain ⟨cc, fl, sq, ds, mc, ts, hh⟩ := NPD_hdr buf h20
    simp only [unpack, hh, and_F, h20, true_and, segmentsOk, declaredHdrlen]
    by_cases hl : declaredWords buf * 4 = buf.length
    · simp only [hl, ne_eq, not_true_eq_false, if_false, true_and]
      split <;> simp_all [R.isOk]
    · simp [hl]
  · have : structUnpackFrom NPD_HEADER_FORMAT buf 0 = .error .struct := by
      simp only [structUnpackFrom, NPD_HEADER_FORMAT, Fmt.size, codesSize, Code.size]
      have : ¬ (0 + (1 + (1 + (2 + (1 + (1 + (2 + (4 + (4 + (4 + 0))))))))) ≤ buf.length) := by omega
      simp [this]
    simp [unpack, this, h20]

/-- the segment loop is the walk: `SegWalk k rem` holds when `rem` is empty, or the segment at its front is
    acceptable (8-byte header complete, typed header of class `k` complete inside the payload actually taken)
    and the walk continues after `segAdvance rem` bytes — the REWRITTEN length `segLen rem` rounded up to four -/
theorem SegWalk_iff (k : Kind) (rem : Bytes) :
    SegWalk k rem ↔ rem = [] ∨ (SegOk k rem ∧ SegWalk k (rem.drop (segAdvance rem))) := by
  by_cases h : rem = []
  · subst h
    exact ⟨fun _ => Or.inl rfl, fun _ => .done⟩
  · rw [SegWalk, walk_cons_iff _ _ _ h]
    simp [h]

theorem segmentsOk_iff_walk (buf : Bytes) :
    segmentsOk buf = true ↔ SegWalk (kindOf (declaredType buf)) (buf.drop (declaredHdrlen buf * 4)) :=
  decSeg_walk _ _

/-- NPD accepts a buffer exactly when it holds the 20-byte header, the declared total length (in 32-bit
    words) equals the real length, and every segment met while walking the segment area with the rewritten
    lengths has a complete header (and typed header).  The walk is a predicate over the bytes (`SegWalk_iff`). -/
theorem NPD_accepts_iff (t : State) (buf : Bytes) :
    (unpack t buf).2 = .ok () ↔ 20 ≤ buf.length ∧ declaredWords buf * 4 = buf.length ∧
      SegWalk (kindOf (declaredType buf)) (buf.drop (declaredHdrlen buf * 4)) := by
  rw [NPD_accepts_iff_loop, segmentsOk_iff_walk]

/-- the declared-total-length check by itself: an accepted buffer's length field (words) times four is its length -/
theorem NPD_accepted_length (t : State) (buf : Bytes) (h : (unpack t buf).2 = .ok ()) :
    20 ≤ buf.length ∧ declaredWords buf * 4 = buf.length :=
  ⟨((NPD_accepts_iff t buf).1 h).1, ((NPD_accepts_iff t buf).1 h).2.1⟩

/-- a wrong declared length is rejected with a bare `Exception`; a short header with `struct.error` -/
theorem NPD_reject_kinds (t : State) (buf : Bytes) :
    (buf.length < 20 → (unpack t buf).2 = .error .struct) ∧
    (20 ≤ buf.length → declaredWords buf * 4 ≠ buf.length → (unpack t buf).2 = .error .generic) := by
  constructor
  · intro h
    have : structUnpackFrom NPD_HEADER_FORMAT buf 0 = .error .struct := by
      simp only [structUnpackFrom, NPD_HEADER_FORMAT, Fmt.size, codesSize, Code.size]
      have : ¬ (0 + (1 + (1 + (2 + (1 + (1 + (2 + (4 + (4 + (4 + 0))))))))) ≤ buf.length) := by omega
      simp [this]
    simp [unpack, this]
  · intro h20 hl
    obtain ⟨cc, fl, sq, ds, mc, ts, hh⟩ := NPD_hdr buf h20
    simp [unpack, hh, hl]

/-- review witnesses.  Header: version 1, hdrlen 5 words, data type 0xFF (plain segments), length word `w`, cfgcnt 1,
    sequence 2, source 3, multicast 235.0.0.1, timestamp 9; one segment of declared length 12 with 4 payload bytes. -/
private def npdHdrW (w : UInt8) : Bytes := [0x15, 0xFF, 0, w, 1, 0, 0, 2, 0,0,0,3, 235,0,0,1, 0,0,0,9]
/-- 8 words declared, 32 bytes present: accepted, the segment payload returned whole -/
example : (unpack fresh (npdHdrW 8 ++ [0,0,0,1, 0,12, 0,0, 1,2,3,4])).2 = .ok () := by rfl
example : (unpack fresh (npdHdrW 8 ++ [0,0,0,1, 0,12, 0,0, 1,2,3,4])).1.segments.map (·.payload) = [[1,2,3,4]] := by rfl
/-- declared 9 / 7 words on 32 bytes; declared 8 words on 33 bytes; 19-byte header: all rejected -/
example : (unpack fresh (npdHdrW 9 ++ [0,0,0,1, 0,12, 0,0, 1,2,3,4])).2 = .error .generic := by rfl
example : (unpack fresh (npdHdrW 7 ++ [0,0,0,1, 0,12, 0,0, 1,2,3,4])).2 = .error .generic := by rfl
example : (unpack fresh (npdHdrW 8 ++ [0,0,0,1, 0,12, 0,0, 1,2,3,4,5])).2 = .error .generic := by rfl
example : (unpack fresh ((npdHdrW 8).take 19)).2 = .error .struct := by rfl
/-- the third conjunct of `NPD_accepts_iff` is not idle: total length right (9 words, 36 bytes) but the second
    segment header incomplete (4 stray bytes) → rejected -/
example : (unpack fresh (npdHdrW 9 ++ [0,0,0,1, 0,12, 0,0, 1,2,3,4] ++ [0,0,0,1])).2 = .error .generic ∧
    segmentsOk (npdHdrW 9 ++ [0,0,0,1, 0,12, 0,0, 1,2,3,4] ++ [0,0,0,1]) = false := ⟨rfl, rfl⟩

/-- the length a segment header declares: big-endian 16 bits at bytes 4..5 -/
def declaredSegLen (buf : Bytes) : Nat := beNat ((buf.drop 4).take 2)

theorem declaredSegLen_eq (buf : Bytes) : declaredSegLen buf = segDeclared buf := rfl

/-- a segment of a plain class (NPDSegment, PCMPacketizer, A429Segment) is accepted exactly when its
    8-byte header is complete -/
theorem NPDSegment_ok_iff (t : Seg) (buf : Bytes) :
    (∃ r, (Seg.unpackBase t buf).2 = .ok r) ↔ 8 ≤ buf.length := by
  by_cases h8 : 8 ≤ buf.length
  · rw [unpackBase_closed t buf h8]; simp [h8]
  · rw [unpackBase_short t buf h8]; simp [h8]

/-- a segment of ANY class `k` is accepted exactly when its 8-byte header is complete and the payload taken
    holds the typed header of the class (ACQ and MIL-STD-1553: 4 bytes; RS-232: the status word and the sync
    bytes it counts) -/
theorem Segment_ok_iff (k : Kind) (buf : Bytes) :
    (∃ g r, Seg.unpack (Seg.fresh k) buf = (g, .ok r)) ↔
      8 ≤ buf.length ∧ TypedHdrOk k (slice buf 8 (declaredSegLen buf)) := by
  rw [Seg_unpack_ok_iff, SegOk, segPayload_eq]
  rfl

/-- `NPDSegment.unpack`, exactly, for every buffer that holds the 8-byte header and EVERY declared length `d`:
    with `n = max 8 (min d len(buffer))`,
    the payload is `buffer[8:n]` (= `buffer[8:d]` in Python), so it has `n − 8` bytes;
    `segmentlen` is REWRITTEN to `n` (the declared value is lost unless `8 ≤ d ≤ len(buffer)`);
    the bytes consumed are `n` rounded up to four, i.e. the rest returned is `buffer[roundUp4 n:]`;
    the other header fields are what the layout says. -/
theorem NPDSegment_unpack_payload (t : Seg) (buf : Bytes) (h8 : 8 ≤ buf.length) :
    (Seg.unpackBase t buf).1.payload = slice buf 8 (max 8 (min (declaredSegLen buf) buf.length)) ∧
    (Seg.unpackBase t buf).1.payload = slice buf 8 (declaredSegLen buf) ∧
    (Seg.unpackBase t buf).1.payload.length = max 8 (min (declaredSegLen buf) buf.length) - 8 ∧
    (Seg.unpackBase t buf).1.segmentlen = max 8 (min (declaredSegLen buf) buf.length) ∧
    (Seg.unpackBase t buf).2 = .ok (buf.drop (roundUp4 (max 8 (min (declaredSegLen buf) buf.length)))) ∧
    (Seg.unpackBase t buf).1.timedelta = beNat (buf.take 4) ∧
    (Seg.unpackBase t buf).1.errorcode = beNat ((buf.drop 6).take 1) ∧
    (Seg.unpackBase t buf).1.flags = beNat ((buf.drop 7).take 1) := by
  rw [unpackBase_closed t buf h8]
  refine ⟨rfl, segPayload_eq buf, ?_, rfl, rfl, rfl, rfl, rfl⟩
  exact segPayload_length buf h8

/-- the whole result as one equation (object and rest), for any prior state `t` -/
theorem NPDSegment_unpack_closed (t : Seg) (buf : Bytes) (h8 : 8 ≤ buf.length) :
    Seg.unpackBase t buf = (baseDecoded t buf, .ok (buf.drop (segAdvance buf))) :=
  unpackBase_closed t buf h8

/-- corollary: a declared length within the buffer (and not below the header's) gives a payload of exactly
    the declared length, keeps `segmentlen` as declared, and consumes the declared length rounded up to four -/
theorem NPDSegment_exact (t : Seg) (buf : Bytes) (h1 : 8 ≤ declaredSegLen buf) (h2 : declaredSegLen buf ≤ buf.length) :
    (Seg.unpackBase t buf).1.payload = slice buf 8 (declaredSegLen buf) ∧
    (Seg.unpackBase t buf).1.payload.length = declaredSegLen buf - 8 ∧
    (Seg.unpackBase t buf).1.segmentlen = declaredSegLen buf ∧
    (Seg.unpackBase t buf).2 = .ok (buf.drop (roundUp4 (declaredSegLen buf))) := by
  have h8 : 8 ≤ buf.length := by omega
  obtain ⟨_, hp, hl, hs, hr, _⟩ := NPDSegment_unpack_payload t buf h8
  have : max 8 (min (declaredSegLen buf) buf.length) = declaredSegLen buf := by omega
  rw [this] at hl hs hr
  exact ⟨hp, hl, hs, hr⟩

/-- conversely: after decoding, `segmentlen` still shows the declared length exactly when the declared length
    lies in `[8, len(buffer)]` -/
theorem NPDSegment_exact_iff (t : Seg) (buf : Bytes) (h8 : 8 ≤ buf.length) :
    (Seg.unpackBase t buf).1.segmentlen = declaredSegLen buf ↔
      (8 ≤ declaredSegLen buf ∧ declaredSegLen buf ≤ buf.length) := by
  rw [(NPDSegment_unpack_payload t buf h8).2.2.2.1]
  omega

/-- the gap between `NPDSegment_unpack_payload` and "payload = declared − 8": a segment declaring 100 bytes with
    none present, and one declaring 0 bytes, are accepted; `segmentlen` reads 8 afterwards -/
example : (Seg.unpackBase (Seg.fresh .base) [0, 0, 0, 1, 0, 100, 0, 0]).2 = .ok [] ∧
    (Seg.unpackBase (Seg.fresh .base) [0, 0, 0, 1, 0, 100, 0, 0]).1.segmentlen = 8 := ⟨rfl, rfl⟩
example : (Seg.unpackBase (Seg.fresh .base) [0, 0, 0, 1, 0, 0, 0, 0, 9, 9, 9, 9]).2 = .ok [9, 9, 9, 9] ∧
    (Seg.unpackBase (Seg.fresh .base) [0, 0, 0, 1, 0, 0, 0, 0, 9, 9, 9, 9]).1.segmentlen = 8 := ⟨rfl, rfl⟩

/-- non-vacuity of `NPDSegment_exact`: 11 declared, 12 present (one pad byte) -/
example : 8 ≤ declaredSegLen [0, 0, 0, 1, 0, 11, 0, 0, 7, 8, 9, 255] ∧
    declaredSegLen [0, 0, 0, 1, 0, 11, 0, 0, 7, 8, 9, 255] ≤ ([0, 0, 0, 1, 0, 11, 0, 0, 7, 8, 9, 255] : Bytes).length := by
  decide

/-- the walk on the F1 witness (notes/fti.md): one segment declaring 100 bytes, 8 present — accepted, because the
    walk uses the rewritten length 8 -/
example : SegWalk .base [0, 0, 0, 1, 0, 100, 0, 0] :=
  .step (by decide) (by decide) .done

/-- two segments, the first declaring 0 bytes (taken as 8) -/
example : SegWalk .base [0, 0, 0, 1, 0, 0, 0, 0, 0, 0, 0, 2, 0, 8, 0, 0] :=
  .step (by decide) (by decide) (.step (by decide) (by decide) .done)

/-- a trailing incomplete segment header is refused, and so is an RS-232 segment whose status word counts more
    sync bytes than the payload holds -/
example : ¬ SegWalk .base [0, 0, 0, 1, 0, 8, 0, 0, 1, 2, 3, 4] := by
  intro h
  rw [SegWalk_iff] at h
  rcases h with h | ⟨_, h⟩
  · cases h
  · rw [SegWalk_iff] at h
    rcases h with h | ⟨h, _⟩
    · revert h; decide
    · revert h; decide
example : ¬ SegWalk .rs232 [0, 0, 0, 1, 0, 11, 0, 0, 0, 3, 0xAA, 0xFF] := by
  intro h
  rw [SegWalk_iff] at h
  rcases h with h | ⟨h, _⟩
  · cases h
  · revert h; decide

/-- joint witness for `NPDSegment_exact`: declared 12, 12 bytes present -/
example : (Seg.unpackBase (Seg.fresh .base) [0,0,0,1, 0,12, 0,0, 1,2,3,4]).2 = .ok [] ∧
    (Seg.unpackBase (Seg.fresh .base) [0,0,0,1, 0,12, 0,0, 1,2,3,4]).1.payload = [1,2,3,4] ∧
    (Seg.unpackBase (Seg.fresh .base) [0,0,0,1, 0,12, 0,0, 1,2,3,4]).1.segmentlen = 12 := ⟨rfl, rfl, rfl⟩
example : (Seg.unpackBase (Seg.fresh .base) [0,0,0,1, 0,12, 0]).2 = .error .struct := by rfl

/-! ### the acceptance condition with a declarative segment walk (`FitsSegs`, Acra.Lemmas.NPDFits)

  `NPD_accepts_iff` above speaks of `SegWalk`, an instance of the generic `Walk` over `SegOk` / `segAdvance`, which in turn
  mention `segPayload` (a `slice`) and the typed-header predicate on that slice.  `FitsSegs k rem` says the same on the raw
  bytes, in the style of `FitsM` / `FitsQ` / `FitsBlocks`: at each position the 8-byte segment header is complete, the
  typed header of class `k` lies inside both the declared length and the bytes that remain (`TypedFits`: nothing for
  NPDSegment / PCMPacketizer / A429Segment, 12 ≤ d ∧ 12 ≤ rest for ACQ and MIL-STD-1553, 10 + sync count ≤ d, rest for
  RS-232), and the next position lies after `max 8 (min d rest)` rounded up to four. -/

/-- one step of the declarative walk, spelled out -/
theorem FitsSegs_iff (k : Kind) (rem : Bytes) :
    FitsSegs k rem ↔ rem = [] ∨ (8 ≤ rem.length ∧ TypedFits k rem ∧
      FitsSegs k (rem.drop (roundUp4 (max 8 (min (declaredSegLen rem) rem.length))))) := by
  constructor
  · intro h
    cases h with
    | done => exact Or.inl rfl
    | seg _ h8 ht hn => exact Or.inr ⟨h8, ht, hn⟩
  · rintro (rfl | ⟨h8, ht, hn⟩)
    · exact .done
    · exact .seg rem h8 ht hn

/-- per-kind reading of `TypedFits` (the typed-header demand of each segment class, on the bytes) -/
theorem TypedFits_plain (rem : Bytes) : TypedFits .base rem ∧ TypedFits .pcmpkt rem ∧ TypedFits .a429 rem :=
  ⟨trivial, trivial, trivial⟩
theorem TypedFits_acq (rem : Bytes) : TypedFits .acq rem ↔ 12 ≤ declaredSegLen rem ∧ 12 ≤ rem.length := Iff.rfl
theorem TypedFits_mil1553 (rem : Bytes) : TypedFits .mil1553 rem ↔ 12 ≤ declaredSegLen rem ∧ 12 ≤ rem.length := Iff.rfl
theorem TypedFits_rs232 (rem : Bytes) :
    TypedFits .rs232 rem ↔ 10 + beNat ((rem.drop 8).take 2) % 8 ≤ declaredSegLen rem ∧
      10 + beNat ((rem.drop 8).take 2) % 8 ≤ rem.length := Iff.rfl

/-- … and each is exactly what the segment class's `unpack` demands: a segment of class `k` at the front of `rem`
    is accepted iff its header is complete and `TypedFits k rem` -/
theorem Segment_ok_iff_fits (k : Kind) (rem : Bytes) :
    (∃ g r, Seg.unpack (Seg.fresh k) rem = (g, .ok r)) ↔ 8 ≤ rem.length ∧ TypedFits k rem := by
  rw [Seg_unpack_ok_iff, segOk_iff_fits]

/-- NPD accepts a buffer exactly when it holds the 20-byte header, the declared total length (in 32-bit words)
    equals the real length, and the segment area after the declared header length FITS: a chain of complete
    segment headers (with complete typed headers) walked by the declared lengths.  Nothing on the right-hand
    side refers to the decoder model. -/
theorem NPD_accepts_iff_fits (t : State) (buf : Bytes) :
    (unpack t buf).2 = .ok () ↔ 20 ≤ buf.length ∧ declaredWords buf * 4 = buf.length ∧
      FitsSegs (kindOf (declaredType buf)) (buf.drop (declaredHdrlen buf * 4)) := by
  rw [NPD_accepts_iff, fitsSegs_iff_walk]

/-- the rejections, exactly: `struct.error` iff the 20-byte header is incomplete; a bare `Exception` iff the header is
    complete and either the declared total length differs from the real one or the segment walk meets (with bytes
    left) an incomplete segment header or a typed header that does not fit (`SegsReject`).  Nothing else is possible. -/
theorem NPD_rejects_iff (t : State) (buf : Bytes) :
    ((unpack t buf).2 = .error .struct ↔ buf.length < 20) ∧
    ((unpack t buf).2 = .error .generic ↔ 20 ≤ buf.length ∧ (declaredWords buf * 4 ≠ buf.length ∨
      SegsReject (kindOf (declaredType buf)) (buf.drop (declaredHdrlen buf * 4)))) ∧
    ((unpack t buf).2 = .ok () ∨ (unpack t buf).2 = .error .struct ∨ (unpack t buf).2 = .error .generic) := by
  by_cases h20 : 20 ≤ buf.length
  · obtain ⟨cc, fl, sq, ds, mc, ts, hh⟩ := NPD_hdr buf h20
    by_cases hl : declaredWords buf * 4 = buf.length
    · have hloop := decSeg_loop_error_iff (kindOf (declaredType buf)) (buf.drop (declaredHdrlen buf * 4))
      cases hd : decOff (decSeg (kindOf (declaredType buf))) moreNe (buf.drop (declaredHdrlen buf * 4))
          ((buf.drop (declaredHdrlen buf * 4)).length + 1) 0 with
      | ok gs =>
        have hnr : ¬ SegsReject (kindOf (declaredType buf)) (buf.drop (declaredHdrlen buf * 4)) := by
          intro hr
          have := (hloop .struct).2 ⟨rfl, hr⟩
          rw [hd] at this; cases this
        have hr : (unpack t buf).2 = .ok () := by
          simp only [declaredHdrlen] at hd
          simp only [unpack, hh, and_F, hl, ne_eq, not_true_eq_false, if_false, hd]
        rw [hr]
        refine ⟨⟨fun h => (by cases h), fun h => (by omega)⟩, ⟨fun h => (by cases h), fun h => ?_⟩, Or.inl rfl⟩
        rcases h.2 with h | h
        · exact absurd hl h
        · exact absurd h hnr
      | error e =>
        obtain ⟨rfl, hrej⟩ := (hloop e).1 hd
        have hr : (unpack t buf).2 = .error .generic := by
          simp only [declaredHdrlen] at hd
          simp only [unpack, hh, and_F, hl, ne_eq, not_true_eq_false, if_false, hd]
        rw [hr]
        exact ⟨⟨fun h => (by cases h), fun h => (by omega)⟩, ⟨fun _ => ⟨h20, Or.inr hrej⟩, fun _ => rfl⟩, Or.inr (Or.inr rfl)⟩
    · have hr := (NPD_reject_kinds t buf).2 h20 hl
      rw [hr]
      exact ⟨⟨fun h => (by cases h), fun h => (by omega)⟩, ⟨fun _ => ⟨h20, Or.inl hl⟩, fun _ => rfl⟩, Or.inr (Or.inr rfl)⟩
  · have hr := (NPD_reject_kinds t buf).1 (by omega)
    rw [hr]
    exact ⟨⟨fun _ => (by omega), fun _ => rfl⟩, ⟨fun h => (by cases h), fun h => absurd h.1 h20⟩, Or.inr (Or.inl rfl)⟩

/-- acceptance and `SegsReject` exclude each other; together with the length checks they exhaust all buffers -/
theorem FitsSegs_xor_reject (k : Kind) (rem : Bytes) :
    (FitsSegs k rem ∧ ¬ SegsReject k rem) ∨ (SegsReject k rem ∧ ¬ FitsSegs k rem) := fitsSegs_or_reject k rem

/-- witnesses for `NPD_accepts_iff_fits`: the accepted 32-byte packet of `npdHdrW` (one plain segment, declared 12) -/
example : FitsSegs .base [0,0,0,1, 0,12, 0,0, 1,2,3,4] := .seg _ (by decide) trivial .done
example : 20 ≤ (npdHdrW 8 ++ [0,0,0,1, 0,12, 0,0, 1,2,3,4]).length ∧
    declaredWords (npdHdrW 8 ++ [0,0,0,1, 0,12, 0,0, 1,2,3,4]) * 4 = (npdHdrW 8 ++ [0,0,0,1, 0,12, 0,0, 1,2,3,4]).length ∧
    kindOf (declaredType (npdHdrW 8 ++ [0,0,0,1, 0,12, 0,0, 1,2,3,4])) = .base ∧
    (npdHdrW 8 ++ [0,0,0,1, 0,12, 0,0, 1,2,3,4]).drop (declaredHdrlen (npdHdrW 8 ++ [0,0,0,1, 0,12, 0,0, 1,2,3,4]) * 4) =
      [0,0,0,1, 0,12, 0,0, 1,2,3,4] := by decide
/-- two segments with padding: declared 11 (3 data bytes + 1 pad), then declared 8; an ACQ segment with its 4 typed bytes;
    an RS-232 segment announcing 2 sync bytes that are present (declared 12 = status word + 2 sync bytes) -/
example : FitsSegs .base [0,0,0,1, 0,11, 0,0, 7,8,9,255,  0,0,0,2, 0,8, 0,0] :=
  .seg _ (by decide) trivial (.seg _ (by decide) trivial .done)
example : FitsSegs .acq [0,0,0,1, 0,12, 0,0, 5,0x80,0,0] := .seg _ (by decide) (by decide) .done
example : FitsSegs .rs232 [0,0,0,1, 0,12, 0,0, 0,2,0xAA,0xBB] := .seg _ (by decide) (by decide) .done
/-- rejected walks, one per constructor of `SegsReject`: 4 stray bytes after a complete segment (`later` then `short`);
    an ACQ segment declaring 11 < 12 bytes; an ACQ segment declaring 12 with only 11 present; an RS-232 segment
    announcing 3 sync bytes with 2 present -/
example : SegsReject .base [0,0,0,1, 0,12, 0,0, 1,2,3,4,  0,0,0,1] :=
  .later _ (by decide) trivial (.short _ (by decide) (by decide))
example : SegsReject .acq [0,0,0,1, 0,11, 0,0, 5,0x80,0,0] := .typed _ (by decide) (by decide)
example : SegsReject .acq [0,0,0,1, 0,12, 0,0, 5,0x80,0] := .typed _ (by decide) (by decide)
example : SegsReject .rs232 [0,0,0,1, 0,12, 0,0, 0,3,0xAA,0xBB] := .typed _ (by decide) (by decide)
/-- … and the decoder's verdicts on whole packets agree (data type 0xFF: plain; 36 bytes, 9 words, 4 stray bytes) -/
example : (unpack fresh (npdHdrW 9 ++ [0,0,0,1, 0,12, 0,0, 1,2,3,4] ++ [0,0,0,1])).2 = .error .generic := by rfl
/-- the F1 observation in this vocabulary: a segment declaring 100 bytes with 8 present FITS (the walk clamps) -/
example : FitsSegs .base [0, 0, 0, 1, 0, 100, 0, 0] := .seg _ (by decide) trivial .done

/-- what an accepted NPD packet returns, segment by segment (the packet-level counterpart of `NPDSegment_unpack_payload`;
    `area` = the bytes after the declared header length): every segment object was decoded at some offset `o` of the
    segment area where a complete 8-byte header stands, and holds exactly the bytes `area[o+8 : o+d]` for the length `d`
    declared there — clamped at the end of the area, empty for `d < 8` — with `segmentlen` rewritten to 8 + that many
    bytes.  So nothing that is not in the buffer is ever returned; but a declared length pointing past the end IS
    accepted with a shorter payload (observation F1, notes/fti.md: the segment length is not among the checks). -/
theorem NPD_accepted_every_segment (t : State) (buf : Bytes) (h : (unpack t buf).2 = .ok ()) :
    ∀ g ∈ (unpack t buf).1.segments, ∃ o,
      o + 8 ≤ (buf.drop (declaredHdrlen buf * 4)).length ∧
      g.payload = slice ((buf.drop (declaredHdrlen buf * 4)).drop o) 8
        (declaredSegLen ((buf.drop (declaredHdrlen buf * 4)).drop o)) ∧
      g.segmentlen = max 8 (min (declaredSegLen ((buf.drop (declaredHdrlen buf * 4)).drop o))
        ((buf.drop (declaredHdrlen buf * 4)).length - o)) ∧
      g.payload.length + 8 = g.segmentlen := by
  obtain ⟨h20, hl⟩ := NPD_accepted_length t buf h
  obtain ⟨cc, fl, sq, ds, mc, ts, hh⟩ := NPD_hdr buf h20
  revert h
  simp only [unpack, hh, and_F, hl, ne_eq, not_true_eq_false, if_false, declaredHdrlen]
  cases hd : decOff (decSeg (kindOf (declaredType buf))) moreNe (buf.drop (beNat (buf.take 1) % 16 * 4))
      ((buf.drop (beNat (buf.take 1) % 16 * 4)).length + 1) 0 with
  | error e => cases e <;> simp
  | ok gs =>
    simp only
    intro _ g hg
    have hw := Acra.Lemmas.ReviewC09.decOff_ok_walk _ _ _ _ _ _ hd
    obtain ⟨o, n, _, _, hdec⟩ := Acra.Lemmas.ReviewC09.walk_mem _ _ _ _ _ hw g hg
    simp only [decSeg] at hdec
    split at hdec
    · rename_i g' r hg'
      simp only [Except.ok.injEq, Prod.mk.injEq] at hdec
      obtain ⟨rfl, _⟩ := hdec
      have hp := Seg_unpack_payload _ _ _ _ hg'
      obtain ⟨hsl, h8⟩ := Seg_unpack_segmentlen _ _ _ _ hg'
      simp only [List.length_drop] at h8
      refine ⟨o, by simp only [List.length_drop]; omega, ?_, ?_, ?_⟩
      · rw [hp, segPayload_eq]; rfl
      · rw [hsl]; simp only [segLen, List.length_drop]; rfl
      · rw [hp, hsl, segPayload_length _ (by simp only [List.length_drop]; omega)]
        have := segLen_ge (List.drop o (List.drop (beNat (List.take 1 buf) % 16 * 4) buf))
        omega
    · cases hdec

/-- witness: the accepted 32-byte packet returns one segment, payload = the 4 bytes after its header, `segmentlen` 12 -/
example : (unpack fresh (npdHdrW 8 ++ [0,0,0,1, 0,12, 0,0, 1,2,3,4])).2 = .ok () ∧
    (unpack fresh (npdHdrW 8 ++ [0,0,0,1, 0,12, 0,0, 1,2,3,4])).1.segments.map (fun g => (g.payload, g.segmentlen)) =
      [([1,2,3,4], 12)] := ⟨rfl, rfl⟩

end Acra.Props.C09
