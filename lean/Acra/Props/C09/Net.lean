import Acra.Model.Net
import Acra.Model.Pcap
namespace Acra.Props.C09
open Acra.Py Acra.Model.Net Acra.Gen.Net

/-- `IP.unpack` accepts a buffer exactly when it holds a whole 20-byte header (whatever the prior
    state of the object) -/
theorem IP_short_iff (t : IP) (buf : Bytes) : (IP.unpack t buf).2 = .ok () ↔ 20 ≤ buf.length := by
  simp only [IP.unpack, IP_HEADER_SIZE, structUnpackFrom, IP_HEADER_FORMAT, Fmt.size, codesSize, Code.size,
    unpackCodes, Nat.zero_add, List.drop_zero]
  by_cases h : buf.length < 20
  · simp [h]
  · have h' : 20 ≤ buf.length := by omega
    simp [h, h']

/-- the rejection is a ValueError and leaves the object untouched -/
theorem IP_short_rejects (t : IP) (buf : Bytes) (h : buf.length < 20) :
    IP.unpack t buf = (t, .error .value) := by
  simp [IP.unpack, IP_HEADER_SIZE, h]

/-- an accepted IP buffer's payload is exactly `buf[20:total length]`: never padded, and cut only at
    the length the header declares (this is what drops link-layer padding) -/
theorem IP_accepted_payload_exact (t : IP) (buf : Bytes) (h : (IP.unpack t buf).2 = .ok ()) :
    (IP.unpack t buf).1.payload = slice buf 20 (beNat (slice buf 2 4)) ∧
    (IP.unpack t buf).1.len = beNat (slice buf 2 4) := by
  have hh := (IP_short_iff t buf).1 h
  have h1 : ¬ buf.length < 20 := by omega
  have hs : slice buf 2 4 = List.take 2 (List.drop 1 (List.drop 1 buf)) := by
    simp [slice, List.take_drop]
  simp only [IP.unpack, IP_HEADER_SIZE, structUnpackFrom, IP_HEADER_FORMAT, Fmt.size, codesSize, Code.size,
    unpackCodes, Nat.zero_add, List.drop_zero, h1, hh, if_false, if_true, hs, decInt]
  simp

theorem UDP_short_iff (t : UDP) (buf : Bytes) : (UDP.unpack t buf).2 = .ok () ↔ 8 ≤ buf.length := by
  simp only [UDP.unpack, UDP_HEADER_SIZE, structUnpackFrom, UDP_HEADER_FORMAT, Fmt.size, codesSize, Code.size,
    unpackCodes, Nat.zero_add, List.drop_zero]
  by_cases h : buf.length < 8
  · simp [h]
  · have h' : 8 ≤ buf.length := by omega
    simp [h, h']

theorem UDP_short_rejects (t : UDP) (buf : Bytes) (h : buf.length < 8) :
    UDP.unpack t buf = (t, .error .value) := by
  simp [UDP.unpack, UDP_HEADER_SIZE, h]

/-- an accepted UDP buffer's payload is everything after the 8-byte header -/
theorem UDP_accepted_payload_exact (t : UDP) (buf : Bytes) (h : (UDP.unpack t buf).2 = .ok ()) :
    (UDP.unpack t buf).1.payload = buf.drop 8 := by
  have hh := (UDP_short_iff t buf).1 h
  have h1 : ¬ buf.length < 8 := by omega
  simp [UDP.unpack, UDP_HEADER_SIZE, structUnpackFrom, UDP_HEADER_FORMAT, Fmt.size, codesSize, Code.size,
    unpackCodes, h1, hh]

open Acra.Model.Pcap Acra.Gen.Pcap in
/-- `PcapRecord.unpack` accepts exactly the 16-byte buffers -/
theorem PcapRecord_hdr16_iff (t : Rec) (buf : Bytes) : (Rec.unpack t buf).2 = .ok () ↔ buf.length = 16 := by
  simp only [Rec.unpack, structUnpack, RECORD_HEADER_FORMAT, Fmt.size, codesSize, Code.size, unpackCodes]
  by_cases h : buf.length = 16
  · simp [h]
  · have h' : ¬ (16 = buf.length) := by omega
    simp [h, h']

open Acra.Model.Pcap Acra.Gen.Pcap in
theorem PcapRecord_hdr16_rejects (t : Rec) (buf : Bytes) (h : buf.length ≠ 16) :
    Rec.unpack t buf = (t, .error .value) := by
  have h' : ¬ (16 = buf.length) := by omega
  simp [Rec.unpack, RECORD_HEADER_FORMAT, Fmt.size, codesSize, Code.size, h']

end Acra.Props.C09
