import Acra.Model.Net
import Acra.Model.Pcap
import Acra.Lemmas.Net
namespace Acra.Props.C09
open Acra.Py Acra.Model.Net Acra.Gen.Net

/-- `IP.unpack` accepts a buffer exactly when it holds a whole 20-byte header (whatever the prior
    state of the object) -/
theorem IP_short_iff (t : IP) (buf : Bytes) : (IP.unpack t buf).2 = .ok () ↔ 20 ≤ buf.length := by
  simp only [IP.unpack, IP_HEADER_SIZE, structUnpackFrom, IP_HEADER_FORMAT, Fmt.size, codesSize, Code.size,
    unpackCodes, Nat.zero_add, List.drop_zero]
  by_cases h : buf.length < 20
  · simp [h]
  · have h' : 20 ≤ buf.length := by omega
    simp [h, h']

/-- the rejection is a ValueError and leaves the object untouched -/
theorem IP_short_rejects (t : IP) (buf : Bytes) (h : buf.length < 20) :
    IP.unpack t buf = (t, .error .value) := by
  simp [IP.unpack, IP_HEADER_SIZE, h]

/-- an accepted IP buffer's payload is exactly `buf[20:total length]`: never padded, and cut only at
    the length the header declares (this is what drops link-layer padding) -/
theorem IP_accepted_payload_exact (t : IP) (buf : Bytes) (h : (IP.unpack t buf).2 = .ok ()) :
    (IP.unpack t buf).1.payload = slice buf 20 (beNat (slice buf 2 4)) ∧
    (IP.unpack t buf).1.len = beNat (slice buf 2 4) := by
  have hh := (IP_short_iff t buf).1 h
  have h1 : ¬ buf.length < 20 := by omega
  have hs : slice buf 2 4 = List.take 2 (List.drop 1 (List.drop 1 buf)) := by
    simp [slice, List.take_drop]
  simp only [IP.unpack, IP_HEADER_SIZE, structUnpackFrom, IP_HEADER_FORMAT, Fmt.size, codesSize, Code.size,
    unpackCodes, Nat.zero_add, List.drop_zero, h1, hh, if_false, if_true, hs, decInt]
  simp

theorem UDP_short_iff (t : UDP) (buf : Bytes) : (UDP.unpack t buf).2 = .ok () ↔ 8 ≤ buf.length := by
  simp only [UDP.unpack, UDP_HEADER_SIZE, structUnpackFrom, UDP_HEADER_FORMAT, Fmt.size, codesSize, Code.size,
    unpackCodes, Nat.zero_add, List.drop_zero]
  by_cases h : buf.length < 8
  · simp [h]
  · have h' : 8 ≤ buf.length := by omega
    simp [h, h']

theorem UDP_short_rejects (t : UDP) (buf : Bytes) (h : buf.length < 8) :
    UDP.unpack t buf = (t, .error .value) := by
  simp [UDP.unpack, UDP_HEADER_SIZE, h]

/-- an accepted UDP buffer's payload is everything after the 8-byte header -/
theorem UDP_accepted_payload_exact (t : UDP) (buf : Bytes) (h : (UDP.unpack t buf).2 = .ok ()) :
    (UDP.unpack t buf).1.payload = buf.drop 8 := by
  have hh := (UDP_short_iff t buf).1 h
  have h1 : ¬ buf.length < 8 := by omega
  simp [UDP.unpack, UDP_HEADER_SIZE, structUnpackFrom, UDP_HEADER_FORMAT, Fmt.size, codesSize, Code.size,
    unpackCodes, h1, hh]

open Acra.Model.Pcap Acra.Gen.Pcap in
/-- `PcapRecord.unpack` accepts exactly the 16-byte buffers -/
theorem PcapRecord_hdr16_iff (t : Rec) (buf : Bytes) : (Rec.unpack t buf).2 = .ok () ↔ buf.length = 16 := by
  simp only [Rec.unpack, structUnpack, RECORD_HEADER_FORMAT, Fmt.size, codesSize, Code.size, unpackCodes]
  by_cases h : buf.length = 16
  · simp [h]
  · have h' : ¬ (16 = buf.length) := by omega
    simp [h, h']

open Acra.Model.Pcap Acra.Gen.Pcap in
theorem PcapRecord_hdr16_rejects (t : Rec) (buf : Bytes) (h : buf.length ≠ 16) :
    Rec.unpack t buf = (t, .error .value) := by
  have h' : ¬ (16 = buf.length) := by omega
  simp [Rec.unpack, RECORD_HEADER_FORMAT, Fmt.size, codesSize, Code.size, h']

open Acra.Lemmas.Net in
/-- `ARP.unpack` accepts a buffer exactly when it holds the whole 28-byte packet (shorter buffers fail with
    struct.error or OSError depending on where they end) -/
theorem ARP_accepts_iff (t : ARP) (buf : Bytes) : (ARP.unpack t buf).2 = .ok () ↔ 28 ≤ buf.length := by
  constructor
  · intro h
    by_cases hl : 28 ≤ buf.length
    · exact hl
    · exfalso
      revert h
      simp only [ARP.unpack]
      repeat' split
      all_goals first
        | (simp; done)
        | (rename_i hlast; intro _; simp only [inetNtoa, slice_length] at hlast; split at hlast <;> first | omega | (simp at hlast))
  · intro h; rw [ARP_unpack_eq _ _ h]

open Acra.Lemmas.Net in
/-- `Ethernet.unpack(fcs)` accepts a buffer exactly when the 14-byte header is there, a frame whose type field is
    0x8100 also holds the tag and the inner type, and — with `fcs` — the last four bytes are the little-endian CRC-32
    of everything before them -/
theorem Ethernet_accepts_iff (t : Eth) (buf : Bytes) (fcs : Bool) :
    (Eth.unpack t buf fcs).2 = .ok () ↔
      14 ≤ buf.length ∧ (beNat (slice buf 12 14) = 0x8100 → 18 ≤ buf.length) ∧
      (fcs = true → crc32 (buf.take (buf.length - 4)) = leNat (buf.drop (buf.length - 4))) := by
  by_cases hl : buf.length < 14
  · have hs := Eth_unpack_short t buf fcs hl
    rw [hs]; simp; omega
  · rw [Eth_unpack_eq _ _ _ (by omega)]
    simp only [ethFinish, fld, ETH_TYPE_VLAN]
    have h14 : 14 ≤ buf.length := by omega
    by_cases hv : beNat (slice buf 12 14) = 33024 <;> by_cases h18 : 18 ≤ buf.length <;>
      by_cases hc : crc32 (buf.take (buf.length - 4)) = leNat (buf.drop (buf.length - 4)) <;>
      cases fcs <;> simp [hv, h18, hc, h14]

/-! ### review witnesses (non-trivial headers; each iff has an accepted and a rejected buffer) -/

/-- IPv4 header: 0x45, total length `tl`, id 7, DF, TTL 64, UDP, 192.168.28.16 → 235.0.0.1 -/
private def ipHdr (tl : UInt8) : Bytes := [0x45, 0, 0, tl, 0,7, 0x40,0, 64, 17, 0,0, 192,168,28,16, 235,0,0,1]
example : (IP.unpack IP.fresh (ipHdr 24 ++ [1,2,3,4])).2 = .ok () ∧
    (IP.unpack IP.fresh (ipHdr 24 ++ [1,2,3,4])).1.payload = [1,2,3,4] := ⟨rfl, rfl⟩
/-- link-layer padding after the declared total length is dropped -/
example : (IP.unpack IP.fresh (ipHdr 24 ++ [1,2,3,4, 0,0])).1.payload = [1,2,3,4] := by rfl
example : (IP.unpack IP.fresh ((ipHdr 24).take 19)).2 = .error .value := by rfl
/-- observation (`slice` in `IP_accepted_payload_exact` clamps): total length 30 declared, 24 bytes present — accepted,
    the payload is the 4 bytes that are there.  `IP.unpack` performs no total-length check (the property lists only
    the short-buffer check for IP). -/
example : (IP.unpack IP.fresh (ipHdr 30 ++ [1,2,3,4])).2 = .ok () ∧
    (IP.unpack IP.fresh (ipHdr 30 ++ [1,2,3,4])).1.payload = [1,2,3,4] := ⟨rfl, rfl⟩
example : (UDP.unpack UDP.fresh [0x11,0x30, 0x15,0x7C, 0,10, 0,0, 1,2]).2 = .ok () ∧
    (UDP.unpack UDP.fresh [0x11,0x30, 0x15,0x7C, 0,10, 0,0, 1,2]).1.payload = [1,2] := ⟨rfl, rfl⟩
example : (UDP.unpack UDP.fresh [0x11,0x30, 0x15,0x7C, 0,10, 0]).2 = .error .value := by rfl
open Acra.Model.Pcap in
example : (Rec.unpack Rec.fresh [1,0,0,0, 2,0,0,0, 3,0,0,0, 3,0,0,0]).2 = .ok () := by rfl
open Acra.Model.Pcap in
example : (Rec.unpack Rec.fresh [1,0,0,0, 2,0,0,0, 3,0,0,0, 3,0,0,0, 9]).2 = .error .value ∧
    (Rec.unpack Rec.fresh [1,0,0,0, 2,0,0,0, 3,0,0,0, 3,0,0]).2 = .error .value := ⟨rfl, rfl⟩
private def arp28 : Bytes := [0,1, 8,0, 6, 4, 0,1, 0,12,77,0,10,108, 192,168,28,16, 0,0,0,0,0,0, 192,168,28,2]
example : (ARP.unpack ARP.fresh arp28).2 = .ok () := by rfl
example : (ARP.unpack ARP.fresh (arp28.take 27)).2 ≠ .ok () := by intro h; cases h
private def eth14 : Bytes := [1,0,0x5E,0,0,1, 0,12,77,0,10,108, 8,0]
example : (Eth.unpack Eth.fresh (eth14 ++ [1,2,3]) false).2 = .ok () := by rfl
example : (Eth.unpack Eth.fresh (eth14.take 13) false).2 ≠ .ok () := by intro h; cases h
/-- tagged: type 0x8100 needs the tag and inner type (18 bytes) -/
example : (Eth.unpack Eth.fresh ([1,0,0x5E,0,0,1, 0,12,77,0,10,108, 0x81,0] ++ [0,5, 8,0, 1]) false).2 = .ok () := by rfl
example : (Eth.unpack Eth.fresh ([1,0,0x5E,0,0,1, 0,12,77,0,10,108, 0x81,0] ++ [0,5, 8]) false).2 ≠ .ok () := by
  intro h; cases h
/-- FCS: the right CRC-32 accepted; one bit of the FCS or of the data changed → rejected -/
example : (Eth.unpack Eth.fresh (eth14 ++ [1,2,3] ++ [169, 12, 44, 194]) true).2.isOk = true := by decide +kernel
example : (Eth.unpack Eth.fresh (eth14 ++ [1,2,3] ++ [168, 12, 44, 194]) true).2.isOk = false := by decide +kernel
example : (Eth.unpack Eth.fresh (eth14 ++ [1,2,4] ++ [169, 12, 44, 194]) true).2.isOk = false := by decide +kernel

end Acra.Props.C09
