import Acra.Model.ParserAligned
import Acra.Lemmas.Bits
import Acra.Lemmas.ReviewC09Loop
namespace Acra.Props.C09
open Acra.Py Acra.Model.ParserAligned Acra.Gen.ParserAligned Acra.Lemmas.Bits Acra.Lemmas.ReviewC09

/-- the quad-byte count a block header declares: the low nine bits of its first (big-endian) word -/
def declaredQuads (buf : Bytes) : Nat := beNat (buf.take 2) % 512

theorem PAB_hdr (buf : Bytes) (h : 8 ≤ buf.length) :
    ∃ mc bi et, structUnpackFrom PAB_FORMAT buf 0 = .ok [beNat (buf.take 2), mc, bi, et] := by
  simp only [structUnpackFrom, PAB_FORMAT, Fmt.size, codesSize, Code.size, unpackCodes, decInt, List.drop_zero]
  have : 0 + (2 + (1 + (1 + (4 + 0)))) ≤ buf.length := by omega
  simp only [this, if_true]
  exact ⟨_, _, _, rfl⟩

/-- parser-aligned block check, exact over all buffers: a block is accepted exactly when its 8-byte
    header is present, `quadbytes ≥ 2`, and `4·quadbytes` bytes are there -/
theorem ParserAlignedBlock_ok_iff (t : Block) (buf : Bytes) :
    (∃ n, (Block.unpack t buf).2 = .ok n) ↔
      8 ≤ buf.length ∧ 2 ≤ declaredQuads buf ∧ 4 * declaredQuads buf ≤ buf.length := by
  by_cases h8 : 8 ≤ buf.length
  · obtain ⟨mc, bi, et, hh⟩ := PAB_hdr buf h8
    simp only [Block.unpack, hh, and_1FF, PAB_HEADERLEN, declaredQuads, h8, true_and]
    generalize beNat (buf.take 2) % 512 = q
    by_cases hq : q < 2
    · simp [hq]; omega
    · by_cases hc : buf.length < 8 + (q - 2) * 4
      · simp [hq, hc]; omega
      · simp [hq, hc]; omega
  · have : structUnpackFrom PAB_FORMAT buf 0 = .error .struct := by
      simp only [structUnpackFrom, PAB_FORMAT, Fmt.size, codesSize, Code.size]
      have : ¬ (0 + (2 + (1 + (1 + (4 + 0)))) ≤ buf.length) := by omega
      simp [this]
    simp [Block.unpack, this, h8]

/-- an accepted block is never truncated or padded: the length returned is `4·quadbytes` and the payload
    is exactly the `4·quadbytes − 8` bytes that follow the header -/
theorem ParserAlignedBlock_exact (t : Block) (buf : Bytes) (n : Nat) (h : (Block.unpack t buf).2 = .ok n) :
    n = 4 * declaredQuads buf ∧ (Block.unpack t buf).1.quadbytes = declaredQuads buf ∧
    (Block.unpack t buf).1.payload = slice buf 8 n ∧ (Block.unpack t buf).1.payload.length = n - 8 := by
  have hok := (ParserAlignedBlock_ok_iff t buf).1 ⟨n, h⟩
  obtain ⟨h8, h2, h4⟩ := hok
  obtain ⟨mc, bi, et, hh⟩ := PAB_hdr buf h8
  revert h
  simp only [Block.unpack, hh, and_1FF, PAB_HEADERLEN, declaredQuads] at h2 h4 ⊢
  generalize beNat (buf.take 2) % 512 = q at *
  have hq : ¬ q < 2 := by omega
  have hc : ¬ buf.length < 8 + (q - 2) * 4 := by omega
  simp only [hq, hc, if_false, Except.ok.injEq]
  intro h
  subst h
  refine ⟨by omega, trivial, rfl, ?_⟩
  simp only [slice_length]
  omega

/-- the two rejections are ValueErrors, a short header is a struct.error -/
theorem ParserAlignedBlock_reject_kinds (t : Block) (buf : Bytes) (h8 : 8 ≤ buf.length)
    (hbad : declaredQuads buf < 2 ∨ buf.length < 4 * declaredQuads buf) :
    (Block.unpack t buf).2 = .error .value := by
  obtain ⟨mc, bi, et, hh⟩ := PAB_hdr buf h8
  simp only [Block.unpack, hh, and_1FF, PAB_HEADERLEN, declaredQuads] at hbad ⊢
  generalize beNat (buf.take 2) % 512 = q at *
  by_cases hq : q < 2
  · simp [hq]
  · have hc : buf.length < 8 + (q - 2) * 4 := by omega
    simp [hq, hc]

/-- review witnesses for the block check: quadbytes 3 with its 12 bytes (and trailing bytes left alone) accepted,
    payload exactly 4 bytes; quadbytes 3 with 11 bytes, quadbytes 1, a 7-byte header: rejected -/
example : (Block.unpack Block.fresh [0,3, 1, 2, 0,0,0,9, 1,2,3,4, 7,7]).2 = .ok 12 ∧
    (Block.unpack Block.fresh [0,3, 1, 2, 0,0,0,9, 1,2,3,4, 7,7]).1.payload = [1,2,3,4] := ⟨rfl, rfl⟩
example : (Block.unpack Block.fresh [0,3, 1, 2, 0,0,0,9, 1,2,3]).2 = .error .value := by rfl
example : (Block.unpack Block.fresh [0,1, 1, 2, 0,0,0,9, 1,2,3,4]).2 = .error .value := by rfl
example : (Block.unpack Block.fresh [0,3, 1, 2, 0,0,0]).2 = .error .struct := by rfl
/-- joint witness for `ParserAlignedBlock_reject_kinds`: 8 ≤ length and the declared 16 bytes exceed the 12 present -/
example : 8 ≤ ([0,4, 1, 2, 0,0,0,9, 1,2,3,4] : Bytes).length ∧
    (declaredQuads [0,4, 1, 2, 0,0,0,9, 1,2,3,4] < 2 ∨
      ([0,4, 1, 2, 0,0,0,9, 1,2,3,4] : Bytes).length < 4 * declaredQuads [0,4, 1, 2, 0,0,0,9, 1,2,3,4]) := by decide

/-- in a packet the check is applied to every block in turn: a packet is accepted only if the loop's
    first block is, and then continues after exactly `4·quadbytes` bytes -/
theorem ParserAlignedPacket_first_block (t : Packet) (buf : Bytes) (hne : buf ≠ [])
    (h : (Packet.unpack t buf).2 = .ok ()) :
    8 ≤ buf.length ∧ 2 ≤ declaredQuads buf ∧ 4 * declaredQuads buf ≤ buf.length := by
  have hl : 0 < buf.length := by cases buf <;> simp_all
  simp only [Packet.unpack] at h
  cases hd : decOff decBlock moreLt buf (buf.length + 1) 0 with
  | error e => simp [hd] at h
  | ok bs =>
    simp only [decOff, moreLt, hl, decide_true, if_true, List.drop_zero, decBlock] at hd
    cases hb : Block.unpack Block.fresh buf with
    | mk blk r =>
      cases r with
      | error e => simp [hb] at hd
      | ok n => exact (ParserAlignedBlock_ok_iff Block.fresh buf).1 ⟨n, by rw [hb]⟩

/-- joint witness for `ParserAlignedPacket_first_block` (non-empty, accepted) -/
example : ([0,3, 1, 2, 0,0,0,9, 1,2,3,4] ++ [0,2, 5, 6, 0,0,0,10] : Bytes) ≠ [] ∧
    (Packet.unpack Packet.fresh ([0,3, 1, 2, 0,0,0,9, 1,2,3,4] ++ [0,2, 5, 6, 0,0,0,10])).2 = .ok () := ⟨by decide, rfl⟩

/-! ### review additions: the block check at EVERY position of a packet -/

/-- a buffer that is a chain of parser-aligned blocks, read declaratively: at each position the 8-byte header is
    there, `quadbytes ≥ 2`, the `4·quadbytes` bytes are there, and the next block starts right after them -/
inductive FitsBlocks : Bytes → Prop
  | done : FitsBlocks []
  | block (rem : Bytes) : 8 ≤ rem.length → 2 ≤ declaredQuads rem → 4 * declaredQuads rem ≤ rem.length →
      FitsBlocks (rem.drop (4 * declaredQuads rem)) → FitsBlocks rem

theorem decBlock_ok_iff (rem : Bytes) (b : Block) (n : Nat) :
    decBlock rem = .ok (b, n) ↔ Block.unpack Block.fresh rem = (b, .ok n) := by
  simp only [decBlock]
  cases h : Block.unpack Block.fresh rem with
  | mk b' r => cases r <;> simp

theorem decBlock_pos (rem : Bytes) (b : Block) (n : Nat) (h : decBlock rem = .ok (b, n)) : 0 < n ∧ 0 < rem.length := by
  have hu := (decBlock_ok_iff rem b n).1 h
  have h1 := (ParserAlignedBlock_ok_iff Block.fresh rem).1 ⟨n, by rw [hu]⟩
  have h2 := (ParserAlignedBlock_exact Block.fresh rem n (by rw [hu])).1
  omega

theorem ParserAligned_walk_iff_fits (buf : Bytes) (off : Nat) :
    (∃ bs, Walk decBlock moreLt buf off bs) ↔ FitsBlocks (buf.drop off) := by
  constructor
  · rintro ⟨bs, hw⟩
    induction bs generalizing off with
    | nil =>
      simp only [Walk, moreLt, decide_eq_false_iff_not] at hw
      rw [List.drop_eq_nil_of_le (by omega)]; exact .done
    | cons b bs ih =>
      obtain ⟨_, n, hd, hw'⟩ := hw
      have hu := (decBlock_ok_iff _ b n).1 hd
      have h1 := (ParserAlignedBlock_ok_iff Block.fresh _).1 ⟨n, by rw [hu]⟩
      have h2 := (ParserAlignedBlock_exact Block.fresh _ n (by rw [hu])).1
      refine .block _ h1.1 h1.2.1 h1.2.2 ?_
      rw [← h2, List.drop_drop]
      exact ih _ hw'
  · intro h
    generalize hr : buf.drop off = rem at h
    induction h generalizing off with
    | done =>
      refine ⟨[], ?_⟩
      have : buf.length ≤ off := by
        have := congrArg List.length hr; simp at this; omega
      simp only [Walk, moreLt, decide_eq_false_iff_not]; omega
    | block rem h8 h2 h4 _ ih =>
      obtain ⟨n, hn⟩ := (ParserAlignedBlock_ok_iff Block.fresh rem).2 ⟨h8, h2, h4⟩
      have hn' := (ParserAlignedBlock_exact Block.fresh rem n hn).1
      subst hr
      obtain ⟨bs, hbs⟩ := ih (off + n) (by rw [List.drop_drop, hn'])
      refine ⟨(Block.unpack Block.fresh (buf.drop off)).1 :: bs, ?_, n, ?_, hbs⟩
      · simp only [List.length_drop] at h8
        simp only [moreLt, decide_eq_true_eq]; omega
      · rw [decBlock_ok_iff]; rw [← hn]

/-- parser-aligned PACKET, whole buffer and every prior state: accepted exactly when the buffer is a chain of blocks
    each passing the block check AT ITS POSITION -/
theorem ParserAlignedPacket_accepts_iff (t : Packet) (buf : Bytes) :
    (Packet.unpack t buf).2 = .ok () ↔ FitsBlocks buf := by
  have key : (∃ bs, Walk decBlock moreLt buf 0 bs) ↔ FitsBlocks buf := by
    simpa using ParserAligned_walk_iff_fits buf 0
  rw [← key]
  simp only [Packet.unpack]
  cases hd : decOff decBlock moreLt buf (buf.length + 1) 0 with
  | ok bs =>
    simp only [true_iff]
    exact ⟨bs, (decOff_ok_iff_walk _ _ _ decBlock_pos bs).1 hd⟩
  | error e =>
    simp only [reduceCtorEq, false_iff]
    rintro ⟨bs, hw⟩
    rw [(decOff_ok_iff_walk _ _ _ decBlock_pos bs).2 hw] at hd
    cases hd

/-- … and every block it returns, at whatever position, lies wholly inside the buffer and carries exactly the
    `4·quadbytes − 8` payload bytes its header declares -/
theorem ParserAlignedPacket_every_block_exact (t : Packet) (buf : Bytes) (h : (Packet.unpack t buf).2 = .ok ()) :
    (Packet.unpack t buf).1.numberofblocks = (Packet.unpack t buf).1.parserblocks.length ∧
    ∀ b ∈ (Packet.unpack t buf).1.parserblocks, ∃ o,
      o + 4 * b.quadbytes ≤ buf.length ∧ 2 ≤ b.quadbytes ∧ b.quadbytes = declaredQuads (buf.drop o) ∧
      b.payload = slice (buf.drop o) 8 (4 * b.quadbytes) ∧ b.payload.length = 4 * b.quadbytes - 8 := by
  revert h
  simp only [Packet.unpack]
  cases hd : decOff decBlock moreLt buf (buf.length + 1) 0 with
  | error e => simp
  | ok bs =>
    intro _
    refine ⟨rfl, fun b hb => ?_⟩
    obtain ⟨o, n, _, _, hdec⟩ := walk_mem _ _ _ _ _ (decOff_ok_walk _ _ _ _ _ _ hd) b hb
    have hu := (decBlock_ok_iff _ b n).1 hdec
    have h1 := (ParserAlignedBlock_ok_iff Block.fresh _).1 ⟨n, by rw [hu]⟩
    have h2 := ParserAlignedBlock_exact Block.fresh _ n (by rw [hu])
    rw [hu] at h2
    obtain ⟨e1, e2, e3, e4⟩ := h2
    simp only [List.length_drop] at h1
    refine ⟨o, by rw [e2]; omega, by rw [e2]; exact h1.2.1, e2, by rw [e3, e1, e2], by rw [e4, e1, e2]⟩

/-- witnesses, whole packet: a 12-byte block followed by an 8-byte block accepted, both returned with their exact
    payloads; the SECOND block declaring 4 quadbytes (16 bytes, 8 remain) rejected; the second declaring 1 rejected;
    3 stray bytes after the last block rejected (struct.error); the first declaring 6 (24 > 20) rejected -/
example : (Packet.unpack Packet.fresh ([0,3, 1, 2, 0,0,0,9, 1,2,3,4] ++ [0,2, 5, 6, 0,0,0,10])).1.parserblocks.map (·.payload) =
    [[1,2,3,4], []] := by rfl
example : (Packet.unpack Packet.fresh ([0,3, 1, 2, 0,0,0,9, 1,2,3,4] ++ [0,4, 5, 6, 0,0,0,10])).2 = .error .value := by rfl
example : (Packet.unpack Packet.fresh ([0,3, 1, 2, 0,0,0,9, 1,2,3,4] ++ [0,1, 5, 6, 0,0,0,10])).2 = .error .value := by rfl
example : (Packet.unpack Packet.fresh ([0,3, 1, 2, 0,0,0,9, 1,2,3,4] ++ [0,2, 5])).2 = .error .struct := by rfl
example : (Packet.unpack Packet.fresh ([0,6, 1, 2, 0,0,0,9, 1,2,3,4] ++ [0,2, 5, 6, 0,0,0,10])).2 = .error .value := by rfl

end Acra.Props.C09
