import Acra.Model.ParserAligned
import Acra.Lemmas.Bits
namespace Acra.Props.C09
open Acra.Py Acra.Model.ParserAligned Acra.Gen.ParserAligned Acra.Lemmas.Bits

/-- the quad-byte count a block header declares: the low nine bits of its first (big-endian) word -/
def declaredQuads (buf : Bytes) : Nat := beNat (buf.take 2) % 512

theorem PAB_hdr (buf : Bytes) (h : 8 ≤ buf.length) :
    ∃ mc bi et, structUnpackFrom PAB_FORMAT buf 0 = .ok [beNat (buf.take 2), mc, bi, et] := by
  simp only [structUnpackFrom, PAB_FORMAT, Fmt.size, codesSize, Code.size, unpackCodes, decInt, List.drop_zero]
  have : 0 + (2 + (1 + (1 + (4 + 0)))) ≤ buf.length := by omega
  simp only [this, if_true]
  exact ⟨_, _, _, rfl⟩

/-- parser-aligned block check, exact over all buffers: a block is accepted exactly when its 8-byte
    header is present, `quadbytes ≥ 2`, and `4·quadbytes` bytes are there -/
theorem ParserAlignedBlock_ok_iff (t : Block) (buf : Bytes) :
    (∃ n, (Block.unpack t buf).2 = .ok n) ↔
      8 ≤ buf.length ∧ 2 ≤ declaredQuads buf ∧ 4 * declaredQuads buf ≤ buf.length := by
  by_cases h8 : 8 ≤ buf.length
  · obtain ⟨mc, bi, et, hh⟩ := PAB_hdr buf h8
    simp only [Block.unpack, hh, and_1FF, PAB_HEADERLEN, declaredQuads, h8, true_and]
    generalize beNat (buf.take 2) % 512 = q
    by_cases hq : q < 2
    · simp [hq]; omega
    · by_cases hc : buf.length < 8 + (q - 2) * 4
      · simp [hq, hc]; omega
      · simp [hq, hc]; omega
  · have : structUnpackFrom PAB_FORMAT buf 0 = .error .struct := by
      simp only [structUnpackFrom, PAB_FORMAT, Fmt.size, codesSize, Code.size]
      have : ¬ (0 + (2 + (1 + (1 + (4 + 0)))) ≤ buf.length) := by omega
      simp [this]
    simp [Block.unpack, this, h8]

/-- an accepted block is never truncated or padded: the length returned is `4·quadbytes` and the payload
    is exactly the `4·quadbytes − 8` bytes that follow the header -/
theorem ParserAlignedBlock_exact (t : Block) (buf : Bytes) (n : Nat) (h : (Block.unpack t buf).2 = .ok n) :
    n = 4 * declaredQuads buf ∧ (Block.unpack t buf).1.quadbytes = declaredQuads buf ∧
    (Block.unpack t buf).1.payload = slice buf 8 n ∧ (Block.unpack t buf).1.payload.length = n - 8 := by
  have hok := (ParserAlignedBlock_ok_iff t buf).1 ⟨n, h⟩
  obtain ⟨h8, h2, h4⟩ := hok
  obtain ⟨mc, bi, et, hh⟩ := PAB_hdr buf h8
  revert h
  simp only [Block.unpack, hh, and_1FF, PAB_HEADERLEN, declaredQuads] at h2 h4 ⊢
  generalize beNat (buf.take 2) % 512 = q at *
  have hq : ¬ q < 2 := by omega
  have hc : ¬ buf.length < 8 + (q - 2) * 4 := by omega
  simp only [hq, hc, if_false, Except.ok.injEq]
  intro h
  subst h
  refine ⟨by omega, trivial, rfl, ?_⟩
  simp only [slice_length]
  omega

/-- the two rejections are ValueErrors, a short header is a struct.error -/
theorem ParserAlignedBlock_reject_kinds (t : Block) (buf : Bytes) (h8 : 8 ≤ buf.length)
    (hbad : declaredQuads buf < 2 ∨ buf.length < 4 * declaredQuads buf) :
    (Block.unpack t buf).2 = .error .value := by
  obtain ⟨mc, bi, et, hh⟩ := PAB_hdr buf h8
  simp only [Block.unpack, hh, and_1FF, PAB_HEADERLEN, declaredQuads] at hbad ⊢
  generalize beNat (buf.take 2) % 512 = q at *
  by_cases hq : q < 2
  · simp [hq]
  · have hc : buf.length < 8 + (q - 2) * 4 := by omega
    simp [hq, hc]

/-- in a packet the check is applied to every block in turn: a packet is accepted only if the loop's
    first block is, and then continues after exactly `4·quadbytes` bytes -/
theorem ParserAlignedPacket_first_block (t : Packet) (buf : Bytes) (hne : buf ≠ [])
    (h : (Packet.unpack t buf).2 = .ok ()) :
    8 ≤ buf.length ∧ 2 ≤ declaredQuads buf ∧ 4 * declaredQuads buf ≤ buf.length := by
  have hl : 0 < buf.length := by cases buf <;> simp_all
  simp only [Packet.unpack] at h
  cases hd : decOff decBlock moreLt buf (buf.length + 1) 0 with
  | error e => simp [hd] at h
  | ok bs =>
    simp only [decOff, moreLt, hl, decide_true, if_true, List.drop_zero, decBlock] at hd
    cases hb : Block.unpack Block.fresh buf with
    | mk blk r =>
      cases r with
      | error e => simp [hb] at hd
      | ok n => exact (ParserAlignedBlock_ok_iff Block.fresh buf).1 ⟨n, by rw [hb]⟩

end Acra.Props.C09
