/-
  C09 for the ch10 family (not among the checks the property lists by name, added for completeness): the
  accept / reject boundaries of `Chapter11.unpack` and `Chapter10UDP.unpack` as *iff* statements over ALL
  buffers and ALL prior states, and "accepted ⇒ nothing truncated or padded" (the payload is exactly the bytes
  after the header(s); K5: for Chapter 11 that includes the filler, `datalen` is not consulted).
-/
import Acra.Lemmas.Ch11
import Acra.Lemmas.Ch10UDP
namespace Acra.Props.C09
open Acra.Py Acra

/-- Chapter 11: accepted ⇔ at least 24 bytes, and either bit 7 of the flag byte (byte 14) is clear, or the
    time-format bits are 01 and the 12-byte secondary header is present too -/
theorem ch11_accepts_iff (t : Model.Ch11.State) (buf : Bytes) :
    (Model.Ch11.unpack t buf).2 = .ok () ↔
      24 ≤ buf.length ∧ (Lemmas.Ch11.flagByte buf < 128 ∨
        (Lemmas.Ch11.flagByte buf / 4 % 4 = 1 ∧ 36 ≤ buf.length)) := Lemmas.Ch11.ch11_accepts_iff t buf

/-- … and then the payload is everything after the header(s) and the filler attribute is empty -/
theorem ch11_accepted_payload_exact (t : Model.Ch11.State) (buf : Bytes)
    (h : (Model.Ch11.unpack t buf).2 = .ok ()) :
    (Model.Ch11.unpack t buf).1.payload = buf.drop (if Lemmas.Ch11.flagByte buf < 128 then 24 else 36) ∧
    (Model.Ch11.unpack t buf).1.filler = [] := Lemmas.Ch11.ch11_accepted_payload_exact t buf h

example : (Model.Ch11.unpack Model.Ch11.fresh (List.replicate 23 0)).2 = .error .struct := by decide
example : (Model.Ch11.unpack Model.Ch11.fresh (List.replicate 24 0)).2 = .ok () := by decide

/-- Chapter 10 UDP: accepted ⇔ at least 4 bytes and, by the low nibble of byte 0:
    1 → the high nibble (type) is not 1 (segmented format 1 is not supported);
    3 → source-id length ≤ 4 and at least 8 bytes;  anything else (format 2) → at least 12 bytes -/
theorem udp_accepts_iff (t : Model.Ch10UDP.State) (buf : Bytes) :
    (Model.Ch10UDP.unpack t buf).2 = .ok () ↔
      4 ≤ buf.length ∧
      ((Lemmas.Ch10UDP.byte0 buf % 16 = 1 ∧ Lemmas.Ch10UDP.byte0 buf / 16 ≠ 1) ∨
       (Lemmas.Ch10UDP.byte0 buf % 16 = 3 ∧ Lemmas.Ch10UDP.byte0 buf / 16 ≤ 4 ∧ 8 ≤ buf.length) ∨
       (Lemmas.Ch10UDP.byte0 buf % 16 ≠ 1 ∧ Lemmas.Ch10UDP.byte0 buf % 16 ≠ 3 ∧ 12 ≤ buf.length)) :=
  Lemmas.Ch10UDP.udp_accepts_iff t buf

end Acra.Props.C09
