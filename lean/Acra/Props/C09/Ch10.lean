/-
  C09 for the ch10 family (not among the checks the property lists by name, added for completeness): the
  accept / reject boundaries of `Chapter11.unpack` and `Chapter10UDP.unpack` as *iff* statements over ALL
  buffers and ALL prior states, and "accepted ⇒ nothing truncated or padded" (the payload is exactly the bytes
  after the header(s); K5: for Chapter 11 that includes the filler, `datalen` is not consulted).
-/
import Acra.Lemmas.Ch11
import Acra.Lemmas.Ch10UDP
namespace Acra.Props.C09
open Acra.Py Acra

/-- Chapter 11: accepted ⇔ at least 24 bytes, and either bit 7 of the flag byte (byte 14) is clear, or the
    time-format bits are 01 and the 12-byte secondary header is present too -/
theorem ch11_accepts_iff (t : Model.Ch11.State) (buf : Bytes) :
    (Model.Ch11.unpack t buf).2 = .ok () ↔
      24 ≤ buf.length ∧ (Lemmas.Ch11.flagByte buf < 128 ∨
        (Lemmas.Ch11.flagByte buf / 4 % 4 = 1 ∧ 36 ≤ buf.length)) := Lemmas.Ch11.ch11_accepts_iff t buf

/-- … and then the payload is everything after the header(s) and the filler attribute is empty -/
theorem ch11_accepted_payload_exact (t : Model.Ch11.State) (buf : Bytes)
    (h : (Model.Ch11.unpack t buf).2 = .ok ()) :
    (Model.Ch11.unpack t buf).1.payload = buf.drop (if Lemmas.Ch11.flagByte buf < 128 then 24 else 36) ∧
    (Model.Ch11.unpack t buf).1.filler = [] := Lemmas.Ch11.ch11_accepted_payload_exact t buf h

example : (Model.Ch11.unpack Model.Ch11.fresh (List.replicate 23 0)).2 = .error .struct := by decide
example : (Model.Ch11.unpack Model.Ch11.fresh (List.replicate 24 0)).2 = .ok () := by decide

/-- review witnesses with a non-zero header: secondary-header flag set (byte 14 = 0x84: bit 7, time format 01) and the 12
    secondary bytes present → accepted, payload = the 4 bytes after byte 36; only 11 of them → rejected; bit 7 with time
    format 00 (0x80) → rejected -/
example : (Model.Ch11.unpack Model.Ch11.fresh ([0x25,0xEB, 1,0, 40,0,0,0, 4,0,0,0, 6, 7, 0x84, 0x19, 1,2,3,4,5,6, 0,0] ++ List.replicate 12 5 ++ [1,2,3,4])).2 = .ok () := by decide
example : (Model.Ch11.unpack Model.Ch11.fresh ([0x25,0xEB, 1,0, 40,0,0,0, 4,0,0,0, 6, 7, 0x84, 0x19, 1,2,3,4,5,6, 0,0] ++ List.replicate 12 5 ++ [1,2,3,4])).1.payload = [1,2,3,4] := by decide
example : (Model.Ch11.unpack Model.Ch11.fresh ([0x25,0xEB, 1,0, 40,0,0,0, 4,0,0,0, 6, 7, 0x84, 0x19, 1,2,3,4,5,6, 0,0] ++ List.replicate 11 5)).2 ≠ .ok () := by decide
example : (Model.Ch11.unpack Model.Ch11.fresh ([0x25,0xEB, 1,0, 40,0,0,0, 4,0,0,0, 6, 7, 0x80, 0x19, 1,2,3,4,5,6, 0,0] ++ List.replicate 12 5)).2 ≠ .ok () := by decide

/-- Chapter 10 UDP: accepted ⇔ at least 4 bytes and, by the low nibble of byte 0:
    1 → the high nibble (type) is not 1 (segmented format 1 is not supported);
    3 → source-id length ≤ 4 and at least 8 bytes;  anything else (format 2) → at least 12 bytes -/
theorem udp_accepts_iff (t : Model.Ch10UDP.State) (buf : Bytes) :
    (Model.Ch10UDP.unpack t buf).2 = .ok () ↔
      4 ≤ buf.length ∧
      ((Lemmas.Ch10UDP.byte0 buf % 16 = 1 ∧ Lemmas.Ch10UDP.byte0 buf / 16 ≠ 1) ∨
       (Lemmas.Ch10UDP.byte0 buf % 16 = 3 ∧ Lemmas.Ch10UDP.byte0 buf / 16 ≤ 4 ∧ 8 ≤ buf.length) ∨
       (Lemmas.Ch10UDP.byte0 buf % 16 ≠ 1 ∧ Lemmas.Ch10UDP.byte0 buf % 16 ≠ 3 ∧ 12 ≤ buf.length)) :=
  Lemmas.Ch10UDP.udp_accepts_iff t buf

/-- review witnesses: format 1 type 0 on 6 bytes accepted, type 1 rejected; format 3 with source-id length 2 on 9 bytes
    accepted, on 7 bytes rejected, with source-id length 5 rejected; format 2 on 13 bytes accepted, on 11 rejected;
    3 bytes rejected -/
example : (Model.Ch10UDP.unpack Model.Ch10UDP.fresh [0x01, 7, 0, 0, 9, 9]).2 = .ok () := by decide
example : (Model.Ch10UDP.unpack Model.Ch10UDP.fresh [0x11, 7, 0, 0, 9, 9]).2 ≠ .ok () := by decide
example : (Model.Ch10UDP.unpack Model.Ch10UDP.fresh [0x23, 7, 0, 0, 1, 2, 3, 4, 9]).2 = .ok () := by decide
example : (Model.Ch10UDP.unpack Model.Ch10UDP.fresh [0x23, 7, 0, 0, 1, 2, 3]).2 ≠ .ok () := by decide
example : (Model.Ch10UDP.unpack Model.Ch10UDP.fresh [0x53, 7, 0, 0, 1, 2, 3, 4, 9]).2 ≠ .ok () := by decide
example : (Model.Ch10UDP.unpack Model.Ch10UDP.fresh [0x02, 7, 0, 0, 1, 2, 3, 4, 5, 6, 7, 8, 9]).2 = .ok () := by decide
example : (Model.Ch10UDP.unpack Model.Ch10UDP.fresh [0x02, 7, 0, 0, 1, 2, 3, 4, 5, 6, 7]).2 ≠ .ok () := by decide
example : (Model.Ch10UDP.unpack Model.Ch10UDP.fresh [0x01, 7, 0]).2 ≠ .ok () := by decide

end Acra.Props.C09
