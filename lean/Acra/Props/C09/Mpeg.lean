import Acra.Model.PES
import Acra.Lemmas.CRCMpeg
namespace Acra.Props.C09
open Acra.Py Acra.Model.MPEGTS Acra.Model.PES Acra.Gen.PES

theorem u8_eq (a : UInt8) (n : Nat) (h : n < 256) : a.toNat = n ↔ a = UInt8.ofNat n := by
  constructor
  · intro ha
    apply UInt8.toNat_inj.mp
    rw [ha, UInt8.toNat_ofNat', Nat.mod_eq_of_lt h]
  · intro ha; rw [ha, UInt8.toNat_ofNat', Nat.mod_eq_of_lt h]

/-- `MPEGPacket.unpack` accepts a buffer of at least four bytes exactly when its first byte is the
    sync byte 0x47 and — with adaptation-field control 3 (bits 5..4 of byte 3) — a fifth byte (the
    adaptation-field length) is present.  Whatever the object held before. -/
theorem MPEG_sync_iff (t : Pkt) (b0 b1 b2 b3 : UInt8) (rest : Bytes) :
    (Pkt.unpack t (b0 :: b1 :: b2 :: b3 :: rest)).2 = .ok () ↔
      b0 = 0x47 ∧ (b3.toNat / 16 % 4 = 3 → rest ≠ []) := by
  have hb0 := b0.toNat_lt
  have hb3 := b3.toNat_lt
  simp only [Pkt.unpack, structUnpackFrom, Acra.Gen.MPEGTS.Pkt_unpack_fmt0, Acra.Gen.MPEGTS.Pkt_unpack_fmt1, Fmt.size,
    codesSize, Code.size, unpackCodes, decInt, beNat, List.length_cons, Acra.Gen.MPEGTS.ADAPTION_PAYLOAD_AND_ADAPTION,
    Acra.Gen.MPEGTS.ADAPTION_ADAPTION_ONLY, Acra.Gen.MPEGTS.ADAPTION_PAYLOAD_ONLY]
  simp
  have l1 : ∀ b : UInt8, leNat [b] = b.toNat := fun b => by simp [leNat]
  simp only [l1]
  have e0 : b0.toNat = 71 ↔ b0 = 71 := u8_eq b0 71 (by omega)
  rw [← e0]
  by_cases h0 : b0.toNat = 71
  · simp only [h0, if_true, true_and]
    by_cases h3 : b3.toNat / 16 % 4 = 3
    · cases rest with
      | nil => simp [h3]
      | cons r rs =>
        simp only [h3, if_true, List.length_cons]
        simp
        split <;> simp
    · simp only [h3, if_false]
      split
      · simp
      · split <;> simp
  · simp [h0]

/-- fewer than four bytes: `struct.error`, never a partial success -/
theorem MPEG_short_rejected (t : Pkt) (buf : Bytes) (h : buf.length < 4) :
    (Pkt.unpack t buf).2 = .error .struct := by
  have : ¬ (Acra.Gen.MPEGTS.Pkt_unpack_fmt0.size ≤ buf.length) := by
    simp [Acra.Gen.MPEGTS.Pkt_unpack_fmt0, Fmt.size, codesSize, Code.size]; omega
  simp [Pkt.unpack, structUnpackFrom, this]

/-- a wrong sync byte is a bare `Exception` -/
theorem MPEG_bad_sync_rejected (t : Pkt) (b0 b1 b2 b3 : UInt8) (rest : Bytes) (h : b0 ≠ 0x47) :
    (Pkt.unpack t (b0 :: b1 :: b2 :: b3 :: rest)).2 = .error .generic := by
  have hb0 := b0.toNat_lt
  have e0 : b0.toNat = 71 ↔ b0 = 71 := u8_eq b0 71 (by omega)
  have h0 : ¬ b0.toNat = 71 := fun c => h (e0.mp c)
  simp only [Pkt.unpack, structUnpackFrom, Acra.Gen.MPEGTS.Pkt_unpack_fmt0, Fmt.size, codesSize, Code.size, unpackCodes,
    decInt, beNat, List.length_cons]
  simp [leNat, h0]

/-- an accepted packet is never truncated or padded: the payload is exactly the bytes after the
    header (AFC 1), after the adaptation field whose length byte 4 declares (AFC 3), or empty -/
theorem MPEG_payload_exact (t : Pkt) (b0 b1 b2 b3 : UInt8) (rest : Bytes)
    (h : (Pkt.unpack t (b0 :: b1 :: b2 :: b3 :: rest)).2 = .ok ()) :
    let p := (Pkt.unpack t (b0 :: b1 :: b2 :: b3 :: rest)).1
    (p.adaption_ctrl = 1 → p.payload = rest) ∧
    (p.adaption_ctrl = 3 → ∃ l tl, rest = l :: tl ∧ p.payload = tl.drop l.toNat) ∧
    (p.adaption_ctrl ≠ 1 → p.adaption_ctrl ≠ 3 → p.payload = []) := by
  have hb0 := b0.toNat_lt
  have hb3 := b3.toNat_lt
  have hok := (MPEG_sync_iff t b0 b1 b2 b3 rest).mp h
  have e0 : b0.toNat = 71 := (u8_eq b0 71 (by omega)).mpr hok.1
  have l1 : ∀ b : UInt8, leNat [b] = b.toNat := fun b => by simp [leNat]
  simp only [Pkt.unpack, structUnpackFrom, Acra.Gen.MPEGTS.Pkt_unpack_fmt0, Acra.Gen.MPEGTS.Pkt_unpack_fmt1, Fmt.size,
    codesSize, Code.size, unpackCodes, decInt, beNat, List.length_cons, Acra.Gen.MPEGTS.ADAPTION_PAYLOAD_AND_ADAPTION,
    Acra.Gen.MPEGTS.ADAPTION_ADAPTION_ONLY, Acra.Gen.MPEGTS.ADAPTION_PAYLOAD_ONLY]
  simp
  simp only [l1, e0, if_true]
  by_cases h3 : b3.toNat / 16 % 4 = 3
  · cases rest with
    | nil => exact absurd rfl (hok.2 h3)
    | cons r rs =>
      simp only [h3, if_true, List.length_cons]
      simp
      split
      · refine ⟨by simp, fun _ => ⟨r, rs, ⟨rfl, rfl⟩, ?_⟩, by simp⟩
        simp only [l1]
        rw [show 5 + r.toNat = r.toNat + 5 from Nat.add_comm _ _]
        simp [List.drop_succ_cons]
      · rename_i hz
        have hr : r.toNat = 0 := by simp only [l1] at hz; omega
        refine ⟨by simp, fun _ => ⟨r, rs, ⟨rfl, rfl⟩, ?_⟩, by simp⟩
        simp [hr]
  · simp only [h3, if_false]
    split
    · rename_i h2; simp [h2]
    · split
      · rename_i h2 h1; simp [h1]
      · rename_i h2 h1; simp [h3, h1]

theorem exists6 (l : List α) (h : 6 ≤ l.length) : ∃ a b c d e f r, l = a :: b :: c :: d :: e :: f :: r := by
  match l, h with
  | a :: b :: c :: d :: e :: f :: r, _ => exact ⟨a, b, c, d, e, f, r, rfl⟩

/-- `PES.unpack` accepts (given that the packet decoder accepted the buffer and produced payload `pl`)
    exactly when the payload holds the 6-byte PES prefix and starts with the start-code prefix 00 00 01
    (since the `fix:` commit da005f6 fewer than 3 bytes after the prefix are decoded as header-less data) -/
theorem PES_prefix_iff (t : PES) (buf : Bytes) (p : Pkt) (hp : Pkt.unpack t.pkt buf = (p, .ok ())) :
    (PES.unpack t buf).2 = .ok () ↔ 6 ≤ p.payload.length ∧ p.payload.take 3 = [0, 0, 1] := by
  unfold PES.unpack
  rw [hp]
  simp only
  by_cases h6 : 6 ≤ p.payload.length
  · obtain ⟨a, b, c, d, e, f, r, hpl⟩ := exists6 p.payload h6
    have ha := a.toNat_lt
    have hb := b.toNat_lt
    have hc := c.toNat_lt
    rw [hpl]
    simp only [structUnpackFrom, Acra.Gen.PES.PES_unpack_fmt0, Acra.Gen.PES.PES_unpack_fmt1, Acra.Gen.PES.PES_unpack_fmt2,
      Fmt.size, codesSize, Code.size, unpackCodes, decInt, beNat, List.length_cons]
    simp
    have la : leNat [a] = a.toNat := by simp [leNat]
    have lcb : leNat [c, b] = c.toNat + 256 * b.toNat := by simp [leNat]
    rw [la, lcb]
    have ea : a = 0 ↔ a.toNat = 0 := (u8_eq a 0 (by omega)).symm
    have eb : b = 0 ↔ b.toNat = 0 := (u8_eq b 0 (by omega)).symm
    have ec : c = 1 ↔ c.toNat = 1 := (u8_eq c 1 (by omega)).symm
    rw [ea, eb, ec]
    by_cases hpre : a.toNat * 65536 + (c.toNat + 256 * b.toNat) = 1
    · have : a.toNat = 0 ∧ b.toNat = 0 ∧ c.toNat = 1 := by omega
      simp only [hpre, if_true, this, and_true]
      by_cases h3 : 3 ≤ r.length
      · have h9 : ¬ (r.length + 1 + 1 + 1 + 1 + 1 + 1 < 9) := by omega
        simp only [h9, h3, if_true, if_false]
        split <;> simp
      · have h9 : r.length + 1 + 1 + 1 + 1 + 1 + 1 < 9 := by omega
        simp [h9]
    · have : ¬ (a.toNat = 0 ∧ b.toNat = 0 ∧ c.toNat = 1) := by omega
      simp [hpre, this]
  · have : ¬ (0 + Acra.Gen.PES.PES_unpack_fmt0.size ≤ p.payload.length) := by
      simp [Acra.Gen.PES.PES_unpack_fmt0, Fmt.size, codesSize, Code.size]; omega
    simp only [structUnpackFrom, this, if_false]
    constructor
    · intro h; simp at h
    · intro h; omega
theorem take_drop_slice (d : Bytes) (m n : Nat) : List.take n (List.drop m d) = slice d m (m + n) := by
  simp [slice, List.take_drop]

/-- `STANAG4609.unpack` accepts (given that `PES.unpack` accepted and produced PES data `d`) exactly
    when: PID 0x104, at least 36 bytes of data, the 16-byte universal key at offset 5, data tag 2 at
    offset 22, tag length 8 at offset 23, and the MISB checksum of `d[5:-2]` equal to the big-endian
    16-bit value at offset 34 -/
theorem STANAG_accepts_iff (t : STANAG) (buf : Bytes) (p : PES) (hp : PES.unpack t.pes buf = (p, .ok ())) :
    (STANAG.unpack t buf).2 = .ok () ↔
      p.pkt.pid = 0x104 ∧ 36 ≤ p.pesdata.length ∧ slice p.pesdata 5 21 = STANAG4609_UNIVERSAL_KEY ∧
      decInt true (slice p.pesdata 22 23) = 2 ∧ decInt true (slice p.pesdata 23 24) = 8 ∧
      checksum_stanag (slice p.pesdata 5 (p.pesdata.length - 2)) = decInt true (slice p.pesdata 34 36) := by
  unfold STANAG.unpack
  rw [hp]
  simp only [STANAG4609_PID, STANAG4609_UNKNOWN_OFFSET, STANAG4609_DATA_TAG,
    show STANAG4609_UNIVERSAL_KEY.length = 16 from rfl]
  generalize p.pesdata = d
  by_cases hpid : p.pkt.pid = 260
  · simp only [hpid, ne_eq, not_true_eq_false, if_false, true_and]
    by_cases h36 : 36 ≤ d.length
    · have s0 : 0 + STANAG_unpack_fmt0.size ≤ d.length := by
        simp [STANAG_unpack_fmt0, Fmt.size, codesSize, Code.size]; omega
      have s1 : 16 + 5 + STANAG_unpack_fmt1.size ≤ d.length := by
        simp [STANAG_unpack_fmt1, Fmt.size, codesSize, Code.size]; omega
      have s2 : 16 + 5 + 3 + STANAG_unpack_fmt2.size ≤ d.length := by
        simp [STANAG_unpack_fmt2, Fmt.size, codesSize, Code.size]; omega
      simp only [structUnpackFrom, s0, s1, s2, if_true]
      simp only [STANAG_unpack_fmt0, STANAG_unpack_fmt1, STANAG_unpack_fmt2,
        unpackCodes, Code.size, List.drop_drop, take_drop_slice, h36, true_and]
      by_cases hk : slice d 5 (16 + 5) = STANAG4609_UNIVERSAL_KEY
      · simp only [hk, not_true_eq_false, if_false, true_and]
        by_cases hdt : decInt true (slice d (16 + 5 + 1) (16 + 5 + 1 + 1)) = 2
        · simp only [hdt, not_true_eq_false, if_false, true_and]
          by_cases htl : decInt true (slice d (16 + 5 + 1 + 1) (16 + 5 + 1 + 1 + 1)) = 8
          · simp only [htl, not_true_eq_false, if_false, true_and]
            by_cases hcs : checksum_stanag (slice d 5 (d.length - 2)) =
                decInt true (slice d (16 + 5 + 3 + 8 + 1 + 1) (16 + 5 + 3 + 8 + 1 + 1 + 2))
            · simp [hcs]
            · simp [hcs]
          · simp [htl]
        · simp [hdt]
      · simp [hk]
    · have s2 : ¬ (16 + 5 + 3 + STANAG_unpack_fmt2.size ≤ d.length) := by
        simp [STANAG_unpack_fmt2, Fmt.size, codesSize, Code.size]; omega
      constructor
      · intro h
        exfalso
        revert h
        simp only [structUnpackFrom, s2, if_false]
        repeat' split
        all_goals simp
      · rintro ⟨h, _⟩; omega
  · simp [hpid]

/-! ### review additions: unconditional statements (no `hp` hypothesis), checksum against the Spec, witnesses -/

/-- `PES.unpack`, every buffer and prior state: accepted exactly when the transport packet is accepted and its
    payload holds at least the 6-byte prefix, starting with 00 00 01 -/
theorem PES_accepts_iff (t : PES) (buf : Bytes) :
    (PES.unpack t buf).2 = .ok () ↔
      (Pkt.unpack t.pkt buf).2 = .ok () ∧ 6 ≤ (Pkt.unpack t.pkt buf).1.payload.length ∧
      (Pkt.unpack t.pkt buf).1.payload.take 3 = [0, 0, 1] := by
  cases hu : Pkt.unpack t.pkt buf with
  | mk p r =>
    cases r with
    | error e => simp [PES.unpack, hu]
    | ok u => simpa using PES_prefix_iff t buf p hu

/-- `STANAG4609.unpack`, every buffer and prior state, with the checksum as the MISB 0601 word sum of the Spec -/
theorem STANAG_accepts_iff_all (t : STANAG) (buf : Bytes) :
    (STANAG.unpack t buf).2 = .ok () ↔
      (PES.unpack t.pes buf).2 = .ok () ∧
      (let d := (PES.unpack t.pes buf).1.pesdata
       (PES.unpack t.pes buf).1.pkt.pid = 0x104 ∧ 36 ≤ d.length ∧ slice d 5 21 = STANAG4609_UNIVERSAL_KEY ∧
       decInt true (slice d 22 23) = 2 ∧ decInt true (slice d 23 24) = 8 ∧
       Spec.MPEG.misbChecksum (slice d 5 (d.length - 2)) = decInt true (slice d 34 36)) := by
  cases hu : PES.unpack t.pes buf with
  | mk p r =>
    cases r with
    | error e => simp [STANAG.unpack, hu]
    | ok u =>
      have := STANAG_accepts_iff t buf p hu
      simpa [Lemmas.CRCMpeg.checksum_eq_spec] using this

/-- review witnesses: transport header sync 0x47, PID 0x104, AFC 1 (payload only) -/
private def tsHdr : Bytes := [0x47, 0x41, 0x04, 0x10]
/-- 36 bytes of STANAG 4609 PES data as `STANAG4609.pack` lays them out: counter 3, universal key at 5..20, data tag 2,
    tag length 8, time 0x0102030405060708, MISB checksum 0x7263 over bytes 5..33 -/
private def stanagData : Bytes :=
  [0, 3, 223, 0, 31, 6, 14, 43, 52, 2, 11, 1, 1, 14, 1, 3, 1, 1, 0, 0, 0, 14, 2, 8, 1, 2, 3, 4, 5, 6, 7, 8, 1, 2, 114, 99]
/-- sync: accepted / wrong sync byte / 3 bytes / AFC 3 without and with the adaptation-field length byte -/
example : (Pkt.unpack Pkt.fresh (tsHdr ++ [1,2,3])).2 = .ok () ∧ (Pkt.unpack Pkt.fresh (tsHdr ++ [1,2,3])).1.payload = [1,2,3] := ⟨rfl, rfl⟩
example : (Pkt.unpack Pkt.fresh ([0x46, 0x41, 0x04, 0x10] ++ [1,2,3])).2 = .error .generic := by rfl
example : (Pkt.unpack Pkt.fresh [0x47, 0x41, 0x04]).2 = .error .struct := by rfl
example : (Pkt.unpack Pkt.fresh [0x47, 0x41, 0x04, 0x30]).2 ≠ .ok () := by intro h; cases h
example : (Pkt.unpack Pkt.fresh [0x47, 0x41, 0x04, 0x30, 1, 0, 9, 9]).2 = .ok () ∧ (Pkt.unpack Pkt.fresh [0x47, 0x41, 0x04, 0x30, 1, 0, 9, 9]).1.payload = [9, 9] := ⟨rfl, rfl⟩
/-- PES prefix: 00 00 01 and 9 bytes accepted, PES data returned whole; 00 00 02 rejected; 8 bytes accepted as
    header-less data (2 bytes); 5 bytes (prefix incomplete) rejected -/
example : (PES.unpack PES.fresh (tsHdr ++ [0,0,1,0xE0,0,0, 1,2,3])).2 = .ok () ∧ (PES.unpack PES.fresh (tsHdr ++ [0,0,1,0xE0,0,0, 1,2,3])).1.pesdata = [1,2,3] := ⟨rfl, rfl⟩
example : (PES.unpack PES.fresh (tsHdr ++ [0,0,2,0xE0,0,0, 1,2,3])).2 = .error .generic := by rfl
example : (PES.unpack PES.fresh (tsHdr ++ [0,0,1,0xE0,0,0, 1,2])).2 = .ok () ∧ (PES.unpack PES.fresh (tsHdr ++ [0,0,1,0xE0,0,0, 1,2])).1.pesdata = [1,2] := ⟨rfl, rfl⟩
example : (PES.unpack PES.fresh (tsHdr ++ [0,0,1,0xE0,0])).2 ≠ .ok () := by intro h; cases h
/-- STANAG: accepted; then one clause broken at a time — PID 0x105, key byte, data tag 3, tag length 7, checksum byte,
    a protected data byte (checksum no longer matches), 35 bytes of data: each rejected -/
example : (STANAG.unpack STANAG.fresh (tsHdr ++ [0,0,1,0xFC,0,0] ++ stanagData)).2 = .ok () := by rfl
example : (STANAG.unpack STANAG.fresh ([0x47, 0x41, 0x05, 0x10] ++ [0,0,1,0xFC,0,0] ++ stanagData)).2 = .error .generic := by rfl
example : (STANAG.unpack STANAG.fresh (tsHdr ++ [0,0,1,0xFC,0,0] ++ stanagData.set 5 7)).2 = .error .generic := by rfl
example : (STANAG.unpack STANAG.fresh (tsHdr ++ [0,0,1,0xFC,0,0] ++ stanagData.set 22 3)).2 = .error .generic := by rfl
example : (STANAG.unpack STANAG.fresh (tsHdr ++ [0,0,1,0xFC,0,0] ++ stanagData.set 23 7)).2 = .error .generic := by rfl
example : (STANAG.unpack STANAG.fresh (tsHdr ++ [0,0,1,0xFC,0,0] ++ stanagData.set 35 98)).2 = .error .generic := by rfl
example : (STANAG.unpack STANAG.fresh (tsHdr ++ [0,0,1,0xFC,0,0] ++ stanagData.set 30 0)).2 = .error .generic := by rfl
example : (STANAG.unpack STANAG.fresh (tsHdr ++ [0,0,1,0xFC,0,0] ++ stanagData.take 35)).2 ≠ .ok () := by intro h; cases h

end Acra.Props.C09
