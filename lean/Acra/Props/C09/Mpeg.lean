import Acra.Model.PES
namespace Acra.Props.C09
open Acra.Py Acra.Model.MPEGTS Acra.Model.PES

theorem u8_eq (a : UInt8) (n : Nat) (h : n < 256) : a.toNat = n ↔ a = UInt8.ofNat n := by
  constructor
  · intro ha
    apply UInt8.toNat_inj.mp
    rw [ha, UInt8.toNat_ofNat', Nat.mod_eq_of_lt h]
  · intro ha; rw [ha, UInt8.toNat_ofNat', Nat.mod_eq_of_lt h]

/-- `MPEGPacket.unpack` accepts a buffer of at least four bytes exactly when its first byte is the
    sync byte 0x47 and — with adaptation-field control 3 (bits 5..4 of byte 3) — a fifth byte (the
    adaptation-field length) is present.  Whatever the object held before. -/
theorem MPEG_sync_iff (t : Pkt) (b0 b1 b2 b3 : UInt8) (rest : Bytes) :
    (Pkt.unpack t (b0 :: b1 :: b2 :: b3 :: rest)).2 = .ok () ↔
      b0 = 0x47 ∧ (b3.toNat / 16 % 4 = 3 → rest ≠ []) := by
  have hb0 := b0.toNat_lt
  have hb3 := b3.toNat_lt
  simp only [Pkt.unpack, structUnpackFrom, Acra.Gen.MPEGTS.Pkt_unpack_fmt0, Acra.Gen.MPEGTS.Pkt_unpack_fmt1, Fmt.size,
    codesSize, Code.size, unpackCodes, decInt, beNat, List.length_cons, Acra.Gen.MPEGTS.ADAPTION_PAYLOAD_AND_ADAPTION,
    Acra.Gen.MPEGTS.ADAPTION_ADAPTION_ONLY, Acra.Gen.MPEGTS.ADAPTION_PAYLOAD_ONLY]
  simp
  have l1 : ∀ b : UInt8, leNat [b] = b.toNat := fun b => by simp [leNat]
  simp only [l1]
  have e0 : b0.toNat = 71 ↔ b0 = 71 := u8_eq b0 71 (by omega)
  rw [← e0]
  by_cases h0 : b0.toNat = 71
  · simp only [h0, if_true, true_and]
    by_cases h3 : b3.toNat / 16 % 4 = 3
    · cases rest with
      | nil => simp [h3]
      | cons r rs =>
        simp only [h3, if_true, List.length_cons]
        simp
        split <;> simp
    · simp only [h3, if_false]
      split
      · simp
      · split <;> simp
  · simp [h0]

/-- fewer than four bytes: `struct.error`, never a partial success -/
theorem MPEG_short_rejected (t : Pkt) (buf : Bytes) (h : buf.length < 4) :
    (Pkt.unpack t buf).2 = .error .struct := by
  have : ¬ (Acra.Gen.MPEGTS.Pkt_unpack_fmt0.size ≤ buf.length) := by
    simp [Acra.Gen.MPEGTS.Pkt_unpack_fmt0, Fmt.size, codesSize, Code.size]; omega
  simp [Pkt.unpack, structUnpackFrom, this]

/-- a wrong sync byte is a bare `Exception` -/
theorem MPEG_bad_sync_rejected (t : Pkt) (b0 b1 b2 b3 : UInt8) (rest : Bytes) (h : b0 ≠ 0x47) :
    (Pkt.unpack t (b0 :: b1 :: b2 :: b3 :: rest)).2 = .error .generic := by
  have hb0 := b0.toNat_lt
  have e0 : b0.toNat = 71 ↔ b0 = 71 := u8_eq b0 71 (by omega)
  have h0 : ¬ b0.toNat = 71 := fun c => h (e0.mp c)
  simp only [Pkt.unpack, structUnpackFrom, Acra.Gen.MPEGTS.Pkt_unpack_fmt0, Fmt.size, codesSize, Code.size, unpackCodes,
    decInt, beNat, List.length_cons]
  simp [leNat, h0]

/-- an accepted packet is never truncated or padded: the payload is exactly the bytes after the
    header (AFC 1), after the adaptation field whose length byte 4 declares (AFC 3), or empty -/
theorem MPEG_payload_exact (t : Pkt) (b0 b1 b2 b3 : UInt8) (rest : Bytes)
    (h : (Pkt.unpack t (b0 :: b1 :: b2 :: b3 :: rest)).2 = .ok ()) :
    let p := (Pkt.unpack t (b0 :: b1 :: b2 :: b3 :: rest)).1
    (p.adaption_ctrl = 1 → p.payload = rest) ∧
    (p.adaption_ctrl = 3 → ∃ l tl, rest = l :: tl ∧ p.payload = tl.drop l.toNat) ∧
    (p.adaption_ctrl ≠ 1 → p.adaption_ctrl ≠ 3 → p.payload = []) := by
  have hb0 := b0.toNat_lt
  have hb3 := b3.toNat_lt
  have hok := (MPEG_sync_iff t b0 b1 b2 b3 rest).mp h
  have e0 : b0.toNat = 71 := (u8_eq b0 71 (by omega)).mpr hok.1
  have l1 : ∀ b : UInt8, leNat [b] = b.toNat := fun b => by simp [leNat]
  simp only [Pkt.unpack, structUnpackFrom, Acra.Gen.MPEGTS.Pkt_unpack_fmt0, Acra.Gen.MPEGTS.Pkt_unpack_fmt1, Fmt.size,
    codesSize, Code.size, unpackCodes, decInt, beNat, List.length_cons, Acra.Gen.MPEGTS.ADAPTION_PAYLOAD_AND_ADAPTION,
    Acra.Gen.MPEGTS.ADAPTION_ADAPTION_ONLY, Acra.Gen.MPEGTS.ADAPTION_PAYLOAD_ONLY]
  simp
  simp only [l1, e0, if_true]
  by_cases h3 : b3.toNat / 16 % 4 = 3
  · cases rest with
    | nil => exact absurd rfl (hok.2 h3)
    | cons r rs =>
      simp only [h3, if_true, List.length_cons]
      simp
      split
      · refine ⟨by simp, fun _ => ⟨r, rs, ⟨rfl, rfl⟩, ?_⟩, by simp⟩
        simp only [l1]
        rw [show 5 + r.toNat = r.toNat + 5 from Nat.add_comm _ _]
        simp [List.drop_succ_cons]
      · rename_i hz
        have hr : r.toNat = 0 := by simp only [l1] at hz; omega
        refine ⟨by simp, fun _ => ⟨r, rs, ⟨rfl, rfl⟩, ?_⟩, by simp⟩
        simp [hr]
  · simp only [h3, if_false]
    split
    · rename_i h2; simp [h2]
    · split
      · rename_i h2 h1; simp [h1]
      · rename_i h2 h1; simp [h3, h1]

end Acra.Props.C09
