import Acra.Model.IENAQDN
import Acra.Lemmas.Bits
import Acra.Lemmas.ReviewC09Loop
namespace Acra.Props.C09
open Acra.Py Acra.Model.IENA Acra.Gen.IENA Acra.Lemmas.ReviewC09

/-- the dataset length an IENA-Q parameter header declares: big-endian 16 bits at bytes 2..3 -/
def declaredQ (rem : Bytes) : Nat := beNat (List.drop 2 (List.take 4 rem))

/-- an IENA-Q parameter is accepted exactly when its 4-byte header is present and the declared
    dataset length lies inside the bytes that remain — at every position of a multi-parameter
    packet, because the loop applies this step to the remaining bytes -/
theorem IENAQ_param_ok_iff (rem : Bytes) :
    (∃ p n, decQ rem = .ok (p, n)) ↔ 4 ≤ rem.length ∧ declaredQ rem ≤ rem.length - 4 := by
  simp only [decQ, IENAQ_FORMAT_LEN, structUnpack, IENAQ_FORMAT, Fmt.size, codesSize, Code.size, unpackCodes,
    decInt, declaredQ, List.length_take, List.length_drop]
  by_cases h : 4 ≤ rem.length
  · have : min 4 rem.length = 2 + (2 + 0) := by omega
    simp only [this, if_true, h, true_and]
    have e : List.take 2 (List.drop 2 (List.take 4 rem)) = List.drop 2 (List.take 4 rem) := by
      apply List.take_of_length_le; simp; omega
    simp only [e]
    split <;> simp_all
  · have : ¬ (min 4 rem.length = 2 + (2 + 0)) := by omega
    simp [this, h]

/-- an accepted parameter's dataset has exactly the declared length: never truncated or padded -/
theorem IENAQ_param_exact (rem : Bytes) (p : QParam) (n : Nat) (h : decQ rem = .ok (p, n)) :
    p.dataset.length = declaredQ rem ∧ n = 4 + declaredQ rem + declaredQ rem % 2 := by
  have hok := (IENAQ_param_ok_iff rem).1 ⟨p, n, h⟩
  revert h
  simp only [decQ, IENAQ_FORMAT_LEN, structUnpack, IENAQ_FORMAT, Fmt.size, codesSize, Code.size, unpackCodes,
    decInt, declaredQ, List.length_take, List.length_drop] at hok ⊢
  have : min 4 rem.length = 2 + (2 + 0) := by omega
  simp only [this, if_true]
  have e : List.take 2 (List.drop 2 (List.take 4 rem)) = List.drop 2 (List.take 4 rem) := by
    apply List.take_of_length_le; simp; omega
  simp only [e]
  split
  · simp
  · intro h
    simp only [Except.ok.injEq, Prod.mk.injEq] at h
    obtain ⟨hp, hn⟩ := h
    subst hp hn
    simp only [slice_length]
    obtain ⟨h6, hd⟩ := hok
    generalize beNat (List.drop 2 (List.take 4 rem)) = d at *
    constructor
    · omega
    · by_cases hodd : d % 2 = 1
      · simp [hodd]
      · have : d % 2 = 0 := by omega
        simp [this]

/-- witnesses for the per-parameter step -/
example : decQ [0,3,0,2,101,102,7,7] = .ok ({ paramid := 3, dataset := [101,102] }, 6) := by rfl
example : decQ [0,3,0,10,101,102] = .error .generic := by rfl
example : decQ [0,3,0] = .error .struct := by rfl

/-! ### review additions: the check at EVERY position of a multi-parameter IENA-Q packet -/

/-- the IENA-Q parameter area, read declaratively -/
inductive FitsQ : Bytes → Prop
  | done : FitsQ []
  | param (rem : Bytes) : 4 ≤ rem.length → declaredQ rem ≤ rem.length - 4 →
      FitsQ (rem.drop (4 + declaredQ rem + declaredQ rem % 2)) → FitsQ rem

theorem decQ_pos (b : Bytes) (x : QParam) (n : Nat) (h : decQ b = .ok (x, n)) : 0 < n ∧ 0 < b.length := by
  have h1 := (IENAQ_param_ok_iff b).1 ⟨x, n, h⟩
  have h2 := IENAQ_param_exact b x n h
  omega

theorem IENAQ_walk_iff_fits (pl : Bytes) (off : Nat) :
    (∃ ps, Walk decQ moreRem pl off ps) ↔ FitsQ (pl.drop off) := by
  constructor
  · rintro ⟨ps, hw⟩
    induction ps generalizing off with
    | nil =>
      simp only [Walk, moreRem, decide_eq_false_iff_not] at hw
      rw [List.drop_eq_nil_of_le (by omega)]; exact .done
    | cons p ps ih =>
      obtain ⟨_, n, hd, hw'⟩ := hw
      have h1 := (IENAQ_param_ok_iff _).1 ⟨p, n, hd⟩
      have h2 := (IENAQ_param_exact _ p n hd).2
      refine .param _ h1.1 h1.2 ?_
      rw [← h2, List.drop_drop]
      exact ih _ hw'
  · intro h
    generalize hr : pl.drop off = rem at h
    induction h generalizing off with
    | done =>
      refine ⟨[], ?_⟩
      have : pl.length ≤ off := by
        have := congrArg List.length hr; simp at this; omega
      simp only [Walk, moreRem, decide_eq_false_iff_not]; omega
    | param rem h6 hd _ ih =>
      obtain ⟨p, n, hdec⟩ := (IENAQ_param_ok_iff rem).2 ⟨h6, hd⟩
      have hn := (IENAQ_param_exact rem p n hdec).2
      subst hr
      obtain ⟨ps, hps⟩ := ih (off + n) (by rw [List.drop_drop, hn])
      refine ⟨p :: ps, ?_, n, hdec, hps⟩
      simp only [List.length_drop] at h6
      simp only [moreRem, decide_eq_true_eq]; omega

/-- IENA-Q, whole packet: accepted exactly when the IENA frame is and the parameter area is a chain of
    parameters each of whose declared dataset lies inside the bytes that remain AT ITS POSITION -/
theorem IENAQ_accepts_iff (t : QState) (buf : Bytes) :
    (QState.unpack t buf).2 = .ok () ↔
      (Base.unpack t.base buf).2 = .ok () ∧ FitsQ (Base.unpack t.base buf).1.payload := by
  simp only [QState.unpack]
  cases hu : Base.unpack t.base buf with
  | mk b' r =>
    cases r with
    | error e => simp
    | ok u =>
      simp only [true_and]
      have key : (∃ ps, Walk decQ moreRem b'.payload 0 ps) ↔ FitsQ b'.payload := by
        simpa using IENAQ_walk_iff_fits b'.payload 0
      rw [← key]
      cases hd : decOff decQ moreRem b'.payload (b'.payload.length + 1) 0 with
      | ok ps =>
        simp only [true_iff]
        exact ⟨ps, (decOff_ok_iff_walk _ _ _ decQ_pos ps).1 hd⟩
      | error e =>
        simp only [reduceCtorEq, false_iff]
        rintro ⟨ps, hw⟩
        rw [(decOff_ok_iff_walk _ _ _ decQ_pos ps).2 hw] at hd
        cases hd

/-- … and every parameter it returns, at whatever position, has exactly the dataset length its header
    declares, lying wholly inside the payload: nothing truncated, padded or partially returned -/
theorem IENAQ_accepted_every_param_exact (t : QState) (buf : Bytes) (h : (QState.unpack t buf).2 = .ok ()) :
    ∀ p ∈ (QState.unpack t buf).1.parameters, ∃ o,
      o + 4 + p.dataset.length ≤ (QState.unpack t buf).1.base.payload.length ∧
      p.dataset.length = declaredQ ((QState.unpack t buf).1.base.payload.drop o) := by
  revert h
  simp only [QState.unpack]
  cases hu : Base.unpack t.base buf with
  | mk b' r =>
    cases r with
    | error e => simp
    | ok u =>
      cases hd : decOff decQ moreRem b'.payload (b'.payload.length + 1) 0 with
      | error e => simp
      | ok ps =>
        intro _ p hp
        obtain ⟨o, n, _, _, hdec⟩ := walk_mem _ _ _ _ _ (decOff_ok_walk _ _ _ _ _ _ hd) p hp
        have h1 := (IENAQ_param_ok_iff _).1 ⟨p, n, hdec⟩
        have h2 := (IENAQ_param_exact _ p n hdec).1
        refine ⟨o, ?_, h2⟩
        simp only [List.length_drop] at h1
        show o + 4 + p.dataset.length ≤ b'.payload.length
        omega

/-- witnesses, whole packet (header declares 15 words = 30 bytes): `abcd`, `ef` accepted and returned whole; the
    SECOND length forced to 10 (2 bytes remain, the whole payload holds 14) rejected; the first forced to 11 rejected -/
example : (QState.unpack QState.fresh ([0,1, 0,15, 0,0, 0,0,0,5, 0,0, 0,9] ++ [0,1,0,4,97,98,99,100] ++
    [0,3,0,2,101,102] ++ [0xDE,0xAD])).2 = .ok () := by rfl
example : (QState.unpack QState.fresh ([0,1, 0,15, 0,0, 0,0,0,5, 0,0, 0,9] ++ [0,1,0,4,97,98,99,100] ++
    [0,3,0,2,101,102] ++ [0xDE,0xAD])).1.parameters.map (·.dataset) = [[97,98,99,100],[101,102]] := by rfl
example : (QState.unpack QState.fresh ([0,1, 0,15, 0,0, 0,0,0,5, 0,0, 0,9] ++ [0,1,0,4,97,98,99,100] ++
    [0,3,0,10,101,102] ++ [0xDE,0xAD])).2 = .error .generic := by rfl
example : (QState.unpack QState.fresh ([0,1, 0,15, 0,0, 0,0,0,5, 0,0, 0,9] ++ [0,1,0,11,97,98,99,100] ++
    [0,3,0,2,101,102] ++ [0xDE,0xAD])).2 = .error .generic := by rfl

/-! ### IENA-D / IENA-N: a whole number of parameters -/

/-- one fixed-size parameter decodes whenever its `2n + 4` bytes are inside the payload, and then has `n` words -/
theorem decD1_ok (dwc : Nat) (payload : Bytes) (off : Nat) (h : off + (dwc * 2 + 4) ≤ payload.length) :
    ∃ p, decD1 dwc payload off = .ok p ∧ p.dwords.length = dwc := by
  have hsz : (IENAD_unpack_fmt0 (dwc + 2)).size = dwc * 2 + 4 := by
    simp only [IENAD_unpack_fmt0, Fmt.size]
    induction dwc with
    | zero => rfl
    | succ n ih => simp only [List.replicate_succ, codesSize, Code.size] at ih ⊢; omega
  have hl := unpackCodes_length (IENAD_unpack_fmt0 (dwc + 2)).big (IENAD_unpack_fmt0 (dwc + 2)).codes (payload.drop off)
  simp only [decD1, structUnpackFrom, hsz, h, if_true]
  generalize unpackCodes (IENAD_unpack_fmt0 (dwc + 2)).big (IENAD_unpack_fmt0 (dwc + 2)).codes (payload.drop off) = vs at *
  simp only [IENAD_unpack_fmt0, List.length_replicate] at hl
  rcases vs with _ | ⟨pid, _ | ⟨dl, ws⟩⟩
  · simp at hl
  · simp at hl
  · exact ⟨_, rfl, by simp at hl; simpa using hl⟩

theorem decDAll_ok (dwc : Nat) (payload : Bytes) (l : List Nat)
    (h : ∀ i ∈ l, i * (dwc * 2 + 4) + (dwc * 2 + 4) ≤ payload.length) :
    ∃ ps, decDAll dwc payload l = .ok ps ∧ ∀ p ∈ ps, p.dwords.length = dwc := by
  induction l with
  | nil => exact ⟨[], rfl, by simp⟩
  | cons i is ih =>
    obtain ⟨p, hp, hw⟩ := decD1_ok dwc payload (i * (dwc * 2 + 4)) (h i (by simp))
    obtain ⟨ps, hps, hws⟩ := ih (fun j hj => h j (by simp [hj]))
    refine ⟨p :: ps, by simp [decDAll, hp, hps], ?_⟩
    intro q hq
    simp at hq
    rcases hq with rfl | hq
    · exact hw
    · exact hws q hq

/-- IENA-D accepts exactly the buffers IENA accepts whose payload is a whole number of
    `2·(keystatus & 7) + 4`-byte parameters -/
theorem IENAD_accepts_iff (t : DState) (buf : Bytes) :
    (DState.unpack t buf).2 = .ok () ↔
      (Base.unpack t.base buf).2 = .ok () ∧
      (Base.unpack t.base buf).1.payload.length % (2 * ((Base.unpack t.base buf).1.keystatus % 8) + 4) = 0 := by
  simp only [DState.unpack]
  cases hu : Base.unpack t.base buf with
  | mk b' r =>
    cases r with
    | error e => simp
    | ok u =>
      simp only [Lemmas.Bits.and_7, true_and]
      generalize hn : b'.keystatus % 8 = n
      have hlpb : n * 2 + 4 = 2 * n + 4 := by omega
      by_cases hm : b'.payload.length % (2 * n + 4) = 0
      · have hz : b'.payload.length - b'.payload.length / (n * 2 + 4) * (n * 2 + 4) = 0 := by
          rw [hlpb]
          have := Nat.div_add_mod b'.payload.length (2 * n + 4)
          have h2 : b'.payload.length / (2 * n + 4) * (2 * n + 4) = (2 * n + 4) * (b'.payload.length / (2 * n + 4)) :=
            Nat.mul_comm _ _
          omega
        obtain ⟨ps, hps, _⟩ := decDAll_ok n b'.payload (List.range (b'.payload.length / (n * 2 + 4))) (by
          intro i hi
          simp only [List.mem_range] at hi
          have h1 : (i + 1) * (n * 2 + 4) ≤ b'.payload.length / (n * 2 + 4) * (n * 2 + 4) :=
            Nat.mul_le_mul_right _ hi
          have h2 : b'.payload.length / (n * 2 + 4) * (n * 2 + 4) ≤ b'.payload.length := Nat.div_mul_le_self _ _
          rw [Nat.add_mul] at h1
          omega)
        simp [hz, hps, hm]
      · have hz : ¬ (b'.payload.length - b'.payload.length / (n * 2 + 4) * (n * 2 + 4) = 0) := by
          rw [hlpb]
          have := Nat.div_add_mod b'.payload.length (2 * n + 4)
          have h2 : b'.payload.length / (2 * n + 4) * (2 * n + 4) = (2 * n + 4) * (b'.payload.length / (2 * n + 4)) :=
            Nat.mul_comm _ _
          omega
        simp [hz, hm]

theorem decN1_ok (dwc : Nat) (payload : Bytes) (off : Nat) (h : off + (dwc * 2 + 2) ≤ payload.length) :
    ∃ p, decN1 dwc payload off = .ok p ∧ p.dwords.length = dwc := by
  have hsz : (IENAN_unpack_fmt0 (dwc + 1)).size = dwc * 2 + 2 := by
    simp only [IENAN_unpack_fmt0, Fmt.size]
    induction dwc with
    | zero => rfl
    | succ n ih => simp only [List.replicate_succ, codesSize, Code.size] at ih ⊢; omega
  have hl := unpackCodes_length (IENAN_unpack_fmt0 (dwc + 1)).big (IENAN_unpack_fmt0 (dwc + 1)).codes (payload.drop off)
  simp only [decN1, structUnpackFrom, hsz, h, if_true]
  generalize unpackCodes (IENAN_unpack_fmt0 (dwc + 1)).big (IENAN_unpack_fmt0 (dwc + 1)).codes (payload.drop off) = vs at *
  simp only [IENAN_unpack_fmt0, List.length_replicate] at hl
  rcases vs with _ | ⟨pid, ws⟩
  · simp at hl
  · exact ⟨_, rfl, by simp at hl; simpa using hl⟩

theorem decNAll_ok (dwc : Nat) (payload : Bytes) (l : List Nat)
    (h : ∀ i ∈ l, i * (dwc * 2 + 2) + (dwc * 2 + 2) ≤ payload.length) :
    ∃ ps, decNAll dwc payload l = .ok ps ∧ ∀ p ∈ ps, p.dwords.length = dwc := by
  induction l with
  | nil => exact ⟨[], rfl, by simp⟩
  | cons i is ih =>
    obtain ⟨p, hp, hw⟩ := decN1_ok dwc payload (i * (dwc * 2 + 2)) (h i (by simp))
    obtain ⟨ps, hps, hws⟩ := ih (fun j hj => h j (by simp [hj]))
    refine ⟨p :: ps, by simp [decNAll, hp, hps], ?_⟩
    intro q hq
    simp at hq
    rcases hq with rfl | hq
    · exact hw
    · exact hws q hq

/-- IENA-N: a whole number of `2·(keystatus & 7) + 2`-byte parameters -/
theorem IENAN_accepts_iff (t : NState) (buf : Bytes) :
    (NState.unpack t buf).2 = .ok () ↔
      (Base.unpack t.base buf).2 = .ok () ∧
      (Base.unpack t.base buf).1.payload.length % (2 * ((Base.unpack t.base buf).1.keystatus % 8) + 2) = 0 := by
  simp only [NState.unpack]
  cases hu : Base.unpack t.base buf with
  | mk b' r =>
    cases r with
    | error e => simp
    | ok u =>
      simp only [Lemmas.Bits.and_7, true_and]
      generalize hn : b'.keystatus % 8 = n
      have hlpb : n * 2 + 2 = 2 * n + 2 := by omega
      by_cases hm : b'.payload.length % (2 * n + 2) = 0
      · have hz : b'.payload.length - b'.payload.length / (n * 2 + 2) * (n * 2 + 2) = 0 := by
          rw [hlpb]
          have := Nat.div_add_mod b'.payload.length (2 * n + 2)
          have h2 : b'.payload.length / (2 * n + 2) * (2 * n + 2) = (2 * n + 2) * (b'.payload.length / (2 * n + 2)) :=
            Nat.mul_comm _ _
          omega
        obtain ⟨ps, hps, _⟩ := decNAll_ok n b'.payload (List.range (b'.payload.length / (n * 2 + 2))) (by
          intro i hi
          simp only [List.mem_range] at hi
          have h1 : (i + 1) * (n * 2 + 2) ≤ b'.payload.length / (n * 2 + 2) * (n * 2 + 2) :=
            Nat.mul_le_mul_right _ hi
          have h2 : b'.payload.length / (n * 2 + 2) * (n * 2 + 2) ≤ b'.payload.length := Nat.div_mul_le_self _ _
          rw [Nat.add_mul] at h1
          omega)
        simp [hz, hps, hm]
      · have hz : ¬ (b'.payload.length - b'.payload.length / (n * 2 + 2) * (n * 2 + 2) = 0) := by
          rw [hlpb]
          have := Nat.div_add_mod b'.payload.length (2 * n + 2)
          have h2 : b'.payload.length / (2 * n + 2) * (2 * n + 2) = (2 * n + 2) * (b'.payload.length / (2 * n + 2)) :=
            Nat.mul_comm _ _
          omega
        simp [hz, hm]

/-! ### review additions: IENA-D / IENA-N exactness and witnesses -/

theorem decDAll_length (dwc : Nat) (payload : Bytes) (l : List Nat) (ps : List DParam)
    (h : decDAll dwc payload l = .ok ps) : ps.length = l.length := by
  induction l generalizing ps with
  | nil => simp [decDAll] at h; subst h; rfl
  | cons i is ih =>
    simp only [decDAll] at h
    split at h
    · cases h
    · split at h
      · simp only [Except.ok.injEq] at h; subst h; simp [ih _ (by assumption)]
      · cases h

/-- IENA-D, accepted ⇒ nothing truncated, padded or partially returned: as many parameters as whole
    `2n+4`-byte groups, covering the payload exactly, each with its full `n` data words -/
theorem IENAD_accepted_exact (t : DState) (buf : Bytes) (h : (DState.unpack t buf).2 = .ok ()) :
    (DState.unpack t buf).1.parameters.length * (2 * ((DState.unpack t buf).1.base.keystatus % 8) + 4) =
      (DState.unpack t buf).1.base.payload.length ∧
    ∀ p ∈ (DState.unpack t buf).1.parameters, p.dwords.length = (DState.unpack t buf).1.base.keystatus % 8 := by
  have hiff := (IENAD_accepts_iff t buf).1 h
  revert h hiff
  simp only [DState.unpack]
  cases hu : Base.unpack t.base buf with
  | mk b' r =>
    cases r with
    | error e => simp
    | ok u =>
      simp only [Lemmas.Bits.and_7, true_and]
      generalize hn : b'.keystatus % 8 = n
      intro h hm
      have hlpb : n * 2 + 4 = 2 * n + 4 := by omega
      have hz : b'.payload.length - b'.payload.length / (n * 2 + 4) * (n * 2 + 4) = 0 := by
        rw [hlpb]
        have := Nat.div_add_mod b'.payload.length (2 * n + 4)
        have h2 : b'.payload.length / (2 * n + 4) * (2 * n + 4) = (2 * n + 4) * (b'.payload.length / (2 * n + 4)) :=
          Nat.mul_comm _ _
        omega
      obtain ⟨ps, hps, hws⟩ := decDAll_ok n b'.payload (List.range (b'.payload.length / (n * 2 + 4))) (by
        intro i hi
        simp only [List.mem_range] at hi
        have h1 : (i + 1) * (n * 2 + 4) ≤ b'.payload.length / (n * 2 + 4) * (n * 2 + 4) :=
          Nat.mul_le_mul_right _ hi
        have h2 : b'.payload.length / (n * 2 + 4) * (n * 2 + 4) ≤ b'.payload.length := Nat.div_mul_le_self _ _
        rw [Nat.add_mul] at h1
        omega)
      have hl := decDAll_length _ _ _ _ hps
      simp only [hz, ne_eq, not_true_eq_false, if_false, hps, hn]
      refine ⟨?_, hws⟩
      have hq : b'.payload.length / (n * 2 + 4) * (n * 2 + 4) = b'.payload.length := by
        have := Nat.div_mul_le_self b'.payload.length (n * 2 + 4); omega
      rw [hl, List.length_range, ← hlpb]
      exact hq

/-- witnesses (keystatus 2 → two data words, 8 bytes per parameter): 16 payload bytes = two parameters accepted,
    each with 2 words; 14 payload bytes (one parameter and 6 stray bytes) rejected with ValueError -/
example : (DState.unpack DState.fresh ([0,1, 0,16, 0,0, 0,0,0,5, 2,0, 0,9] ++ [0,1,0,2,0,3,0,4, 0,5,0,6,0,7,0,8] ++
    [0xDE,0xAD])).2 = .ok () := by rfl
example : (DState.unpack DState.fresh ([0,1, 0,16, 0,0, 0,0,0,5, 2,0, 0,9] ++ [0,1,0,2,0,3,0,4, 0,5,0,6,0,7,0,8] ++
    [0xDE,0xAD])).1.parameters.map (·.dwords) = [[3,4],[7,8]] := by rfl
example : (DState.unpack DState.fresh ([0,1, 0,15, 0,0, 0,0,0,5, 2,0, 0,9] ++ [0,1,0,2,0,3,0,4, 0,5,0,6,0,7] ++
    [0xDE,0xAD])).2 = .error .value := by rfl
example : 8 + (2 * 2 + 4) ≤ ([0,1,0,2,0,3,0,4, 0,5,0,6,0,7,0,8] : Bytes).length := by decide

theorem decNAll_length (dwc : Nat) (payload : Bytes) (l : List Nat) (ps : List NParam)
    (h : decNAll dwc payload l = .ok ps) : ps.length = l.length := by
  induction l generalizing ps with
  | nil => simp [decNAll] at h; subst h; rfl
  | cons i is ih =>
    simp only [decNAll] at h
    split at h
    · cases h
    · split at h
      · simp only [Except.ok.injEq] at h; subst h; simp [ih _ (by assumption)]
      · cases h

/-- IENA-N, accepted ⇒ nothing truncated, padded or partially returned: as many parameters as whole
    `2n+2`-byte groups, covering the payload exactly, each with its full `n` data words -/
theorem IENAN_accepted_exact (t : NState) (buf : Bytes) (h : (NState.unpack t buf).2 = .ok ()) :
    (NState.unpack t buf).1.parameters.length * (2 * ((NState.unpack t buf).1.base.keystatus % 8) + 2) =
      (NState.unpack t buf).1.base.payload.length ∧
    ∀ p ∈ (NState.unpack t buf).1.parameters, p.dwords.length = (NState.unpack t buf).1.base.keystatus % 8 := by
  have hiff := (IENAN_accepts_iff t buf).1 h
  revert h hiff
  simp only [NState.unpack]
  cases hu : Base.unpack t.base buf with
  | mk b' r =>
    cases r with
    | error e => simp
    | ok u =>
      simp only [Lemmas.Bits.and_7, true_and]
      generalize hn : b'.keystatus % 8 = n
      intro h hm
      have hlpb : n * 2 + 2 = 2 * n + 2 := by omega
      have hz : b'.payload.length - b'.payload.length / (n * 2 + 2) * (n * 2 + 2) = 0 := by
        rw [hlpb]
        have := Nat.div_add_mod b'.payload.length (2 * n + 2)
        have h2 : b'.payload.length / (2 * n + 2) * (2 * n + 2) = (2 * n + 2) * (b'.payload.length / (2 * n + 2)) :=
          Nat.mul_comm _ _
        omega
      obtain ⟨ps, hps, hws⟩ := decNAll_ok n b'.payload (List.range (b'.payload.length / (n * 2 + 2))) (by
        intro i hi
        simp only [List.mem_range] at hi
        have h1 : (i + 1) * (n * 2 + 2) ≤ b'.payload.length / (n * 2 + 2) * (n * 2 + 2) :=
          Nat.mul_le_mul_right _ hi
        have h2 : b'.payload.length / (n * 2 + 2) * (n * 2 + 2) ≤ b'.payload.length := Nat.div_mul_le_self _ _
        rw [Nat.add_mul] at h1
        omega)
      have hl := decNAll_length _ _ _ _ hps
      simp only [hz, ne_eq, not_true_eq_false, if_false, hps, hn]
      refine ⟨?_, hws⟩
      have hq : b'.payload.length / (n * 2 + 2) * (n * 2 + 2) = b'.payload.length := by
        have := Nat.div_mul_le_self b'.payload.length (n * 2 + 2); omega
      rw [hl, List.length_range, ← hlpb]
      exact hq

/-- witnesses (keystatus 2 → 6 bytes per parameter): 12 payload bytes accepted as two parameters of 2 words;
    14 payload bytes rejected with ValueError -/
example : (NState.unpack NState.fresh ([0,1, 0,14, 0,0, 0,0,0,5, 2,0, 0,9] ++ [0,1,0,3,0,4, 0,5,0,7,0,8] ++
    [0xDE,0xAD])).2 = .ok () := by rfl
example : (NState.unpack NState.fresh ([0,1, 0,14, 0,0, 0,0,0,5, 2,0, 0,9] ++ [0,1,0,3,0,4, 0,5,0,7,0,8] ++
    [0xDE,0xAD])).1.parameters.map (·.dwords) = [[3,4],[7,8]] := by rfl
example : (NState.unpack NState.fresh ([0,1, 0,15, 0,0, 0,0,0,5, 2,0, 0,9] ++ [0,1,0,3,0,4, 0,5,0,7,0,8, 0,9] ++
    [0xDE,0xAD])).2 = .error .value := by rfl
example : 6 + (2 * 2 + 2) ≤ ([0,1,0,3,0,4, 0,5,0,7,0,8] : Bytes).length := by decide

end Acra.Props.C09
