import Acra.Model.IENAQDN
import Acra.Lemmas.Bits
namespace Acra.Props.C09
open Acra.Py Acra.Model.IENA Acra.Gen.IENA

/-- the dataset length an IENA-Q parameter header declares: big-endian 16 bits at bytes 2..3 -/
def declaredQ (rem : Bytes) : Nat := beNat (List.drop 2 (List.take 4 rem))

/-- an IENA-Q parameter is accepted exactly when its 4-byte header is present and the declared
    dataset length lies inside the bytes that remain — at every position of a multi-parameter
    packet, because the loop applies this step to the remaining bytes -/
theorem IENAQ_param_ok_iff (rem : Bytes) :
    (∃ p n, decQ rem = .ok (p, n)) ↔ 4 ≤ rem.length ∧ declaredQ rem ≤ rem.length - 4 := by
  simp only [decQ, IENAQ_FORMAT_LEN, structUnpack, IENAQ_FORMAT, Fmt.size, codesSize, Code.size, unpackCodes,
    decInt, declaredQ, List.length_take, List.length_drop]
  by_cases h : 4 ≤ rem.length
  · have : min 4 rem.length = 2 + (2 + 0) := by omega
    simp only [this, if_true, h, true_and]
    have e : List.take 2 (List.drop 2 (List.take 4 rem)) = List.drop 2 (List.take 4 rem) := by
      apply List.take_of_length_le; simp; omega
    simp only [e]
    split <;> simp_all
  · have : ¬ (min 4 rem.length = 2 + (2 + 0)) := by omega
    simp [this, h]

/-- an accepted parameter's dataset has exactly the declared length: never truncated or padded -/
theorem IENAQ_param_exact (rem : Bytes) (p : QParam) (n : Nat) (h : decQ rem = .ok (p, n)) :
    p.dataset.length = declaredQ rem ∧ n = 4 + declaredQ rem + declaredQ rem % 2 := by
  have hok := (IENAQ_param_ok_iff rem).1 ⟨p, n, h⟩
  revert h
  simp only [decQ, IENAQ_FORMAT_LEN, structUnpack, IENAQ_FORMAT, Fmt.size, codesSize, Code.size, unpackCodes,
    decInt, declaredQ, List.length_take, List.length_drop] at hok ⊢
  have : min 4 rem.length = 2 + (2 + 0) := by omega
  simp only [this, if_true]
  have e : List.take 2 (List.drop 2 (List.take 4 rem)) = List.drop 2 (List.take 4 rem) := by
    apply List.take_of_length_le; simp; omega
  simp only [e]
  split
  · simp
  · intro h
    simp only [Except.ok.injEq, Prod.mk.injEq] at h
    obtain ⟨hp, hn⟩ := h
    subst hp hn
    simp only [slice_length]
    obtain ⟨h6, hd⟩ := hok
    generalize beNat (List.drop 2 (List.take 4 rem)) = d at *
    constructor
    · omega
    · by_cases hodd : d % 2 = 1
      · simp [hodd]
      · have : d % 2 = 0 := by omega
        simp [this]

/-! ### IENA-D / IENA-N: a whole number of parameters -/

/-- one fixed-size parameter decodes whenever its `2n + 4` bytes are inside the payload, and then has `n` words -/
theorem decD1_ok (dwc : Nat) (payload : Bytes) (off : Nat) (h : off + (dwc * 2 + 4) ≤ payload.length) :
    ∃ p, decD1 dwc payload off = .ok p ∧ p.dwords.length = dwc := by
  have hsz : (IENAD_unpack_fmt0 (dwc + 2)).size = dwc * 2 + 4 := by
    simp only [IENAD_unpack_fmt0, Fmt.size]
    induction dwc with
    | zero => rfl
    | succ n ih => simp only [List.replicate_succ, codesSize, Code.size] at ih ⊢; omega
  have hl := unpackCodes_length (IENAD_unpack_fmt0 (dwc + 2)).big (IENAD_unpack_fmt0 (dwc + 2)).codes (payload.drop off)
  simp only [decD1, structUnpackFrom, hsz, h, if_true]
  generalize unpackCodes (IENAD_unpack_fmt0 (dwc + 2)).big (IENAD_unpack_fmt0 (dwc + 2)).codes (payload.drop off) = vs at *
  simp only [IENAD_unpack_fmt0, List.length_replicate] at hl
  rcases vs with _ | ⟨pid, _ | ⟨dl, ws⟩⟩
  · simp at hl
  · simp at hl
  · exact ⟨_, rfl, by simp at hl; simpa using hl⟩

theorem decDAll_ok (dwc : Nat) (payload : Bytes) (l : List Nat)
    (h : ∀ i ∈ l, i * (dwc * 2 + 4) + (dwc * 2 + 4) ≤ payload.length) :
    ∃ ps, decDAll dwc payload l = .ok ps ∧ ∀ p ∈ ps, p.dwords.length = dwc := by
  induction l with
  | nil => exact ⟨[], rfl, by simp⟩
  | cons i is ih =>
    obtain ⟨p, hp, hw⟩ := decD1_ok dwc payload (i * (dwc * 2 + 4)) (h i (by simp))
    obtain ⟨ps, hps, hws⟩ := ih (fun j hj => h j (by simp [hj]))
    refine ⟨p :: ps, by simp [decDAll, hp, hps], ?_⟩
    intro q hq
    simp at hq
    rcases hq with rfl | hq
    · exact hw
    · exact hws q hq

/-- IENA-D accepts exactly the buffers IENA accepts whose payload is a whole number of
    `2·(keystatus & 7) + 4`-byte parameters -/
theorem IENAD_accepts_iff (t : DState) (buf : Bytes) :
    (DState.unpack t buf).2 = .ok () ↔
      (Base.unpack t.base buf).2 = .ok () ∧
      (Base.unpack t.base buf).1.payload.length % (2 * ((Base.unpack t.base buf).1.keystatus % 8) + 4) = 0 := by
  simp only [DState.unpack]
  cases hu : Base.unpack t.base buf with
  | mk b' r =>
    cases r with
    | error e => simp
    | ok u =>
      simp only [Lemmas.Bits.and_7, true_and]
      generalize hn : b'.keystatus % 8 = n
      have hlpb : n * 2 + 4 = 2 * n + 4 := by omega
      by_cases hm : b'.payload.length % (2 * n + 4) = 0
      · have hz : b'.payload.length - b'.payload.length / (n * 2 + 4) * (n * 2 + 4) = 0 := by
          rw [hlpb]
          have := Nat.div_add_mod b'.payload.length (2 * n + 4)
          have h2 : b'.payload.length / (2 * n + 4) * (2 * n + 4) = (2 * n + 4) * (b'.payload.length / (2 * n + 4)) :=
            Nat.mul_comm _ _
          omega
        obtain ⟨ps, hps, _⟩ := decDAll_ok n b'.payload (List.range (b'.payload.length / (n * 2 + 4))) (by
          intro i hi
          simp only [List.mem_range] at hi
          have h1 : (i + 1) * (n * 2 + 4) ≤ b'.payload.length / (n * 2 + 4) * (n * 2 + 4) :=
            Nat.mul_le_mul_right _ hi
          have h2 : b'.payload.length / (n * 2 + 4) * (n * 2 + 4) ≤ b'.payload.length := Nat.div_mul_le_self _ _
          rw [Nat.add_mul] at h1
          omega)
        simp [hz, hps, hm]
      · have hz : ¬ (b'.payload.length - b'.payload.length / (n * 2 + 4) * (n * 2 + 4) = 0) := by
          rw [hlpb]
          have := Nat.div_add_mod b'.payload.length (2 * n + 4)
          have h2 : b'.payload.length / (2 * n + 4) * (2 * n + 4) = (2 * n + 4) * (b'.payload.length / (2 * n + 4)) :=
            Nat.mul_comm _ _
          omega
        simp [hz, hm]

theorem decN1_ok (dwc : Nat) (payload : Bytes) (off : Nat) (h : off + (dwc * 2 + 2) ≤ payload.length) :
    ∃ p, decN1 dwc payload off = .ok p ∧ p.dwords.length = dwc := by
  have hsz : (IENAN_unpack_fmt0 (dwc + 1)).size = dwc * 2 + 2 := by
    simp only [IENAN_unpack_fmt0, Fmt.size]
    induction dwc with
    | zero => rfl
    | succ n ih => simp only [List.replicate_succ, codesSize, Code.size] at ih ⊢; omega
  have hl := unpackCodes_length (IENAN_unpack_fmt0 (dwc + 1)).big (IENAN_unpack_fmt0 (dwc + 1)).codes (payload.drop off)
  simp only [decN1, structUnpackFrom, hsz, h, if_true]
  generalize unpackCodes (IENAN_unpack_fmt0 (dwc + 1)).big (IENAN_unpack_fmt0 (dwc + 1)).codes (payload.drop off) = vs at *
  simp only [IENAN_unpack_fmt0, List.length_replicate] at hl
  rcases vs with _ | ⟨pid, ws⟩
  · simp at hl
  · exact ⟨_, rfl, by simp at hl; simpa using hl⟩

theorem decNAll_ok (dwc : Nat) (payload : Bytes) (l : List Nat)
    (h : ∀ i ∈ l, i * (dwc * 2 + 2) + (dwc * 2 + 2) ≤ payload.length) :
    ∃ ps, decNAll dwc payload l = .ok ps ∧ ∀ p ∈ ps, p.dwords.length = dwc := by
  induction l with
  | nil => exact ⟨[], rfl, by simp⟩
  | cons i is ih =>
    obtain ⟨p, hp, hw⟩ := decN1_ok dwc payload (i * (dwc * 2 + 2)) (h i (by simp))
    obtain ⟨ps, hps, hws⟩ := ih (fun j hj => h j (by simp [hj]))
    refine ⟨p :: ps, by simp [decNAll, hp, hps], ?_⟩
    intro q hq
    simp at hq
    rcases hq with rfl | hq
    · exact hw
    · exact hws q hq

/-- IENA-N: a whole number of `2·(keystatus & 7) + 2`-byte parameters -/
theorem IENAN_accepts_iff (t : NState) (buf : Bytes) :
    (NState.unpack t buf).2 = .ok () ↔
      (Base.unpack t.base buf).2 = .ok () ∧
      (Base.unpack t.base buf).1.payload.length % (2 * ((Base.unpack t.base buf).1.keystatus % 8) + 2) = 0 := by
  simp only [NState.unpack]
  cases hu : Base.unpack t.base buf with
  | mk b' r =>
    cases r with
    | error e => simp
    | ok u =>
      simp only [Lemmas.Bits.and_7, true_and]
      generalize hn : b'.keystatus % 8 = n
      have hlpb : n * 2 + 2 = 2 * n + 2 := by omega
      by_cases hm : b'.payload.length % (2 * n + 2) = 0
      · have hz : b'.payload.length - b'.payload.length / (n * 2 + 2) * (n * 2 + 2) = 0 := by
          rw [hlpb]
          have := Nat.div_add_mod b'.payload.length (2 * n + 2)
          have h2 : b'.payload.length / (2 * n + 2) * (2 * n + 2) = (2 * n + 2) * (b'.payload.length / (2 * n + 2)) :=
            Nat.mul_comm _ _
          omega
        obtain ⟨ps, hps, _⟩ := decNAll_ok n b'.payload (List.range (b'.payload.length / (n * 2 + 2))) (by
          intro i hi
          simp only [List.mem_range] at hi
          have h1 : (i + 1) * (n * 2 + 2) ≤ b'.payload.length / (n * 2 + 2) * (n * 2 + 2) :=
            Nat.mul_le_mul_right _ hi
          have h2 : b'.payload.length / (n * 2 + 2) * (n * 2 + 2) ≤ b'.payload.length := Nat.div_mul_le_self _ _
          rw [Nat.add_mul] at h1
          omega)
        simp [hz, hps, hm]
      · have hz : ¬ (b'.payload.length - b'.payload.length / (n * 2 + 2) * (n * 2 + 2) = 0) := by
          rw [hlpb]
          have := Nat.div_add_mod b'.payload.length (2 * n + 2)
          have h2 : b'.payload.length / (2 * n + 2) * (2 * n + 2) = (2 * n + 2) * (b'.payload.length / (2 * n + 2)) :=
            Nat.mul_comm _ _
          omega
        simp [hz, hm]

end Acra.Props.C09
