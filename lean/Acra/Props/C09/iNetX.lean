import Acra.Model.iNetX
namespace Acra.Props.C09
open Acra.Py Acra.Model.iNetX Acra.Gen.iNetX

/-- iNetX accepts a buffer exactly when it holds a whole header and the big-endian length word at
    bytes 12..15 equals the real buffer length; and then nothing is truncated or padded. -/
theorem iNetX_accepts_iff (t : State) (buf : Bytes) :
    (unpack t buf).2 = .ok () ↔ 28 ≤ buf.length ∧ beNat (slice buf 12 16) = buf.length := by
  simp only [unpack, iNetX_INETX_HEADER_LENGTH, structUnpackFrom, iNetX_INETX_HEADER_FORMAT, Fmt.size,
    codesSize, Code.size, unpackCodes, decInt, Nat.zero_add, List.drop_zero]
  by_cases h : buf.length < 28
  · simp [h]; omega
  · have h' : 28 ≤ buf.length := by omega
    simp only [h, h', if_false, if_true, true_and, ne_eq, ite_not]
    have : slice buf 12 16 = List.take 4 (List.drop 4 (List.drop 4 (List.drop 4 buf))) := by
      simp [slice, List.drop_drop, List.take_drop]
    rw [this]
    split <;> simp_all

theorem iNetX_accepted_payload_exact (t : State) (buf : Bytes) (h : (unpack t buf).2 = .ok ()) :
    (unpack t buf).1.payload = buf.drop 28 ∧ (unpack t buf).1.packetlen = buf.length := by
  have hh := (iNetX_accepts_iff t buf).1 h
  revert h
  simp only [unpack, iNetX_INETX_HEADER_LENGTH, structUnpackFrom, iNetX_INETX_HEADER_FORMAT, Fmt.size,
    codesSize, Code.size, unpackCodes, decInt, Nat.zero_add, List.drop_zero]
  have h' : ¬ buf.length < 28 := by omega
  have h'' : 28 ≤ buf.length := by omega
  simp only [h', h'', if_false, if_true, ne_eq, ite_not]
  split <;> simp_all

/-- witnesses (control 0x11000000, stream 0xDC, sequence 1, PTP 5 s / 6 ns, 2 payload bytes): length word 30 on a
    30-byte buffer accepted and the payload returned whole; length word 31 / 29 on the same bytes rejected; the
    same 30-declaring packet with a byte appended or removed rejected; a 27-byte buffer rejected -/
example : (unpack fresh ([0x11,0,0,0, 0,0,0,0xDC, 0,0,0,1, 0,0,0,30, 0,0,0,5, 0,0,0,6, 0,0,0,0] ++ [7,8])).2 = .ok () := by rfl
example : (unpack fresh ([0x11,0,0,0, 0,0,0,0xDC, 0,0,0,1, 0,0,0,30, 0,0,0,5, 0,0,0,6, 0,0,0,0] ++ [7,8])).1.payload = [7,8] := by rfl
example : (unpack fresh ([0x11,0,0,0, 0,0,0,0xDC, 0,0,0,1, 0,0,0,31, 0,0,0,5, 0,0,0,6, 0,0,0,0] ++ [7,8])).2 = .error .value := by rfl
example : (unpack fresh ([0x11,0,0,0, 0,0,0,0xDC, 0,0,0,1, 0,0,0,29, 0,0,0,5, 0,0,0,6, 0,0,0,0] ++ [7,8])).2 = .error .value := by rfl
example : (unpack fresh ([0x11,0,0,0, 0,0,0,0xDC, 0,0,0,1, 0,0,0,30, 0,0,0,5, 0,0,0,6, 0,0,0,0] ++ [7,8,9])).2 = .error .value := by rfl
example : (unpack fresh ([0x11,0,0,0, 0,0,0,0xDC, 0,0,0,1, 0,0,0,30, 0,0,0,5, 0,0,0,6, 0,0,0,0] ++ [7])).2 = .error .value := by rfl
example : (unpack fresh [0x11,0,0,0, 0,0,0,0xDC, 0,0,0,1, 0,0,0,27, 0,0,0,5, 0,0,0,6, 0,0,0]).2 = .error .value := by rfl

end Acra.Props.C09
