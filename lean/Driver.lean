import Acra.Drv.All
import Acra.Drv.Container
open Acra.Drv

partial def loop (h : IO.FS.Stream) (out : IO.FS.Stream) : IO Unit := do
  let line ← h.getLine
  if line.isEmpty then return ()
  out.putStrLn (handleLine (ContainerC.containerCodecs ++ allCodecs) (ContainerC.containerFuncs ++ allFuncs) line)
  loop h out

def main : IO Unit := do
  let stdin ← IO.getStdin
  let stdout ← IO.getStdout
  loop stdin stdout
  stdout.flush
