import Acra.Py.Basic
import Acra.Py.Struct
import Acra.Py.Val
import Acra.Drv.All
