import Acra.Drv.SpecAll
open Acra.Drv

partial def loop (h : IO.FS.Stream) (out : IO.FS.Stream) : IO Unit := do
  let line ← h.getLine
  if line.isEmpty then return ()
  out.putStrLn (handleLine [] specFuncs line)
  loop h out

def main : IO Unit := do
  let stdin ← IO.getStdin
  let stdout ← IO.getStdout
  loop stdin stdout
  stdout.flush
