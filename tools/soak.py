#!/usr/bin/env python3
"""Run every claimed check on the unchanged tree with several seeds (in parallel) and report any run
that does not exit 0.  Usage: tools/soak.py [--seeds 0,1,2,3,4] [--tier quick] [--jobs 6] [Cxx ...]"""
import json, os, sys, subprocess, concurrent.futures, time
VERIF = os.path.dirname(os.path.dirname(os.path.abspath(__file__)))
args = sys.argv[1:]
seeds, tier, jobs, pids = [0, 1, 2, 3, 4], "quick", 6, []
i = 0
while i < len(args):
    if args[i] == "--seeds": seeds = [int(x) for x in args[i + 1].split(",")]; i += 2
    elif args[i] == "--tier": tier = args[i + 1]; i += 2
    elif args[i] == "--jobs": jobs = int(args[i + 1]); i += 2
    else: pids.append(args[i]); i += 1
if not pids:
    pids = [c["property_id"] for c in json.load(open(os.path.join(VERIF, "MANIFEST.json")))["checks"]]
def one(t):
    pid, seed = t
    t0 = time.time()
    p = subprocess.run(["/venv/bin/python", os.path.join(VERIF, "check.py"), pid, "--tier", tier], cwd=VERIF,
                       env=dict(os.environ, VERIF_SEED=str(seed)), stdout=subprocess.PIPE, stderr=subprocess.STDOUT)
    out = "\n".join(l for l in p.stdout.decode(errors="replace").split("\n") if "WARNING conda" not in l and not l.startswith("KNOWN-FINDING"))
    return pid, seed, p.returncode, time.time() - t0, out
bad = 0
with concurrent.futures.ThreadPoolExecutor(max_workers=jobs) as ex:
    for pid, seed, rc, dt, out in ex.map(one, [(p, s) for s in seeds for p in pids]):
        if rc != 0:
            bad += 1
            print("FAIL %s seed=%d rc=%d (%.0fs)\n%s" % (pid, seed, rc, dt, out[-1500:]), flush=True)
        else:
            print("ok   %s seed=%d %.0fs" % (pid, seed, dt), flush=True)
print("runs that did not exit 0:", bad)
