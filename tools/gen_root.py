#!/usr/bin/env python3
"""Rewrite lean/Acra.lean so that it imports every module of the library (setup builds them all)."""
import os
VERIF = os.path.dirname(os.path.dirname(os.path.abspath(__file__)))
root = os.path.join(VERIF, "lean", "Acra")
mods = []
for d, _, fs in os.walk(root):
    for f in fs:
        if f.endswith(".lean"):
            rel = os.path.relpath(os.path.join(d, f), os.path.join(VERIF, "lean"))[:-5].replace(os.sep, ".")
            mods.append(rel)
text = "".join("import %s\n" % m for m in sorted(mods))
p = os.path.join(VERIF, "lean", "Acra.lean")
if not os.path.exists(p) or open(p).read() != text:
    open(p, "w").write(text)
print(len(mods), "modules")
