#!/usr/bin/env python3
"""
Negative tests of the source translator (harness/translate.py): Python functions OUTSIDE the checked subset must be
refused with an error that names the construct (never translated approximately), and two functions inside it must
translate.  Run after changing the translator:   /venv/bin/python tools/srctie_negative.py     (exit 0 = as expected)
"""
import os, sys, tempfile, shutil
VERIF = os.path.dirname(os.path.dirname(os.path.abspath(__file__)))
sys.path.insert(0, os.path.join(VERIF, "harness"))
import translate

SOURCE = '''
import struct
from functools import reduce
K = 3
T = [1, 2, 3]
def alias(n: int) -> int:
    a = [0] * 4
    b = a
    b[0] = n
    return a[0]
def param_mut(t, n: int) -> int:
    t[0] = n
    return n
def shadow(b: bytes) -> int:
    sum = 3
    return sum([1, 2])
def unbound(n: int) -> int:
    if n > 0:
        K = 5
    return K
def capture(n: int, t) -> int:
    k = n
    return reduce(lambda x, y: x + y + k, t)
def divzero(a: int, b: int) -> int:
    return a // b
def negshift(a: int, b: int) -> int:
    return a >> b
def whileloop(a: int) -> int:
    while a > 0:
        a -= 1
    return a
def retnone(a: int):
    if a > 0:
        return 1
def floaty(a: int) -> int:
    return int(a / 2)
def strfmt(a: int) -> int:
    return int(str(a))
def iter_mut(n: int) -> int:
    t = [1, 2, 3]
    for x in t:
        t[0] = x + n
    return t[0]
def native(a: int, b: int) -> bytes:
    return struct.pack("HI", a, b)
def signed(b: bytes) -> int:
    (x,) = struct.unpack("<h", b)
    return x
def okfun(a: int, b: bytes) -> int:
    t = [0] * 3
    t[1] = a
    for i in range(len(b)):
        t[2] += b[i] >> 1
    return t[1] + t[2] + K
class P:
    def __init__(self, a=0):
        self.a = a
    def setter(self, n):
        self.a = n
        return n
    def tabset(self, n):
        self.t[0] = n
        return n
def dictuse(n: int) -> int:
    d = {1: 2, 3: 4}
    r = 0
    for k, v in d.items():
        r += k * v + n
    return r + len(d)
def whilebreak(a: int) -> int:
    while a > 0:
        a -= 1
        if a == 3:
            break
    return a
def negpow(a: int, b: int) -> int:
    return a ** b
def loopleak(n: int) -> int:
    r = 0
    for i in range(n):
        r += i
    return r + i
def condraise(b: bytes, i: int) -> int:
    return b[i] if i >= 0 else 0
def bytes_mut(b: bytes) -> bytes:
    b[0::2] = b[1::2]
    return b
def decorated_helper(f):
    return f
@decorated_helper
def decorated(a: int) -> int:
    return a
def tryit(a: int) -> int:
    try:
        return a
    except Exception:
        return 0
def compr(b: bytes) -> int:
    return sum([x for x in b])
def compr_len(b: bytes) -> int:
    return len([x for x in b])
def kwcall(b: bytes) -> int:
    return int.from_bytes(b, byteorder="big")
def decimal_unbounded(a: int) -> int:
    from decimal import Decimal
    return int(Decimal(a) * Decimal(a))
import sys
PY3 = sys.version_info > (3,)
PLAT = sys.platform == "linux"
def append_param(t, n: int) -> int:
    t.append(n)
    return n
def append_alias(n: int) -> int:
    a = [1]
    b = a
    a.append(n)
    return b[0]
def append_value(n: int) -> int:
    a = [1]
    x = a.append(n)
    return n
def tuple_store(n: int) -> int:
    a = [1, 2]
    t = tuple(a)
    t[n] = 3
    return t[0]
def store_raise(n: int) -> int:
    a = [1, 2]
    a[n] = 3
    return a[0]
def two_whiles(a: int) -> int:
    b = []
    while a > 0:
        c = a
        while c > 0 and b[c] == 0:
            c -= 1
        b.append(c)
        a -= 1
    return len(b)
def py3(a: int) -> int:
    if PY3:
        return a
    else:
        return ord(a)
def plat(a: int) -> int:
    if PLAT:
        return a
    return 0
PAIRS = ((1, 0), (10, 4))
def gen_sum(b: bytes) -> int:
    return sum(b[i] << 1 for i in range(len(b)))
def gen_sum_if(b: bytes) -> int:
    return sum(x for x in b if x > 3)
def gen_sum_raise(b: bytes, n: int) -> int:
    return sum(b[i] for i in range(n))
def _helper(t, n: int) -> int:
    return sum(t) + n
def uses_helper(b: bytes, n: int) -> int:
    w = struct.unpack("<{}H".format(len(b) // 2), b)
    return _helper(w, n)
def pair_loop(v: int) -> int:
    r = 0
    for d, o in PAIRS:
        r += (v * d) << o
    return r
def pairs_value(v: int) -> int:
    return len(PAIRS) + v
class Q(object):
    def fill(self, n: int):
        for x in range(4):
            self.t[x] = n
        return True
    def fill_other(self, n: int):
        self.t[0] = n
        self.u[0] = n
        return True
def _halves(v):
    return (v >> 12) & 0xfff, v & 0xfff
def _not_tuple(v):
    w = v + 1
    return w, v
def two(a: int, b: int) -> int:
    return a ^ b
def star_ok(v: int) -> int:
    return two(*_halves(v))
def star_bad(v: int) -> int:
    return two(*_not_tuple(v))
def star_expr(v: int) -> int:
    return two(*_halves(v + 1))
import logging
logger = logging.getLogger(__name__)
def effect(x):
    return x
def if_call(a: int) -> int:
    if a > 3:
        effect(a)
    return a
def if_print(a: int) -> int:
    if a > 3:
        print(a)
    else:
        pass
    return a
def if_raise(b: bytes, a: int) -> int:
    if a > 3:
        y = b[10]
    return a
def if_store_call(a: int) -> int:
    t = [0, 0]
    if a > 3:
        t.__setitem__(0, a)
    return t[0]
def if_append(a: int) -> int:
    t = [0]
    if a > 3:
        t.append(a)
    return len(t)
def if_log(a: int) -> int:
    if a > 3:
        logger.warning("big")
        logging.info("value %d", a)
    elif a < 0:
        pass
    return a
def if_log_arg(b: bytes, a: int) -> int:
    if a > 3:
        logger.warning("big %d", b[a])
    return a
def if_temp(a: int) -> int:
    if a > 3:
        y = a + 1
    return a
def binones(a: int, n: int) -> int:
    return bin(a)[2:n + 2].count('1')
def cond_raise_while(b: bytes, j: int) -> int:
    while j > 0 and b[j] != 0:
        j -= 1
    return j
'''
PT = ("P", [("a", "int"), ("t", "ints")])
CASES = [   # (function, extra spec, expected substring of the error | None = must translate)
    ("alias", {}, "mutated in place"),
    ("param_mut", {"params": {"t": "ints"}}, "mutated in place"),
    ("shadow", {}, "re-bound"),
    ("unbound", {}, "may be unbound"),
    ("capture", {"params": {"t": "ints"}}, "may be unbound"),
    ("divzero", {}, None),                                   # translates, with the raising Py.floordivE
    ("negshift", {}, "shift count"),
    ("whileloop", {}, "declares no `fuel`"),
    ("whileloop", {"fuel": "a"}, None),
    ("retnone", {"params": {"a": "int"}}, "returns None"),
    ("floaty", {}, "int(a / c)"),
    ("strfmt", {}, "call of str"),
    ("iter_mut", {}, "iterates over"),
    ("native", {}, "native-alignment"),
    ("signed", {}, "signed struct code"),
    ("okfun", {}, None),
    ("P.setter", {"params": {"self": PT, "n": "int"}}, "assignment to the attribute"),
    ("P.tabset", {"params": {"self": PT, "n": "int"}}, "assignment to the attribute"),
    ("dictuse", {}, "used exactly once"),
    ("whilebreak", {"fuel": "a"}, "Break inside a while"),
    ("negpow", {}, "exponent"),
    ("loopleak", {}, "may be unbound"),
    ("condraise", {}, "conditionally evaluated"),
    ("bytes_mut", {}, "mutated in place"),
    ("decorated", {}, "decorator"),
    ("tryit", {}, "Try"),
    ("compr", {}, None),                                     # sum([x for x in b]): inside the subset since `sum(<comprehension>)`
    ("compr_len", {}, "ListComp"),
    ("kwcall", {}, "keyword arguments"),
    ("decimal_unbounded", {}, "not in the subset"),
    ("append_param", {"params": {"t": "ints"}}, "mutated in place"),
    ("append_alias", {}, "mutated in place"),
    ("append_value", {}, "call of a.append"),
    ("tuple_store", {}, "mutated in place"),
    ("store_raise", {}, None),                               # translates, with the raising Py.setItem
    ("two_whiles", {"fuel": "a + 1"}, None),                 # nested loops, one fuel expression for both
    ("two_whiles", {"fuel": ["a + 1"]}, "1 `fuel` expressions for 2 while loops"),
    ("two_whiles", {"fuel": ["a + 1", "c + 1"]}, None),
    ("py3", {}, None),                                       # `sys.version_info > (3,)`: the Python-3 branch only
    ("plat", {}, "sys.platform is not in the subset"),                       # any other module-level Bool is not a constant of the subset
    ("cond_raise_while", {"fuel": "j + 1"}, None),
    ("gen_sum", {}, None),                                   # sum over a generator expression
    ("gen_sum_if", {}, "no `if`"),
    ("gen_sum_raise", {}, "conditionally evaluated"),         # an element that can raise (IndexError) is refused
    ("uses_helper", {}, None),                               # _helper is translated on demand
    ("pair_loop", {}, None),                                 # for d, o in <module table of int pairs>
    ("pairs_value", {}, "len() of pairs"),
    ("Q.fill", {"params": {"self": ("Q", [("t", "ints")]), "n": "int"}, "mutates": ["t"]}, None),
    ("Q.fill", {"params": {"self": ("Q", [("t", "ints")]), "n": "int"}}, "assignment to the attribute"),
    ("Q.fill_other", {"params": {"self": ("Q", [("t", "ints"), ("u", "ints")]), "n": "int"}, "mutates": ["t"]},
     "assignment to the attribute"),
    ("two", {}, None),
    ("star_ok", {}, None),                                   # f(*h(v)) with h a one-line tuple-returning helper
    ("star_bad", {}, "single `return"),
    ("star_expr", {}, "only names / constants"),
    # an `if` that assigns nothing live is never dropped unseen: its branches are validated statement by statement
    ("if_call", {}, "statement Expr is not in the subset"),
    ("if_print", {}, "statement Expr is not in the subset"),
    ("if_raise", {}, "can raise"),
    ("if_store_call", {}, "statement Expr is not in the subset"),
    ("if_append", {}, None),                                 # the append is translated (a conditional `t ++ [a]`), not dropped
    ("if_log", {}, None),                                    # logging only: left out, with a note
    ("if_log_arg", {}, "logging call with an argument"),
    ("if_temp", {}, None),                                   # a dead, pure assignment: left out
    ("binones", {}, "cannot show it is >= 0"),
    ("binones", {"ranges": {"n": (0, 64)}}, None),           # short-circuit `and` with a raising right operand

]

def main():
    d = tempfile.mkdtemp(prefix="srctie_neg_")
    try:
        os.makedirs(os.path.join(d, "AcraNetwork"))
        with open(os.path.join(d, "AcraNetwork", "neg.py"), "w") as f:
            f.write(SOURCE)
        translate.REPO = d
        bad = 0
        for func, extra, want in CASES:
            m = translate.Module("AcraNetwork/neg.py", "Neg")
            try:
                translate.translate_function(m, dict(func=func, **extra))
                got = None
            except translate.TranslationError as e:
                got = str(e)
            ok = (want is None and got is None) or (want is not None and got is not None and want in got)
            print("%-4s %-20s %s" % ("ok" if ok else "BAD", func, "translated" if got is None else got))
            bad += not ok
        print("negative tests: %d cases, %d unexpected" % (len(CASES), bad))
        return 1 if bad else 0
    finally:
        shutil.rmtree(d, ignore_errors=True)

if __name__ == "__main__":
    sys.exit(main())
