#!/usr/bin/env python3
"""Rewrite MANIFEST.json from the state of the tree: a property is claimed when it has a property module
(harness/props/Cxx.py) and at least one theorem file (lean/Acra/Props/Cxx/*.lean); otherwise it is listed
under not_applicable with the reason given in PENDING (or a generic one)."""
import json, os, glob
VERIF = os.path.dirname(os.path.dirname(os.path.abspath(__file__)))
props = [json.loads(l) for l in open(os.path.join(VERIF, "properties.jsonl"))]

TEXT = {
 "C01": "pack() = declarative wire layout (Spec), computed length fields, padding in every residue class, round trip into an object in any prior state and byte-identical re-encode; decode-only layouts for IENA-D/N and typed NPD segments; len() = length of the packed bytes and getitem = the i-th encoded element for the container classes",
 "C02": "Ethernet/IPv4/UDP/ARP layouts = Spec for every nesting (VLAN, FCS), round trips, re-encode of decoded option-less IPv4 headers incl. flags and fragment offset, payload transparency through the pcap-record/Ethernet/IPv4/UDP stack with trailing pad; AFDX layout; pack48/unpack48 tied to their current source by theorem (src_*)",
 "C03": "Chapter 10 UDP transfer header formats 1/2/3 and Chapter 11 header: layout = Spec, round trip, packet length = emitted length, multiple of 4, filler rule, secondary header; format-2 round trip is a _partial theorem (known finding K1)",
 "C04": "Chapter 11 data payload codecs (PCM, UART, 1553, ARINC-429, time formats 1/2, analog, computer-generated, video): layout = Spec, round trip of messages in order with time stamps and status bits, append()-built payloads accepted; calendar and NTP-fraction laws",
 "C05": "pcap files as byte strings: standard global header, write sessions irrelevant, read = write by iteration and index, every truncation offset yields the complete records then at most one shortened record",
 "C06": "MPEG-TS packet = 188 bytes with ISO 13818-1 header, adaptation-field length byte = adaptation bytes that follow for every combination of optional parts, extension layout as coded (= ISO with length byte + 1, proved), PMT/PES/STANAG round trips, N packets in → N out, re-encode of any decoded packet never raises struct.error/TypeError; PES optional-header detection is a _partial theorem (known finding K2)",
 "C07": "the checksum / CRC helper functions as regenerated from their current source equal the model for all inputs (src_* tie theorems); every integrity field equals the standard algorithm (RFC 1071 with the byte-order theorem, IEEE 802.3 CRC-32, CRC-32/MPEG-2, IRIG 106 sums, MISB sum) of the protected bytes; every single-bit flip of an Ethernet frame with FCS, of the STANAG 4609 protected bytes in the raw TS packet and of a PMT section outside its section_length bits is rejected by the decoder (program_info_length flips always; section_length flips unless the CRC of the moved range coincides - exact condition proved, forged witness = known finding K8)",
 "C08": "every decoder loop has enough fuel for every buffer (termination) with a work bound items <= bytes; packet-level outcome lists (which exception, exactly when) for the container decoders; bounded-piece read of Pcap.next (memory clause); on the real code every unpack runs under a watchdog and an allocation ceiling",
 "C09": "each acceptance check as an iff theorem over all buffers, for the container decoders as a declarative walk over the bytes (FitsSegs / FitsPkgs) with the rejections per exception kind; accepted elements have exactly the declared length (never truncated or padded)",
 "C10": "Chapter 7: termination and frames of exactly the configured length for ANY traffic and every L >= 1 (unconditional: frames_len_any), byte conservation, emitted frames = Spec.Ch7.frames, payload stream = concatenated Golay-protected PTDPs (prefix law), fragmentation law, offset field law, decapsulate∘encapsulate for normal traffic, and for low-latency traffic under the decidable hypothesis NoLLPOverflow (decap_encap_llp; the overflow case is known finding K3)",
 "C11": "Golay(24,12): the encode table, syndrome and decode steps as regenerated from the current source equal the model (src_* tie theorems); systematic, corrects every <=3-bit error and flags every 4-bit error for all 4096 values x all patterns (linearity + kernel-evaluated finite obligations, no native_decide)",
 "C12": "Chapter 10 file as a byte string: write then iterate returns the same byte strings, sync-free junk is skipped, every truncation offset yields exactly the complete packets, items <= bytes",
 "C13": "pack idempotent and field-preserving for every state (incl. PMT, STANAG 4609); a successful unpack is independent of any prior state (same codec options); len / getitem after unpack depend on the bytes only; histories, two live objects, forwarded values, internal aliasing and input forms compared on the real code",
 "C14": "eq a b -> identical encoding; decode(encode a) == a (incl. MPEGTS, PMT, PES, STANAG 4609, time formats under decidable canonical forms); comparison with a foreign operand is False, never an exception: eqOp theorems for every class that defines __eq__, the isinstance guards regenerated from the source",
 "C15": "PTPTime arithmetic / ordering / pink-sheet RTC and the PTS bit layout as regenerated from the current source equal the model (src_* tie theorems, incl. the float % and // and Decimal steps under the 32-bit ranges); PTP/RTC carriage, exact add/sub, ordering = lexicographic, BCD inverse, pinksheet RTC, PTS bit layout and tick round trip, IENA time-of-year inverse; float steps proved for every rounding function with the two binary64 facts and for the executable round-to-nearest-even model (rne_floatSem), which is compared with CPython bit for bit",
 "C16": "IPv4 reassembly: result invariant under every permutation of fragments with distinct offsets (List.Perm), payload/headers/cleared fragmentation fields, refusals",
 "C17": "endianness_swap as regenerated from its current source equals the model for every buffer and group size (src_*); KMP.search and Horspool = ascending list of all occurrences (sound and complete, all texts, all non-empty patterns); byte swap layout, involution, refusals; PCM frame size from two sync words",
 "C18": "SAM/DEC pcap decommutation returns exactly the frames carried, foreign packets ignored (composition of pcap reading, UDP filter, iNetX acceptance, Horspool, slicing)",
 "C19": "legacy Chapter10 namespace: binding tables regenerated from the source with ast, same objects / only a DeprecationWarning / Chapter10 = Chapter11 constants, decided by `decide` over the finite tables and checked in a fresh interpreter",
 "C20": "PTDP and PTFR header words decode to the same fields under every <=3-bit error pattern per protected word (from C11 + xor on big-endian bytes = xor on the word)",
}
PENDING = {}

def main():
    man_path = os.path.join(VERIF, "MANIFEST.json")
    m = json.load(open(man_path))
    checks, na = [], []
    for p in props:
        pid = p["id"]
        has_mod = os.path.exists(os.path.join(VERIF, "harness", "props", pid + ".py"))
        has_thm = bool(glob.glob(os.path.join(VERIF, "lean", "Acra", "Props", pid, "*.lean")))
        if has_mod and has_thm and pid not in PENDING:
            files = sorted(os.path.basename(f)[:-5] for f in glob.glob(os.path.join(VERIF, "lean", "Acra", "Props", pid, "*.lean")))
            checks.append({
                "property_id": pid,
                "quick_cmd": "python3 check.py %s --tier quick" % pid,
                "thorough_cmd": "python3 check.py %s --tier thorough" % pid,
                "evidence_file": "evidence/%s.json" % pid,
                "replay_cmd_template": "python3 check.py %s --replay {path}" % pid,
                "engine": "lean-proof+correspondence",
                "level_claimed": {"category": "proof",
                    "text": "Lean 4 theorems — " + TEXT[pid] + " — about an executable model whose constants (and, where listed, helper-function definitions: theorems `src_*`) are regenerated from the source on every run; the model is tied to the code by a differential line-protocol check run on every invocation; Python oracles only search for a concrete failing input. Theorem files: " + ", ".join(files) + " (theorem names, axioms and `_partial` statements are in the evidence file and DESIGN.md §5/§12).",
                    "design_ref": "DESIGN.md §5 " + pid + ", §12"},
                "level_note": "Trusted: Lean kernel; axioms propext/Classical.choice/Quot.sound only (audited each run); harness/extract.py and harness/translate.py with the prelude Acra/Py/IntOps.lean; driver line protocol and canonicalisation; the hand-written models answer to the code only on the operations generated in each run; platform assumptions of DESIGN §7.",
                "technique": "Lean 4 machine-checked proof over a model + constants (and, for the pure helper functions, definitions) regenerated from the source by a translator + differential correspondence"})
        else:
            na.append({"property_id": pid, "reason": PENDING.get(pid, "check under construction (Lean model, theorems and correspondence per DESIGN.md §5 %s not merged yet); not claimed until it runs clean on the unchanged tree" % pid)})
    m["checks"] = checks
    m["not_applicable"] = na
    m["engines"][0]["serves_properties"] = [c["property_id"] for c in checks]
    json.dump(m, open(man_path, "w"), indent=1)
    print("claimed:", " ".join(c["property_id"] for c in checks))
    print("not claimed:", " ".join(x["property_id"] for x in na))

if __name__ == "__main__":
    main()
