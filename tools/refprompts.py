#!/usr/bin/env python3
"""Briefs for sub-agents that write HARMLESS (behaviour-preserving) rewrites of the library: used to measure how the
checks behave on code where every property still holds (false alarms / `no-failing-input-found` after a refactoring).
Usage: tools/refprompts.py <outdir> [Cxx ...]   creates <outdir>/<Cxx>-wt (worktree of /repo), <outdir>/<Cxx>-outR/ and
<outdir>/PROMPTR-<Cxx>.md.  Each agent gets only the property text and its worktree (nothing from /verif)."""
import json, subprocess, os, sys
HERE = os.path.dirname(os.path.dirname(os.path.abspath(__file__)))
def main():
    outdir = sys.argv[1]
    only = set(sys.argv[2:])
    props = [json.loads(l) for l in open(os.path.join(HERE, "properties.jsonl"))]
    os.makedirs(outdir, exist_ok=True)
    for p in props:
        pid = p["id"]
        if only and pid not in only:
            continue
        wt, out = "%s/%s-wt" % (outdir, pid), "%s/%s-outR" % (outdir, pid)
        if not os.path.exists(wt):
            subprocess.run(["git", "-C", "/repo", "worktree", "add", "-q", "--detach", wt, "HEAD"], check=True)
        os.makedirs(out, exist_ok=True)
        open("%s/PROMPTR-%s.md" % (outdir, pid), "w").write(f"""You are a careful maintainer of the pure-Python library diarmuidcwc/AcraNetwork
(pack/unpack codecs for flight-test-instrumentation packet formats).

Your own scratch checkout of the library is the git worktree {wt} (detached HEAD). Work ONLY there and in {out}.
Do not read, list or use anything under /verif or other directories of {outdir}, and do not touch /repo itself.

The property below holds of the library today and MUST STILL HOLD after your changes:

  id: {pid}
  title: {p['title']}
  statement: {p['statement']}
  quantified over: {p['quantifier']['text']}
  code it is anchored in: {', '.join(p['anchors']['files'])}

TASK. Produce THREE independent, realistic, BEHAVIOUR-PRESERVING rewrites (call them R1, R2, R3) of code the property is
anchored in — the kind of refactoring / clean-up / micro-optimisation a maintainer commits: e.g. rename locals; reorder
independent statements; extract a helper function or inline one; replace a loop by a comprehension / `b"".join` /
`int.from_bytes` / a precompiled `struct.Struct` (or the reverse); rewrite a bit expression equivalently
(`(s >> 16) + (s & 0xFFFF)` -> `(s & 0xFFFF) + (s >> 16)`, `x * 4` -> `x << 2`, `0xFFFF` -> `65535`, `% 65536` -> `& 0xFFFF`
where operands are non-negative); replace `if len(x) < N: raise` by an equivalent formulation; hoist a constant to a class
attribute or module constant (or the reverse); change an f-string / error MESSAGE text (not the exception TYPE); add type
annotations, docstrings, `__slots__`-free tidy-ups; split a long method in two. Make the three of different kinds, and make
at least one of them touch an arithmetic / struct-format / bit-mask expression (rewritten equivalently).
Each rewrite must
 (1) leave the observable behaviour of every public class / function IDENTICAL for ALL inputs and histories (same return
     values, same attribute values after each call, same exception types in the same situations, same object
     identity / aliasing behaviour, same behaviour of the deprecated import paths) — argue this in meta.json,
 (2) keep the whole existing test suite passing unchanged:
     `cd {wt} && /venv/bin/python -m pytest -q -p no:cacheprovider --timeout=900 --continue-on-collection-errors` -> `156 passed`
     (first check from that directory that `/venv/bin/python -c "import AcraNetwork; print(AcraNetwork.__file__)"` prints a
     path under {wt}),
 (3) be small (up to ~25 changed lines). Many source files have CRLF line endings: preserve them (edit with a Python
     script doing a binary replace) so that `git diff` shows only your lines.
For each rewrite Z in {{R1, R2, R3}} write into {out}/Z/ :
  patch.diff   `git -C {wt} diff` of that rewrite alone (reset with `git -C {wt} checkout -- .` between them),
  equiv.py     a small standalone program (run as `cd <checkout> && /venv/bin/python equiv.py`, importing AcraNetwork from
               the current directory) that exercises the rewritten code on a few hundred deterministic pseudo-random and
               boundary inputs and prints a SHA-256 digest of all observed results (returned bytes, attribute values,
               exception type names); it must print THE SAME digest on the unchanged library and with the patch applied,
  meta.json    {{"property": "{pid}", "change": "Z", "files": [...], "kind": "...", "why_equivalent": "...",
               "tests": "156 passed", "digest_clean": "...", "digest_patched": "..."}}.
Finish with the worktree clean (`git -C {wt} checkout -- .`, `git -C {wt} clean -fdq`) and a three-line summary as your
final message.
""")
    print("ok")
main()
