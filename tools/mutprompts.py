#!/usr/bin/env python3
"""Write the briefs for the seeded-change sub-agents: each gets ONLY the text of one property and its own scratch
worktree of /repo (nothing from /verif).  Usage: tools/mutprompts.py <round-letter-pair, e.g. GH> <outdir> [Cxx ...]
Creates <outdir>/<Cxx>-wt (git worktree of /repo, detached), <outdir>/<Cxx>-out<XY>/ and <outdir>/PROMPT<XY>-<Cxx>.md."""
import json, subprocess, os, sys
HERE = os.path.dirname(os.path.dirname(os.path.abspath(__file__)))
GUIDANCE = {
 "AB": "", "CD": "",
 "EF": """
ADDITIONAL GUIDANCE FOR THIS ROUND. Earlier rounds already produced: wrong masks/shifts, dropped or moved resets,
off-by-one loop bounds and length checks, `<` vs `<=`, missing fields in equality, float comparison/truncation,
stale cached values, signed/unsigned format codes, byte-order slips, defensive "guards" with the wrong bound,
pad-rule slips, checksum folding slips. Do NOT repeat those. Aim for: TWO COOPERATING SITES that each look fine
alone; changes that only matter for a particular ORDER of operations or HISTORY of one object; changes in rarely
exercised ERROR / EDGE paths that must keep their behaviour; a "harmless refactoring" that changes behaviour for
one class of inputs only.
""",
 "GH": """
ADDITIONAL GUIDANCE FOR THIS ROUND (fourth round). Three earlier rounds already produced the obvious slips (wrong
masks/shifts, dropped resets, off-by-one bounds, `<` vs `<=`, equality lists missing a field, float truncation,
stale caches, signed/unsigned codes, byte order, pad rules, checksum folding, encoder+decoder changed consistently,
shared default arguments, error paths). Do NOT repeat those. This round aims at the CORNERS of the library that
ordinary use hardly reaches — pick the change so that it manifests ONLY there:
 * a rarely used class VARIANT or OPTION among those the property covers (e.g. the IENA D/N/Q/M payload variants,
   NPD RS-232 / MIL-STD-1553 segments, Chapter 10 UDP formats 2 and 3, Chapter 11 secondary header or data checksum
   options, 32-bit PCM alignment or throughput mode, UART/ARINC/1553 intra-packet headers, double VLAN tags, IP options,
   PES optional fields / extension, adaptation field with PCR, PMT descriptors, Golay words with exactly 3 errors,
   low-latency PTDPs, pcap nanosecond / big-endian files, AFDX);
 * a numeric CORNER: a field at its maximum or one past a power of two, a length exactly at the limit, a counter or
   sequence number that wraps, a year/day boundary, an odd vs even length, zero-length element, the last element of
   a list only, exactly one element, a value whose top bit is set (sign), a value that needs all 64 bits;
 * a combination of TWO options / fields that are each fine alone;
 * behaviour that depends on Python subtleties: integer vs float division, `bytes` vs `bytearray` vs `memoryview`
   input, negative indexes/slices, `is` vs `==`, truthiness of 0 / empty bytes, `or` defaults swallowing a legal 0,
   mutable class attributes, dict ordering, `int.from_bytes` defaults, `round`, `%` of negatives.
Name the two changes G and H (directories G/ and H/, "change": "G" / "H" in meta.json).
""",
 "IJ": """
ADDITIONAL GUIDANCE FOR THIS ROUND (fifth round). Four earlier rounds (160 changes) already produced: wrong masks/shifts,
dropped or moved resets, off-by-one bounds, `<` vs `<=`, equality lists missing a field, float truncation, stale caches,
signed/unsigned codes, byte order, pad rules, checksum folding, consistently changed encoder+decoder, shared default
arguments, class attributes, error paths, rarely used variants/options, numeric corners, `or`-defaults swallowing 0,
`+=` on bytearray, truthiness, module attribute rebinding. Do NOT repeat those. Aim this round at:
 * CHANGE I — a "performance improvement" or "clean-up" that is correct for almost everything: a memo / cache keyed on
   too few of the things the result depends on; a pre-computed table with one wrong or missing entry; a fast path
   for the common case whose guard is slightly too wide; replacing a loop by slicing / `bytes.join` /
   `int.from_bytes` / `struct.iter_unpack` / a precompiled `struct.Struct` that differs for one shape of input;
   replacing `len(x) == 0` by `not x` or the reverse where the two differ; returning an internal buffer instead
   of a copy; moving work from `pack` to a setter or to `__init__` (or back) so that ONE order of assignments
   misses it; generator / iterator objects consumed twice.
 * CHANGE J — a DATA-DEPENDENT slip: behaviour that differs only when the *content* (not the length) of a payload
   or field has a particular form — payload that contains the sync word / start code / magic number / 0xFF / 0x00
   runs / a byte that looks like a header of the same format; a field equal to a sentinel the code uses
   internally (-1, None, 0xFFFF, 0x7FF); two elements of a list that are equal or out of order; a value that is
   equal to a default; a count that equals another field by coincidence; a string/bytes confusion that only
   bites for bytes >= 0x80; container classes (packet-in-packet: NPD in NPD, PES in TS, IP in Ethernet in pcap,
   Chapter 11 payload classes in a Chapter 11 packet in a Chapter 10 file) where the INNER object influences the
   OUTER codec wrongly only for particular inner content.
Both must still need something specific to manifest, be realistic, and keep the 156 tests passing.
Name the two changes I and J (directories I/ and J/, "change": "I" / "J" in meta.json).
""",
 "KL": """
ADDITIONAL GUIDANCE FOR THIS ROUND (sixth round). Five earlier rounds (200 changes) already produced: wrong masks/shifts,
dropped resets, off-by-one bounds, equality lists missing a field, float truncation, stale caches and memo keys, fast
paths with too-wide guards, signed/unsigned codes, byte order, pad rules, checksum folding, consistently changed
encoder+decoder, shared default arguments, class attributes, rarely used variants/options, numeric corners, `or`-defaults
swallowing 0, truthiness, content-dependent slips (sync words / magic numbers / 0xFF runs in payloads, sentinels),
work moved into setters, iterator cursors, object identity of decoded parts. Do NOT repeat those. Aim this round at:
 * CHANGE K — an INDIRECT PATH or API-SURFACE slip: code that is fine when the class is used directly but wrong when
   reached through another route the property also covers — through a CONTAINER or WRAPPER class (VideoFormat2 ->
   MPEGTS -> MPEGPacket, NPD -> its segment classes, Chapter 7 -> Golay, SamDecPcap -> Pcap -> iNetX, FileParser ->
   Chapter11, pcap record -> Ethernet -> IP -> UDP), through a SUBCLASS or BASE CLASS (the IENA variants, STANAG4609 <
   PES < MPEGPacket, the deprecated Chapter10 subclass, a `super()` call, a method overridden in one subclass only, a
   change in the base class that matters for exactly one subclass), through the constructor-with-buffer form
   (`Ethernet(buf)`, `IP(buf)`, `iNetX(buf)`, `IENA(buf)`), through `bytearray` / `memoryview` / subclass-of-bytes input
   instead of `bytes`, through a property getter/setter pair, through keyword vs positional arguments, or through the
   legacy import path.
 * CHANGE L — a slip in EXCEPTION BEHAVIOUR or at SIZE LIMITS: the kind of exception a check raises or WHICH check fires
   first when two are violated at once; state left behind by a call that raises and what the NEXT successful call then
   does; inputs of exactly header size / exactly one element / zero elements; MANY elements (>= 1000 list elements,
   >= 64 KiB payloads, element counts or lengths crossing 255 / 65535 / 2**24) where a counter field, a recursion, a
   `range(256)`, a slice copy per element or a one-byte length silently goes wrong; the last byte / last element of a
   maximum-size packet; two-step arithmetic that overflows an intermediate field but not the final one.
Both must still need something specific to manifest, be realistic, and keep the 156 tests passing.
Name the two changes K and L (directories K/ and L/, "change": "K" / "L" in meta.json).
""",
}
def main():
    pair, outdir = sys.argv[1], sys.argv[2]
    only = set(sys.argv[3:])
    X, Y = pair[0], pair[1]
    props = [json.loads(l) for l in open(os.path.join(HERE, "properties.jsonl"))]
    os.makedirs(outdir, exist_ok=True)
    for p in props:
        pid = p["id"]
        if only and pid not in only:
            continue
        wt = "%s/%s-wt" % (outdir, pid)
        out = "%s/%s-out%s" % (outdir, pid, pair)
        if not os.path.exists(wt):
            subprocess.run(["git", "-C", "/repo", "worktree", "add", "-q", "--detach", wt, "HEAD"], check=True)
        os.makedirs(out, exist_ok=True)
        text = f"""You are a careful adversarial tester of the pure-Python library diarmuidcwc/AcraNetwork
(pack/unpack codecs for flight-test-instrumentation packet formats).

Your own scratch checkout of the library is the git worktree {wt} (detached HEAD). Work ONLY there and in
{out}. Do not read, list or use anything under /verif or /tmp/agents or other directories of {outdir}, and do not
touch /repo itself.

The property below is supposed to hold of the library for every input / history it quantifies over:

  id: {pid}
  title: {p['title']}
  statement: {p['statement']}
  quantified over: {p['quantifier']['text']}
  why the existing tests cannot settle it: {p['why_tests_cant']}
  code it is anchored in: {', '.join(p['anchors']['files'])}

TASK. Produce TWO independent source changes (call them {X} and {Y}; different mechanisms, preferably in
different classes/functions among those the property covers) to the library in your worktree, each of which
 (1) makes the property FALSE for some input/history,
 (2) still imports/compiles, and passes the whole existing test suite unchanged:
     `cd {wt} && /venv/bin/python -m pytest -q -p no:cacheprovider --timeout=900 --continue-on-collection-errors`
     must still report `156 passed` (first check from that directory that
     `/venv/bin/python -c "import AcraNetwork; print(AcraNetwork.__file__)"` prints a path under {wt}),
 (3) is REALISTIC — the kind of slip a maintainer could make in a refactoring or "small improvement", not sabotage, and
 (4) needs something SPECIFIC to manifest: a particular residue class or boundary value, an unusual but legal
     input, a multi-step sequence of operations on one object, a particular alignment, a truncation at a
     particular offset, … — NOT something ordinary use or the simplest round trip would expose at once.
Keep each change small (a few lines). Many source files have CRLF line endings: edit them preserving the
line endings (e.g. with a Python script doing a binary replace), so that `git diff` shows only your lines.
{GUIDANCE.get(pair, '')}
For each change Z in {{{X}, {Y}}} write into {out}/Z/ :
  patch.diff   `git -C {wt} diff` of that change alone (apply one change at a time; reset with
               `git -C {wt} checkout -- .` between them),
  demo.py      a small standalone program (run as `cd <checkout> && /venv/bin/python demo.py`, importing
               AcraNetwork from the current directory) that exits 0 and prints PASS on the unchanged library
               and exits 1 and prints FAIL (with the observed vs expected values) when the change is applied;
               it must demonstrate a violation of the PROPERTY AS STATED, on a concrete input,
  meta.json    {{"property": "{pid}", "change": "Z", "files": [...], "what_it_breaks": "...",
               "needs_to_manifest": "...", "tests": "156 passed", "how_demonstrated": "..."}}.
Verify both directions yourself (demo passes on the clean worktree, fails with the patch; test suite passes
with the patch). Finish with the worktree clean (`git -C {wt} checkout -- .`; remove any files you created
in it, including test outputs: `git -C {wt} clean -fdq`) and a three-line summary of {X} and {Y} as your final message.
"""
        open("%s/PROMPT%s-%s.md" % (outdir, pair, pid), "w").write(text)
    print("ok")
main()
