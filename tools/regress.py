#!/usr/bin/env python3
"""Self-test of the checks against the defects already repaired in /repo.

For every `fixed` entry of known_findings.json the repair commit is reverse-applied to a scratch worktree of /repo
(used through ACRA_REPO, so /repo itself is never touched) (re-introducing the defect), the quick check of the property it belongs to is run and must print
VIOLATION; the working tree is restored straight afterwards.  Usage: tools/regress.py [commit-prefix…]
"""
import json, subprocess, sys, os
VERIF = os.path.dirname(os.path.dirname(os.path.abspath(__file__)))
kf = json.load(open(os.path.join(VERIF, "known_findings.json")))
WT = "/tmp/regress-wt-%d" % os.getpid()
subprocess.run(["git", "-C", "/repo", "worktree", "add", "-q", "--detach", WT, "HEAD"], check=True)
ENV = dict(os.environ, ACRA_REPO=WT)
sel = sys.argv[1:]
res = []
for e in kf["findings"]:
    if e.get("status") != "fixed":
        continue
    h = e["commit"]
    if sel and not any(h.startswith(s) for s in sel):
        continue
    diff = os.path.join(VERIF, "regress", h + ".diff")
    if not os.path.exists(diff):
        continue
    props = [e["property"]] + e.get("also", [])
    r = subprocess.run(["git", "-C", WT, "apply", "-R", diff], capture_output=True, text=True)
    if r.returncode != 0:
        # a later repair touched neighbouring lines: try a three-way reverse application
        subprocess.run(["git", "-C", WT, "checkout", "--", "."], check=True)
        r = subprocess.run(["git", "-C", WT, "apply", "-R", "--3way", diff], capture_output=True, text=True)
        st = subprocess.run(["git", "-C", WT, "status", "--short"], capture_output=True, text=True).stdout
        if r.returncode != 0 or any(l.startswith(("U", "AA", "DD")) or l[1:2] == "U" for l in st.split("\n")):
            subprocess.run(["git", "-C", WT, "reset", "-q", "--hard"], check=True)
            res.append((h, props[0], "cannot-apply", "the reverse of this repair no longer applies (a later repair rewrote the same lines)"))
            print(*res[-1], flush=True)
            continue
        subprocess.run(["git", "-C", WT, "reset", "-q"], check=True)
    try:
        caught = None
        for p in props:
            if not os.path.exists(os.path.join(VERIF, "harness", "props", p + ".py")):
                continue
            c = subprocess.run(["/venv/bin/python", os.path.join(VERIF, "check.py"), p], capture_output=True, text=True, cwd=VERIF, env=ENV)
            v = [l for l in c.stdout.split("\n") if l.startswith("VIOLATION")]
            if v:
                caught = (p, v[0].split("replay=")[1][:0] + ("no-failing-input-found" if "no-failing-input-found" in v[0] else "witness"))
                break
        res.append((h, props[0], "CAUGHT " + caught[0] + " " + caught[1] if caught else "MISSED", e["what"][:70]))
    finally:
        subprocess.run(["git", "-C", WT, "checkout", "--", "."], check=True)
    print(*res[-1], flush=True)
subprocess.run(["git", "-C", "/repo", "worktree", "remove", "--force", WT])
missed = [r for r in res if r[2] == "MISSED"]
na = [r for r in res if r[2] == "cannot-apply"]
print("caught %d / %d (%d missed, %d reverse patches no longer apply)" % (len(res) - len(missed) - len(na), len(res), len(missed), len(na)))
