#!/usr/bin/env python3
"""
Differential self-test of the source translator (harness/translate.py) and its semantics prelude
(lean/Acra/Py/IntOps.lean), and of the method translator (harness/translate_methods.py, tables METHODS: object state
in -> object state out and result, see `method_cases`): every function of the SRC tables that is translated as a whole is evaluated

  * in CPython, by calling the real function of $ACRA_REPO (default /repo), and
  * in Lean, by `#eval` of the regenerated definition `Acra.Gen.Src.<Module>.<name>`,

on the same randomly drawn arguments (seeded), and the canonical results are compared.  This tests the TRUSTED part
of the source tie (a tie theorem compares the translation with the model; this compares the translation with the
running code).  Not part of check.py; run it after changing the translator or the prelude:

    /venv/bin/python tools/srctie_selftest.py [--n 40] [--seed 0]

exit 0 = no disagreement.
"""
import os, sys, random, subprocess, argparse, importlib, struct, tempfile

VERIF = os.path.dirname(os.path.dirname(os.path.abspath(__file__)))
sys.path.insert(0, VERIF)
sys.path.insert(0, os.path.join(VERIF, "harness"))
import warnings
warnings.simplefilter("ignore")
import translate            # noqa: E402
import translate_methods    # noqa: E402
REPO = translate.REPO
sys.path.insert(0, REPO)

def err_kind(e):
    if isinstance(e, struct.error):
        return "struct"
    for cls, k in ((IndexError, "index"), (KeyError, "key"), (ValueError, "value"), (TypeError, "type"),
                   (ZeroDivisionError, "zeroDiv"), (OverflowError, "overflow")):
        if isinstance(e, cls):
            return k
    if type(e) is Exception:
        return "generic"
    return type(e).__name__

def canon(v):
    if isinstance(v, bool):
        return "true" if v else "false"
    if isinstance(v, int):
        return str(v)
    if isinstance(v, (bytes, bytearray)):
        return "x" + bytes(v).hex()
    if isinstance(v, (list, tuple)):
        return "[" + ",".join(canon(x) for x in v) + "]"
    if hasattr(v, "seconds") and hasattr(v, "nanoseconds"):
        return "(%d, %d)" % (v.seconds, v.nanoseconds)
    return repr(v)

def rand_int(rng, lo=None, hi=None):
    if lo is not None:
        return rng.choice([lo, hi, lo + 1, hi - 1, rng.randint(lo, hi), rng.randint(lo, hi), (lo + hi) // 2])
    k = rng.choice([0, 1, 4, 8, 12, 15, 16, 17, 24, 31, 32, 33, 36, 40, 48, 64, 70])
    v = rng.choice([0, 1, (1 << k) - 1, 1 << k, (1 << k) + 1, rng.getrandbits(k + 1)])
    return -v if rng.random() < 0.25 else v

def rand_bytes(rng):
    n = rng.choice([0, 1, 2, 3, 4, 5, 6, 7, 8, 12, 16, 19, 20, 33])
    return bytes(rng.getrandbits(8) for _ in range(n))

def lean_int(v):
    return "(%d : Int)" % v if v >= 0 else "(%d : Int)" % v

def lean_bytes(b):
    return "([%s] : Acra.Py.Bytes)" % ", ".join(str(x) for x in b)

LEAN_SHOW = r'''
open Acra Acra.Py
def showE : Err → String
  | .struct => "struct" | .value => "value" | .generic => "generic" | .index => "index" | .type => "type"
  | .zeroDiv => "zeroDiv" | .overflow => "overflow" | .fuel => "fuel" | _ => "other"
class Show (α : Type) where sh : α → String
instance : Show Int := ⟨fun v => toString v⟩
instance : Show Bool := ⟨fun v => if v then "true" else "false"⟩
def hexd (n : Nat) : Char := "0123456789abcdef".toList.getD n '?'
instance : Show Bytes := ⟨fun b => "x" ++ String.mk (b.flatMap fun x => [hexd (x.toNat / 16), hexd (x.toNat % 16)])⟩
instance : Show (List Int) := ⟨fun l => "[" ++ ",".intercalate (l.map toString) ++ "]"⟩
instance : Show (Int × Int) := ⟨fun p => s!"({p.1}, {p.2})"⟩
instance : Show Unit := ⟨fun _ => "()"⟩
instance : Show (List Int × List Int × List Int) := ⟨fun p => "(" ++ Show.sh p.1 ++ ", " ++ Show.sh p.2.1 ++ ", " ++ Show.sh p.2.2 ++ ")"⟩
instance [Show α] : Show (R α) := ⟨fun r => match r with | .ok v => Show.sh v | .error e => "err:" ++ showE e⟩
'''

# ------------------------------------------------------------------------------------------------ whole methods
def method_cases(rng, n, lean, expect):
    """the METHODS tables (harness/translate_methods.py): every translated method is run in CPython on a real object whose
    carried attributes were set to seeded values, and in Lean on the same `Obj`; compared: the object afterwards (every
    carried attribute) and the result / exception kind.  -> error text | None"""
    errors, changed, report = translate_methods.generate()
    if errors:
        return "method translation errors: %r" % (errors,)
    def canon_res(v):
        return "()" if v is None else canon(v)
    for spec in translate_methods.METHODS:
        text, results, cls = translate_methods.translate_class(spec)
        ns = "Acra.Gen.Src.Cls.%s" % spec["lean"]
        lean.insert(0, "import " + ns)
        fields = cls.fields
        show = "def showObj_%s (o : %s.Obj) : String := \"{\" ++ %s ++ \"}\"" % (
            spec["lean"], ns, ' ++ "," ++ '.join('"%s=" ++ Show.sh o.%s' % (f, translate.lname(f)) for f, _ in fields))
        lean.append(show)
        modname = spec["file"][:-3].replace("/", ".")
        if modname.endswith(".__init__"):
            modname = modname[:-9]
        pycls = getattr(importlib.import_module(modname), spec["cls"])
        def rand_state(valid):
            st = {}
            for f, t in fields:
                if t == translate.INT:
                    st[f] = rng.choice([0, 1, 0xFFFF, 0xFFFFFFFF, rng.getrandbits(16), rng.getrandbits(32)]) if valid else rand_int(rng)
                elif t == translate.BOOL:
                    st[f] = rng.random() < 0.5
                else:
                    st[f] = rand_bytes(rng)
            return st
        def mk(st):
            o = pycls()
            for f, v in st.items():
                setattr(o, f, v)
            return o
        def lean_obj(st):
            parts = []
            for f, t in fields:
                v = st[f]
                parts.append("%s := %s" % (translate.lname(f), lean_int(v) if t == translate.INT else
                                           ("true" if v else "false") if t == translate.BOOL else lean_bytes(v)))
            return "({ %s } : %s.Obj)" % (", ".join(parts), ns)
        def obs(o):
            return "{" + ",".join("%s=%s" % (f, canon(getattr(o, f))) for f, _ in fields) + "}"
        for m, good, name in results:
            node = cls.methods[m["func"]]
            params = [x.arg for x in node.args.args[1:]]
            ptypes = dict(m.get("params", {}))
            for x in node.args.args[1:]:
                if x.arg not in ptypes and getattr(x.annotation, "id", None) in translate_methods.TYPES:
                    ptypes[x.arg] = x.annotation.id
            for i in range(n):
                st = rand_state(valid=rng.random() < 0.7)
                pyargs, leanargs, shown = [], [], []
                for p in params:
                    t = ptypes[p]
                    if t == "self":
                        st2 = dict(st)
                        if rng.random() < 0.7:       # differ in exactly one attribute (sometimes none)
                            f, ft = rng.choice(fields)
                            st2[f] = rand_state(True)[f]
                        pyargs.append(mk(st2)); leanargs.append(lean_obj(st2)); shown.append(obs(pyargs[-1]))
                    elif t == "int":
                        v = rand_int(rng)
                        pyargs.append(v); leanargs.append(lean_int(v)); shown.append(canon(v))
                    elif t == "bool":
                        v = rng.random() < 0.5
                        pyargs.append(v); leanargs.append("true" if v else "false"); shown.append(canon(v))
                    else:
                        # a buffer: random, or what a well-formed object packs to (then sometimes cut / extended / one byte changed)
                        v = rand_bytes(rng)
                        if "pack" in cls.methods and rng.random() < 0.7:
                            try:
                                v = bytes(mk(rand_state(True)).pack())
                                r = rng.random()
                                if r < 0.15 and v:
                                    v = v[:-1]
                                elif r < 0.3:
                                    v = v + b"\x00"
                                elif r < 0.45 and v:
                                    k = rng.randrange(len(v))
                                    v = v[:k] + bytes([v[k] ^ (1 << rng.randrange(8))]) + v[k + 1:]
                            except Exception:
                                pass
                        pyargs.append(v); leanargs.append(lean_bytes(v)); shown.append(canon(v))
                o = mk(st)
                before = obs(o)
                try:
                    r = canon_res(getattr(o, m["func"])(*pyargs))
                except Exception as e:
                    r = "err:" + err_kind(e)
                expect.append(("%s.%s" % (spec["cls"], m["func"]), [before] + shown, obs(o) + "|" + r))
                lean.append('#eval IO.println ("R " ++ (let r := %s.%s %s %s; showObj_%s r.1 ++ "|" ++ Show.sh r.2))' % (
                    ns, translate.lname(name), lean_obj(st), " ".join(leanargs), spec["lean"]))
    return None

def main():
    ap = argparse.ArgumentParser()
    ap.add_argument("--n", type=int, default=40)
    ap.add_argument("--seed", type=int, default=0)
    a = ap.parse_args()
    rng = random.Random(a.seed)
    errors, changed, report = translate.generate()
    if errors:
        print("translation errors:", errors)
        return 2
    lean = ["import Acra.Gen.Src." + m for m in sorted({s["lean"] for s in translate.SRC})]
    lean.append(LEAN_SHOW)
    expect = []
    skipped = []
    golay = None
    for spec in translate.SRC:
        if "prefix_upto" in spec or "from_var" in spec:
            # the integer parts of the PTS helpers: recover the integer through the float part on the range where the
            # float part is exactly invertible (33-bit tick counts; C15 proves the round trip)
            if spec["func"] in ("pts_to_ts", "ts_to_pts"):
                pes = importlib.import_module("AcraNetwork.MPEG.PES")
                lname = "Acra.Gen.Src.%s.%s" % (spec["lean"], spec["name"])
                for _ in range(a.n):
                    if spec["func"] == "pts_to_ts":
                        v = rng.getrandbits(rng.choice([1, 8, 16, 17, 32, 33, 36, 40]))
                        want = canon(int(round(pes.pts_to_ts(v) * 90e3)))
                    else:
                        v = rng.getrandbits(rng.choice([1, 8, 15, 16, 30, 31, 33]))
                        want = canon(pes.ts_to_pts(v / 90e3))
                    expect.append((spec["func"] + " [integer part]", [canon(v)], want))
                    lean.append('#eval IO.println ("R " ++ Show.sh (%s %s))' % (lname, lean_int(v)))
            else:
                skipped.append(spec["func"] + " (sub-translation: no Python callable for the part)")
            continue
        modname = spec["file"][:-3].replace("/", ".")
        if modname.endswith(".__init__"):
            modname = modname[:-9]
        pymod = importlib.import_module(modname)
        obj = pymod
        parts = spec["func"].split(".")
        for p in parts:
            holder = obj
            obj = getattr(obj, p)
        cls = holder if len(parts) == 2 else None
        lname = "Acra.Gen.Src.%s.%s" % (spec["lean"], spec.get("name", spec["func"]))
        node = translate.Module(spec["file"], spec["lean"]).find(spec["func"])
        pyparams = [x.arg for x in node.args.args]
        ptypes = dict(spec.get("params", {}))
        for x in node.args.args:
            if x.arg not in ptypes and getattr(x.annotation, "id", None) in ("int", "bytes"):
                ptypes[x.arg] = x.annotation.id
        ranges = spec.get("ranges", {})
        static = any(getattr(d, "id", None) == "staticmethod" for d in node.decorator_list) or cls is None
        ncases = 1 if (not pyparams or spec.get("mutates")) else a.n
        for _ in range(ncases):
            pyargs, leanargs, proofs = [], [], []
            for p in pyparams:
                t = ptypes[p]
                if t == "int":
                    lo, hi = ranges.get(p, (None, None))
                    v = rand_int(rng, lo, hi)
                    pyargs.append(v); leanargs.append(lean_int(v))
                elif t == "bytes":
                    v = rand_bytes(rng)
                    pyargs.append(v); leanargs.append(lean_bytes(v))
                elif isinstance(t, tuple) and t[0] == "PTPTime":
                    vals = []
                    for fld, _ in t[1]:
                        lo, hi = ranges.get(p + "." + fld, (None, None))
                        vals.append(rand_int(rng, lo, hi))
                    pyargs.append(pymod.PTPTime(*vals))
                    leanargs += [lean_int(v) for v in vals]
                elif isinstance(t, tuple) and t[0] == "Golay" and spec.get("mutates"):
                    fresh_obj = pymod.Golay()            # tables as the constructor leaves them: [0] * GOLAY_SIZE
                    pyargs.append(fresh_obj)
                    leanargs += ["(List.replicate %d (0 : Int))" % len(getattr(fresh_obj, fld)) for fld, _ in t[1]]
                elif isinstance(t, tuple) and t[0] == "Golay":
                    if golay is None:
                        golay = pymod.Golay()
                        golay._initgolaydecode()
                        for tab in ("SyndromeTable", "CorrectTable", "ErrorTable"):
                            # a 4096-element list literal is very slow to elaborate: parse it at run time instead
                            lean.append('def tab_%s : List Int := ("%s".splitOn " ").map String.toInt!' % (
                                tab, " ".join(str(x) for x in getattr(golay, tab))))
                    pyargs.append(golay)
                    leanargs += ["tab_" + fld for fld, _ in t[1]]
                elif isinstance(t, tuple) and not t[1]:
                    pyargs.append(getattr(pymod, t[0])())       # a class without state (KMP)
                else:
                    raise SystemExit("selftest: no generator for parameter type %r of %s" % (t, spec["func"]))
            for key in ranges:
                proofs.append("(by decide)")
            if spec["func"] == "bcdTointConvert":
                pyargs[0] = abs(pyargs[0]) % (1 << 40)          # the Python loop never ends on a negative argument
                leanargs[0] = lean_int(pyargs[0])
            if spec["func"] in ("KMP.partial", "KMP.search", "string_matching_boyer_moore_horspool"):
                # small alphabets so that occurrences, overlaps and fall-backs happen; the empty pattern too, except where
                # the Python loop would never end (Horspool, empty pattern, non-empty text: the translation says Err.fuel)
                alpha = rng.choice([b"ab", b"ab", b"abc", bytes([0, 255]), bytes(range(256))])
                rb = lambda n: bytes(rng.choice(alpha) for _ in range(n))
                pat = rb(rng.choice([0, 1, 1, 2, 2, 3, 3, 4, 6]))
                text = rb(rng.choice([0, 1, 2, 3, 5, 8, 13, 21, 40]))
                if pat and rng.random() < 0.5:
                    k = rng.randrange(len(text) + 1)
                    text = text[:k] + pat + text[k:]
                if spec["func"] == "KMP.partial":
                    pyargs[-1] = pat; leanargs[-1] = lean_bytes(pat)
                else:
                    if spec["func"].startswith("string") and not pat and text:
                        pat = b"a"
                    pyargs[-2:] = [text, pat]; leanargs[-2:] = [lean_bytes(text), lean_bytes(pat)]
            if spec["func"] == "endianness_swap":
                pyargs[1] = rng.choice([2, 2, 4, 4, 0, 1, 3, -2, -4, 8, rand_int(rng)])
                leanargs[1] = lean_int(pyargs[1])
            if spec["func"] == "Golay._onesincode_old":
                pyargs[1] = rng.choice([-3, 0, 1, 7, 12, 24, 25, 40, 64])         # the loop runs `size` times
                leanargs[1] = lean_int(pyargs[1])
            if spec["func"].startswith("Golay._syndrome2") or spec["func"].startswith("Golay._decode2"):
                # keep v2 mostly inside the table, sometimes outside / negative
                pyargs[2] = rng.choice([rng.randrange(4096), rng.randrange(4096), 4095, 0, 4096, -1, -4096, -4097, 70000])
                pyargs[1] = rng.randrange(1 << 13)
                leanargs[-2:] = [lean_int(pyargs[1]), lean_int(pyargs[2])]
            try:
                if spec.get("mutates"):
                    getattr(obj, "__wrapped__", obj)(*pyargs)        # past the lru_cache, which the translation treats as transparent
                    r = "(" + ", ".join(canon(getattr(pyargs[0], a_)) for a_ in spec["mutates"]) + ")"
                elif static and cls is not None:
                    r = canon(obj(*pyargs))
                elif cls is not None:
                    r = canon(obj(*pyargs))            # unbound method: first argument is self
                else:
                    r = canon(obj(*pyargs))
            except RecursionError:
                raise
            except Exception as e:
                r = "err:" + err_kind(e)
            expect.append((spec["func"], [canon(x) if not hasattr(x, "SyndromeTable") else "<Golay>" for x in pyargs], r))
            lean.append('#eval IO.println ("R " ++ Show.sh (%s %s))' % (lname, " ".join(leanargs + proofs)))
    bad_m = method_cases(rng, a.n, lean, expect)
    if bad_m:
        print(bad_m)
        return 2
    path = os.path.join(VERIF, "lean", ".lake", "srctie_selftest_%d.lean" % os.getpid())
    with open(path, "w") as f:
        f.write("\n".join(lean) + "\n")
    p = subprocess.run(["lake", "env", "lean", path], cwd=os.path.join(VERIF, "lean"), stdout=subprocess.PIPE,
                       stderr=subprocess.STDOUT, timeout=1800)
    out = p.stdout.decode(errors="replace")
    os.unlink(path)
    got = [l[2:] for l in out.split("\n") if l.startswith("R ")]
    bad = 0
    if len(got) != len(expect):
        print("lean produced %d results for %d cases; output:\n%s" % (len(got), len(expect), out[-3000:]))
        return 2
    per = {}
    for (fn, args, want), have in zip(expect, got):
        per.setdefault(fn, [0, 0])[0] += 1
        if want != have:
            bad += 1
            per[fn][1] += 1
            if bad <= 20:
                print("DISAGREE %s%s: python %s, lean %s" % (fn, tuple(args), want[:200], have[:200]))
    for fn, (n, b) in per.items():
        print("%-34s %4d cases, %d disagreements" % (fn, n, b))
    for s in skipped:
        print("skipped:", s)
    print("selftest: %d cases, %d disagreements" % (len(expect), bad))
    return 1 if bad else 0

if __name__ == "__main__":
    sys.exit(main())
