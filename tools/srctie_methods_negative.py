#!/usr/bin/env python3
"""
Negative tests of the METHOD translator (harness/translate_methods.py): methods OUTSIDE the checked subset must be
refused with an error that names the construct (never translated approximately), and the ones inside it must translate.
Run after changing the translator:   /venv/bin/python tools/srctie_methods_negative.py     (exit 0 = as expected)
"""
import os, sys, tempfile, shutil
VERIF = os.path.dirname(os.path.dirname(os.path.abspath(__file__)))
sys.path.insert(0, os.path.join(VERIF, "harness"))
import translate, translate_methods

SOURCE = '''
import struct
import logging
logger = logging.getLogger(__name__)
notlogger = 3
class Other(object):
    SIZE = 4
class Base(object):
    pass
class Derived(Base):
    def __init__(self):
        self.a = 0
    def get(self):
        return self.a
class C(object):
    FMT = ">HH"
    LEN = struct.calcsize(FMT)
    NAMES = ("a", "b")
    BADNAMES = ("a", "zz")
    def __init__(self, buf=None):
        self.a: int = 0
        self.b: int = 0
        self.data: bytes = bytes()
        self.flag = True
        self.lst = []
        self._s = struct.Struct(C.FMT)
        self._hidden: int = 7
    @property
    def alias(self):
        return self.a
    @alias.setter
    def alias(self, v):
        self.a = v
    @property
    def computed(self):
        return self.a + 1
    @property
    def fat(self):
        return self.b
    @fat.setter
    def fat(self, v):
        self.b = v
        self.a = v
    def ok_pack(self) -> bytes:
        for n in C.NAMES:
            if getattr(self, n) is None:
                raise ValueError("missing {}".format(n))
        self.b = len(self.data) + C.LEN + Other.SIZE
        logger.warning("packing")
        return self._s.pack(self.alias, self.b) + self.data
    def ok_unpack(self, buf: bytes) -> bool:
        if len(buf) < C.LEN:
            raise ValueError("short {:X}".format(len(buf)))
        (self.alias, self.b) = self._s.unpack_from(buf)
        self.data = buf[C.LEN:-1]
        return True
    def ok_none(self, buf: bytes) -> None:
        self.data = buf
    def ok_state_at_raise(self, buf: bytes) -> bool:
        self.a = 1
        (self.b,) = struct.unpack_from(">H", buf, -2)
        return self.flag
    def reads_list(self) -> int:
        return len(self.lst)
    def writes_unknown(self) -> int:
        self.zz = 3
        return 1
    def writes_other(self, other) -> int:
        other.a = 3
        return 1
    def passes_self(self) -> int:
        return helper(self)
    def returns_self(self):
        return self
    def calls_method(self) -> int:
        return self.reads_list()
    def bad_names(self) -> int:
        for n in C.BADNAMES:
            if getattr(self, n) is None:
                raise ValueError("x")
        return 1
    def reassign_struct(self) -> int:
        return 1
    def raise_in_plain_if(self, buf: bytes) -> int:
        if self.flag:
            (self.a,) = struct.unpack(">H", buf)
        return self.a
    def computed_prop(self) -> int:
        return self.computed
    def fat_setter(self) -> int:
        self.fat = 3
        return 1
    def exc_arg(self, buf: bytes) -> int:
        raise ValueError("bad {}".format(buf[0]))
    def exc_bytes_spec(self, buf: bytes) -> int:
        raise ValueError("bad {:X}".format(buf))
    def not_logging(self) -> int:
        notlogger.warning("x")
        return 1
    def log_eval(self, buf: bytes) -> int:
        logger.warning(buf[0])
        return 1
    def dropped_call(self) -> int:
        if self.flag:
            helper(3)
        return 1
    def kwargs(self, **kw) -> int:
        return 1
    def neg_offset_var(self, buf: bytes, k: int) -> int:
        (x,) = struct.unpack_from(">H", buf, k)
        return x
    def star_unknown(self, buf: bytes) -> bytes:
        vals = struct.unpack(">HH", buf)
        return self._s.pack(*buf)
    def wrong_count(self) -> bytes:
        return self._s.pack(self.a)
    def hidden(self) -> int:
        return self._hidden
class D(object):
    def __init__(self):
        self.a = 0
        self._s = struct.Struct(">H")
    def rebind(self):
        self._s = struct.Struct(">I")
    def get(self) -> int:
        return self.a
class E(object):
    def __init__(self):
        self.a = 0
    def __setattr__(self, k, v):
        object.__setattr__(self, k, v)
    def get(self) -> int:
        return self.a
def helper(x):
    return 1
'''
M = lambda f, **kw: dict(func=f, **kw)
CASES = [   # (class, method spec, expected substring of the error | None = must translate)
    ("C", M("ok_pack"), None),
    ("C", M("ok_unpack"), None),
    ("C", M("ok_none"), None),
    ("C", M("ok_state_at_raise"), None),
    ("C", M("hidden"), None),
    ("C", M("reads_list"), "not carried by the object structure"),
    ("C", M("writes_unknown"), "not carried by the object structure"),
    ("C", M("writes_other", params={"other": "self"}), "attribute of another object"),
    ("C", M("passes_self"), "used as a value"),
    ("C", M("returns_self"), "used as a value"),
    ("C", M("calls_method"), "call of self.reads_list"),
    ("C", M("bad_names"), "not a carried attribute"),
    ("C", M("raise_in_plain_if"), "inside an `if` without return / raise"),
    ("C", M("computed_prop"), "does more than return an attribute"),
    ("C", M("fat_setter"), "does more than store one attribute"),
    ("C", M("exc_arg"), "conditionally evaluated"),
    ("C", M("exc_bytes_spec"), "only ints"),
    ("C", M("not_logging"), "Expr"),
    ("C", M("log_eval"), "non-constant arguments"),
    ("C", M("dropped_call"), "Expr"),
    ("C", M("kwargs"), "**kwargs"),
    ("C", M("neg_offset_var", params={"k": "int"}), "offset is >= 0"),
    ("C", M("star_unknown"), "not a tuple of ints"),
    ("C", M("wrong_count"), "1 values for 2 codes"),
    ("D", M("get"), "assigned outside __init__"),
    ("E", M("get"), "attribute access is not plain"),
    ("Derived", M("get"), "base class"),
]

def main():
    d = tempfile.mkdtemp(prefix="srctie_mneg_")
    bad = 0
    try:
        os.makedirs(os.path.join(d, "pkg"))
        with open(os.path.join(d, "pkg", "m.py"), "w") as f:
            f.write(SOURCE)
        translate.REPO = d
        for cls, m, want in CASES:
            spec = dict(file="pkg/m.py", cls=cls, lean="T", methods=[m])
            try:
                text, results, _ = translate_methods.translate_class(spec)
                good, what = results[0][1], results[0][2]
                got = None if good else what
            except translate.TranslationError as e:
                got = str(e)
            ok = (want is None and got is None) or (want is not None and got is not None and want in got)
            if not ok:
                bad += 1
            print("%-4s %s.%s: %s" % ("ok" if ok else "FAIL", cls, m["func"], "translated" if got is None else got[:150]))
            if not ok:
                print("     expected: %s" % ("translation" if want is None else "error containing %r" % want))
        # the state at a raise: the attribute stored before the raising statement is in the object of the error branch
        text, results, _ = translate_methods.translate_class(dict(file="pkg/m.py", cls="C", lean="T", methods=[M("ok_state_at_raise")]))
        want = "| .error e => ({ o with a := self_a }, .error e)"
        if want not in text:
            bad += 1
            print("FAIL state at the raise: %r not in the translation" % want)
        else:
            print("ok   state at the raise: %s" % want)
    finally:
        shutil.rmtree(d)
    print("%d cases, %d not as expected" % (len(CASES) + 1, bad))
    return 1 if bad else 0

if __name__ == "__main__":
    sys.exit(main())
