#!/usr/bin/env python3
"""Write seeded/README.md: every kept seeded change, what it needs to manifest, and which check reports it."""
import json, os
VERIF = os.path.dirname(os.path.dirname(os.path.abspath(__file__)))
S = os.path.join(VERIF, "seeded")
res = json.load(open(os.path.join(S, "RESULTS.json")))
rows = []
for sid in sorted(d for d in os.listdir(S) if os.path.isdir(os.path.join(S, d))):
    m = json.load(open(os.path.join(S, sid, "meta.json")))
    r = res.get(sid, {})
    pid = sid.split("-")[0]
    verdict = r.get(pid, "not run")
    others = [k for k, v in r.items() if k != pid and not k.endswith("_what") and str(v).startswith("caught")]
    what = (m.get("what_it_breaks") or "").replace("\n", " ").replace("|", "/")[:160]
    needs = (m.get("needs_to_manifest") or "").replace("\n", " ").replace("|", "/")[:160]
    wit = (r.get(pid + "_what") or "").replace("|", "/")[:140]
    rows.append("| %s | %s | %s | %s | %s | %s |" % (sid, ", ".join(m.get("files", []))[:60], what, needs, verdict + ((" (also: " + ", ".join(others) + ")") if others else ""), wit))
txt = """# Seeded breaking changes

Each directory holds a change to diarmuidcwc/AcraNetwork written by an independent sub-agent that was given
only the text of one property and its own scratch worktree of /repo (nothing from /verif): `patch.diff`, a
demonstration `demo.py` (passes on the unchanged library, fails with the change) and `meta.json`. Every change
was confirmed by `tools/seeded.py vet` (applies, the pinned 156 tests still pass, the demonstration fails with
it and passes without) and is run against the checks by `tools/seeded.py run` (scratch worktree through
`ACRA_REPO`; /repo itself is never modified). `RESULTS.json` is the raw result of the last run.

| id | file(s) | what it breaks | needs to manifest | verdict of the property's quick check | witness reported |
|---|---|---|---|---|---|
""" + "\n".join(rows) + "\n"
open(os.path.join(S, "README.md"), "w").write(txt)
print(len(rows), "rows;", sum(1 for r in rows if "caught with witness" in r), "caught with witness;",
      sum(1 for r in rows if "MISSED" in r), "missed;", sum(1 for r in rows if "no-check" in r or "not run" in r), "no check yet")
