#!/usr/bin/env python3
"""Behaviour-preserving rewrites of the library (written by independent sub-agents that saw only a property text).

  tools/harmless.py vet <dir> [...]   confirm a candidate (patch.diff, equiv.py, meta.json): applies to a scratch worktree
                                      of /repo, pinned tests pass, equiv.py prints the same digest with and without the
                                      patch; kept as /verif/harmless/<property>-<change>/
  tools/harmless.py run [id ...]      run the quick checks of every property anchored in a file the rewrite touches
                                      (always including the property it was written for) against each kept rewrite:
                                        quiet                      exit 0 — as it should be
                                        no-failing-input-found     a proof obligation / regenerated constant / the
                                                                   correspondence no longer checks and the search found no
                                                                   failing input (accepted by design: the property is no
                                                                   longer SHOWN to hold until the model follows the code)
                                        FALSE-ALARM                a VIOLATION with a concrete input on code where the
                                                                   property holds — a defect of the machinery
                                      results -> harmless/RESULTS.json
/repo itself is never touched: the rewrite lives in a scratch worktree used through ACRA_REPO."""
import os, sys, json, subprocess, shutil, tempfile
VERIF = os.path.dirname(os.path.dirname(os.path.abspath(__file__)))
HARM = os.path.join(VERIF, "harmless")
sys.path.insert(0, os.path.join(VERIF, "tools"))
from seeded import sh, Scratch, PYTEST

def vet(d):
    meta = json.load(open(os.path.join(d, "meta.json")))
    sid = "%s-%s" % (meta["property"], meta.get("change", "R1"))
    patch, eq = os.path.join(d, "patch.diff"), os.path.join(d, "equiv.py")
    with Scratch() as wt:
        shutil.copy(eq, os.path.join(wt, "_equiv.py"))
        rc, out0 = sh(["/venv/bin/python", "_equiv.py"], cwd=wt)
        if rc != 0:
            return sid, False, "equiv.py fails on the unchanged library: " + out0[-200:]
        rc, out = sh(["git", "-C", wt, "apply", "--whitespace=nowarn", patch])
        if rc != 0:
            return sid, False, "patch does not apply: " + out[-200:]
        rc, out1 = sh(["/venv/bin/python", "_equiv.py"], cwd=wt)
        if rc != 0 or out0.strip() != out1.strip():
            return sid, False, "behaviour differs: %r vs %r" % (out0.strip()[-80:], out1.strip()[-80:])
        os.unlink(os.path.join(wt, "_equiv.py"))
        rc, out = sh(PYTEST, cwd=wt)
        last = [l for l in out.split("\n") if " passed" in l or " failed" in l]
        if not last or "156 passed" not in last[-1] or "failed" in last[-1]:
            return sid, False, "tests: " + (last[-1] if last else out[-200:])
    dst = os.path.join(HARM, sid)
    os.makedirs(dst, exist_ok=True)
    shutil.copy(patch, os.path.join(dst, "patch.diff")); shutil.copy(eq, os.path.join(dst, "equiv.py"))
    meta["confirmed"] = {"digest_same": True, "pytest_with_change": "156 passed", "ran": "tools/harmless.py vet"}
    json.dump(meta, open(os.path.join(dst, "meta.json"), "w"), indent=1)
    return sid, True, "kept"

def anchored(files):
    props = [json.loads(l) for l in open(os.path.join(VERIF, "properties.jsonl"))]
    return [p["id"] for p in props if any(f in p["anchors"]["files"] for f in files)]

def run(ids):
    resp = os.path.join(HARM, "RESULTS.json")
    results = json.load(open(resp)) if os.path.exists(resp) else {}
    ids = ids or sorted(x for x in os.listdir(HARM) if os.path.isdir(os.path.join(HARM, x)))
    for sid in ids:
        d = os.path.join(HARM, sid)
        meta = json.load(open(os.path.join(d, "meta.json")))
        checks = sorted(set([meta["property"]] + anchored(meta.get("files", []))))
        with Scratch() as wt:
            rc, out = sh(["git", "-C", wt, "apply", "--whitespace=nowarn", os.path.join(d, "patch.diff")])
            if rc != 0:
                results[sid] = {"error": "patch does not apply"}; continue
            env = dict(os.environ, ACRA_REPO=wt)
            r = {}
            for c in checks:
                rc, out = sh(["/venv/bin/python", os.path.join(VERIF, "check.py"), c], cwd=VERIF, env=env)
                v = [l for l in out.split("\n") if l.startswith("VIOLATION")]
                if v:
                    lines = out.split("\n")
                    nxt = lines[lines.index(v[0]) + 1].strip()[:220] if lines.index(v[0]) + 1 < len(lines) else ""
                    r[c] = ("no-failing-input-found: " if "no-failing-input-found" in v[0] else "FALSE-ALARM: ") + nxt
                elif rc == 0:
                    r[c] = "quiet"
                else:
                    r[c] = "error rc=%d %s" % (rc, out[-200:])
            results[sid] = r
            print(sid, json.dumps(r), flush=True)
            json.dump(results, open(resp, "w"), indent=1, sort_keys=True)
    sh(["/venv/bin/python", os.path.join(VERIF, "harness", "extract.py")], cwd=VERIF)

if __name__ == "__main__":
    if len(sys.argv) < 2:
        print(__doc__); sys.exit(2)
    if sys.argv[1] == "vet":
        for d in sys.argv[2:]:
            print(*vet(d))
    elif sys.argv[1] == "run":
        run(sys.argv[2:])
