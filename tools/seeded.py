#!/usr/bin/env python3
"""Seeded breaking changes (written by independent sub-agents that saw only the property text).

  tools/seeded.py vet  <dir> [...]     confirm a candidate (patch.diff, demo.py, meta.json): applies to a scratch
                                       worktree of /repo, pinned tests still pass, demo fails with the change and
                                       passes without; on success it is kept as /verif/seeded/<property>-<change>/
  tools/seeded.py run  [id ...]        run the property's quick check (and with --all every claimed check) against
                                       each kept change and print caught / missed; results -> seeded/RESULTS.json

/repo itself is never touched: the change lives in a scratch worktree used through ACRA_REPO.
"""
import os, sys, json, subprocess, shutil, tempfile
VERIF = os.path.dirname(os.path.dirname(os.path.abspath(__file__)))
SEEDED = os.path.join(VERIF, "seeded")
PYTEST = ["/venv/bin/python", "-m", "pytest", "-q", "-p", "no:cacheprovider", "--timeout=900", "--continue-on-collection-errors"]

def sh(cmd, cwd=None, env=None, timeout=1800):
    p = subprocess.run(cmd, cwd=cwd, env=env, stdout=subprocess.PIPE, stderr=subprocess.STDOUT, timeout=timeout)
    return p.returncode, "\n".join(l for l in p.stdout.decode(errors="replace").split("\n") if "WARNING conda" not in l)

class Scratch:
    def __enter__(self):
        self.wt = tempfile.mkdtemp(prefix="seeded-wt-", dir="/tmp")
        os.rmdir(self.wt)
        subprocess.run(["git", "-C", "/repo", "worktree", "add", "-q", "--detach", self.wt, "HEAD"], check=True)
        return self.wt
    def __exit__(self, *a):
        subprocess.run(["git", "-C", "/repo", "worktree", "remove", "--force", self.wt])

def vet(d):
    meta = json.load(open(os.path.join(d, "meta.json")))
    pid, ch = meta["property"], meta.get("change", "A")
    sid = "%s-%s" % (pid, ch)
    patch, demo = os.path.join(d, "patch.diff"), os.path.join(d, "demo.py")
    log = {}
    with Scratch() as wt:
        shutil.copy(demo, os.path.join(wt, "_demo.py"))
        rc, out = sh(["/venv/bin/python", "_demo.py"], cwd=wt)
        log["demo_clean"] = (rc, out[-300:])
        if rc != 0:
            return sid, False, "demo does not pass on the unchanged library", log
        rc, out = sh(["git", "-C", wt, "apply", "--whitespace=nowarn", patch])
        if rc != 0:
            return sid, False, "patch does not apply: " + out[-200:], log
        rc, out = sh(["/venv/bin/python", "_demo.py"], cwd=wt)
        log["demo_patched"] = (rc, out[-400:])
        if rc == 0:
            return sid, False, "demo does not fail with the change", log
        os.unlink(os.path.join(wt, "_demo.py"))
        rc, out = sh(PYTEST, cwd=wt)
        last = [l for l in out.split("\n") if " passed" in l or " failed" in l]
        log["pytest"] = last[-1] if last else out[-200:]
        if "156 passed" not in log["pytest"] or "failed" in log["pytest"]:
            return sid, False, "existing tests do not pass with the change: " + log["pytest"], log
    dst = os.path.join(SEEDED, sid)
    os.makedirs(dst, exist_ok=True)
    shutil.copy(patch, os.path.join(dst, "patch.diff"))
    shutil.copy(demo, os.path.join(dst, "demo.py"))
    meta["confirmed"] = {"demo_on_clean": "exit 0", "demo_with_change": "exit %d" % log["demo_patched"][0],
                         "pytest_with_change": log["pytest"],
                         "ran": "tools/seeded.py vet (scratch worktree of /repo, change applied with git apply)"}
    json.dump(meta, open(os.path.join(dst, "meta.json"), "w"), indent=1)
    return sid, True, "kept", log

def claimed():
    m = json.load(open(os.path.join(VERIF, "MANIFEST.json")))
    return [c["property_id"] for c in m["checks"]]

def run(ids, all_checks=False):
    resp = os.path.join(SEEDED, "RESULTS.json")
    results = json.load(open(resp)) if os.path.exists(resp) else {}
    ids = ids or sorted(x for x in os.listdir(SEEDED) if os.path.isdir(os.path.join(SEEDED, x)))
    for sid in ids:
        d = os.path.join(SEEDED, sid)
        pid = sid.split("-")[0]
        with Scratch() as wt:
            rc, out = sh(["git", "-C", wt, "apply", "--whitespace=nowarn", os.path.join(d, "patch.diff")])
            if rc != 0:
                results[sid] = {"error": "patch does not apply"}
                continue
            env = dict(os.environ, ACRA_REPO=wt)
            checks = [pid] + ([c for c in claimed() if c != pid] if all_checks else [])
            r = {}
            for c in checks:
                if not os.path.exists(os.path.join(VERIF, "harness", "props", c + ".py")):
                    r[c] = "no-check"
                    continue
                rc, out = sh(["/venv/bin/python", os.path.join(VERIF, "check.py"), c], cwd=VERIF, env=env)
                v = [l for l in out.split("\n") if l.startswith("VIOLATION")]
                if v:
                    r[c] = "caught (no-failing-input-found)" if "no-failing-input-found" in v[0] else "caught with witness"
                    nxt = out.split("\n")[out.split("\n").index(v[0]) + 1] if out.split("\n").index(v[0]) + 1 < len(out.split("\n")) else ""
                    r[c + "_what"] = nxt.strip()[:200]
                elif rc == 0:
                    r[c] = "MISSED"
                else:
                    r[c] = "error rc=%d %s" % (rc, out[-200:])
            results[sid] = r
            print(sid, json.dumps(r), flush=True)
            json.dump(results, open(resp, "w"), indent=1, sort_keys=True)
    # restore the generated constants to /repo's
    sh(["/venv/bin/python", os.path.join(VERIF, "harness", "extract.py")], cwd=VERIF)
    json.dump(results, open(resp, "w"), indent=1, sort_keys=True)

if __name__ == "__main__":
    if len(sys.argv) < 2:
        print(__doc__); sys.exit(2)
    if sys.argv[1] == "vet":
        for d in sys.argv[2:]:
            sid, ok, why, log = vet(d)
            print(sid, "KEPT" if ok else "REJECTED", why, json.dumps(log)[:600] if not ok else "")
    elif sys.argv[1] == "run":
        args = [a for a in sys.argv[2:] if a != "--all"]
        run(args, all_checks="--all" in sys.argv)
