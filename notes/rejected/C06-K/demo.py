"""C06 / change K.

A transport stream of N=3 packets (payload-only, adaptation+payload with PCR and private data,
adaptation-only) is encoded into a reusable receive buffer (a bytearray, as filled by socket.recv_into) and
decoded through the container class MPEGTS.  The receive buffer is then reused for the next datagram.
The packets decoded from the FIRST datagram must still carry the field values that were encoded and must
re-encode to the bytes that were received.
"""
import os
import sys

sys.path.insert(0, os.getcwd())

import AcraNetwork.MPEGTS as M


def build(seed):
    """Three packets whose variable fields all depend on seed"""
    pkts = []
    p = M.MPEGPacket()
    p.pid = 0x100 + seed
    p.pusi = False
    p.continuitycounter = 3
    p.adaption_ctrl = M.ADAPTION_PAYLOAD_ONLY
    p.payload = bytes((seed + i) & 0xFF for i in range(184))
    pkts.append(p)

    p = M.MPEGPacket()
    p.pid = 0x101 + seed
    p.continuitycounter = 4
    p.adaption_ctrl = M.ADAPTION_PAYLOAD_AND_ADAPTION
    a = M.MPEGAdaption()
    a.pcr = bytes([seed, 1, 2, 3, 4, 5])
    a.private_data = bytes([seed] * 3)
    p.adaption_field = a
    alen = len(a.pack())
    p.payload = bytes((seed * 3 + i) & 0xFF for i in range(184 - alen))
    pkts.append(p)

    p = M.MPEGPacket()
    p.pid = 0x102 + seed
    p.continuitycounter = 5
    p.adaption_ctrl = M.ADAPTION_ADAPTION_ONLY
    a = M.MPEGAdaption()
    a.length = 183
    a.pcr = bytes([9, seed, 9, 9, 9, 9])
    p.adaption_field = a
    pkts.append(p)
    return pkts


def short(f):
    """Printable form of fields(): the payload hex cut to its first 16 bytes"""
    return f[:3] + (f[3][:32] + ("..." if len(f[3]) > 32 else ""),) + f[4:]


def fields(p):
    a = p.adaption_field
    return (
        p.pid,
        p.continuitycounter,
        p.adaption_ctrl,
        bytes(p.payload).hex(),
        None if a is None else (a.length, bytes(a.pcr).hex(), bytes(a.private_data).hex()),
    )


first = build(0x10)
second = build(0x60)
wire1 = b"".join(p.pack() for p in first)
wire2 = b"".join(p.pack() for p in second)
assert len(wire1) == len(wire2) == 3 * 188

rxbuf = bytearray(3 * 188)  # the reusable receive buffer

rxbuf[:] = wire1  # datagram 1 arrives
ts1 = M.MPEGTS()
ts1.unpack(rxbuf)

rxbuf[:] = wire2  # datagram 2 arrives in the same buffer
ts2 = M.MPEGTS()
ts2.unpack(rxbuf)

ok = True
if len(ts1) != 3 or len(ts2) != 3:
    print(f"FAIL: expected 3 and 3 packets, observed {len(ts1)} and {len(ts2)}")
    ok = False

for idx, (dec, enc) in enumerate(zip(ts1.blocks, first)):
    if fields(dec) != fields(enc):
        print(f"FAIL: datagram 1 packet {idx}: decoded fields are not the encoded ones")
        print(f"   expected {short(fields(enc))}")
        print(f"   observed {short(fields(dec))}")
        ok = False
for idx, (dec, enc) in enumerate(zip(ts2.blocks, second)):
    if fields(dec) != fields(enc):
        print(f"FAIL: datagram 2 packet {idx}: expected {short(fields(enc))} observed {short(fields(dec))}")
        ok = False

re1 = ts1.pack()
if re1 != wire1:
    bad = [i for i in range(len(wire1)) if i >= len(re1) or re1[i] != wire1[i]]
    print(f"FAIL: re-encoding the packets decoded from datagram 1 differs from datagram 1 at {len(bad)} byte offsets, first {bad[:8]}")
    print(f"   expected {wire1[:24].hex()}...")
    print(f"   observed {re1[:24].hex()}...")
    ok = False

if ok:
    print("PASS")
    sys.exit(0)
sys.exit(1)
