"""Each module in this package describes one family of classes to the property checks:

    corr_Cxx(ctx) -> iterable of request lines          correspondence contribution to property Cxx
    oracles_Cxx(ctx, hints) -> iterable of Failure      direct statement of Cxx on the real code
    ORACLES = {name: fn(args) -> None | str}            replayable single-input checks used by the oracles
    CLASSGEN = {adapter name: gen.ClassGen}             what the generic properties (C08, C13, C14) need
"""
import importlib, pkgutil, os
MODULES = []
for m in sorted(pkgutil.iter_modules([os.path.dirname(__file__)]), key=lambda m: m.name):
    if not m.name.startswith("_"):
        MODULES.append(importlib.import_module(__name__ + "." + m.name))

# every oracle check function (`check_*`) of every family runs under the watchdog: a library call that never
# returns becomes that check's finding instead of hanging the whole check
from ..core import watched as _watched
for _m in MODULES:
    for _n, _f in list(vars(_m).items()):
        if _n.startswith("check_") and callable(_f):
            setattr(_m, _n, _watched(60)(_f))
    if hasattr(_m, "ORACLES"):
        for _k, _f in list(_m.ORACLES.items()):
            _m.ORACLES[_k] = getattr(_m, _f.__name__, _f) if getattr(_m, getattr(_f, "__name__", ""), None) is not None and getattr(getattr(_m, _f.__name__), "__wrapped__", None) is _f else _watched(60)(_f)

def classgens():
    out = {}
    for m in MODULES:
        out.update(getattr(m, "CLASSGEN", {}))
    return out

def all_oracles():
    out = {}
    for m in MODULES:
        out.update(getattr(m, "ORACLES", {}))
    return out
