"""Each module in this package describes one family of classes to the property checks:

    corr_Cxx(ctx) -> iterable of request lines          correspondence contribution to property Cxx
    oracles_Cxx(ctx, hints) -> iterable of Failure      direct statement of Cxx on the real code
    ORACLES = {name: fn(args) -> None | str}            replayable single-input checks used by the oracles
    CLASSGEN = {adapter name: gen.ClassGen}             what the generic properties (C08, C13, C14) need
"""
import importlib, pkgutil, os
MODULES = []
for m in sorted(pkgutil.iter_modules([os.path.dirname(__file__)]), key=lambda m: m.name):
    if not m.name.startswith("_"):
        MODULES.append(importlib.import_module(__name__ + "." + m.name))

def classgens():
    out = {}
    for m in MODULES:
        out.update(getattr(m, "CLASSGEN", {}))
    return out

def all_oracles():
    out = {}
    for m in MODULES:
        out.update(getattr(m, "ORACLES", {}))
    return out
