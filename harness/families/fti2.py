"""Family: the remaining FTI payload codecs — IENA-Q/D/N, iNETPackage/iNET, the NPD segment classes and
NPD, ParserAlignedBlock/Packet.  (iNetX, IENA, IENAM are in fti.py.)"""
import struct, socket
from ..core import hexb, run_line_impl, run_driver, SPECDRIVER, ADAPTERS
from ..runner import Failure
from .. import gen
from ..gen import ClassGen
from .fti import IENA_HDR

def _spec(lines):
    return run_driver(lines, exe=SPECDRIVER) if lines else []

def _specb(line):
    r = _spec([line])[0]
    if not r.startswith("ok:x"):
        raise RuntimeError("spec driver: %s -> %s" % (line, r))
    return bytes.fromhex(r[4:])

def L(xs):
    return "[" + ";".join(str(x) for x in xs) + "]"

def bnd(bits):
    """boundary values of a `bits`-wide field; the last one does not fit"""
    return (0, 1, (1 << bits) - 1, 1 << (bits - 1), 1 << bits)

RESIDUE_LENGTHS = list(range(0, 14)) + [15, 16, 17, 18, 19, 31, 32, 33, 34]

# =================================================================================== IENA-Q
def qparam(rng, n=None):
    n = rng.choice([0, 1, 2, 3, 4, 5, 9, 16, 31]) if n is None else n
    return "QParameter{paramid=%d,dataset=%s}" % (rng.boundary(16), hexb(rng.bytes_(n)))

def ienaq_valid(rng):
    f = {k: str(rng.boundary(b)) for k, b in IENA_HDR}
    f["parameters"] = L(qparam(rng) for _ in range(rng.randrange(0, 5)))
    return f

# =================================================================================== IENA-D / IENA-N
def dn_payload(rng, cls, dwc, count):
    per = dwc + (2 if cls == "IENAD" else 1)
    return b"".join(struct.pack(">%dH" % per, *[rng.boundary(16) for _ in range(per)]) for _ in range(count))

def _dn_valid(cls):
    """a consistent IENA-D/N object: `parameters` is what the payload decodes to (the classes have no pack of
       their own, so a well-formed object is one that a decode produced)"""
    def valid(rng):
        f = {k: str(rng.boundary(b)) for k, b in IENA_HDR}
        ks = rng.getrandbits(8)
        dwc = ks & 7
        per = dwc + (2 if cls == "IENAD" else 1)
        f["keystatus"] = str(ks)
        vals = [[rng.boundary(16) for _ in range(per)] for _ in range(rng.randrange(0, 5))]
        f["payload"] = hexb(b"".join(struct.pack(">%dH" % per, *v) for v in vals))
        if cls == "IENAD":
            f["parameters"] = L("DParameter{paramid=%d,delay=%d,dwords=%s}" % (v[0], v[1], L(v[2:])) for v in vals)
        else:
            f["parameters"] = L("NParameter{paramid=%d,dwords=%s}" % (v[0], L(v[1:])) for v in vals)
        return f
    return valid

def dparam(rng, n):
    return "DParameter{paramid=%d,delay=%d,dwords=%s}" % (rng.boundary(16), rng.boundary(16), L(rng.boundary(16) for _ in range(n)))
def nparam(rng, n):
    return "NParameter{paramid=%d,dwords=%s}" % (rng.boundary(16), L(rng.boundary(16) for _ in range(n)))

def iena2_lines(ctx):
    rng = ctx.rng
    lines = []
    # IENA-Q: element counts 0..8, dataset lengths in both residues, header fields over their boundaries
    for cnt in range(0, 9):
        for _ in range(ctx.scale(3, 60)):
            f = {k: str(rng.boundary(b)) for k, b in IENA_HDR}
            f["parameters"] = L(qparam(rng) for _ in range(cnt))
            lines.append(gen.H("IENAQ", gen.sets(f) + ["pack", "obs"]))
    for n in list(range(0, 24)) + [1400, 1401]:
        f = {k: "5" for k, _ in IENA_HDR}
        f["parameters"] = L([qparam(rng, n), qparam(rng, 3)])
        lines.append(gen.H("IENAQ", gen.sets(f) + ["pack", "obs"]))
    # directed: an EMPTY dataset in the first / a middle / the last position, and only empty datasets
    for shape in ([0], [0, 0], [3, 0], [0, 3], [2, 0, 5], [1, 4, 0], [0, 0, 0], [5, 0, 0]):
        f = {k: str(rng.boundary(b)) for k, b in IENA_HDR}
        f["parameters"] = L(qparam(rng, n) for n in shape)
        lines.append(gen.H("IENAQ", gen.sets(f) + ["pack", "obs"]))
    for k, b in IENA_HDR + [("paramid", 16)]:
        for v in bnd(b):
            f = {kk: "3" for kk, _ in IENA_HDR}
            pid = 9
            if k == "paramid":
                pid = v
            else:
                f[k] = str(v)
            f["parameters"] = "[QParameter{paramid=%d,dataset=x0102ff}]" % pid
            lines.append(gen.H("IENAQ", gen.sets(f) + ["pack", "obs"]))
    # IENA-D / IENA-N: all eight word counts, 0..4 parameters, payload lengths off by -2..+2 bytes,
    # key-status bytes with the high bits set; `parameters` assigned by hand is ignored by pack
    for cls in ("IENAD", "IENAN"):
        for dwc in range(8):
            for cnt in range(0, 5):
                f = {k: str(rng.boundary(b)) for k, b in IENA_HDR}
                f["keystatus"] = str(dwc | (rng.getrandbits(5) << 3))
                f["payload"] = hexb(dn_payload(rng, cls, dwc, cnt))
                lines.append(gen.H(cls, gen.sets(f) + ["pack", "obs"]))
            for extra in (1, 2, 3, 4, 6):
                f = {k: "7" for k, _ in IENA_HDR}
                f["keystatus"] = str(dwc)
                f["payload"] = hexb(dn_payload(rng, cls, dwc, 2) + rng.bytes_(extra))
                lines.append(gen.H(cls, gen.sets(f) + ["pack", "obs"]))
        p = dparam(rng, 2) if cls == "IENAD" else nparam(rng, 2)
        lines.append(gen.H(cls, ["set parameters [%s]" % p, "set payload x00010002", "obs", "pack", "obs"]))
    return lines

# =================================================================================== iNET
PKG_FIELDS = [("definitionID", 32), ("flags", 8), ("timedelta", 32)]
INET_FIELDS = [("flags", 16), ("type", 4), ("version", 4), ("definition_ID", 32), ("sequence", 32),
               ("ptptimeseconds", 32), ("ptptimenanoseconds", 32)]

def pkg_text(rng, n=None, **over):
    n = rng.choice(RESIDUE_LENGTHS) if n is None else n
    f = {k: rng.boundary(b) for k, b in PKG_FIELDS}
    f.update(over)
    return "iNETPackage{definitionID=%d,flags=%d,timedelta=%d,payload=%s}" % (
        f["definitionID"], f["flags"], f["timedelta"], hexb(rng.bytes_(n)))

def pkg_valid(rng):
    f = {k: str(rng.boundary(b)) for k, b in PKG_FIELDS}
    f["payload"] = hexb(rng.bytes_(rng.choice(RESIDUE_LENGTHS)))
    return f

def inet_valid(rng):
    f = {k: str(rng.boundary(b)) for k, b in INET_FIELDS}
    f["app_fields"] = L(rng.boundary(32) for _ in range(rng.choice([0, 0, 1, 2, 3, 15])))
    f["packages"] = L(pkg_text(rng) for _ in range(rng.randrange(0, 4)))
    return f

def inet_lines(ctx):
    rng = ctx.rng
    lines = []
    for n in gen.payload_lengths(rng, n_random=ctx.scale(4, 100)):          # every residue mod 4, MTU size
        lines.append(gen.H("iNETPackage", gen.sets({k: str(rng.boundary(b)) for k, b in PKG_FIELDS}) +
                           ["set payload " + hexb(rng.bytes_(n)), "pack", "obs"]))
    for k, b in PKG_FIELDS:
        for v in bnd(b):
            f = {kk: "7" for kk, _ in PKG_FIELDS}
            f[k] = str(v)
            lines.append(gen.H("iNETPackage", gen.sets(f) + ["set payload x010203", "pack", "obs"]))
    lines.append(gen.H("iNETPackage", ["set payload " + hexb(rng.bytes_(65524)), "pack"]))     # length field 65536
    lines.append(gen.H("iNETPackage", ["set payload " + hexb(rng.bytes_(65523)), "pack"]))
    for cnt in range(0, 9):                                                   # package counts 0..8
        for _ in range(ctx.scale(3, 60)):
            f = {k: str(rng.boundary(b)) for k, b in INET_FIELDS}
            f["app_fields"] = L(rng.boundary(32) for _ in range(rng.choice([0, 1, 2, 5])))
            f["packages"] = L(pkg_text(rng) for _ in range(cnt))
            lines.append(gen.H("iNET", gen.sets(f) + ["pack", "obs"]))
    for wc in range(0, 18):                                                   # option word counts 0..17 (16, 17 overflow)
        f = {k: "1" for k, _ in INET_FIELDS}
        f["app_fields"] = L(rng.boundary(32) for _ in range(wc))
        f["packages"] = L([pkg_text(rng, 5)])
        lines.append(gen.H("iNET", gen.sets(f) + ["pack", "obs"]))
    for k, b in INET_FIELDS + [("type", 8), ("version", 8)]:                   # type/version beyond their 4 bits
        for v in bnd(b):
            f = {kk: "1" for kk, _ in INET_FIELDS}
            f[k] = str(v)
            f["app_fields"] = "[4294967295]"
            f["packages"] = L([pkg_text(rng, 2)])
            lines.append(gen.H("iNET", gen.sets(f) + ["pack", "obs"]))
    for nib in range(16):                                                     # every type / version nibble
        for k in ("type", "version"):
            f = {kk: str(rng.boundary(b)) for kk, b in INET_FIELDS}
            f[k] = str(nib)
            f["app_fields"] = L(rng.boundary(32) for _ in range(nib))
            f["packages"] = L([pkg_text(rng, nib % 8)])
            lines.append(gen.H("iNET", gen.sets(f) + ["pack", "obs"]))
    f = {kk: str(rng.boundary(b)) for kk, b in INET_FIELDS}                    # eight packages, payload lengths 0..7
    f["app_fields"] = "[]"
    f["packages"] = L(pkg_text(rng, n) for n in range(8))
    lines.append(gen.H("iNET", gen.sets(f) + ["pack", "obs"]))
    lines.append(gen.H("iNET", ["set app_fields [4294967296]", "pack"]))
    lines.append(gen.H("iNET", ["set packages [iNETPackage{flags=256}]", "pack"]))
    lines.append(gen.H("iNET", ["set packages [iNETPackage{flags=1};iNETPackage{definitionID=4294967296}]", "pack"]))
    return lines

# =================================================================================== NPD
SEG_FIELDS = [("timedelta", 32), ("errorcode", 8), ("flags", 8)]
NPD_FIELDS = [("version", 4), ("cfgcnt", 8), ("flags", 8), ("sequence", 16), ("datasrcid", 32), ("mcastaddr", 32),
              ("timestamp", 32)]
DT_CLASS = {0x50: "RS232Segment", 0x38: "A429Segment", 0xA1: "ACQSegment", 0xD0: "MIL1553Segment", 0x60: "PCMPacketizer"}
SEG_CLASSES = ["NPDSegment", "PCMPacketizer", "A429Segment", "ACQSegment", "RS232Segment", "MIL1553Segment"]

def npd_dt_class(dt):
    """the class NPD.unpack instantiates, read from the implementation's table"""
    import AcraNetwork.NPD as npd
    return npd.NPD.NPD_DT.get(dt, npd.NPDSegment).__name__

def seg_payload(rng, cls, n=None):
    """payload bytes that the typed decoders accept"""
    if cls == "ACQSegment":
        k = rng.randrange(0, 6) if n is None else n
        return bytes([rng.getrandbits(8), rng.getrandbits(8)]) + rng.bytes_(2) + rng.bytes_(2 * k)
    if cls == "MIL1553Segment":
        return rng.bytes_(4 + (rng.choice(RESIDUE_LENGTHS) if n is None else n))
    if cls == "RS232Segment":
        sc = rng.randrange(0, 8)
        bs = (rng.getrandbits(13) << 3) | sc
        return struct.pack(">H", bs) + rng.bytes_(sc) + rng.bytes_(rng.choice(RESIDUE_LENGTHS) if n is None else n)
    return rng.bytes_(rng.choice(RESIDUE_LENGTHS) if n is None else n)

def seg_fields(rng, cls, n=None):
    """field -> text for a valid segment object of class cls (dict order = assignment order)"""
    f = {k: str(rng.boundary(b)) for k, b in SEG_FIELDS}
    if cls == "RS232Segment":
        f["block_status"] = str(rng.boundary(16))
        f["sync_bytes"] = L(rng.boundary(8) for _ in range(rng.randrange(0, 8)))
        f["data"] = hexb(rng.bytes_(rng.choice(RESIDUE_LENGTHS) if n is None else n))
    else:
        f["payload"] = hexb(seg_payload(rng, cls, n))
    return f

def seg_text(cls, f):
    return cls + "{" + ",".join("%s=%s" % kv for kv in f.items()) + "}"

def _seg_valid(cls):
    return lambda rng: seg_fields(rng, cls)

def npd_valid(rng, dt=None):
    f = {k: str(rng.boundary(b)) for k, b in NPD_FIELDS}
    dt = rng.choice(list(DT_CLASS) + [0x00, 0x51, 0xFF]) if dt is None else dt
    cls = DT_CLASS.get(dt, "NPDSegment")
    f["datatype"] = str(dt)
    f["segments"] = L(seg_text(cls, seg_fields(rng, cls)) for _ in range(rng.randrange(0, 4)))
    return f

def _npd_alt(rng, k, cur):
    """another value for one field; the segment list keeps its classes (they follow from the data type)"""
    if k == "segments":
        name = cur[1:].split("{", 1)[0] if cur != "[]" else "NPDSegment"
        return L(seg_text(name, seg_fields(rng, name)) for _ in range(rng.randrange(0, 4)))
    if k == "datatype":
        return str(rng.choice([0x00, 0x51, 0xFF, 0x52]))
    return None

def npd_lines(ctx):
    rng = ctx.rng
    lines = []
    for cls in SEG_CLASSES:
        for n in RESIDUE_LENGTHS + [1400, 1401, 1402, 1403]:                   # every residue of the pad rule
            lines.append(gen.H(cls, gen.sets(seg_fields(rng, cls, n)) + ["pack", "obs"]))
        for k, b in SEG_FIELDS:
            for v in bnd(b):
                f = seg_fields(rng, cls, 3)
                f[k] = str(v)
                lines.append(gen.H(cls, gen.sets(f) + ["pack", "obs"]))
        # segmentlen assigned after the payload is packed as it stands; assigned before, the setter rewrites it
        lines.append(gen.H(cls, ["set payload x01020304050607", "set segmentlen 3", "obs", "pack", "obs"]))
        lines.append(gen.H(cls, ["set segmentlen 65536", "pack"]))
        lines.append(gen.H(cls, ["set segmentlen 77", "set payload x0102", "obs", "pack", "obs"]))
        lines.append(gen.H(cls, ["set payload " + hexb(rng.bytes_(65528)), "pack"]))
    for sc in range(0, 10):                                                   # sync byte counts 0..9 (8, 9 overflow the mask)
        for bs in (0, 7, 0xFFF8, 0xFFFF, 0x12345, rng.getrandbits(16)):
            lines.append(gen.H("RS232Segment", ["set block_status %d" % bs, "set sync_bytes " + L(rng.boundary(8) for _ in range(sc)),
                                                "set data " + hexb(rng.bytes_(rng.randrange(0, 6))), "pack", "obs", "pack", "obs"]))
    lines.append(gen.H("RS232Segment", ["set sync_bytes [1;256;3]", "set data x01", "pack"]))
    for dt in list(DT_CLASS) + [0x00, 0x51, 0xFF]:                            # all typed data types plus unknown ones
        cls = DT_CLASS.get(dt, "NPDSegment")
        for cnt in range(0, 9):
            for _ in range(ctx.scale(1, 20)):
                f = {k: str(rng.boundary(b)) for k, b in NPD_FIELDS}
                f["datatype"] = str(dt)
                f["segments"] = L(seg_text(cls, seg_fields(rng, cls)) for _ in range(cnt))
                lines.append(gen.H("NPD", gen.sets(f) + ["pack", "obs"]))
    for k, b in NPD_FIELDS + [("datatype", 8), ("hdrlen", 4), ("version", 8)]:
        for v in bnd(b):
            f = {kk: "1" for kk, _ in NPD_FIELDS}
            f["datatype"] = "80"
            f[k] = str(v)
            if k == "mcastaddr" and v >= 1 << 32:
                continue                                                      # not a dotted quad
            f["segments"] = L([seg_text("RS232Segment", seg_fields(rng, "RS232Segment", 2))])
            lines.append(gen.H("NPD", gen.sets(f) + ["pack", "obs"]))
    for nib in range(16):                                                     # every version / header-length nibble
        for k in ("version", "hdrlen"):
            f = {kk: str(rng.boundary(b)) for kk, b in NPD_FIELDS}
            f["datatype"] = "208"
            f[k] = str(nib)
            f["segments"] = L([seg_text("MIL1553Segment", seg_fields(rng, "MIL1553Segment", nib % 8))])
            lines.append(gen.H("NPD", gen.sets(f) + ["pack", "obs"]))
    for dt in list(DT_CLASS) + [0x00]:                                        # eight segments, payload lengths 0..7: every pad residue
        cls = DT_CLASS.get(dt, "NPDSegment")
        f = {kk: str(rng.boundary(b)) for kk, b in NPD_FIELDS}
        f["datatype"] = str(dt)
        f["segments"] = L(seg_text(cls, seg_fields(rng, cls, n)) for n in range(8))
        lines.append(gen.H("NPD", gen.sets(f) + ["pack", "obs"]))
    # the constructor's defaults: no multicast address, no data type, no time stamp
    lines.append(gen.H("NPD", ["obs", "pack"]))
    lines.append(gen.H("NPD", ["set mcastaddr 1", "pack"]))
    lines.append(gen.H("NPD", ["set mcastaddr 1", "set datatype 5", "pack"]))
    lines.append(gen.H("NPD", ["set mcastaddr 1", "set timestamp 5", "pack"]))
    lines.append(gen.H("NPD", ["set mcastaddr None", "set datatype 5", "set timestamp 5", "pack"]))
    # segments of a class other than the data type's are packed as they are
    lines.append(gen.H("NPD", ["set mcastaddr 1", "set timestamp 5", "set datatype 161",
                               "set segments [RS232Segment{data=x0102};NPDSegment{payload=x01}]", "pack", "obs"]))
    lines.append(gen.H("NPD", ["set mcastaddr 1", "set timestamp 5", "set datatype 80",
                               "set segments [RS232Segment{sync_bytes=[256]};NPDSegment{payload=x01}]", "pack"]))
    return lines

def npd_decode_only_lines(ctx):
    """typed segments laid out by hand (spec layout) and decoded; payloads too short for the typed header"""
    rng = ctx.rng
    lines = []
    for dt in list(DT_CLASS) + [0x00]:
        cls = DT_CLASS.get(dt, "NPDSegment")
        for plen in range(0, 9):
            pl = rng.bytes_(plen)
            seg = struct.pack(">IHBB", rng.boundary(32), 8 + plen, rng.boundary(8), rng.boundary(8)) + pl + b"\xff" * ((4 - plen % 4) % 4)
            lines.append(gen.H(cls, ["unpack " + hexb(seg), "obs", "pack", "obs"]))
            body = seg + seg
            hdr = struct.pack(">BBHBBHIII", 0x35, dt, (20 + len(body)) // 4, 1, 2, 3, 4, 5, 6)
            lines.append(gen.H("NPD", ["unpack " + hexb(hdr + body), "obs", "pack", "obs"]))
    return lines

# =================================================================================== ParserAligned
PAB_FIELDS = [("errorcode", 6), ("messagecount", 8), ("busid", 8), ("elapsedtime", 32)]

def pab_fields(rng, quads=None):
    f = {"error": rng.choice(["True", "False"])}
    f.update({k: str(rng.boundary(b)) for k, b in PAB_FIELDS})
    f["payload"] = hexb(rng.bytes_(4 * (rng.choice([0, 0, 1, 2, 3, 5, 9]) if quads is None else quads)))
    return f

def pab_text(f):
    return "ParserAlignedBlock{" + ",".join("%s=%s" % kv for kv in f.items()) + "}"

def pab_valid(rng):
    return pab_fields(rng)

def pap_valid(rng):
    return {"parserblocks": L(pab_text(pab_fields(rng)) for _ in range(rng.randrange(0, 5)))}

def pa_lines(ctx):
    rng = ctx.rng
    lines = []
    # unaligned payloads are refused; quadbytes is a 9-bit field: 255, 256, 257, 510, 511 fit, 512 and 513 overflow
    for n in list(range(0, 26)) + [1400, 1401, 1402, 1403] + [4 * (q - 2) for q in (255, 256, 257, 510, 511, 512, 513)]:
        f = pab_fields(rng)
        f["payload"] = hexb(rng.bytes_(n))
        lines.append(gen.H("ParserAlignedBlock", gen.sets(f) + ["pack", "obs"]))
    for k, b in PAB_FIELDS + [("errorcode", 8)]:
        for v in bnd(b):
            for er in ("True", "False"):
                f = pab_fields(rng, 1)
                f["error"] = er
                f[k] = str(v)
                lines.append(gen.H("ParserAlignedBlock", gen.sets(f) + ["pack", "obs"]))
    f = pab_fields(rng, 0)
    f.update(error="True", errorcode="63", payload=hexb(rng.bytes_(4 * 510)))                # 32768+32256+512 = 65536
    lines.append(gen.H("ParserAlignedBlock", gen.sets(f) + ["pack"]))
    for cnt in range(0, 9):
        for _ in range(ctx.scale(3, 60)):
            lines.append(gen.H("ParserAlignedPacket", ["set parserblocks " + L(pab_text(pab_fields(rng)) for _ in range(cnt)), "pack", "obs"]))
    for q in (255, 256, 257, 510, 511):
        f = pab_fields(rng)
        f["payload"] = hexb(rng.bytes_(4 * (q - 2)))
        lines.append(gen.H("ParserAlignedPacket", ["set parserblocks " + L([pab_text(pab_fields(rng, 1)), pab_text(f), pab_text(pab_fields(rng, 0))]), "pack", "obs"]))
    lines.append(gen.H("ParserAlignedPacket", ["set parserblocks [ParserAlignedBlock{payload=x01020304};ParserAlignedBlock{payload=x01}]", "pack"]))
    lines.append(gen.H("ParserAlignedPacket", ["set numberofblocks 3", "set parserblocks [ParserAlignedBlock{payload=x01020304}]", "pack", "obs"]))
    return lines

# =================================================================================== C01
def _decode_side(lines):
    """bytes produced by the implementation, decoded into a fresh object and re-encoded"""
    out = []
    for l in lines:
        a = run_line_impl(l)
        for p in a.split("|"):
            if p.startswith("ok:x") and len(p) < 9000:
                out.append(gen.H(l.split()[1], ["unpack " + p[3:], "obs", "pack", "obs"]))
    return out

def corr_C01(ctx):
    lines = iena2_lines(ctx) + inet_lines(ctx) + npd_lines(ctx) + pa_lines(ctx)
    return lines + _decode_side(lines) + npd_decode_only_lines(ctx)

# ----------------------------------------------------------------------------------- layout oracles
def _set_all(o, f):
    for k, v in f.items():
        setattr(o, k, v)

def check_ienaq_layout(args):
    import AcraNetwork.IENA as iena
    f, params = args["fields"], [(a, bytes.fromhex(h)) for a, h in args["params"]]
    o = iena.IENAQ()
    _set_all(o, f)
    o.parameters = [iena.QParameter(paramid=a, dataset=ds) for a, ds in params]
    b = o.pack()
    enc = _spec([gen.F("spec.IENAQ.encodeParam", str(a), hexb(ds)) for a, ds in params])
    body = b""
    for e in enc:
        piece = bytes.fromhex(e[4:])
        if len(piece) % 2:
            return "IENA-Q parameter occupies an odd number of bytes"
        body += piece
    exp = _spec([gen.F("spec.IENA.encode", *[str(f[k]) for k, _ in IENA_HDR], hexb(body))])[0]
    if exp != "ok:" + hexb(b):
        return "IENAQ.pack emits %s but the IENA-Q layout is %s" % (hexb(b), exp)
    q = iena.IENAQ()
    q.unpack(b)
    got = [(p.paramid, bytes(p.dataset)) for p in q.parameters]
    if got != params:
        return "IENA-Q round trip changes the parameters: %r -> %r" % (params, got)
    for k, v in f.items():
        if getattr(q, k) != v:
            return "IENA-Q round trip changes %s" % k
    if q.pack() != b:
        return "IENA-Q re-encode of decoded packet differs"
    return None

def check_ienadn_decode(args):
    """bytes laid out as IENA-D / IENA-N decode into exactly the parameters the layout dictates"""
    import AcraNetwork.IENA as iena
    cls, f, params = args["cls"], dict(args["fields"]), args["params"]
    dwc = f["keystatus"] & 7
    if cls == "IENAD":
        lines = [gen.F("spec.IENAD.encodeParam", str(p[0]), str(p[1]), L(p[2])) for p in params]
    else:
        lines = [gen.F("spec.IENAN.encodeParam", str(p[0]), L(p[1])) for p in params]
    body = b"".join(bytes.fromhex(e[4:]) for e in _spec(lines))
    buf = _specb(gen.F("spec.IENA.encode", *[str(f[k]) for k, _ in IENA_HDR], hexb(body)))
    o = getattr(iena, cls)()
    o.unpack(buf)
    if cls == "IENAD":
        got = [[p.paramid, p.delay, list(p.dwords)] for p in o.parameters]
    else:
        got = [[p.paramid, list(p.dwords)] for p in o.parameters]
    if got != [list(p) for p in params]:
        return "%s with %d data words decodes %r as %r" % (cls, dwc, params, got)
    for k, v in f.items():
        if getattr(o, k) != v:
            return "%s decode changes header field %s" % (cls, k)
    if o.pack() != buf:
        return "%s re-encode of the decoded packet differs from the bytes decoded" % cls
    return None

def check_pkg_layout(args):
    import AcraNetwork.iNET as inet
    f, p = args["fields"], bytes.fromhex(args["payload"])
    o = inet.iNETPackage()
    _set_all(o, f)
    o.payload = p
    b = o.pack()
    exp = _spec([gen.F("spec.iNETPackage.encode", str(f["definitionID"]), str(f["flags"]), str(f["timedelta"]), hexb(p))])[0]
    if exp != "ok:" + hexb(b):
        return "iNETPackage.pack emits %s but the package layout is %s" % (hexb(b), exp)
    if len(b) % 4:
        return "iNETPackage.pack emits %d bytes, not a multiple of 4" % len(b)
    if o._length != 12 + len(p):
        return "iNETPackage length field %d is not 12 + %d payload bytes" % (o._length, len(p))
    q = inet.iNETPackage()
    rest = q.unpack(b + b"\xaa\xbb")
    if rest != b"\xaa\xbb":
        return "iNETPackage.unpack leaves %s of the following bytes, not all of them" % hexb(rest)
    for k, v in f.items():
        if getattr(q, k) != v:
            return "iNETPackage round trip changes %s" % k
    if q.payload != p or q.pack() != b:
        return "iNETPackage round trip changes the payload or re-encodes differently"
    return None

def check_inet_layout(args):
    import AcraNetwork.iNET as inet
    f, app, pkgs = args["fields"], args["app_fields"], args["packages"]
    o = inet.iNET()
    _set_all(o, f)
    o.app_fields = list(app)
    body = b""
    for d, fl, td, ph in pkgs:
        p = inet.iNETPackage()
        p.definitionID, p.flags, p.timedelta, p.payload = d, fl, td, bytes.fromhex(ph)
        o.packages.append(p)
    enc = _spec([gen.F("spec.iNETPackage.encode", str(d), str(fl), str(td), "x" + ph) for d, fl, td, ph in pkgs])
    body = b"".join(bytes.fromhex(e[4:]) for e in enc)
    b = o.pack()
    exp = _spec([gen.F("spec.iNET.encode", str(f["version"]), str(f["type"]), str(f["flags"]), str(f["definition_ID"]),
                       str(f["sequence"]), str(f["ptptimeseconds"]), str(f["ptptimenanoseconds"]), L(app), hexb(body))])[0]
    if exp != "ok:" + hexb(b):
        return "iNET.pack emits %s but the iNET layout is %s" % (hexb(b), exp)
    if o._length != len(b):
        return "iNET length field %d is not the %d bytes emitted" % (o._length, len(b))
    q = inet.iNET()
    q.unpack(b)
    for k, v in f.items():
        if getattr(q, k) != v:
            return "iNET round trip changes %s: %r -> %r" % (k, v, getattr(q, k))
    if q.app_fields != list(app):
        return "iNET round trip changes the application fields"
    got = [[p.definitionID, p.flags, p.timedelta, bytes(p.payload).hex()] for p in q.packages]
    if got != [list(x) for x in pkgs]:
        return "iNET round trip changes the packages: %r -> %r" % (pkgs, got)
    if q.pack() != b:
        return "iNET re-encode of the decoded message differs"
    return None

def _typed_expect(cls, payload):
    """what the layout says the typed fields of a segment with this payload are"""
    if cls == "MIL1553Segment":
        return {"blockstatus": int.from_bytes(payload[0:2], "big"), "gap1": payload[2], "gap2": payload[3], "data": payload[4:]}
    if cls == "ACQSegment":
        n = (len(payload) - 4) // 2
        return {"sfid": payload[0], "cal": payload[1] >> 7,
                "words": [int.from_bytes(payload[4 + 2 * i:6 + 2 * i], "big") for i in range(n)]}
    if cls == "RS232Segment":
        bs = int.from_bytes(payload[0:2], "big")
        n = bs & 7
        return {"block_status": bs, "sync_bytes": list(payload[2:2 + n]), "data": payload[2 + n:]}
    return {}

def _typed_payload_spec(cls, t):
    if cls == "MIL1553Segment":
        return _specb(gen.F("spec.MIL1553.encodeData", str(t["blockstatus"]), str(t["gap1"]), str(t["gap2"]), "x" + t["data"]))
    if cls == "ACQSegment":
        return _specb(gen.F("spec.ACQ.encodeData", str(t["sfid"]), str(t["cal"]), str(t["low7"]), str(t["reserved"]), L(t["words"])))
    if cls == "RS232Segment":
        return _specb(gen.F("spec.RS232.encodeData", str(t["hi13"]), L(t["sync_bytes"]), "x" + t["data"]))
    return bytes.fromhex(t["payload"])

def check_npd_layout(args):
    """NPD.pack == layout; packetlen*4 == bytes; segments built of the data type's class; typed fields as laid
       out; round trip and re-encode.  args: fields, datatype, segs=[{timedelta,errorcode,flags,typed…}]"""
    import AcraNetwork.NPD as npd
    f, dt, segs = args["fields"], args["datatype"], args["segs"]
    cls = npd_dt_class(dt)
    if cls != DT_CLASS.get(dt, "NPDSegment"):
        return "NPD_DT maps data type %#x to %s, the NPD layout says %s" % (dt, cls, DT_CLASS.get(dt, "NPDSegment"))
    o = npd.NPD()
    for k, v in f.items():
        if k == "mcastaddr":
            o.mcastaddr = socket.inet_ntoa(struct.pack(">I", v))
        else:
            setattr(o, k, v)
    o.datatype = dt
    body = b""
    payloads = []
    for s in segs:
        pl = _typed_payload_spec(cls, s["typed"])
        payloads.append(pl)
        g = getattr(npd, cls)()
        g.timedelta, g.errorcode, g.flags = s["timedelta"], s["errorcode"], s["flags"]
        if cls == "RS232Segment":
            g.block_status = s["typed"]["hi13"] * 8 + 5            # the low three bits are recomputed by pack
            g.sync_bytes = list(s["typed"]["sync_bytes"])
            g.data = bytes.fromhex(s["typed"]["data"])
        else:
            g.payload = pl
        o.segments.append(g)
        e = _specb(gen.F("spec.NPDSegment.encode", str(s["timedelta"]), str(s["errorcode"]), str(s["flags"]), hexb(pl)))
        if len(e) % 4:
            return "NPD segment occupies %d bytes, not a multiple of 4" % len(e)
        one = g.pack()
        if one != e:
            return "%s.pack emits %s but the segment layout is %s" % (cls, hexb(one), hexb(e))
        if g.segmentlen != 8 + len(pl):
            return "%s.segmentlen %d is not 8 + %d data bytes" % (cls, g.segmentlen, len(pl))
        body += e
    b = o.pack()
    exp = _specb(gen.F("spec.NPD.encode", str(f["version"]), str(dt), str(f["cfgcnt"]), str(f["flags"]), str(f["sequence"]),
                       str(f["datasrcid"]), str(f["mcastaddr"]), str(f["timestamp"]), hexb(body)))
    if exp != b:
        return "NPD.pack emits %s but the NPD layout is %s" % (hexb(b), hexb(exp))
    if o.packetlen * 4 != len(b):
        return "NPD.packetlen %d does not count the %d bytes emitted in 32-bit words" % (o.packetlen, len(b))
    q = npd.NPD()
    q.unpack(b)
    for k, v in f.items():
        got = int.from_bytes(socket.inet_aton(q.mcastaddr), "big") if k == "mcastaddr" else getattr(q, k)
        if got != v:
            return "NPD round trip changes %s: %r -> %r" % (k, v, got)
    if q.datatype != dt or q.hdrlen != 5 or len(q.segments) != len(segs):
        return "NPD round trip changes datatype/hdrlen/segment count"
    for g, s, pl in zip(q.segments, segs, payloads):
        if type(g).__name__ != cls:
            return "NPD data type %#x decodes into %s, not %s" % (dt, type(g).__name__, cls)
        if (g.timedelta, g.errorcode, g.flags, bytes(g.payload), g.segmentlen) != (s["timedelta"], s["errorcode"], s["flags"], pl, 8 + len(pl)):
            return "NPD round trip changes a segment's header fields or payload"
        for k, v in _typed_expect(cls, pl).items():
            if getattr(g, k) != v:
                return "%s.%s decodes as %r, the layout says %r (payload %s)" % (cls, k, getattr(g, k), v, hexb(pl))
    if q.pack() != b:
        return "NPD re-encode of the decoded packet differs"
    return None

def check_pa_layout(args):
    import AcraNetwork.ParserAligned as pa
    blocks = args["blocks"]
    o = pa.ParserAlignedPacket()
    body = b""
    for er, ec, mc, bi, et, ph in blocks:
        k = pa.ParserAlignedBlock()
        k.error, k.errorcode, k.messagecount, k.busid, k.elapsedtime, k.payload = er, ec, mc, bi, et, bytes.fromhex(ph)
        o.parserblocks.append(k)
        e = _specb(gen.F("spec.ParserAlignedBlock.encode", "True" if er else "False", str(ec), str(mc), str(bi), str(et), "x" + ph))
        one = k.pack()
        if one != e:
            return "ParserAlignedBlock.pack emits %s but the block layout is %s" % (hexb(one), hexb(e))
        if k.quadbytes != 2 + len(ph) // 8 or k.quadbytes * 4 != len(one):
            return "ParserAlignedBlock.quadbytes %d does not count the %d bytes emitted" % (k.quadbytes, len(one))
        body += e
    b = o.pack()
    if b != body:
        return "ParserAlignedPacket.pack is not the concatenation of its blocks"
    q = pa.ParserAlignedPacket()
    q.unpack(b)
    got = [[k.error, k.errorcode, k.messagecount, k.busid, k.elapsedtime, bytes(k.payload).hex()] for k in q.parserblocks]
    if got != [list(x) for x in blocks]:
        return "parser-aligned round trip changes the blocks: %r -> %r" % (blocks, got)
    if q.pack() != b:
        return "parser-aligned re-encode differs"
    return None

def _typed_args(rng, cls, n=None):
    """n: data length (bytes; 16-bit words for ACQ) — the callers run it through 0..7 for every pad residue"""
    n = rng.choice(RESIDUE_LENGTHS) if n is None else n
    if cls == "MIL1553Segment":
        return {"blockstatus": rng.boundary(16), "gap1": rng.boundary(8), "gap2": rng.boundary(8),
                "data": rng.bytes_(n).hex()}
    if cls == "ACQSegment":
        return {"sfid": rng.boundary(8), "cal": rng.randrange(2), "low7": rng.boundary(7), "reserved": rng.boundary(16),
                "words": [rng.boundary(16) for _ in range(n % 8)]}
    if cls == "RS232Segment":
        return {"hi13": rng.boundary(13), "sync_bytes": [rng.boundary(8) for _ in range(rng.randrange(0, 8))],
                "data": rng.bytes_(n).hex()}
    return {"payload": rng.bytes_(n).hex()}

def oracles_C01(ctx, hints):
    rng = ctx.rng
    fails = []
    n = 0
    def run(name, fn, args, tags):
        nonlocal n
        n += 1
        try:
            w = fn(args)
        except Exception as e:
            w = "%s raised %r on a well-formed object" % (name, e)
        if w:
            fails.append(Failure(name, args, w, tags))
            return True
        return False
    k = 4 if getattr(ctx, "search_mode", False) else 1
    for i in range(ctx.scale(40, 1500) * k):
        f = {kk: rng.boundary(b) for kk, b in IENA_HDR}
        params = [[rng.boundary(16), rng.bytes_(rng.choice([0, 1, 2, 3, 4, 5, 7, 30])).hex()] for _ in range(i % 6)]
        if run("ienaq_layout", check_ienaq_layout, {"fields": f, "params": params}, {"class": "IENAQ", "check": "layout"}):
            break
    else:
        for shape in ([0], [0, 0], [3, 0], [0, 3], [2, 0, 5], [1, 4, 0], [0, 0, 0], [5, 0, 0]):
            f = {kk: rng.boundary(b) for kk, b in IENA_HDR}
            params = [[rng.boundary(16), rng.bytes_(n).hex()] for n in shape]
            if run("ienaq_layout", check_ienaq_layout, {"fields": f, "params": params}, {"class": "IENAQ", "check": "layout"}):
                break
    for cls in ("IENAD", "IENAN"):
        for i in range(ctx.scale(48, 1500) * k):
            f = {kk: rng.boundary(b) for kk, b in IENA_HDR}
            dwc = i % 8
            f["keystatus"] = dwc | (rng.getrandbits(5) << 3)
            if cls == "IENAD":
                params = [[rng.boundary(16), rng.boundary(16), [rng.boundary(16) for _ in range(dwc)]] for _ in range((i // 8) % 5)]
            else:
                params = [[rng.boundary(16), [rng.boundary(16) for _ in range(dwc)]] for _ in range((i // 8) % 5)]
            if run("ienadn_decode", check_ienadn_decode, {"cls": cls, "fields": f, "params": params},
                   {"class": cls, "check": "decode_layout"}):
                break
    for i in range(ctx.scale(60, 2000) * k):
        f = {kk: rng.boundary(b) for kk, b in PKG_FIELDS}
        if run("inetpackage_layout", check_pkg_layout, {"fields": f, "payload": rng.bytes_(i % 37).hex()},
               {"class": "iNETPackage", "check": "layout"}):
            break
    for i in range(ctx.scale(60, 2000) * k):
        f = {kk: rng.boundary(b) for kk, b in INET_FIELDS}
        f["type"], f["version"] = i % 16, (i // 16 + i) % 16                   # every nibble value
        app = [rng.boundary(32) for _ in range(i % 16)]                        # every option word count 0..15
        npk = 8 if i % 10 == 9 else i % 5
        pkgs = [[rng.boundary(32), rng.boundary(8), rng.boundary(32),
                 rng.bytes_((j + i) % 8 if i % 2 else rng.choice(RESIDUE_LENGTHS)).hex()] for j in range(npk)]
        if run("inet_layout", check_inet_layout, {"fields": f, "app_fields": app, "packages": pkgs},
               {"class": "iNET", "check": "layout"}):
            break
    dts = list(DT_CLASS) + [0x00, 0x51, 0xFF]
    bad = set()
    for i in range(ctx.scale(90, 3000) * k):
        dt = dts[i % len(dts)]
        if dt in bad:
            continue
        cls = DT_CLASS.get(dt, "NPDSegment")
        f = {kk: rng.boundary(b) for kk, b in NPD_FIELDS}
        f["version"] = (i // len(dts)) % 16                                    # every version nibble
        nseg = 8 if (i // len(dts)) % 5 == 4 else (i // len(dts)) % 4 + (1 if i % 5 else 0)
        segs = [{"timedelta": rng.boundary(32), "errorcode": rng.boundary(8), "flags": rng.boundary(8),
                 "typed": _typed_args(rng, cls, (j + i) % 8 if nseg == 8 else None)} for j in range(nseg)]
        if run("npd_layout", check_npd_layout, {"fields": f, "datatype": dt, "segs": segs},
               {"class": "NPD", "check": "layout", "segment_class": cls, "datatype": dt}):
            bad.add(dt)
    for i in range(ctx.scale(60, 2000) * k):
        big = [255, 256, 257, 510, 511][(i // 6) % 5] - 2 if i % 6 == 5 else None   # the 9-bit count over its full width
        blocks = [[rng.random() < 0.5, rng.boundary(6), rng.boundary(8), rng.boundary(8), rng.boundary(32),
                   rng.bytes_(4 * (big if (big is not None and j == 1) else rng.choice([0, 1, 2, 3, 7]))).hex()]
                  for j in range(i % 6)]
        if run("parseraligned_layout", check_pa_layout, {"blocks": blocks}, {"class": "ParserAlignedPacket", "check": "layout"}):
            break
    ctx.count("oracle_evaluations", n)
    return fails

ORACLES = {"ienaq_layout": check_ienaq_layout, "ienadn_decode": check_ienadn_decode, "inetpackage_layout": check_pkg_layout,
           "inet_layout": check_inet_layout, "npd_layout": check_npd_layout, "parseraligned_layout": check_pa_layout}

# =================================================================================== generic registry
CLASSGEN = {
    "IENAQ": ClassGen("IENAQ", ienaq_valid, length_fields=[(2, 2, "big"), (16, 2, "big")]),
    "IENAD": ClassGen("IENAD", _dn_valid("IENAD"), length_fields=[(2, 2, "big"), (10, 1, "big")]),
    "IENAN": ClassGen("IENAN", _dn_valid("IENAN"), length_fields=[(2, 2, "big"), (10, 1, "big")]),
    "iNETPackage": ClassGen("iNETPackage", pkg_valid, length_fields=[(4, 2, "big")], has_eq=False),
    "iNET": ClassGen("iNET", inet_valid, length_fields=[(0, 1, "big"), (12, 4, "big"), (28, 2, "big")]),
    "NPD": ClassGen("NPD", npd_valid, length_fields=[(0, 1, "big"), (2, 2, "big"), (24, 2, "big")], alt=_npd_alt),
    "ParserAlignedBlock": ClassGen("ParserAlignedBlock", pab_valid, length_fields=[(0, 2, "big")]),
    "ParserAlignedPacket": ClassGen("ParserAlignedPacket", pap_valid, length_fields=[(0, 2, "big")]),
}
for _cls in SEG_CLASSES:
    CLASSGEN[_cls] = ClassGen(_cls, _seg_valid(_cls), length_fields=[(4, 2, "big")])

# =================================================================================== C09
C09_CLASSES = [("IENAQ", ienaq_valid), ("IENAD", _dn_valid("IENAD")), ("IENAN", _dn_valid("IENAN")),
               ("iNETPackage", pkg_valid), ("iNET", inet_valid), ("NPD", npd_valid),
               ("ParserAlignedBlock", pab_valid), ("ParserAlignedPacket", pap_valid)] + \
              [(c, _seg_valid(c)) for c in SEG_CLASSES]

NPD_DTS = list(DT_CLASS) + [0x00, 0x51, 0xFF]

def _pack_impl(cls, f):
    a = run_line_impl(gen.H(cls, gen.sets(f) + ["pack"]))
    r = a.split("|")[-1]
    return bytes.fromhex(r[4:]) if r.startswith("ok:x") else None

def _valid_packets(ctx):
    """(class, bytes) of valid packets built on the implementation: every class, every NPD data type (plain
       NPDSegment for 0x38 / 0x60 / unknown types, RS232, ACQ, 1553) with 1..3 segments, parser-aligned blocks
       with the 9-bit count over its width"""
    rng = ctx.rng
    out = []
    for cls, valid in C09_CLASSES:
        if cls == "NPD":
            continue
        got = 0
        for _ in range(ctx.scale(12, 120)):
            b = _pack_impl(cls, valid(rng))
            if b is not None:
                out.append((cls, b))
                got += 1
            if got >= ctx.scale(5, 50):
                break
    for dt in NPD_DTS:
        cls = DT_CLASS.get(dt, "NPDSegment")
        for cnt in ([1, 2, 3] if ctx.tier == "quick" else [0, 1, 1, 2, 2, 3, 3, 4, 5, 8]):
            f = {k: str(rng.boundary(b)) for k, b in NPD_FIELDS}
            f["datatype"] = str(dt)
            f["segments"] = L(seg_text(cls, seg_fields(rng, cls, rng.randrange(0, 8))) for _ in range(cnt))
            b = _pack_impl("NPD", f)
            if b is not None:
                out.append(("NPD", b))
    for q in (255, 511):
        f = pab_fields(rng)
        f["payload"] = hexb(rng.bytes_(4 * (q - 2)))
        b = _pack_impl("ParserAlignedPacket", {"parserblocks": L([pab_text(pab_fields(rng, 1)), pab_text(f)])})
        if b is not None:
            out.append(("ParserAlignedPacket", b))
    return out

def _put(b, off, size, v):
    return b[:off] + (v & ((1 << (8 * size)) - 1)).to_bytes(size, "big") + b[off + size:]

def _field_variants(b, off, size, extra=()):
    real = int.from_bytes(b[off:off + size], "big")
    mx = (1 << (8 * size)) - 1
    out = []
    for v in (0, 1, real - 1, real + 1, mx) + tuple(extra):
        if 0 <= v <= mx and v != real:
            out.append(_put(b, off, size, v))
    return out

def _c09_mutants(cls, b):
    """every length/count field at 0, 1, real-1, real+1, max (and the exact-fit / one-too-many values for
       element lengths, at every element position); buffer lengths declared-2 .. declared+2"""
    out = [b]
    for d in (-8, -7, -6, -5, -4, -3, -2, -1, 1, 2, 4):
        out.append(b[:max(0, len(b) + d)] if d < 0 else b + b"\x00" * d)
    if cls in ("IENAQ", "IENAD", "IENAN"):
        out += _field_variants(b, 2, 2)
    if cls == "IENAQ":
        pos, end = 14, len(b) - 2
        while pos + 4 <= end:
            n = int.from_bytes(b[pos + 2:pos + 4], "big")
            out += _field_variants(b, pos + 2, 2, (n + 2, end - pos - 4, end - pos - 3))
            pos += 4 + n + (n % 2)
    if cls in ("IENAD", "IENAN"):
        for low in range(8):                                   # another word count for the same payload
            out.append(_put(b, 10, 1, (b[10] & 0xF8) | low))
        for d in (-4, -2, 2, 4, 6):                            # payload longer/shorter, size field kept right
            body = b[14:-2]
            body = body[:len(body) + d] if d < 0 else body + b"\x11" * d
            nb = b[:14] + body + b[-2:]
            out.append(_put(nb, 2, 2, len(nb) // 2))
    if cls == "NPD":
        out += _field_variants(b, 2, 2)
        for h in range(16):
            out.append(_put(b, 0, 1, (b[0] & 0xF0) | h))
        pos = 20
        while pos + 8 <= len(b):
            n = int.from_bytes(b[pos + 4:pos + 6], "big")
            out += _field_variants(b, pos + 4, 2, (7, 8, 9, 10, 12, n + 4, n + 8, len(b) - pos, len(b) - pos + 1))
            pos += n + (-n % 4) if n >= 8 else 8
        for cut in list(range(20, min(len(b), 34))) + [len(b) - 8, len(b) - 4]:   # packet cut inside a segment, length field kept right
            if cut % 4 == 0 and 20 <= cut < len(b):
                out.append(_put(b[:cut], 2, 2, cut // 4))
    if cls in SEG_CLASSES:
        out += _field_variants(b, 4, 2, (7, 8, 9, 10, 12, len(b), len(b) + 1))
        out += [b[:t] for t in range(0, min(len(b), 14))]
    if cls in ("ParserAlignedPacket", "ParserAlignedBlock"):
        pos = 0
        while pos + 8 <= len(b):
            w = int.from_bytes(b[pos:pos + 2], "big")
            q = w & 0x1FF
            rem = (len(b) - pos) // 4
            for v in (0, 1, 2, 3, q - 1, q + 1, q + 2, rem, rem + 1, 511):
                if 0 <= v <= 511 and v != q:
                    out.append(_put(b, pos, 2, (w & 0xFE00) | v))
            pos += 4 * q if q >= 2 else 8
        out += [b[:t] for t in range(0, min(len(b), 10))] + [b + b"\x00" * 8, b + bytes.fromhex("0002000000000000")]
    if cls == "iNET":
        out += [b[:t] for t in range(0, min(len(b), 40))]
        out += _field_variants(b, 12, 4)
        for wc in range(16):
            out.append(_put(b, 0, 1, (b[0] & 0xF0) | wc))
        pos = 24 + 4 * (b[0] & 0xF)
        while pos + 12 <= len(b):
            n = int.from_bytes(b[pos + 4:pos + 6], "big")
            out += _field_variants(b, pos + 4, 2, (11, 12, 13, 16, n + 4, n + 8, len(b) - pos, len(b) - pos + 1))
            pos += n + (-n % 4) if n >= 12 else 12
    if cls == "iNETPackage":
        out += _field_variants(b, 4, 2, (11, 12, 13, 16, len(b), len(b) + 1))
        out += [b[:t] for t in range(0, min(len(b), 16))]
    return out

def corr_C09(ctx):
    lines = []
    for cls, b in _valid_packets(ctx):
        for m in _c09_mutants(cls, b):
            lines.append(gen.H(cls, ["unpack " + hexb(m), "obs"]))
    return lines

# ----------------------------------------------------------------------------------- reference acceptance
def _ref_iena_params_q(b):
    pos, end, exp = 14, len(b) - 2, []
    while pos < end:
        if pos + 4 > end:
            return None
        n = int.from_bytes(b[pos + 2:pos + 4], "big")
        if pos + 4 + n > end:
            return None
        exp.append(b[pos + 4:pos + 4 + n])
        pos += 4 + n + (n % 2)
    return exp

def _typed_min(cls, payload):
    """the typed segment header must be complete"""
    if cls in ("ACQSegment", "MIL1553Segment"):
        return len(payload) >= 4
    if cls == "RS232Segment":
        return len(payload) >= 2 and len(payload) >= 2 + (int.from_bytes(payload[:2], "big") & 7)
    return True

def _ref_segments(cls, rem):
    """walk the segment area as the format lays it out; None when a (typed) segment header is incomplete.
       Returns [(declared length, payload bytes present)]"""
    out = []
    while rem:
        if len(rem) < 8:
            return None
        sl = int.from_bytes(rem[4:6], "big")
        payload = rem[8:max(sl, 8)]
        if not _typed_min(cls, payload):
            return None
        out.append((sl, payload))
        n = 8 + len(payload)
        rem = rem[n + (-n % 4):]
    return out

def _ref_blocks(b):
    pos, out = 0, []
    while pos < len(b):
        if len(b) - pos < 8:
            return None
        q = int.from_bytes(b[pos:pos + 2], "big") & 0x1FF
        if q < 2 or 4 * q > len(b) - pos:
            return None
        out.append(b[pos + 8:pos + 4 * q])
        pos += 4 * q
    return out

def _ref_packages(rem):
    out = []
    while rem:
        if len(rem) < 12:
            return None
        n = int.from_bytes(rem[4:6], "big")
        if n < 12:
            return None
        out.append((n, rem[12:n]))
        rem = rem[n + (-n % 4):]
    return out

def check_accept_exact2(args):
    """the decoder accepts a buffer exactly when the checks the format defines hold, and what it returns is
       exactly the declared bytes"""
    cls, b = args["cls"], bytes.fromhex(args["buf"])
    a = ADAPTERS[cls]
    o = a.ctor()
    try:
        res = a.unpack(o, b)
    except Exception:
        ok = False
    else:
        ok = True
    verdict = lambda should, why: None if ok == should else "%s.unpack %s a %d-byte buffer %s" % (
        cls, "accepted" if ok else "rejected", len(b), why)
    if cls in ("IENAQ", "IENAD", "IENAN"):
        base = len(b) >= 14 and 2 * int.from_bytes(b[2:4], "big") == len(b)
        if ok and not base:
            return "%s.unpack accepted a %d-byte buffer whose size field says %d words" % (cls, len(b), int.from_bytes(b[2:4], "big"))
        if not base:
            return None
        if cls == "IENAQ":
            exp = _ref_iena_params_q(b)
            w = verdict(exp is not None, "in which a declared dataset %s inside the packet" % ("lies" if exp is not None else "does not lie"))
            if w:
                return w
            if ok and [bytes(p.dataset) for p in o.parameters] != exp:
                return "IENAQ.unpack returned datasets that are not exactly the declared bytes"
            return None
        per = 2 * (b[10] & 7) + (4 if cls == "IENAD" else 2)
        whole = (len(b) - 16) % per == 0
        w = verdict(whole, "whose %d payload bytes are %sa whole number of %d-byte parameters" % (len(b) - 16, "" if whole else "not ", per))
        if w:
            return w
        if ok:
            if len(o.parameters) != (len(b) - 16) // per or any(len(p.dwords) != (b[10] & 7) for p in o.parameters):
                return "%s.unpack returned %d parameters for %d bytes of %d-byte parameters" % (cls, len(o.parameters), len(b) - 16, per)
        return None
    if cls == "NPD":
        if ok and not (len(b) >= 20 and 4 * int.from_bytes(b[2:4], "big") == len(b)):
            return "NPD.unpack accepted a %d-byte buffer whose length field says %d words" % (len(b), int.from_bytes(b[2:4], "big"))
        if not (len(b) >= 20 and 4 * int.from_bytes(b[2:4], "big") == len(b)):
            return None
        segs = _ref_segments(npd_dt_class(b[1]), b[4 * (b[0] & 0xF):])
        w = verdict(segs is not None, "whose total length matches and whose segment headers are %scomplete" % ("" if segs is not None else "not all "))
        if w:
            return w
        if ok and [bytes(g.payload) for g in o.segments] != [p for _, p in segs]:
            return "NPD.unpack returned segment payloads that are not the bytes of the segments"
        return None
    if cls in SEG_CLASSES:
        segs = _ref_segments(cls, b) if b else None
        should = len(b) >= 8 and _typed_min(cls, b[8:max(int.from_bytes(b[4:6], "big"), 8)])
        return verdict(should, "(segment header %scomplete)" % ("" if should else "in"))
    if cls == "ParserAlignedPacket":
        exp = _ref_blocks(b)
        w = verdict(exp is not None, "in which %s block has quadbytes >= 2 and fits" % ("every" if exp is not None else "not every"))
        if w:
            return w
        if ok and [bytes(k.payload) for k in o.parserblocks] != exp:
            return "ParserAlignedPacket.unpack returned block payloads that are not exactly the declared quad-bytes"
        return None
    if cls == "ParserAlignedBlock":
        q = int.from_bytes(b[0:2], "big") & 0x1FF if len(b) >= 2 else 0
        should = len(b) >= 8 and q >= 2 and 4 * q <= len(b)
        w = verdict(should, "with quadbytes=%d" % q)
        if w:
            return w
        if ok and (res != 4 * q or bytes(o.payload) != b[8:4 * q]):
            return "ParserAlignedBlock.unpack returned %r / a payload that is not the declared %d bytes" % (res, 4 * q - 8)
        return None
    if cls == "iNET":
        if ok and len(b) < 24:
            return "iNET.unpack accepted a %d-byte buffer, shorter than the 24-byte header" % len(b)
        if len(b) < 24:
            return None
        wc = b[0] & 0xF
        pk = _ref_packages(b[24 + 4 * wc:]) if len(b) >= 24 + 4 * wc else None
        w = verdict(pk is not None, "(option words and package headers %scomplete)" % ("" if pk is not None else "in"))
        if w:
            return w
        if ok and ([bytes(p.payload) for p in o.packages] != [p for _, p in pk] or len(o.app_fields) != wc):
            return "iNET.unpack returned package payloads / option words that are not the bytes of the message"
        return None
    if cls == "iNETPackage":
        n = int.from_bytes(b[4:6], "big") if len(b) >= 6 else 0
        return verdict(len(b) >= 12 and n >= 12, "with length field %d" % n)
    return None

def check_element_exact(args):
    """accepted ⇒ never truncated or padded: every element (NPD segment, iNET package) the decoder returns
       has exactly the length its own length field declares.  Returns (what, case) through `what`."""
    cls, b = args["cls"], bytes.fromhex(args["buf"])
    a = ADAPTERS[cls]
    o = a.ctor()
    try:
        a.unpack(o, b)
    except Exception:
        return None
    if cls == "NPD":
        elems = [(int.from_bytes(r[4:6], "big"), g) for r, g in _walk(b[4 * (b[0] & 0xF):], o.segments, 8)]
        hdr, name = 8, "segment"
    elif cls in SEG_CLASSES:
        elems, hdr, name = [(int.from_bytes(b[4:6], "big"), o)], 8, "segment"
    elif cls == "iNET":
        elems = [(int.from_bytes(r[4:6], "big"), g) for r, g in _walk(b[24 + 4 * (b[0] & 0xF):], o.packages, 12)]
        hdr, name = 12, "package"
    elif cls == "iNETPackage":
        elems, hdr, name = [(int.from_bytes(b[4:6], "big"), o)], 12, "package"
    else:
        return None
    for declared, g in elems:
        have = hdr + len(g.payload)
        if declared != have:
            case = "declared_lt_header" if declared < hdr else "declared_gt_available"
            return "%s.unpack accepted %s in which a %s declares %d bytes but %d are returned (%s)" % (
                cls, hexb(b) if len(b) <= 80 else hexb(b[:80]) + "...", name, declared, have, case)
    return None

def _walk(rem, objs, hdr):
    """pair each decoded element with the bytes it was decoded from (elements are laid end to end, each
       rounded up to four bytes; the decoder's own view of the element length decides where the next starts)"""
    out = []
    for g in objs:
        out.append((rem, g))
        n = hdr + len(g.payload)
        rem = rem[n + (-n % 4):]
    return out

def oracles_C09(ctx, hints):
    fails = []
    n = 0
    seen = set()
    noted = False
    for cls, b in _valid_packets(ctx):
        for m in _c09_mutants(cls, b):
            args = {"cls": cls, "buf": m.hex()}
            n += 1
            w = check_accept_exact2(args)
            if w and cls not in seen:
                seen.add(cls)
                fails.append(Failure("accept_exact2", args, w, {"class": cls, "check": "accept_exact"}))
            if cls in ("NPD", "iNET", "iNETPackage") or cls in SEG_CLASSES:
                w = check_element_exact(args)
                if w:
                    case = w.rsplit("(", 1)[1].rstrip(")")
                    if (cls, case) not in seen:
                        seen.add((cls, case))
                        # NOT a failure of C09: the property lists the checks the decoders perform (NPD: total
                        # length; iNET: short buffer) and neither decoder performs an element-length check, so
                        # demanding one would ask for more than the property states (DESIGN §12.4).  Recorded as
                        # an observation in the evidence.
                        ctx.notes.append("observation (outside C09's list of checks): " + w[:300])
            if cls == "iNET" and not noted and len(m) >= 24 and int.from_bytes(m[12:16], "big") != len(m):
                a = ADAPTERS[cls]
                try:
                    a.unpack(a.ctor(), m)
                    noted = True
                    ctx.notes.append("observation (iNET is not in C09's list of total-length checks): iNET.unpack accepts %s, "
                                     "message length field %d, buffer %d bytes" % (hexb(m)[:120], int.from_bytes(m[12:16], "big"), len(m)))
                except Exception:
                    pass
    ctx.count("oracle_evaluations", n)
    return fails

ORACLES["accept_exact2"] = check_accept_exact2
ORACLES["element_exact"] = check_element_exact

# =================================================================================== C14 (family-specific)
def check_npd_mixed_segments_eq(args):
    """two NPD objects that differ only in the class of a segment: if they compare equal they must encode
       to the same bytes.  (NPDSegment.__eq__, inherited by ACQ/A429/1553/PCM-packetizer segments, accepts a
       segment of ANY class and compares its cached payload; RS232Segment.pack encodes from other fields.)"""
    import AcraNetwork.NPD as npd
    def build(cls, f):
        n = npd.NPD()
        n.mcastaddr, n.datatype, n.timestamp = "235.0.0.1", args["datatype"], 1
        g = getattr(npd, cls)()
        for k, v in f.items():
            setattr(g, k, bytes.fromhex(v[1:]) if isinstance(v, str) and v.startswith("x") else v)
        n.segments = [g]
        return n
    a, b = build(args["cls_a"], args["fields_a"]), build(args["cls_b"], args["fields_b"])
    for x, y, nm in ((a, b, "a == b"), (b, a, "b == a")):
        try:
            eq = (x == y)
        except Exception as e:
            return "NPD comparison raised %r" % (e,)
        if eq and x.pack() != y.pack():
            return ("NPD: %s is True for packets whose only segments are a %s and a %s, but they encode differently "
                    "(%s vs %s)" % (nm, args["cls_a"], args["cls_b"], hexb(a.pack()), hexb(b.pack())))
    return None

def oracles_C14(ctx, hints):
    rng = ctx.rng
    fails = []
    n = 0
    for _ in range(ctx.scale(20, 400)):
        ca, cb = rng.sample(SEG_CLASSES, 2)
        fa, fb = {}, {}
        # a freshly built RS232 segment has an empty cached payload until it is packed
        for c, f in ((ca, fa), (cb, fb)):
            if c == "RS232Segment":
                f["data"] = hexb(rng.bytes_(rng.randrange(0, 4)))
                f["block_status"] = rng.boundary(16)
        args = {"datatype": rng.choice(list(DT_CLASS)), "cls_a": ca, "cls_b": cb, "fields_a": fa, "fields_b": fb}
        n += 1
        w = check_npd_mixed_segments_eq(args)
        if w:
            fails.append(Failure("npd_mixed_segments_eq", args, w,
                                 {"class": "NPD", "check": "eq_sound", "field": "segments", "variant": "mixed_segment_classes"}))
            break
    ctx.count("oracle_evaluations", n)
    return fails

ORACLES["npd_mixed_segments_eq"] = check_npd_mixed_segments_eq

def corr_C14(ctx):
    """NPD equality over segment lists of mixed classes (Python's reflected-__eq__ rule, the inherited
       NPDSegment.__eq__ that accepts any segment class, RS232Segment's own), and iNET equality whose
       package comparison encodes the packages"""
    rng = ctx.rng
    lines = []
    base = ["set mcastaddr 1", "set datatype 80", "set timestamp 2"]
    for _ in range(ctx.scale(150, 3000)):
        ca, cb = rng.choice(SEG_CLASSES), rng.choice(SEG_CLASSES)
        shared = {k: str(rng.choice([0, 1])) for k, _ in SEG_FIELDS}
        def seg(c):
            f = dict(shared)
            if c == "RS232Segment":
                if rng.random() < 0.5:
                    f["data"] = hexb(rng.bytes_(rng.randrange(0, 3)))
                if rng.random() < 0.3:
                    f["sync_bytes"] = L([1])
            elif rng.random() < 0.5:
                f["payload"] = hexb(rng.bytes_(rng.choice([0, 0, 1, 4])))
            return seg_text(c, f)
        lines.append(gen.E("NPD", base + ["set segments " + L([seg(ca)])], base + ["set segments " + L([seg(cb)])]))
    for _ in range(ctx.scale(40, 800)):
        pa = [pkg_text(rng, rng.choice([0, 1, 4]), flags=rng.choice([0, 1, 256])) for _ in range(rng.randrange(0, 3))]
        pb = list(pa) if rng.random() < 0.5 else [pkg_text(rng, 1) for _ in range(rng.randrange(0, 3))]
        fl = rng.choice(["0", "1"])
        lines.append(gen.E("iNET", ["set flags " + fl, "set packages " + L(pa)], ["set flags " + rng.choice(["0", "1"]), "set packages " + L(pb)]))
    return lines

# =================================================================================== C08 (family-specific stream)
def corr_C08(ctx):
    """the malformed stream built per class: for every class and every NPD data type (plain NPDSegment for
       0x38 / 0x60 / unknown, RS232, ACQ, 1553) each length/count field at 0, 1, real±1, max and the exact-fit /
       one-too-many values at every element position, a last element declaring 1–2 words too many, tails cut by
       1..8 bytes, extension by 1, 2, 4 bytes"""
    return corr_C09(ctx)

def oracles_C08(ctx, hints):
    from ..generic import check_total
    fails = []
    n = 0
    seen = set()
    for cls, b in _valid_packets(ctx):
        if cls in seen:
            continue
        for m in _c09_mutants(cls, b):
            args = {"cls": cls, "opts": [], "buf": m.hex()}
            n += 1
            w = check_total(args)
            if w:
                seen.add(cls)
                fails.append(Failure("total", args, w, {"class": cls, "check": "total"}))
                break
    ctx.count("oracle_evaluations", n)
    return fails

# =================================================================================== C13 (family-specific)
OPTIONS = {"lengthError"}          # codec options: not decoded fields

def _alt_text(v):
    """a different value of the same kind for one public attribute, or None (lists are exercised by the histories)"""
    if v is None:
        return "1"
    if isinstance(v, bool):
        return "False" if v else "True"
    if isinstance(v, int):
        return str(v + 1)
    if isinstance(v, (bytes, bytearray)):
        return hexb(bytes(v) + b"\x55")
    return None

def check_attribute_rebuilt(args):
    """unpack() into an object one of whose public attributes was assigned beforehand leaves the object as
       unpack() into a new object does: every public attribute is rebuilt from the bytes"""
    cls, f, alt, b = args["cls"], args["field"], args["alt"], args["buf"]
    tail = ["unpack x" + b, "obs"]
    r1 = run_line_impl(gen.H(cls, ["set %s %s" % (f, alt)] + tail)).split("|")
    r2 = run_line_impl(gen.H(cls, tail)).split("|")
    if r2[0].startswith("ok") and r1[1:] != r2:
        import re
        def val(o):
            m = re.search(r"[{,]%s=([^,}]*)" % re.escape(f), o)
            return m.group(1) if m else "?"
        return "%s: after `%s = %s`, unpack(%s) leaves %s=%s; on a new object the same unpack leaves %s=%s%s" % (
            cls, f, alt, "x" + b[:60], f, val(r1[-1]), f, val(r2[-1]),
            "" if val(r1[-1]) != val(r2[-1]) else " (other attributes differ: %s vs %s)" % (r1[-1][:150], r2[-1][:150]))
    return None

def _attribute_cases(ctx):
    out = []
    seen = set()
    for cls, b in _valid_packets(ctx):
        if cls in seen:
            continue
        seen.add(cls)
        a = ADAPTERS[cls]
        o = a.ctor()
        for f in a.fields:
            if f.startswith("_") or f in OPTIONS:
                continue
            alt = _alt_text(a.get(o, f))
            if alt is not None:
                out.append({"cls": cls, "field": f, "alt": alt, "buf": b.hex()})
    return out

def corr_C13(ctx):
    return [gen.H(c["cls"], ["set %s %s" % (c["field"], c["alt"]), "unpack x" + c["buf"], "obs", "pack", "obs"])
            for c in _attribute_cases(ctx)]

def oracles_C13(ctx, hints):
    fails = []
    n = 0
    for args in _attribute_cases(ctx):
        n += 1
        w = check_attribute_rebuilt(args)
        if w:
            fails.append(Failure("attribute_rebuilt", args, w, {"class": args["cls"], "check": "history", "field": args["field"],
                                                               "variant": "attribute_not_written_by_unpack"}))
    ctx.count("oracle_evaluations", n)
    return fails

ORACLES["attribute_rebuilt"] = check_attribute_rebuilt
