"""Family: Golay(24,12) and IRIG 106 Chapter 7 (PTDP / PTFR, encapsulation and decapsulation).

Properties served: C11 (Golay), C20 (header words survive 3 bit errors), C10 (encapsulate / decapsulate),
plus the family's share of C08, C09, C13, C14 (PTDP and PTFR are enrolled in the generic checks through
CLASSGEN).

The oracles state the properties on the REAL code and take their expectations from sources that do not
depend on the code under test: the Lean Spec (specdriver) and a small independent reference below
(`ref_*`: the extended Golay code from its generator polynomial, the PTDP/PTFR layouts, a frame-fill
simulation that says which packets have been emitted and whether a low-latency insertion overflowed)."""
import itertools
from ..core import hexb, run_line_impl, run_driver, SPECDRIVER, ADAPTERS, parse_val
from ..runner import Failure
from .. import gen
from ..gen import ClassGen
from ..adapters import golay7 as ad
import AcraNetwork.Golay as golay
import AcraNetwork.Chapter7 as ch7


def _spec(lines):
    return run_driver(lines, exe=SPECDRIVER)

# =============================================================================== independent reference
def ref_polymod(v):
    for i in range(22, 10, -1):
        if (v >> i) & 1:
            v ^= 0xC75 << (i - 11)
    return v

def ref_encode(x):
    d = x & 0xFFF
    c23 = (d << 11) | ref_polymod(d << 11)
    return (c23 << 1) | (bin(c23).count("1") & 1)

def ref_word(x):
    return ref_encode(x).to_bytes(3, "big")

def ref_ptdp(fragment, content, payload):
    n = len(payload)
    return ref_word((content << 6) | (fragment << 4) | (n >> 12)) + ref_word(n & 0xFFF) + payload

def wt(e):
    return bin(e).count("1")

def patterns(maxw, bits=24):
    """all error patterns of weight 0..maxw"""
    out = [0]
    for w in range(1, maxw + 1):
        for c in itertools.combinations(range(bits), w):
            out.append(sum(1 << i for i in c))
    return out

PAT3 = patterns(3)                       # 2325
SINGLE = [1 << i for i in range(24)]
DOUBLE = [(1 << i) | (1 << j) for i in range(24) for j in range(i)]
_PAT4 = []
def pat4():
    if not _PAT4:
        _PAT4.extend(sum(1 << i for i in c) for c in itertools.combinations(range(24), 4))
    return _PAT4

# =============================================================================== C11 Golay
_GOLAY = []
def _g():
    """one shared instance for the oracles (building the decode tables costs ~30 ms)"""
    if not _GOLAY:
        _GOLAY.append(golay.Golay())
    return _GOLAY[0]

def corr_C11(ctx):
    rng = ctx.rng
    lines = ["F golay.tables"]
    for x in range(4096):                                    # the whole encode table, both forms
        lines.append("F golay.encode %d" % x)
        lines.append("F golay.encode_s %d" % x)
    for x in (4096, 4097, 0xFFFF, 0x12345, 1 << 40):           # masked, not rejected
        lines.append("F golay.encode %d" % x)
    g = [ref_encode(x) for x in range(4096)]
    vals = [0, 1, 0x800, 0xFFF, 0x555, 0xAAA] + [rng.randrange(4096) for _ in range(6)]
    for x in vals:                                           # every single-bit flip on several values
        for e in SINGLE:
            lines.append("F golay.decode %d" % (g[x] ^ e))
            lines.append("F golay.errors %d" % (g[x] ^ e))
    for _ in range(ctx.scale(50000, 600000)):                # (value, pattern) pairs, weights 0..5
        x = rng.randrange(4096)
        w = rng.choice([0, 1, 2, 2, 3, 3, 3, 4, 4, 5])
        e = 0
        for i in rng.sample(range(24), w):
            e |= 1 << i
        v = g[x] ^ e
        c = rng.random()
        if c < 0.45:
            lines.append("F golay.decode %d" % v)
        elif c < 0.7:
            lines.append("F golay.decode " + hexb(v.to_bytes(3, "big")))
        else:
            lines.append("F golay.errors %d" % v)
    for n in (0, 1, 2, 4, 5):                                 # the 3-byte check
        lines.append("F golay.decode " + hexb(rng.bytes_(n)))
    for v in (1 << 24, (1 << 24) + 5, (1 << 30) | 0x123456):   # bits above 24 are ignored
        lines.append("F golay.decode %d" % v)
    # instance histories: the decode tables are filled lazily, `_errors` does not fill them
    for _ in range(ctx.scale(40, 400)):
        ops = []
        for _ in range(rng.randrange(1, 7)):
            x = rng.randrange(4096)
            e = rng.choice(PAT3 + pat4()[:200])
            k = rng.choice(["call errors %d", "call decode %d", "call decode %s", "call encode %d", "call encode_s %d", "obs"])
            ops.append(k % (g[x] ^ e) if "%d" in k else k % hexb((g[x] ^ e).to_bytes(3, "big")) if "%s" in k else k)
        lines.append(gen.H("Golay", ops + ["obs"]))
    for c, n in ((0, 24), (1, 24), (0xFFFFFF, 24), (0x800101, 3), (0x800101, 0), (0x1FFFFFF, 24), (5, 1)):
        lines.append(gen.H("Golay", ["call onesincode %d %d" % (c, n)]))
    return lines

def check_golay_word(args):
    """encode is systematic and equals the extended Golay code; its string form is the big-endian image"""
    x = args["x"]
    g = _g()
    c = g.encode(x)
    if c >> 12 != x:
        return "Golay.encode(%#x) = %#x does not carry the value in its upper 12 bits" % (x, c)
    if c != ref_encode(x):
        return "Golay.encode(%#x) = %#x is not the extended Golay code word %#x" % (x, c, ref_encode(x))
    s = g.encode(x, as_string=True)
    if not isinstance(s, (bytes, bytearray)) or s != c.to_bytes(3, "big"):
        return "Golay.encode(%#x, as_string=True) = %r is not the big-endian image of %#x" % (x, s, c)
    c2 = g.encode(x)
    if c2 != c or isinstance(c2, (bytes, bytearray)):
        return "Golay.encode(%#x) after encode(…, as_string=True) on the same object = %r, not the code word %#x" % (x, c2, c)
    if g.decode(s) != g.decode(c) or g.decode(c) != x:
        return "Golay.decode of code word %#x: bytes -> %r, int -> %r, value %#x" % (c, g.decode(s), g.decode(c), x)
    return None

def check_golay_pattern(args):
    """decode(encode(x) ^ e) == x and _errors == weight for weight <= 3 (int and bytes entry);
       _errors == 4 for weight 4"""
    x, e = args["x"], args["e"]
    g = _g()
    v = g.encode(x) ^ e
    w = wt(e)
    if w <= 3:
        d = g.decode(v)
        if d != x:
            return "Golay.decode(encode(%#x) ^ %#08x) = %#x (weight-%d error not corrected)" % (x, e, d, w)
        d = g.decode(v.to_bytes(3, "big"))
        if d != x:
            return "Golay.decode(bytes of encode(%#x) ^ %#08x) = %#x" % (x, e, d)
        n = g._errors(v)
        if n != w:
            return "Golay._errors(encode(%#x) ^ %#08x) = %d, pattern weight %d" % (x, e, n, w)
    elif w == 4:
        g.decode(0)
        n = g._errors(v)
        if n != 4:
            return "Golay._errors(encode(%#x) ^ %#08x) = %d for a 4-bit error (must be 4)" % (x, e, n)
    return None

def check_golay_fresh(args):
    """the very first use of a new Golay object is a decode through the entry named (int or 3-byte string):
    the tables are built lazily, and a <= 3-bit error must be corrected on that first call too"""
    x, e, entry = args["x"], args["e"], args["entry"]
    v = ref_encode(x) ^ e
    g = golay.Golay()
    d = g.decode(v.to_bytes(3, "big") if entry == "bytes" else v)
    if wt(e) <= 3 and d != x:
        return "a new Golay object: decode(%s of encode(%#x) ^ %#08x) = %#x (weight-%d error not corrected on first use)" % (
            entry, x, e, d, wt(e))
    return None

def check_golay_many_objects(args):
    """decoding does not depend on how many other Golay objects exist or have decoded in between (caches of per-object
    set-up work have a size): object g0 decodes, `others` further objects each decode once, then g0 and a new object
    decode words with <= 3 errors and clean words again"""
    x, e, others = args["x"], args["e"], args["others"]
    g0 = golay.Golay()
    v = ref_encode(x) ^ e
    d0 = g0.decode(v)
    pool = []
    for i in range(others):
        g = golay.Golay()
        g.decode(ref_encode((x + i) % 4096) ^ (1 << (i % 24)))
        pool.append(g)
    for name, g in (("the first object", g0), ("a new object", golay.Golay()), ("an object in the middle", pool[len(pool) // 2] if pool else g0)):
        for xx, ee in ((x, e), (x, 0), ((x * 7 + 1) % 4096, 0), (0xFFF, 0), ((x + 5) % 4096, e)):
            d = g.decode(ref_encode(xx) ^ ee)
            if wt(ee) <= 3 and d != xx:
                return "after %d other Golay objects have decoded, %s decodes encode(%#x) ^ %#08x as %#x" % (others, name, xx, ee, d)
    if wt(e) <= 3 and d0 != x:
        return "Golay.decode(encode(%#x) ^ %#08x) = %#x" % (x, e, d0)
    return None

def oracles_C11(ctx, hints):
    rng = ctx.rng
    fails = []
    n = 0
    def run(name, fn, args, tags):
        w = fn(args)
        if w:
            fails.append(Failure(name, args, w, tags))
        return w
    # the Lean Spec's code words (all 4096) against the real encode
    spec = parse_val(_spec(["F spec.golay.encodeAll"])[0][3:])
    g = _g()
    for x in range(4096):
        n += 1
        if spec[x] != g.encode(x) or spec[x] != ref_encode(x):
            fails.append(Failure("golay_word", {"x": x}, "Golay.encode(%#x) = %#x but the Spec code word is %#x" % (
                x, g.encode(x), spec[x]), {"class": "Golay", "check": "codeword"}))
            break
    for x in range(4096):                                    # exhaustive, every run
        n += 1
        if run("golay_word", check_golay_word, {"x": x}, {"class": "Golay", "check": "codeword"}):
            break
    for i in range(ctx.scale(40, 400)):                       # first use of a new object, both entries
        n += 1
        x = rng.randrange(4096)
        e = rng.choice(PAT3[1:])
        if i % 5 == 4:                                       # the data half arrives all zero: a value of weight <= 3, its bits hit
            x = rng.choice([v for v in (1, 2, 3, 7, 0x800, 0x801, 0xC01, 0x111, rng.randrange(1, 4096)) if wt(v) <= 3])
            e = x << 12
        if e >> 12 == 0:                                     # make sure a data bit is hit most of the time
            e |= 1 << rng.randrange(12, 24)
            if wt(e) > 3:
                e = 1 << rng.randrange(12, 24)
        if run("golay_fresh", check_golay_fresh, {"x": x, "e": e, "entry": "bytes" if i % 2 == 0 else "int"},
               {"class": "Golay", "check": "corrects"}):
            break
    for others in (1, 2, 19, 20, 21, 127, 128, 129, 130, 257) + ((1025,) if ctx.tier == "thorough" else ()):
        n += 1
        if run("golay_many_objects", check_golay_many_objects, {"x": rng.randrange(4096), "e": rng.choice(PAT3[1:]), "others": others},
               {"class": "Golay", "check": "corrects", "directed": "many_objects"}):
            break
    big = getattr(ctx, "search_mode", False) or ctx.tier == "thorough"
    vals = [0, 1, 0x800, 0xFFF, 0x555, 0xAAA, 0x001, 0x7FF] + [rng.randrange(4096) for _ in range(ctx.scale(8, 64))]
    if ctx.tier == "thorough":
        vals = list(range(4096))
    pats = PAT3 if big else (SINGLE + DOUBLE + [0])
    bad = False
    for x in vals:                                           # all single / double patterns (all <=3 when searching)
        for e in pats:
            n += 1
            if run("golay_pattern", check_golay_pattern, {"x": x, "e": e}, {"class": "Golay", "check": "corrects"}):
                bad = True
                break
        if bad:
            break
    if not bad:
        triples = PAT3[1 + 24 + 276:]
        hi = [e for e in triples if e >> 22]                  # touching bits 22 / 23
        for _ in range(ctx.scale(20000, 200000)):
            x = rng.randrange(4096)
            e = rng.choice(hi) if rng.random() < 0.3 else rng.choice(triples)
            n += 1
            if run("golay_pattern", check_golay_pattern, {"x": x, "e": e}, {"class": "Golay", "check": "corrects"}):
                bad = True
                break
    if not bad:
        p4 = pat4()
        xs = vals[:4] if not big else vals[:64]
        for x in xs:                                         # every weight-4 pattern on some values
            for e in p4:
                n += 1
                if run("golay_pattern", check_golay_pattern, {"x": x, "e": e}, {"class": "Golay", "check": "flags4"}):
                    bad = True
                    break
            if bad:
                break
        for _ in range(ctx.scale(20000, 400000)):
            if bad:
                break
            n += 1
            if run("golay_pattern", check_golay_pattern, {"x": rng.randrange(4096), "e": rng.choice(p4)},
                   {"class": "Golay", "check": "flags4"}):
                bad = True
    ctx.count("oracle_evaluations", n)
    return fails

# =============================================================================== PTDP / PTFR basics
PAYLOAD_LENS = [0, 1, 2, 3, 5, 6, 7, 16, 17, 100, 255, 256, 1000, 2047, 2048]

def ptdp_valid(rng):
    n = rng.choice([0, 1, 2, 3, 5, 6, 7, 16, 17, 100, 255, 256])
    if rng.random() < 0.08:
        n = rng.choice([2047, 2048])
    return {"payload": hexb(rng.bytes_(n)), "low_latency": rng.choice(["True", "False"]),
            "content": str(rng.choice([0, 1, 4, 6, 15, rng.randrange(16)])),
            "fragment": str(rng.randrange(4)), "length": str(n)}

def ptdp_alt(rng, field, cur):
    if field == "payload":
        b = bytearray(bytes.fromhex(cur[1:]))
        if b and rng.random() < 0.7:                          # same length, one byte differs
            i = rng.randrange(len(b))
            b[i] ^= 1 << rng.randrange(8)
            return hexb(bytes(b))
        return hexb(bytes(b) + b"\x00")
    if field == "low_latency":
        return "False" if cur == "True" else "True"
    if field == "content":
        return str((int(cur) + 1 + rng.randrange(15)) % 16)
    if field == "fragment":
        return str((int(cur) + 1 + rng.randrange(3)) % 4)
    if field == "length":
        return str(int(cur) + 1)
    return None

PTFR_L = 24      # frame length used for the generic (CLASSGEN) checks; the length is a codec option

def ptfr_valid(rng):
    return {"version": str(rng.randrange(4)), "streamid": str(rng.choice([0, 1, 15, rng.randrange(16)])),
            "llp": rng.choice(["True", "False"]),
            "ptdp_offset": str(rng.choice([0, 1, 23, 24, 0x3FF, 0x400, 0x7FE, 0x7FF, rng.randrange(2048)])),
            "payload": hexb(rng.bytes_(PTFR_L))}

def ptfr_alt(rng, field, cur):
    if field == "payload":
        b = bytearray(bytes.fromhex(cur[1:]))
        i = rng.randrange(len(b))
        b[i] ^= 1 << rng.randrange(8)
        return hexb(bytes(b))
    if field == "llp":
        return "False" if cur == "True" else "True"
    if field == "version":
        return str((int(cur) + 1 + rng.randrange(3)) % 4)
    if field == "streamid":
        return str((int(cur) + 1 + rng.randrange(15)) % 16)
    if field == "ptdp_offset":
        return str((int(cur) + 1 + rng.randrange(2047)) % 2048)
    return None

CLASSGEN = {
    "PTDP": ClassGen("PTDP", ptdp_valid, alt=ptdp_alt,
                     eq_fields=["payload", "low_latency", "content", "fragment", "length"]),
    "PTFR": ClassGen("PTFR", ptfr_valid, opts=[(str(PTFR_L),)], alt=ptfr_alt,
                     eq_fields=["version", "streamid", "llp", "ptdp_offset", "payload"]),
}

def _ptdp_lines(ctx):
    """pack / unpack of PTDPs over every field's range, lengths in every size class"""
    rng = ctx.rng
    lines = []
    for n in PAYLOAD_LENS + [2049, 3000]:                     # the setter refuses > 2048
        f = {"content": str(rng.randrange(16)), "fragment": str(rng.randrange(4)), "payload": hexb(rng.bytes_(n))}
        lines.append(gen.H("PTDP", gen.sets(f) + ["pack", "obs", "call len", "pack", "obs"]))
    for c in list(range(17)) + [63, 64, 255]:                  # content above 4 bits is masked away on decode
        for fr in (0, 1, 2, 3, 4, 7):
            f = {"content": str(c), "fragment": str(fr), "payload": "x0102"}
            lines.append(gen.H("PTDP", gen.sets(f) + ["pack", "obs"]))
    return lines

def _ptfr_lines(ctx):
    rng = ctx.rng
    lines = []
    for L in (0, 1, 5, 16, 200, 2047):
        for ver in (0, 1, 3, 4, 15, 16):
            for sid in (0, 1, 15, 16):
                f = {"version": str(ver), "streamid": str(sid), "llp": rng.choice(["True", "False"]),
                     "ptdp_offset": str(rng.choice([0, L, 0x7FF, 0x800, 0xFFF, 0x1000, rng.randrange(2048)])),
                     "payload": hexb(rng.bytes_(L))}
                lines.append(gen.H("PTFR", gen.sets(f) + ["pack", "obs"], (L,)))
    for L in (4, 16):                                         # payload setter appends; pack insists on exact length
        for n in range(0, L + 3):
            lines.append(gen.H("PTFR", ["set payload " + hexb(rng.bytes_(n)), "pack", "obs",
                                        "set payload " + hexb(rng.bytes_(2)), "obs", "pack"], (L,)))
    # add_payload histories: normal / low-latency buffers into empty, part-filled, LLP-holding, full frames
    for _ in range(ctx.scale(150, 5000)):
        L = rng.choice([1, 2, 7, 8, 16, 20, 33, 64])
        ops = []
        for _ in range(rng.randrange(1, 6)):
            n = rng.choice([0, 1, 2, 3, 6, 7, 8, L - 1, L, L + 1, rng.randrange(0, 2 * L + 2)])
            ops.append("call add_payload %s %s" % (hexb(rng.bytes_(max(n, 0))), rng.choice(["True", "False", "False"])))
            if rng.random() < 0.4:
                ops.append("obs")
        lines.append(gen.H("PTFR", ops + ["obs", "pack", "obs"], (L,)))
    for off in (0, 1, 5, 2046, 2047, 2048):
        for act in (0, 1, 5, 2047):
            lines.append(gen.H("PTFR", ["set ptdp_offset %d" % off, "call check_offsets %d" % act]))
    return lines

def _decode_side(lines):
    out = []
    for l in lines:
        a = run_line_impl(l)
        opts = l.split(" :: ")[0].split()[2:]
        for p in a.split("|"):
            if p.startswith("ok:x") and len(p) > 12:
                out.append(gen.H(l.split()[1], ["unpack " + p[3:], "obs", "pack", "obs"], opts))
                break
    return out

# =============================================================================== C20 header robustness
def _flip3(b, off, e):
    """xor the 24-bit big-endian word at byte offset `off` with `e`"""
    w = int.from_bytes(b[off:off + 3], "big") ^ e
    return b[:off] + w.to_bytes(3, "big") + b[off + 3:]

def _c20_cases(ctx):
    rng = ctx.rng
    ptdps = []
    lens = [0, 1, 15, 16, 255, 256, 2047, 2048] if ctx.tier == "thorough" else [0, 5, 2048]
    for n in lens + [rng.choice([3, 17, 100, 1000])]:
        ptdps.append((n, rng.randrange(4), rng.randrange(16)))
    ptfrs = [(0, False), (0x7FF, True), (rng.randrange(2048), rng.choice([True, False]))]
    if ctx.tier == "thorough":
        ptfrs += [(o, l) for o in (1, 0x3FF, 0x400, 0x7FE) for l in (True, False)]
    return ptdps, ptfrs

def corr_C20(ctx):
    rng = ctx.rng
    lines = []
    ptdps, ptfrs = _c20_cases(ctx)
    for (n, fr, co) in ptdps:
        b = ref_ptdp(fr, co, rng.bytes_(n)) + rng.bytes_(rng.choice([0, 3]))
        for off in (0, 3):
            for e in PAT3:
                lines.append(gen.H("PTDP", ["unpack " + hexb(_flip3(b, off, e)), "obs"]))
        for _ in range(60):                                   # both words corrupted at once, and 4-bit errors
            e1, e2 = rng.choice(PAT3), rng.choice(PAT3)
            lines.append(gen.H("PTDP", ["unpack " + hexb(_flip3(_flip3(b, 0, e1), 3, e2)), "obs"]))
            lines.append(gen.H("PTDP", ["unpack " + hexb(_flip3(b, rng.choice([0, 3]), rng.choice(pat4()))), "obs"]))
    for (o, l) in ptfrs:
        L = 9
        b = bytes([rng.randrange(4) | (rng.randrange(16) << 4)]) + ref_word(o | (l << 11)) + rng.bytes_(L)
        for e in PAT3:
            lines.append(gen.H("PTFR", ["unpack " + hexb(_flip3(b, 1, e)), "obs"], (L,)))
        for _ in range(60):
            lines.append(gen.H("PTFR", ["unpack " + hexb(_flip3(b, 1, rng.choice(pat4()))), "obs"], (L,)))
    return lines

_PAYLOAD = bytes((i * 7 + 3) & 0xFF for i in range(2048))

def check_ptdp_robust(args):
    """PTDP.unpack of a PTDP whose two header words carry <= 3 bit errors each == unpack of the clean one"""
    n, fr, co, e1, e2 = args["len"], args["fragment"], args["content"], args["e1"], args["e2"]
    payload = _PAYLOAD[:n]
    p = ch7.PTDP()
    p.fragment, p.content, p.payload = fr, co, payload
    clean = p.pack() + b"\xAA\xBB"
    bad = _flip3(_flip3(clean, 0, e1), 3, e2)
    a, b = ch7.PTDP(), ch7.PTDP()
    if args.get("fresh"):                   # a receiver with its own, never used Golay decoder sees the damaged header FIRST
        b = ch7.PTDP(golay.Golay())
        try:
            rb = b.unpack(bad)
        except Exception as e:
            return "PTDP.unpack (new decoder) raised %r on a header with %d+%d bit errors (len=%d e1=%#x e2=%#x)" % (e, wt(e1), wt(e2), n, e1, e2)
    ra = a.unpack(clean)
    try:
        rb = rb if args.get("fresh") else b.unpack(bad)
    except Exception as e:
        return "PTDP.unpack raised %r on a header with %d+%d bit errors (len=%d fragment=%d content=%d, e1=%#x e2=%#x)" % (
            e, wt(e1), wt(e2), n, fr, co, e1, e2)
    for k in ("length", "fragment", "content", "payload"):
        if getattr(a, k) != getattr(b, k):
            return "PTDP.unpack with %d+%d header bit errors (e1=%#x e2=%#x) gives %s=%r instead of %r" % (
                wt(e1), wt(e2), e1, e2, k, getattr(b, k) if k != "payload" else len(b.payload), getattr(a, k) if k != "payload" else len(a.payload))
    if ra != rb:
        return "PTDP.unpack with header bit errors returns a different remainder (payload split moved)"
    if (a.length, a.fragment, a.content, a.payload) != (n, fr, co, payload):
        return "PTDP round trip changes the fields: %r" % ((a.length, a.fragment, a.content),)
    return None

def check_ptfr_robust(args):
    off, llp, e, ver, sid = args["offset"], args["llp"], args["e"], args["version"], args["streamid"]
    L = 11
    f = ch7.PTFR()
    f.length, f.version, f.streamid, f.llp, f.ptdp_offset = L, ver, sid, llp, off
    f.payload = bytes(range(L))
    clean = f.pack()
    bad = _flip3(clean, 1, e)
    a, b = ch7.PTFR(), ch7.PTFR()
    if args.get("fresh"):                   # a receiver with its own, never used Golay decoder sees the damaged header FIRST
        b = ch7.PTFR(golay.Golay())
        b.length = L
        try:
            b.unpack(bad)
        except Exception as ex:
            return "PTFR.unpack (new decoder) raised %r on a header word with %d bit errors (offset=%d llp=%s e=%#x)" % (ex, wt(e), off, llp, e)
    a.length = b.length = L
    a.unpack(clean)
    try:
        if not args.get("fresh"):
            b.unpack(bad)
    except Exception as ex:
        return "PTFR.unpack raised %r on a header word with %d bit errors (offset=%d llp=%s e=%#x)" % (ex, wt(e), off, llp, e)
    for k in ("version", "streamid", "llp", "ptdp_offset", "payload"):
        if getattr(a, k) != getattr(b, k):
            return "PTFR.unpack with %d header bit errors (e=%#x) gives %s=%r instead of %r" % (wt(e), e, k, getattr(b, k), getattr(a, k))
    if (a.version, a.streamid, a.llp, a.ptdp_offset) != (ver, sid, llp, off):
        return "PTFR round trip changes the fields: %r" % ((a.version, a.streamid, a.llp, a.ptdp_offset),)
    return None

def oracles_C20(ctx, hints):
    rng = ctx.rng
    fails = []
    n = 0
    ptdps, ptfrs = _c20_cases(ctx)
    base = len(ptdps)
    if ctx.tier == "thorough":          # all patterns x all 2049 lengths, on the length word
        ptdps += [(k, rng.randrange(4), rng.randrange(16)) for k in range(0, 2049, 1)]
    bad = False
    for i, (ln, fr, co) in enumerate(ptdps):
        for word in ((0, 1) if i < base else (1,)):
            for e in PAT3:
                args = {"len": ln, "fragment": fr, "content": co, "e1": e if word == 0 else 0, "e2": e if word == 1 else 0}
                n += 1
                w = check_ptdp_robust(args)
                if w:
                    fails.append(Failure("ptdp_robust", args, w, {"class": "PTDP", "check": "header_robust"}))
                    bad = True
                    break
            if bad:
                break
        if bad:
            break
    for _ in range(0 if bad else ctx.scale(3000, 100000)):      # both words at once, every field value class
        args = {"len": rng.choice([0, 1, 2, 255, 256, 2047, 2048, rng.randrange(2049)]), "fragment": rng.randrange(4),
                "content": rng.randrange(16), "e1": rng.choice(PAT3), "e2": rng.choice(PAT3)}
        n += 1
        w = check_ptdp_robust(args)
        if w:
            fails.append(Failure("ptdp_robust", args, w, {"class": "PTDP", "check": "header_robust"}))
            break
    bad = False
    for (o, l) in ptfrs:
        for e in PAT3:
            args = {"offset": o, "llp": l, "e": e, "version": rng.randrange(4), "streamid": rng.randrange(16)}
            n += 1
            w = check_ptfr_robust(args)
            if w:
                fails.append(Failure("ptfr_robust", args, w, {"class": "PTFR", "check": "header_robust"}))
                bad = True
                break
        if bad:
            break
    for _ in range(0 if bad else ctx.scale(3000, 100000)):
        args = {"offset": rng.choice([0, 1, 0x7FE, 0x7FF, rng.randrange(2048)]), "llp": rng.choice([True, False]),
                "e": rng.choice(PAT3), "version": rng.randrange(4), "streamid": rng.randrange(16)}
        n += 1
        w = check_ptfr_robust(args)
        if w:
            fails.append(Failure("ptfr_robust", args, w, {"class": "PTFR", "check": "header_robust"}))
            break
    # a receiver whose Golay decoder has never been used (the decode tables are built lazily)
    data_bits = [e for e in PAT3 if e >> 12]
    light = [v for v in range(1, 2048) if wt(v) <= 3]         # field values of weight <= 3 ...
    for i in range(0 if fails else ctx.scale(60, 600)):
        n += 1
        if i % 2 == 0:
            off = rng.choice([0, 1, 7, 0x7FE, 0x7FF, rng.randrange(2048)])
            llp = rng.choice([True, False])
            e = rng.choice(data_bits)
            if i % 4 == 0:                                    # ... whose set bits are exactly the ones hit: the data half arrives all zero
                off = rng.choice(light)
                llp = wt(off) <= 2 and rng.random() < 0.3
                e = (off | (llp << 11)) << 12
            args = {"offset": off, "llp": llp, "e": e, "version": rng.randrange(4), "streamid": rng.randrange(16), "fresh": True}
            w = check_ptfr_robust(args)
            name, cls = "ptfr_robust", "PTFR"
        else:
            ln = rng.choice([0, 1, 7, 2048, rng.randrange(2049)])
            e2 = rng.choice(data_bits)
            if i % 4 == 1:
                ln = rng.choice(light + [2048])
                e2 = ln << 12
            args = {"len": ln, "fragment": rng.randrange(4), "content": rng.randrange(16),
                    "e1": rng.choice(data_bits) if i % 4 == 3 else 0, "e2": e2, "fresh": True}
            w = check_ptdp_robust(args)
            name, cls = "ptdp_robust", "PTDP"
        if w:
            fails.append(Failure(name, args, w, {"class": cls, "check": "header_robust", "decoder": "new"}))
            break
    ctx.count("oracle_evaluations", n)
    return fails

# =============================================================================== C10 encapsulate / decapsulate
def gen_seq(rng, L, mode):
    """a packet sequence [(bytes, llp)] for frame length L, biased to the alignments C10 names.
    mode: 'normal' | 'llp' (low-latency packets that fit) | 'llpany' (may overflow: K3 territory)"""
    seq = []
    pos = 0                      # fill of the frame under construction (simulation, normal traffic)
    fill_llp = False
    npk = rng.randrange(1, 9)
    first_llp = mode != "normal" and rng.random() < 0.35
    for i in range(npk):
        c = rng.random()
        free = L - pos
        is_llp = False
        if mode != "normal" and (c < 0.3 or (i == 0 and first_llp)):
            is_llp = True
            if mode == "llp":
                room = free - 7                      # 6 header + marker byte
                if room < 0:
                    is_llp = False
                else:
                    n = rng.choice([0, room, room // 2, rng.randrange(room + 1)])
            else:
                n = rng.choice([0, 1, max(free - 7, 0), max(free - 6, 0), rng.randrange(0, L + 3)])
        if is_llp:
            seq.append((rng.bytes_(n), True))
            s = n + 7
            if s <= free:
                pos += s
            else:
                pos = (pos + s) % L or L
            continue
        k = rng.random()
        if k < 0.22:                                  # end exactly on a frame boundary
            n = (L - (pos + 6) % L) % L + L * rng.choice([0, 0, 1, 2])
        elif k < 0.42:                                # next header split after j = 1..5 bytes
            j = rng.randrange(1, 6)
            n = (L - j - (pos + 6)) % L + L * rng.choice([0, 0, 1])
        elif k < 0.52:                                # spans many frames
            n = rng.randrange(2 * L, 5 * L + 2)
        elif k < 0.60:
            n = 0
        elif k < 0.66 and L >= 64:                    # fragmentation
            n = rng.choice([2048, 2049, 4096, 4097, 2 * 2048 + rng.randrange(1, 2048), 3 * 2048])
        else:
            n = rng.randrange(0, 2 * L + 8)
        n = min(n, 3 * 2048 + 50)
        seq.append((rng.bytes_(n), False))
        nfr = n // 2048 + (1 if n % 2048 or n == 0 else 0) if n > 2048 else 1
        pos = (pos + n + 6 * nfr)
        if pos > L:
            pos = pos % L or L
    # flush: a filler packet long enough to push out the last frame (completeness = "last byte emitted")
    if rng.random() < 0.7:
        seq.append((b"\x00" * rng.choice([L, L + 1, 2 * L]), False))
    return seq

def pick_L(rng):
    c = rng.random()
    if c < 0.1:
        return rng.choice([1, 2, 3, 5, 6, 7])
    if c < 0.55:
        return rng.randrange(8, 80)
    if c < 0.85:
        return rng.choice([16, 74, 128, 200, 400, 500, 512, 1000])
    return rng.choice([2046, 2047, rng.randrange(80, 2048)])

def seq_text(seq):
    return "[" + ";".join("[%s;%s]" % (hexb(b), "True" if l else "False") for b, l in seq) + "]"

def simulate(seq, L):
    """frame-fill simulation, independent of the library.
    Returns (llps, normal, nframes, overflow, kind): llps = per frame the low-latency PTDPs inserted into it,
    normal = (frame of last byte, packet index, fragment index, fragments) per normal PTDP, nframes = frames
    emitted, overflow = some low-latency insertion did not fit the free space of its frame, kind = how:
      'none'   no insertion overflows;
      'tail'   every overflowing insertion pushes out only continuation bytes of the normal PTDP in progress (no
               PTDP header starts in the bytes pushed into the next frame, the low-latency block itself fits a
               frame, nothing of an earlier low-latency block is pushed out).  The library handles these: the
               low-latency PTDP stays in the frame, the PTDP in progress completes one frame later;
      'header' some overflowing insertion pushes out a PTDP header start / low-latency bytes (known finding K3);
               from then on the accounting below is only a byte count."""
    fi, fill = 0, 0
    norm_start, h_last = 0, -1     # start of the normal region of the frame; last PTDP header START in it
    overflow, kind = False, "none"
    llps = {}          # frame -> [(pkt index)] in insertion order
    normal = []        # (frame of last byte, pkt index, fragment index, nfrags)
    for idx, (b, llp) in enumerate(seq):
        n = len(b)
        sizes = [n + 6] if n <= 2048 else [min(2048, n - 2048 * i) + 6 for i in range((n + 2047) // 2048)]
        for fidx, s in enumerate(sizes):
            if llp:
                blk = s + 1
                if blk > L - fill:
                    overflow = True
                    cut = L - blk                      # existing positions >= cut are pushed into the next frame
                    if kind != "header" and blk <= L and cut >= norm_start and cut > h_last and normal and normal[-1][0] == fi:
                        kind = "tail"
                        llps.setdefault(fi, []).append((idx, fidx, len(sizes)))
                        normal[-1] = (fi + 1,) + normal[-1][1:]
                        fi += 1
                        fill, norm_start, h_last = fill - cut, 0, -1
                    else:
                        kind = "header"
                        # the library pushes the tail out; keep the byte count right
                        fill += blk
                        while fill > L:
                            fill -= L
                            fi += 1
                        norm_start, h_last = 0, -1
                        llps.setdefault(fi, []).append((idx, fidx, len(sizes)))
                else:
                    fill += blk
                    norm_start += blk
                    if h_last >= 0:
                        h_last += blk
                    llps.setdefault(fi, []).append((idx, fidx, len(sizes)))
            else:
                if fill == L:                          # the open frame is full: this PTDP starts the next one
                    fi += 1
                    fill, norm_start = 0, 0
                h_last = fill
                fill += s
                while fill > L:
                    fill -= L
                    fi += 1
                    norm_start, h_last = 0, -1
                normal.append((fi, idx, fidx, len(sizes)))
    return llps, normal, fi, overflow, kind

def overflow_kind(seq, L):
    return simulate(seq, L)[4]

def features(seq, L):
    """which of the alignments named by C10 a sequence exercises (for the evidence file)"""
    fi, fill = 0, 0
    feats = set()
    frame_llp = False            # the frame under construction already holds a low-latency PTDP
    frame_at_hdr = True          # the frame under construction begins exactly at a PTDP header
    prev_exact = False
    for (b, llp) in seq:
        n = len(b)
        sizes = [n + 6] if n <= 2048 else [min(2048, n - 2048 * i) + 6 for i in range((n + 2047) // 2048)]
        if n > 2048:
            feats.add("fragmented")
        for s in sizes:
            if llp:
                if s + 1 > L - fill:
                    feats.add("llp_overflow")
                    fill += s + 1
                    while fill > L:
                        fill -= L; fi += 1; frame_llp = False; frame_at_hdr = False
                    continue
                if fill == 0:
                    feats.add("llp_on_empty_frame")
                elif frame_llp:
                    feats.add("llp_on_llp_frame")
                    if frame_at_hdr:
                        feats.add("llp_on_llp_frame_empty_remainder")
                else:
                    feats.add("llp_on_part_filled_frame")
                    if frame_at_hdr:
                        feats.add("llp_empty_remainder")
                if fill + s + 1 == L:
                    feats.add("llp_fills_frame_exactly")
                fill += s + 1
                frame_llp = True
            else:
                if fill == L:
                    if s > L:
                        feats.add("exact_fill_then_longer_than_a_frame")
                    if s > 2 * L:
                        feats.add("exact_fill_then_longer_than_two_frames")
                if 0 < L - fill < 6:
                    feats.add("header_split_after_%d" % (L - fill))
                if s > 2 * L:
                    feats.add("spans_many_frames")
                start_fill = fill
                fill += s
                first = True
                while fill > L:
                    fill -= L; fi += 1; frame_llp = False
                    frame_at_hdr = first and start_fill == L
                    first = False
                if fill == L:
                    feats.add("ends_on_frame_boundary")
                    if s > L - start_fill and s - (L - start_fill) >= L:
                        feats.add("tail_fills_frame_exactly")
    return feats

def expected_packets(seq, L):
    """what a correct decapsulator returns for the frames emitted: per frame, the low-latency packets
    inserted into it (any order among themselves), then the normal packets whose last byte lies in it"""
    llps, normal, nframes, overflow, kind = simulate(seq, L)
    overflow = kind == "header"                # 'tail' overflows are accounted exactly
    done_normal = []
    for (f, idx, fidx, nf) in normal:
        if fidx == nf - 1 and f < nframes:
            done_normal.append((f, idx))
    done_llp = []
    for f, lst in sorted(llps.items()):
        if f < nframes:
            for (idx, fidx, nf) in lst:
                if fidx == nf - 1:
                    done_llp.append((f, idx))
    return done_normal, done_llp, nframes, overflow

def _c10_tags(check, overflow, **kw):
    t = {"class": "PTFR", "check": check, "llp_overflow": bool(overflow)}
    t.update(kw)
    return t

def check_encap(args):
    """frames_len, payload_stream, fragmentation, offset_correct — on the real encapsulator"""
    L, sid = args["L"], args.get("sid", 1)
    seq = [(bytes.fromhex(h), l) for h, l in args["pkts"]]
    frames = ad.frames_of(L, sid, seq)
    packed = []
    for i, f in enumerate(frames):
        try:
            b = f.pack()
        except Exception as e:
            return "frame %d of %d cannot be packed: %r (payload %d bytes, frame length %d)" % (i, len(frames), e, len(f.payload), L)
        if len(b) != 4 + L:
            return "frame %d packs to %d bytes, not 4 + %d" % (i, len(b), L)
        packed.append(b)
    # fragmentation law
    ptdps = list(ch7.datapkts_to_ptdp(iter(seq)))
    k = 0
    for (b, l) in seq:
        if len(b) <= 2048:
            ps = ptdps[k:k + 1]
            want = [0]
        else:
            nfr = (len(b) + 2047) // 2048
            ps = ptdps[k:k + nfr]
            want = [1] + [2] * (nfr - 2) + [3]
        k += len(ps)
        if [p.fragment for p in ps] != want:
            return "a %d-byte packet is split into fragments %r, expected %r" % (len(b), [p.fragment for p in ps], want)
        if b"".join(p.payload for p in ps) != b or any(len(p.payload) > 2048 for p in ps) or \
           any(len(p.payload) != 2048 for p in ps[:-1]):
            return "the fragments of a %d-byte packet are not its consecutive 2048-byte pieces" % len(b)
        if any(bool(p.low_latency) != bool(l) for p in ps):
            return "fragment loses the low-latency marking"
    if k != len(ptdps):
        return "datapkts_to_ptdp produced %d PTDPs for %d expected" % (len(ptdps), k)
    if all(not l for _, l in seq):
        # normal traffic: payloads are the stream of PTDP encodings, offsets locate the first header
        pieces = [ref_ptdp(p.fragment, 4, p.payload) for p in ptdps]
        S = b"".join(pieces)
        starts, pos = [], 0
        for pc in pieces:
            starts.append(pos)
            pos += len(pc)
        got = b"".join(f.payload for f in frames)
        if got != S[:len(got)]:
            i = next(i for i in range(len(got)) if i >= len(S) or got[i] != S[i])
            return "payload_stream: the frames' payloads differ from the PTDP stream at byte %d (frame %d)" % (i, i // L)
        if len(frames) != (len(S) - 1) // L if S else len(frames) != 0:
            return "payload_stream: %d frames emitted for a %d-byte stream, expected %d" % (len(frames), len(S), (len(S) - 1) // L)
        for kf, f in enumerate(frames):
            inside = [p - kf * L for p in starts if kf * L <= p < (kf + 1) * L]
            want = inside[0] if inside else 0x7FF
            if f.ptdp_offset != want or f.llp:
                return "offset_correct: frame %d of %d has offset %d (llp=%s); the first PTDP header beginning in it is at %s" % (
                    kf, len(frames), f.ptdp_offset, f.llp, want if inside else "none (0x7FF expected)")
            if f.streamid != sid or f.version != 0:
                return "frame %d carries streamid %d version %d" % (kf, f.streamid, f.version)
        spec = parse_val(_spec(["F spec.ch7.frames %d %d [%s]" % (L, sid, ";".join(hexb(b) for b, _ in seq))])[0][3:])
        if spec != packed:
            i = next((i for i in range(min(len(spec), len(packed))) if spec[i] != packed[i]), min(len(spec), len(packed)))
            return "frame %d differs from the Chapter 7 layout (Spec): %s… vs %s…" % (
                i, packed[i][:12].hex() if i < len(packed) else None, spec[i][:12].hex() if i < len(spec) else None)
    return None

def check_decap(args):
    """decapsulate(encapsulate(pkts)) = the packets whose last byte has been emitted, once each,
    byte-identical; normal ones in order; low-latency ones flagged and ahead of the normal data of their frame"""
    L, sid = args["L"], args.get("sid", 1)
    seq = [(bytes.fromhex(h), l) for h, l in args["pkts"]]
    frames = [f.pack() for f in ad.frames_of(L, sid, seq)]
    done_normal, done_llp, nframes, overflow = expected_packets(seq, L)
    if nframes != len(frames) and not overflow:
        return "%d frames emitted, the byte count says %d" % (len(frames), nframes)
    out, rem, raised = ad.consumer(L, frames)
    if raised is not None:
        return "the decapsulator raised %s after %d PTDPs (%d frames, L=%d, packet lengths %r)" % (
            raised, len(out), len(frames), L, [(len(b), l) for b, l in seq])
    got = ad.reassemble(out)
    got_n = [b for b, l in got if not l]
    got_l = [b for b, l in got if l]
    exp_n = [seq[i][0] for _, i in done_normal]
    exp_l = sorted(seq[i][0] for _, i in done_llp)
    desc = "L=%d packet lengths %r" % (L, [(len(b), "LLP" if l else "") for b, l in seq])
    if got_n != exp_n:
        return "decap: normal packets returned (lengths %r) are not the completed ones in order (lengths %r); %s" % (
            [len(b) for b in got_n], [len(b) for b in exp_n], desc)
    if sorted(got_l) != exp_l:
        return "decap: low-latency packets returned (lengths %r) are not the emitted ones (lengths %r); %s" % (
            [len(b) for b in got_l], [len(b) for b in exp_l], desc)
    # order: a low-latency packet of frame f comes after every normal packet completed in an earlier
    # frame and before every normal packet completed in frame f or later
    fr_n = [f for f, _ in done_normal]
    llp_by_payload = {}
    for f, i in done_llp:
        llp_by_payload.setdefault(seq[i][0], []).append(f)
    seen_n = 0
    for b, l in got:
        if not l:
            seen_n += 1
            continue
        fs = llp_by_payload.get(b, [])
        ok = any(all(x < f for x in fr_n[:seen_n]) and all(x >= f for x in fr_n[seen_n:]) for f in fs)
        if not ok:
            return "decap: a low-latency packet (%d bytes) is not returned ahead of the normal data of its frame; %s" % (len(b), desc)
    return None

def check_nollp(args):
    """the frame-fill simulation's `overflow` flag (which sorts failures into K3) is the negation of
    NoLLPOverflow — the hypothesis of the Lean theorem decap_encap_llp — observed on the real generator"""
    L, sid = args["L"], args.get("sid", 1)
    seq = [(bytes.fromhex(h), l) for h, l in args["pkts"]]
    overflow = simulate(seq, L)[3]
    real = ad.nollp(L, sid, [[b, l] for b, l in seq])
    if real == overflow:
        return "NoLLPOverflow on the real generator is %r but the frame-fill simulation says overflow=%r; L=%d packet lengths %r" % (
            real, overflow, L, [(len(b), "LLP" if l else "") for b, l in seq])
    return None

def _c10_sequences(ctx, n):
    rng = ctx.rng
    out = []
    for i in range(n):
        L = pick_L(rng)
        mode = rng.choice(["normal", "normal", "llp", "llp", "llpany"])
        seq = gen_seq(rng, L, mode)
        out.append((L, mode, seq))
    # the alignments named by the property, explicitly
    fixed = [
        (16, [10, 6, 9, 6]),                                     # PTDP ends exactly on a frame boundary (D12 witness)
        (16, [10, 40, 3, 6]),                                    # … followed by a PTDP longer than two frames
        (16, [10, 16 + 10, 3]), (16, [4, 6 + 16, 5]),            # exact fill by the tail of a PTDP (D13)
        (20, [14, 200, 14, 0, 0, 34]),
        (74, [5, 4, 70]), (7, [0, 1, 2, 3]), (1, [0, 1]), (2047, [2041, 2041, 10, 4000]),
        (500, [5000, 2048, 2049, 494]), (6, [0, 0, 0, 6]),
    ]
    for L, lens in fixed:
        out.append((L, "normal", [(rng.bytes_(n_), False) for n_ in lens] + [(b"\x00" * (L + 1), False)]))
    llp_fixed = [
        (74, [(5, True), (4, False), (70, False)]),                # LLP on the empty first frame (D14 witness)
        (40, [(3, True), (2, True), (4, False), (60, False)]),     # second LLP on an LLP-holding frame
        (40, [(34, False), (4, False), (3, True), (2, True), (60, False)]),   # exact fill, then two LLPs on a frame starting at a header: decapsulated with an EMPTY carried remainder
        (40, [(10, False), (3, True), (60, False)]),               # LLP on a partly filled frame
        (40, [(50, False), (3, True), (2, True), (60, False)]),    # LLPs on a frame that starts with a PTDP tail
        (30, [(3, False), (14, True), (60, False)]),               # LLP filling the frame exactly (with its marker)
    ]
    for L, pk in llp_fixed:
        out.append((L, "llp", [(rng.bytes_(n_), l) for n_, l in pk] + [(b"\x00" * (L + 1), False)]))
    return out

def _stream_corr(ctx):
    rng = ctx.rng
    lines = []
    for n in (0, 1, 2047, 2048, 2049, 4095, 4096, 4097, 6144, 6145):
        lines.append("F ch7.ptdps " + seq_text([(rng.bytes_(n), rng.choice([True, False]))]))
    lines.append("F ch7.ptdps " + seq_text([(rng.bytes_(3), False), (rng.bytes_(2050), True), (b"", False)]))
    lines.append("F ch7.encap 0 1 " + seq_text([(b"\x01", False)]))          # never terminates: both sides report fuel
    lines.append("F ch7.encap 0 1 []")
    seqs = _c10_sequences(ctx, ctx.scale(700, 8000))
    for (L, mode, seq) in seqs:
        sid = rng.choice([1, 1, 0, 15])
        lines.append("F ch7.encap %d %d %s" % (L, sid, seq_text(seq)))
        if mode != "normal" or rng.random() < 0.2:
            lines.append("F ch7.nollp %d %d %s" % (L, sid, seq_text(seq)))     # the hypothesis of decap_encap_llp
        try:
            frames = ad.encap(L, sid, [[b, l] for b, l in seq])[1]
        except Exception:
            continue
        frames = [f for f in frames if isinstance(f, bytes)]
        lines.append("F ch7.decap %d [%s]" % (L, ";".join(hexb(f) for f in frames)))
        if frames and rng.random() < 0.5:
            # damaged links: a frame dropped / duplicated / garbled, a wrong consumer length
            fs = list(frames)
            c = rng.random()
            if c < 0.3 and len(fs) > 1:
                del fs[rng.randrange(len(fs))]
            elif c < 0.5:
                fs.insert(rng.randrange(len(fs) + 1), rng.choice(fs))
            elif c < 0.8:
                i = rng.randrange(len(fs))
                j = rng.randrange(len(fs[i]))
                fs[i] = fs[i][:j] + bytes([fs[i][j] ^ (1 << rng.randrange(8))]) + fs[i][j + 1:]
            else:
                i = rng.randrange(len(fs))
                fs[i] = fs[i][:rng.randrange(len(fs[i]) + 1)]
            lines.append("F ch7.decap %d [%s]" % (L + rng.choice([0, 0, 1, 5]), ";".join(hexb(f) for f in fs)))
        # single-frame calls of get_aligned_payload in every remainder mode
        for f in rng.sample(frames, min(len(frames), 2)):
            rem = rng.choice(["None", "x", hexb(rng.bytes_(rng.randrange(1, 12)))])
            first = rng.choice(["True", "False"])
            lines.append(gen.H("PTFR", ["unpack " + hexb(f), "call get_aligned_payload %s %s" % (first, rem), "obs"], (L,)))
    for _ in range(ctx.scale(300, 20000)):                     # arbitrary frames: every branch of the decoder
        lines.append(_random_gap_line(rng))
    for _ in range(ctx.scale(30, 300)):
        ps = []
        for _ in range(rng.randrange(0, 7)):
            ps.append("PTDP{payload=%s,low_latency=%s,length=0,content=4,fragment=%d}" % (
                hexb(rng.bytes_(rng.randrange(4))), rng.choice(["True", "False"]), rng.randrange(4)))
        lines.append("F ch7.reassemble [%s]" % ";".join(ps))
    return lines

def _random_gap_line(rng):
    L = rng.choice([8, 16, 24, 40])
    body = b""
    while len(body) < L:
        c = rng.random()
        if c < 0.6:
            n = rng.choice([0, 1, 2, 3, 5, rng.randrange(0, 12)])
            body += ref_ptdp(rng.randrange(4), rng.randrange(16), rng.bytes_(n))
        elif c < 0.75:
            body += bytes([rng.choice([0xFF, 0x00, 0x00, 0x37])])
        elif c < 0.85:
            body += ref_word(rng.randrange(16)) + ref_word(rng.choice([2049, 4095, 3000]))   # illegal length
        else:
            body += rng.bytes_(rng.randrange(1, 7))
    body = body[:L]
    llp = rng.random() < 0.4
    off = rng.choice([0, 1, 6, 7, 8, L - 1, L, 0x7FF, rng.randrange(0, L + 2)])
    frame = bytes([0x10]) + ref_word(off | (llp << 11)) + body
    rem = rng.choice(["None", "x", "x", hexb(rng.bytes_(rng.randrange(1, 9))),
                      hexb(ref_ptdp(0, 4, rng.bytes_(9))[:rng.randrange(1, 15)])])
    first = rng.choice(["True", "False", "False"])
    return gen.H("PTFR", ["unpack " + hexb(frame), "call get_aligned_payload %s %s" % (first, rem), "obs"], (L,))

def _stream_oracles(ctx, hints):
    fails = []
    n = 0
    seen = set()
    budget = ctx.scale(900, 20000) * (3 if getattr(ctx, "search_mode", False) else 1)
    for (L, mode, seq) in _c10_sequences(ctx, budget):
        args = {"L": L, "sid": 1, "pkts": [[b.hex(), l] for b, l in seq]}
        overflow = simulate(seq, L)[4] == "header"
        ctx.count("c10_overflow_" + simulate(seq, L)[4])
        for ft in features(seq, L):
            ctx.count("c10_" + ft)
        ctx.count("c10_sequences_" + ("llp" if any(l for _, l in seq) else "normal"))
        for name, fn in (("ch7_encap", check_encap), ("ch7_decap", check_decap), ("ch7_nollp", check_nollp)):
            n += 1
            try:
                w = fn(args)
            except ad.Fuel:
                w = "datapkts_to_ptfr does not terminate (L=%d)" % L
            key = (name, overflow)
            if w and key not in seen:
                seen.add(key)
                # a disagreement about the hypothesis itself is never part of K3
                fails.append(Failure(name, args, w, _c10_tags({"ch7_encap": "encap", "ch7_decap": "decap"}.get(name, "nollp"),
                                                             overflow and name != "ch7_nollp",
                                                             traffic="normal" if all(not l for _, l in seq) else "llp")))
    ctx.count("oracle_evaluations", n)
    fails.sort(key=lambda f: bool(f.tags.get("llp_overflow")))     # failures outside K3 first
    return fails

# =============================================================================== C09 accept / reject
def _c09_buffers(ctx):
    rng = ctx.rng
    out = []
    for n in [0, 1, 2, 5, 6, 7, 100, 2047, 2048]:
        body = rng.bytes_(n)
        b = ref_ptdp(rng.randrange(4), rng.randrange(16), body)
        for cut in (-3, -2, -1, 0):
            out.append(("PTDP", b[:len(b) + cut] if cut else b))
        out.append(("PTDP", b + b"\x00"))
        out.append(("PTDP", b + rng.bytes_(7)))
        for t in range(0, 7):
            out.append(("PTDP", b[:t]))
    for declared in (2048, 2049, 2050, 4095, 4096, 0xFFFF, 0x8000):        # length word forced
        hdr = ref_word((4 << 6) | (declared >> 12)) + ref_word(declared & 0xFFF)
        for have in (0, declared - 1, declared, declared + 1):
            if have <= 5000:
                out.append(("PTDP", hdr + rng.bytes_(max(have, 0))))
    return out

def corr_C09(ctx):
    rng = ctx.rng
    lines = []
    for cls, b in _c09_buffers(ctx):
        lines.append(gen.H(cls, ["unpack " + hexb(b), "obs"]))
    for n in range(0, 8):
        lines.append("F golay.decode " + hexb(rng.bytes_(n)))
    for L in (0, 4, 9):
        for n in range(0, L + 8):
            lines.append(gen.H("PTFR", ["unpack " + hexb(rng.bytes_(n)), "obs"], (L,)))
    return lines

def check_ptdp_accept(args):
    """PTDP.unpack accepts exactly: >= 6 bytes, decoded length <= 2048, body present; the three
    rejections are distinct; on success payload and remainder are exactly the declared bytes"""
    b = bytes.fromhex(args["buf"])
    p = ch7.PTDP()
    try:
        rest = p.unpack(b)
        res = "ok"
    except ch7.PTDPLengthError:
        res = "length"
    except ch7.PTDPRemainingData as e:
        res = "short-header" if "header" in str(e) else "short-body"
    except Exception as e:
        return "PTDP.unpack raised %r on a %d-byte buffer" % (e, len(b))
    if len(b) < 6:
        want = "short-header"
    else:
        g = _g()
        lsw, msw = g.decode(b[:3]), g.decode(b[3:6])
        declared = msw + ((lsw & 0xF) << 12)
        want = "length" if declared > 2048 else ("short-body" if len(b) - 6 < declared else "ok")
    if res != want:
        return "PTDP.unpack of a %d-byte buffer: %s, expected %s" % (len(b), res, want)
    if res == "ok" and (p.payload != b[6:6 + declared] or rest != b[6 + declared:] or p.length != declared):
        return "PTDP.unpack returned a payload / remainder that are not exactly the declared bytes"
    return None

def check_golay_bytes(args):
    b = bytes.fromhex(args["buf"])
    try:
        _g().decode(b)
        ok = True
    except Exception:
        ok = False
    if ok != (len(b) == 3):
        return "Golay.decode %s a %d-byte string" % ("accepted" if ok else "rejected", len(b))
    return None

def check_ptfr_accept(args):
    b, L = bytes.fromhex(args["buf"]), args["L"]
    f = ch7.PTFR()
    f.length = L
    try:
        f.unpack(b)
        ok = True
    except Exception:
        ok = False
    want = len(b) >= 4 and len(b) - 4 <= L
    if ok != want:
        return "PTFR(length=%d).unpack %s a %d-byte buffer" % (L, "accepted" if ok else "rejected", len(b))
    if ok and f.payload != b[4:]:
        return "PTFR.unpack returned a payload that is not the bytes after the header"
    return None

def oracles_C09(ctx, hints):
    rng = ctx.rng
    fails = []
    n = 0
    seen = set()
    for cls, b in _c09_buffers(ctx):
        n += 1
        w = check_ptdp_accept({"buf": b.hex()})
        if w and "PTDP" not in seen:
            seen.add("PTDP")
            fails.append(Failure("ptdp_accept", {"buf": b.hex()}, w, {"class": "PTDP", "check": "accept_exact"}))
    for k in range(0, 8):
        n += 1
        a = {"buf": rng.bytes_(k).hex()}
        w = check_golay_bytes(a)
        if w and "Golay" not in seen:
            seen.add("Golay")
            fails.append(Failure("golay_bytes", a, w, {"class": "Golay", "check": "accept_exact"}))
    for L in (0, 4, 9):
        for k in range(0, L + 8):
            n += 1
            a = {"buf": rng.bytes_(k).hex(), "L": L}
            w = check_ptfr_accept(a)
            if w and "PTFR" not in seen:
                seen.add("PTFR")
                fails.append(Failure("ptfr_accept", a, w, {"class": "PTFR", "check": "accept_exact"}))
    ctx.count("oracle_evaluations", n)
    return fails

# =============================================================================== C01-style layout for PTDP / PTFR (used by C10)
def check_ptdp_layout(args):
    fr, co, payload = args["fragment"], args["content"], bytes.fromhex(args["payload"])
    p = ch7.PTDP()
    p.fragment, p.content, p.payload = fr, co, payload
    b = p.pack()
    exp = _spec(["F spec.ptdp.encode %d %d %s" % (fr, co, hexb(payload))])[0]
    if exp != "ok:" + hexb(b):
        return "PTDP.pack emits %s… but the Chapter 7 layout is %s…" % (hexb(b)[:20], exp[:24])
    if b != ref_ptdp(fr, co, payload):
        return "PTDP.pack differs from the reference layout"
    q = ch7.PTDP()
    rest = q.unpack(b + b"\x55")
    if (q.length, q.fragment, q.content, q.payload, rest) != (len(payload), fr, co, payload, b"\x55"):
        return "PTDP round trip changes the fields: %r" % ((q.length, q.fragment, q.content, len(q.payload), rest),)
    return None

def check_ptfr_layout(args):
    ver, sid, llp, off, payload = args["version"], args["streamid"], args["llp"], args["offset"], bytes.fromhex(args["payload"])
    f = ch7.PTFR()
    f.length = len(payload)
    f.version, f.streamid, f.llp, f.ptdp_offset = ver, sid, llp, off
    f.payload = payload
    b = f.pack()
    exp = _spec(["F spec.ptfr.encode %d %d %s %d %s" % (ver, sid, "True" if llp else "False", off, hexb(payload))])[0]
    if exp != "ok:" + hexb(b):
        return "PTFR.pack emits %s… but the Chapter 7 layout is %s…" % (hexb(b)[:14], exp[:18])
    q = ch7.PTFR()
    q.length = len(payload)
    q.unpack(b)
    if (q.version, q.streamid, q.llp, q.ptdp_offset, q.payload) != (ver, sid, llp, off, payload):
        return "PTFR round trip changes the fields: %r" % ((q.version, q.streamid, q.llp, q.ptdp_offset),)
    if not (q == f):
        return "PTFR decoded from a frame's encoding does not compare equal to it"
    return None

def _layout_oracles(ctx):
    rng = ctx.rng
    fails = []
    n = 0
    for ln in PAYLOAD_LENS:
        for _ in range(ctx.scale(2, 20)):
            a = {"fragment": rng.randrange(4), "content": rng.randrange(16), "payload": rng.bytes_(ln).hex()}
            n += 1
            w = check_ptdp_layout(a)
            if w:
                fails.append(Failure("ptdp_layout", a, w, {"class": "PTDP", "check": "layout"}))
                return fails, n
    for _ in range(ctx.scale(150, 5000)):
        a = {"version": rng.randrange(4), "streamid": rng.randrange(16), "llp": rng.choice([True, False]),
             "offset": rng.choice([0, 1, 0x3FF, 0x400, 0x7FE, 0x7FF, rng.randrange(2048)]),
             "payload": rng.bytes_(rng.choice([0, 1, 5, 16, 200])).hex()}
        n += 1
        w = check_ptfr_layout(a)
        if w:
            fails.append(Failure("ptfr_layout", a, w, {"class": "PTFR", "check": "layout"}))
            break
    return fails, n

def oracles_C10(ctx, hints):
    fails, n = _layout_oracles(ctx)           # layout first, then the stream properties
    ctx.count("oracle_evaluations", n)
    return fails + _stream_oracles(ctx, hints)

def corr_C10(ctx):
    base = _ptdp_lines(ctx) + _ptfr_lines(ctx)
    return base + _decode_side(base) + _stream_corr(ctx)

# =============================================================================== C08 / C13 / C14 extras
def corr_C08(ctx):
    """beyond the generic malformed stream: the decapsulator on arbitrary frames and remainders"""
    rng = ctx.rng
    lines = [_random_gap_line(rng) for _ in range(ctx.scale(400, 20000))]
    for _ in range(ctx.scale(100, 5000)):
        L = rng.choice([0, 1, 6, 7, 13, 40])
        frame = rng.bytes_(4 + L)
        rem = rng.choice(["None", "x", hexb(rng.bytes_(rng.randrange(1, 20)))])
        lines.append(gen.H("PTFR", ["unpack " + hexb(frame), "call get_aligned_payload %s %s" % (rng.choice(["True", "False"]), rem)], (L,)))
    for _ in range(ctx.scale(60, 2000)):
        L = rng.choice([1, 6, 7, 13, 40])
        fs = [rng.bytes_(4 + L) for _ in range(rng.randrange(1, 5))]
        lines.append("F ch7.decap %d [%s]" % (L, ";".join(hexb(f) for f in fs)))
    return lines

def check_gap_total(args):
    """get_aligned_payload yields at most one tuple per 6 bytes it was given (+2) and then stops"""
    L, frame, first, rem = args["L"], bytes.fromhex(args["frame"]), args["first"], args["rem"]
    rem = None if rem is None else bytes.fromhex(rem)
    f = ch7.PTFR()
    f.length = L
    try:
        f.unpack(frame)
    except Exception:
        return None
    bound = (len(frame) + len(rem or b"")) + 2
    cnt = 0
    try:
        for t in f.get_aligned_payload(first, rem):
            cnt += 1
            if cnt > bound:
                return "get_aligned_payload yielded more than %d tuples for %d bytes" % (bound, len(frame) + len(rem or b""))
    except Exception:
        pass
    return None

def oracles_C08(ctx, hints):
    rng = ctx.rng
    fails = []
    n = 0
    for _ in range(ctx.scale(600, 30000)):
        L = rng.choice([0, 1, 6, 7, 13, 40, 200])
        c = rng.random()
        if c < 0.5:
            l = _random_gap_line(rng)
            frame = bytes.fromhex(l.split("unpack x")[1].split("|")[0])
            L = len(frame) - 4
        else:
            frame = rng.bytes_(4 + L)
        rem = rng.choice([None, "", rng.bytes_(rng.randrange(1, 20)).hex()])
        a = {"L": L, "frame": frame.hex(), "first": rng.choice([True, False]), "rem": rem}
        n += 1
        w = check_gap_total(a)
        if w:
            fails.append(Failure("gap_total", a, w, {"class": "PTFR", "check": "total"}))
            break
    ctx.count("oracle_evaluations", n)
    return fails

def corr_C13(ctx):
    """histories the generic generator does not build: add_payload / payload setter / different frame
    lengths, and Golay instances shared between objects (the default argument)"""
    rng = ctx.rng
    lines = []
    for _ in range(ctx.scale(120, 4000)):
        L = rng.choice([4, 9, 16])
        fr = [bytes([rng.randrange(256)]) + ref_word(rng.randrange(4096)) + rng.bytes_(rng.choice([L, L, L - 1, L + 1, 0]))
              for _ in range(3)]
        ops = []
        for _ in range(rng.randrange(1, 7)):
            c = rng.random()
            if c < 0.35:
                ops.append("unpack " + hexb(rng.choice(fr)))
            elif c < 0.5:
                ops.append("pack")
            elif c < 0.65:
                ops.append("set payload " + hexb(rng.bytes_(rng.randrange(0, 4))))
            elif c < 0.85:
                ops.append("call add_payload %s %s" % (hexb(rng.bytes_(rng.randrange(0, L + 3))), rng.choice(["True", "False"])))
            else:
                ops.append("obs")
        lines.append(gen.H("PTFR", ops + ["obs", "unpack " + hexb(fr[0]), "obs", "pack", "obs", "pack", "obs"], (L,)))
    for _ in range(ctx.scale(120, 4000)):
        bs = [ref_ptdp(rng.randrange(4), rng.randrange(16), rng.bytes_(rng.randrange(0, 9))) + rng.bytes_(rng.choice([0, 2]))
              for _ in range(3)]
        ops = []
        for _ in range(rng.randrange(1, 7)):
            c = rng.random()
            if c < 0.4:
                b = rng.choice(bs)
                ops.append("unpack " + hexb(b if rng.random() < 0.8 else b[:rng.randrange(len(b))]))
            elif c < 0.6:
                ops.append("pack")
            elif c < 0.8:
                k = rng.choice(["content", "fragment", "length"])
                ops.append("set %s %d" % (k, rng.randrange(4)))
            else:
                ops.append("set payload " + hexb(rng.bytes_(rng.randrange(0, 6))))
        lines.append(gen.H("PTDP", ops + ["obs", "unpack " + hexb(bs[0]), "obs", "pack", "obs", "pack", "obs"]))
    return lines

ORACLES = {
    "golay_word": check_golay_word, "golay_pattern": check_golay_pattern, "golay_fresh": check_golay_fresh, "golay_many_objects": check_golay_many_objects,
    "ptdp_robust": check_ptdp_robust, "ptfr_robust": check_ptfr_robust,
    "ch7_encap": check_encap, "ch7_decap": check_decap, "ch7_nollp": check_nollp,
    "ptdp_accept": check_ptdp_accept, "golay_bytes": check_golay_bytes, "ptfr_accept": check_ptfr_accept,
    "ptdp_layout": check_ptdp_layout, "ptfr_layout": check_ptfr_layout, "gap_total": check_gap_total,
}
