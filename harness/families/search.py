"""Family: pattern search helpers (KMP, Boyer-Moore-Horspool), endianness_swap, SAM/DEC pcap decommutation.

These are pure functions, exposed as `F` lines (see harness/adapters/search.py and lean/Acra/Drv/Search.lean):
there are no codec classes, hence no CLASSGEN entries.

C17  KMP.search / Horspool = ascending list of all (overlapping) occurrences; swap reverses 2-/4-byte groups,
     is an involution, refuses other lengths / group sizes.
C18  SamDecPcap(file).frames() returns exactly the PCM frames carried.
C08  (contribution) the decommutator and the search helpers terminate on arbitrary capture bytes.

The empty pattern is outside the domain of C17: KMP raises IndexError (sent to both sides), Horspool never
returns on a non-empty text (NEVER sent to the real code; the model answers `err:fuel`).
"""
import itertools
from ..core import hexb, run_line_impl, run_driver, SPECDRIVER, parse_val
from ..runner import Failure
from .. import gen

SYNC = bytes.fromhex("FE6B2840")
STREAM = 0x153


def _spec(lines):
    return run_driver(lines, exe=SPECDRIVER) if lines else []

# =========================================================================================== C17 inputs

def _words(alphabet, lo, hi):
    for n in range(lo, hi + 1):
        for w in itertools.product(alphabet, repeat=n):
            yield bytes(w)

def exhaustive_pairs(alphabet, tmax, pmax):
    pats = list(_words(alphabet, 1, pmax))
    for t in _words(alphabet, 0, tmax):
        for p in pats:
            yield t, p

def periodic_pattern(rng, alphabet):
    """patterns whose failure table matters: powers of a short word, with an optional broken tail"""
    unit = bytes(rng.choice(alphabet) for _ in range(rng.randrange(1, 4)))
    p = unit * rng.randrange(1, 5)
    c = rng.random()
    if c < 0.3:
        p = p + bytes([rng.choice(alphabet)])
    elif c < 0.5:
        p = p[:rng.randrange(1, len(p) + 1)]
    return p

def planted_pair(rng):
    """random text with planted, possibly overlapping, occurrences of a (often periodic) pattern"""
    c = rng.random()
    if c < 0.35:
        alphabet = list(range(256))
    elif c < 0.6:
        alphabet = [0x00, 0xFF]                    # first and last entry of Horspool's skip table
    elif c < 0.8:
        alphabet = [0x61, 0x62]
    else:
        alphabet = [0x61, 0x62, 0x63, 0x00, 0xFF]
    if rng.random() < 0.6:
        p = periodic_pattern(rng, alphabet)
    else:
        p = bytes(rng.choice(alphabet) for _ in range(rng.choice([1, 1, 2, 3, 4, 5, 8, 13])))
    n = rng.choice([0, 1, 2, 3, 5, 8, 13, 21, 40, 80])
    t = bytearray(rng.choice(alphabet) for _ in range(n))
    for _ in range(rng.randrange(0, 5)):
        pos = rng.randrange(0, max(1, n + 1))
        t[pos:pos + len(p)] = p                   # may extend the text, may overwrite half of an earlier plant
        if rng.random() < 0.5 and len(p) > 1:      # an overlapping second copy at a period of the pattern
            for d in range(1, len(p)):
                if p[d:] == p[:len(p) - d]:
                    t[pos + d:pos + d + len(p)] = p
                    break
    c = rng.random()
    if c < 0.1:
        t = bytearray(p)                           # text == pattern
    elif c < 0.2:
        t = bytearray(p[:-1])                      # text one shorter than the pattern
    elif c < 0.3:
        t = t + bytearray(p)                       # occurrence at the very end
    elif c < 0.4:
        t = bytearray(p) + t                       # occurrence at offset 0
    return bytes(t), p

def c17_pairs(ctx):
    rng = ctx.rng
    pairs = []
    if ctx.tier == "thorough":
        pairs += list(exhaustive_pairs([0x61, 0x62], 10, 4))           # 61 410 pairs
        pairs += list(exhaustive_pairs([0x61, 0x62, 0x63], 7, 4))      # 393 600 pairs
        longer = list(_words([0x61, 0x62, 0x63], 1, 4))
        for _ in range(30000):                                         # lengths 8..10 over {a,b,c}: sampled
            t = bytes(rng.choice(b"abc") for _ in range(rng.randrange(8, 11)))
            pairs.append((t, rng.choice(longer)))
    else:
        ab = list(exhaustive_pairs([0x61, 0x62], 10, 4))
        pairs += rng.sample(ab, 2500)
        pats3 = list(_words([0x61, 0x62, 0x63], 1, 4))
        for _ in range(2500):
            t = bytes(rng.choice(b"abc") for _ in range(rng.randrange(0, 11)))
            pairs.append((t, rng.choice(pats3)))
        pairs += list(exhaustive_pairs([0x61, 0x62], 4, 3))            # the smallest cases, all of them
    for _ in range(ctx.scale(1500, 40000)):
        pairs.append(planted_pair(rng))
    # long patterns: at and past one byte's worth of pattern length (shift tables, 8-bit counters), planted and absent
    for m in (254, 255, 256, 257, 300, 511, 512, 513) + ((1000, 4096) if ctx.tier == "thorough" else ()):
        p = rng._raw(m) if rng.random() < 0.7 else (rng._raw(max(1, m // 7)) * 8)[:m]
        pre, post = rng._raw(rng.randrange(0, 40)), rng._raw(rng.randrange(0, 40))
        pairs.append((pre + p + post, p))
        pairs.append((pre + p + p[:m // 2] + p + post, p))
        pairs.append((pre + p[:-1] + post, p))
    return pairs

def swap_cases(ctx):
    rng = ctx.rng
    out = []
    for n in range(0, 65):
        for g in (1, 2, 3, 4, 5):
            out.append((rng.bytes_(n), g))
    for n in (0, 1, 2, 3, 4, 6, 8, 12, 16):
        for g in (0, -1, -2, -3, -4, 6, 8, 16):
            out.append((rng.bytes_(n), g))
    out.append((bytes(range(256)), 2))
    out.append((bytes(range(256)), 4))
    for _ in range(ctx.scale(20, 400)):
        n = rng.randrange(0, 1600)
        out.append((rng.bytes_(n), rng.choice([2, 4, 2, 4, 3])))
    return out

def corr_C17(ctx):
    lines = []
    for t, p in c17_pairs(ctx):
        lines.append(gen.F("kmp.search", hexb(t), hexb(p)))
        lines.append(gen.F("bmh.search", hexb(t), hexb(p)))
    pats = set(p for _, p in c17_pairs_small(ctx))
    for p in sorted(pats):
        lines.append(gen.F("kmp.partial", hexb(p)))
    # the empty pattern: outside the property, but the model must still say what the code does
    lines.append(gen.F("kmp.partial", "x"))
    lines.append(gen.F("kmp.search", "x", "x"))
    lines.append(gen.F("kmp.search", "x6162", "x"))
    lines.append(gen.F("bmh.search", "x", "x"))          # IndexError; a non-empty text would never return
    for b, g in swap_cases(ctx):
        lines.append(gen.F("swap", hexb(b), str(g)))
    return lines

def c17_pairs_small(ctx):
    rng = ctx.rng
    out = [(b"", p) for p in _words([0x61, 0x62], 1, 6)]
    out += [(b"", p) for p in _words([0x61, 0x62, 0x63], 1, 4)]
    for _ in range(ctx.scale(300, 5000)):
        out.append((b"", periodic_pattern(rng, rng.choice([[0x61, 0x62], [0, 255], list(range(256))]))))
    return out

# =========================================================================================== C17 oracles

def naive_occ(t, p):
    return [i for i in range(len(t) - len(p) + 1) if t[i:i + len(p)] == p]

def _real_search(which, t, p):
    import AcraNetwork
    import AcraNetwork.SamDec008 as samdec
    if which == "kmp":
        return AcraNetwork.KMP().search(t, p)
    return samdec.string_matching_boyer_moore_horspool(t, p)

NAMES = {"kmp": "KMP.search", "bmh": "string_matching_boyer_moore_horspool"}

def check_search(args):
    """the helper returns exactly occ(text, pattern): ascending list of all (overlapping) offsets"""
    which, t, p = args["which"], bytes.fromhex(args["text"]), bytes.fromhex(args["pattern"])
    if len(p) == 0:
        return None                                # outside the domain
    exp = naive_occ(t, p)
    sp = _spec([gen.F("spec.occ", hexb(t), hexb(p))])[0]
    if sp != "ok:[" + ";".join(str(i) for i in exp) + "]":
        return "harness error: Spec.occ answers %s, the reference %r" % (sp, exp)
    from ..core import guarded
    st = guarded(lambda: _real_search(which, t, p))
    if st[0] != "ok":
        return "%s(%s, %s) %s instead of returning %r" % (NAMES[which], t.hex(), p.hex(),
                                                          "did not return" if st[0] == "timeout" else "raised " + str(st[1]), exp)
    got = list(st[1])
    if got != exp:
        return "%s(text=%s, pattern=%s) returns %r; the occurrences are %r" % (NAMES[which], t.hex(), p.hex(), got, exp)
    return None

def check_swap(args):
    """2-/4-byte groups reversed (Spec.swapGroups), involution, refusal of other lengths and group sizes"""
    import AcraNetwork
    b, g = bytes.fromhex(args["buf"]), args["group"]
    try:
        r = bytes(AcraNetwork.endianness_swap(b, g))
    except Exception as e:
        if g in (2, 4) and len(b) % g == 0:
            return "endianness_swap raised %r on a %d-byte buffer with group size %d" % (e, len(b), g)
        return None
    if g not in (2, 4):
        return "endianness_swap accepted group size %d (returned %s)" % (g, r.hex())
    if len(b) % g != 0:
        return "endianness_swap accepted a %d-byte buffer with group size %d" % (len(b), g)
    exp = _spec([gen.F("spec.swapGroups", str(g), hexb(b))])[0]
    if exp != "ok:" + hexb(r):
        return "endianness_swap(%s, %d) returns %s; reversing every %d-byte group gives %s" % (b.hex(), g, r.hex(), g, exp[4:])
    rr = bytes(AcraNetwork.endianness_swap(r, g))
    if rr != b:
        return "endianness_swap is not its own inverse on %s (group %d): %s" % (b.hex(), g, rr.hex())
    # other bytes-like arguments: when accepted, the same bytes give the same result
    for mk in (bytearray, memoryview):
        try:
            alt = bytes(AcraNetwork.endianness_swap(mk(b), g))
        except Exception:
            continue
        if alt != r:
            return "endianness_swap(%s(%s), %d) returns %s, for the same bytes as a bytes object it returns %s" % (
                mk.__name__, b.hex(), g, alt.hex(), r.hex())
    # the result belongs to the caller: editing it in place must not change what a later call returns
    m = AcraNetwork.endianness_swap(b, g)
    if isinstance(m, bytearray) and len(m):
        m[0] ^= 0xFF
        m.extend(b"\xaa\x55")
        again = bytes(AcraNetwork.endianness_swap(b, g))
        if again != r:
            return "endianness_swap(%s, %d) returns %s after an earlier result was edited in place (first call gave %s)" % (
                b.hex(), g, again.hex(), r.hex())
    return None

def _hint_args(hints):
    """inputs of correspondence lines on which model and code disagreed: search there first"""
    out = []
    for h in hints:
        w = h.get("line", "").split()
        try:
            if len(w) == 4 and w[1] in ("kmp.search", "bmh.search"):
                out.append(("search", {"which": w[1][:3], "text": parse_val(w[2]).hex(), "pattern": parse_val(w[3]).hex()}))
            elif len(w) == 4 and w[1] == "swap":
                out.append(("swap", {"buf": parse_val(w[2]).hex(), "group": int(w[3])}))
            elif len(w) == 3 and w[1] in ("samdec.frames", "samdec.udp"):
                out.append(("capture", {"file": parse_val(w[2]).hex()}))
        except Exception:
            pass
    return out

def oracles_C17(ctx, hints):
    fails, n, seen = [], 0, set()
    def run(kind, args, fn, tags):
        nonlocal n
        n += 1
        key = (kind, tags.get("function"))
        if key in seen:
            return
        w = fn(args)
        if w:
            seen.add(key)
            fails.append(Failure(kind, args, w, tags))
    for kind, args in _hint_args(hints):
        if kind == "search":
            run("search_occ", args, check_search, {"function": NAMES[args["which"]], "check": "occ"})
        elif kind == "swap":
            run("swap_groups", args, check_swap, {"function": "endianness_swap", "check": "swap"})
    pairs = c17_pairs(ctx)
    # batch the Spec side: one spec-driver call for all pairs, then the real functions
    exp = _spec([gen.F("spec.occ", hexb(t), hexb(p)) for t, p in pairs])
    import AcraNetwork
    import AcraNetwork.SamDec008 as samdec
    from ..core import guarded
    kmp = AcraNetwork.KMP()
    for (t, p), e in zip(pairs, exp):
        for which, f in (("kmp", kmp.search), ("bmh", samdec.string_matching_boyer_moore_horspool)):
            n += 1
            if ("search_occ", NAMES[which]) in seen:
                continue
            st = guarded(lambda: f(t, p))
            ok = st[0] == "ok" and e == "ok:[" + ";".join(str(i) for i in st[1]) + "]"
            if not ok:
                args = {"which": which, "text": t.hex(), "pattern": p.hex()}
                w = check_search(args) or "%s disagrees with Spec.occ (%s)" % (NAMES[which], e)
                seen.add(("search_occ", NAMES[which]))
                fails.append(Failure("search_occ", args, w, {"function": NAMES[which], "check": "occ"}))
    for b, g in swap_cases(ctx):
        run("swap_groups", {"buf": b.hex(), "group": g}, check_swap, {"function": "endianness_swap", "check": "swap"})
    ctx.count("oracle_evaluations", n)
    return fails

# =========================================================================================== C18 captures

GHDR = bytes.fromhex("d4c3b2a1020004000000000000000000ffff000001000000")

def rec_bytes(pkt, incl=None, sec=0, usec=0, orig=None):
    incl = len(pkt) if incl is None else incl
    orig = incl if orig is None else orig
    return sec.to_bytes(4, "little") + usec.to_bytes(4, "little") + incl.to_bytes(4, "little") + orig.to_bytes(4, "little") + pkt

def l234(rng, proto=17):
    """14 bytes Ethernet II + 20 bytes IPv4 + 8 bytes UDP; only byte 23 (IP protocol) matters to the code"""
    h = bytearray(rng.bytes_(42))
    h[12:14] = b"\x08\x00"
    h[14] = 0x45
    h[23] = proto
    return bytes(h)

def inetx_bytes(rng, payload, streamid=STREAM, length=None, seq=None):
    length = 28 + len(payload) if length is None else length
    w = [rng.choice([0x11000000, rng.getrandbits(32)]), streamid, rng.getrandbits(32) if seq is None else seq,
         length, rng.boundary(32), rng.randrange(0, 10**9), rng.boundary(32)]
    return b"".join((x & 0xFFFFFFFF).to_bytes(4, "big") for x in w) + payload

def clean(rng, n, forbid=SYNC):
    """n random bytes that do not contain the sync word (nor a prefix of it at the end)"""
    while True:
        b = rng.bytes_(n)
        if forbid not in b + forbid[:-1] and (n == 0 or b[-1] != forbid[0]):
            return b

def frame(rng, L, sync_free=True):
    body = clean(rng, L - 4) if sync_free else rng.bytes_(L - 4)
    return SYNC + body

def samdec_packet(rng, frames, hdr10=None):
    hdr10 = clean(rng, 10) if hdr10 is None else hdr10
    return l234(rng) + inetx_bytes(rng, hdr10 + b"".join(frames))

def foreign_packet(rng, L):
    """a packet the decommutator must ignore; it may well contain sync words and frame-like data"""
    body = clean(rng, 10) + b"".join(frame(rng, L) for _ in range(rng.randrange(1, 3)))
    c = rng.randrange(0, 8)
    if c == 7:                                          # exactly 0x46 bytes: a complete, empty iNET-X packet on the stream
        return l234(rng) + inetx_bytes(rng, b"")
    if c == 0:                                          # not UDP (TCP, ICMP, …)
        h = l234(rng, proto=rng.choice([6, 1, 2, 16, 18, 0, 255]))
        return h + inetx_bytes(rng, body)
    if c == 1:                                          # too short: at most 0x46 bytes in all
        n = rng.choice([0, 1, 14, 42, 43, 69, 70])
        return (l234(rng) + inetx_bytes(rng, SYNC * 8))[:n]
    if c == 2:                                          # iNET-X length field wrong
        d = rng.choice([-1, 1, 4, -28, 1000])
        return l234(rng) + inetx_bytes(rng, body, length=max(0, 28 + len(body) + d))
    if c == 3:                                          # another stream id
        return l234(rng) + inetx_bytes(rng, body, streamid=rng.choice([0, 0x152, 0x154, 0x15300, 0x1530000, 0xDC, 0xFFFFFFFF]))
    if c == 4:                                          # UDP, long enough, but random bytes instead of iNET-X
        return l234(rng) + rng.bytes_(rng.randrange(29, 80))
    if c == 5:                                          # valid iNET-X on the stream but not UDP
        return l234(rng, proto=rng.choice([6, 47])) + inetx_bytes(rng, body)
    return l234(rng) + inetx_bytes(rng, body, streamid=rng.getrandbits(32) | 0x400)

def valid_capture(rng, big=False):
    """a capture satisfying the hypotheses of C18; returns (file bytes, expected frames)"""
    L = rng.choice([4, 5, 6, 7, 8, 10, 16, 17, 32, 33, 64] + ([128, 500, 1400] if big else []))
    npk = rng.choice([1, 1, 2, 3, 4, 6] + ([20] if big else []))
    kmax = max(1, min(8, 1400 // L))
    recs, exp = [], []
    first_k = rng.choice([1, 1, 2, 3])
    def foreign_rec():
        # foreign records are also written snap-length truncated (orig_len > incl_len), as a capture tool would
        fp = foreign_packet(rng, L)
        return rec_bytes(fp, orig=len(fp) + rng.choice([0, 0, 1, 486, 1400, 60000]))
    for i in range(npk):
        while rng.random() < 0.35:
            recs.append(foreign_rec())
        k = min(kmax, first_k if i == 0 else rng.randrange(1, kmax + 1))
        if i == 0:
            frames = [frame(rng, L) for _ in range(k)]       # sync word only at frame starts
            # frame bodies are sync-free, but the tail of one frame and the head of the next could
            # still form the word: regenerate until the occurrences are exactly the frame starts
            while naive_occ(b"".join(frames), SYNC) != [j * L for j in range(k)]:
                frames = [frame(rng, L) for _ in range(k)]
            if k >= 2 and L >= 12 and rng.random() < 0.4:
                # the property does not forbid the sync pattern as DATA: plant it inside the second or a later
                # frame (the first two occurrences, which fix the frame length, are still the frame starts)
                j = rng.randrange(1, k)
                pos = rng.randrange(4, L - 4 + 1 - 4) if L - 8 > 4 else 4
                fr = bytearray(frames[j]); fr[pos:pos + 4] = SYNC; frames[j] = bytes(fr)
        else:
            frames = [frame(rng, L, sync_free=rng.random() < 0.5) for _ in range(k)]
        recs.append(rec_bytes(samdec_packet(rng, frames), sec=rng.boundary(32), usec=rng.randrange(0, 10**6)))
        exp += frames
    while rng.random() < 0.35:
        recs.append(foreign_rec())
    return GHDR + b"".join(recs), exp

def max_capture(rng):
    """a capture whose middle SAM/DEC packet is the largest UDP datagram there is (65507 payload bytes: a pcap record of
    65549 bytes, beyond the 65535 that files written by the library declare as snap length), between two small ones"""
    L = 8
    def frames_of(k, sync_free):
        fs = [frame(rng, L, sync_free=sync_free) for _ in range(k)]
        return fs
    first = frames_of(2, True)
    while naive_occ(b"".join(first), SYNC) != [0, L]:
        first = frames_of(2, True)
    kbig = (65507 - 28 - 10) // L
    big = frames_of(kbig, False)
    last = frames_of(2, False)
    recs = [rec_bytes(samdec_packet(rng, fs), sec=rng.boundary(32), usec=rng.randrange(0, 10**6)) for fs in (first, big, last)]
    return GHDR + b"".join(recs), first + big + last

def quirk_capture(rng):
    """captures outside the hypotheses: every branch of the model (errors, resets, odd lengths)"""
    L = rng.choice([4, 6, 8, 16, 33])
    c = rng.randrange(0, 14)
    pk = lambda payload: rec_bytes(l234(rng) + inetx_bytes(rng, payload))
    good = lambda k=2: clean(rng, 10) + b"".join(frame(rng, L) for _ in range(k))
    if c == 0:      # first qualifying packet has no sync word -> Exception
        return GHDR + pk(clean(rng, rng.choice([0, 1, 3, 4, 10, 30]))) + pk(good())
    if c == 1:      # payload shorter than the SAM/DEC header but containing the sync word: negative / zero frame length
        p = rng.choice([SYNC, b"\x00" + SYNC, SYNC + b"\x00" * 6, b"\x01\x02\x03\x04\x05\x06" + SYNC, SYNC + b"\x00" * 5])
        return GHDR + pk(p) + pk(good())
    if c == 2:      # sync word inside the 10-byte header: wrong inference
        h = bytearray(clean(rng, 10)); pos = rng.randrange(0, 7); h[pos:pos + 4] = SYNC
        return GHDR + pk(bytes(h) + b"".join(frame(rng, L) for _ in range(rng.randrange(1, 4)))) + pk(good())
    if c == 3:      # a later frame without sync: falls out of alignment -> TypeError
        bad = bytearray(good(3)); bad[10 + L] ^= 0xFF
        return GHDR + pk(good(2)) + pk(bytes(bad)) + pk(good())
    if c == 4:      # trailing partial frame is dropped
        return GHDR + pk(good(2) + SYNC[:rng.randrange(0, 4)] + rng.bytes_(rng.randrange(0, max(1, L - 4)))[:L - 1]) + pk(good(1))
    if c == 5:      # first packet has one frame plus trailing bytes: frame length = whole payload
        return GHDR + pk(good(1) + clean(rng, rng.randrange(1, 9))) + pk(good(2))
    if c == 6:      # later packets with a different frame length
        L2 = L + rng.choice([1, 2, 4])
        return GHDR + pk(good(2)) + pk(clean(rng, 10) + frame(rng, L2) + frame(rng, L2))
    if c == 7:      # sync word inside a frame body of the first packet
        f = bytearray(frame(rng, 16)); f[8:12] = SYNC
        return GHDR + pk(clean(rng, 10) + bytes(f) + frame(rng, 16)) + pk(clean(rng, 10) + frame(rng, 16))
    if c == 8:      # record-level oddities: incl_len 0, incl_len beyond the end of the file, orig_len different
        g = l234(rng) + inetx_bytes(rng, good(2))
        last = rng.choice([len(g) + rng.randrange(1, 50), 0x7FFFFFFF, 0xFFFFFFFF, len(g) - 1, 0x47])
        return GHDR + rec_bytes(b"", incl=0) + rec_bytes(g, orig=9999) + rec_bytes(g, incl=last)
    if c == 9:      # file shorter than / exactly the global header, or with a partial record header
        return (GHDR + pk(good(1)))[:rng.choice([0, 1, 23, 24, 25, 39, 40, 41])]
    if c == 10:     # boundary of the length filter: 70 and 71 bytes
        a = (l234(rng) + inetx_bytes(rng, b""))                     # exactly 70 bytes: ignored
        b = (l234(rng) + inetx_bytes(rng, bytes([rng.getrandbits(8)])))       # 71 bytes: qualifies, no sync
        return GHDR + rec_bytes(a) + (rec_bytes(b) if rng.random() < 0.5 else b"") + pk(good(2)) + rec_bytes(b)
    if c == 11:     # protocol byte boundary values
        g = bytearray(l234(rng) + inetx_bytes(rng, good(2))); g[23] = rng.choice([16, 18, 0x11 ^ 0x80, 0])
        return GHDR + rec_bytes(bytes(g)) + pk(good(1))
    if c == 12:     # frame length 1..3 cannot carry the sync word; sync words closer than 4 cannot occur; L = 4 back to back
        return GHDR + pk(clean(rng, 10) + SYNC * rng.randrange(1, 6)) + pk(clean(rng, 10) + SYNC * 2 + SYNC[:2])
    # 13: garbage after the global header
    return GHDR + rng.bytes_(rng.randrange(0, 120))

def capture_lines(ctx):
    rng = ctx.rng
    files = []
    for _ in range(ctx.scale(150, 3000)):
        files.append(valid_capture(rng, big=ctx.tier == "thorough")[0])
    for _ in range(ctx.scale(250, 4000)):
        files.append(quirk_capture(rng))
    # every truncation offset of small valid captures (C05-style crash model, outside C18's statement)
    for _ in range(ctx.scale(2, 20)):
        f, _e = valid_capture(rng)
        if len(f) <= 600:
            files += [f[:t] for t in range(0, len(f))]
    # a valid capture with single bytes of the fixed-offset region and the iNET-X header disturbed
    for _ in range(ctx.scale(3, 40)):
        f, _e = valid_capture(rng)
        first = 24 + 16
        for off in (12, 13, 14, 23, 42, 43, 44, 45, 46, 47, 48, 49, 54, 55, 56, 57):
            for v in (0x00, 0x01, 0x11, 0x53, 0xFF):
                if first + off < len(f):
                    files.append(f[:first + off] + bytes([v]) + f[first + off + 1:])
        for off in (8, 9, 10, 11):                     # incl_len of the first record
            for v in (0, 1, 0x46, 0x47, 0xFF):
                files.append(f[:24 + off] + bytes([v]) + f[24 + off + 1:])
    lines = []
    for f in files:
        lines.append(gen.F("samdec.frames", hexb(f)))
    for f in files[:: max(1, len(files) // ctx.scale(150, 2000))]:
        lines.append(gen.F("samdec.udp", hexb(f)))
    return lines

def corr_C18(ctx):
    sample = open("/repo/test/sample_pcap/samdec.pcap", "rb").read() if _have_sample() else None
    lines = capture_lines(ctx)
    if sample is not None:
        lines = [gen.F("samdec.frames", hexb(sample)), gen.F("samdec.udp", hexb(sample))] + lines
    return lines

def _have_sample():
    import os
    return os.path.exists("/repo/test/sample_pcap/samdec.pcap")

def corr_C08(ctx):
    """termination of the decommutator and of the search helpers on arbitrary bytes (watchdog on the real
    code, fuel in the model)"""
    rng = ctx.rng
    lines = []
    for _ in range(ctx.scale(150, 4000)):
        n = rng.randrange(0, 400)
        body = bytearray(rng.bytes_(n))
        for _k in range(rng.randrange(0, 4)):           # sprinkle plausible structure into the noise
            pos = rng.randrange(0, n + 1)
            body[pos:pos] = rng.choice([SYNC, b"\x00\x00\x01\x53", b"\x11", (rng.randrange(0, 90)).to_bytes(4, "little")])
        lines.append(gen.F("samdec.frames", hexb(GHDR + bytes(body))))
    for _ in range(ctx.scale(60, 1000)):
        lines.append(gen.F("samdec.frames", hexb(quirk_capture(rng))))
    for _ in range(ctx.scale(200, 5000)):
        t, p = planted_pair(rng)
        lines.append(gen.F("bmh.search", hexb(t), hexb(p)))
        lines.append(gen.F("kmp.search", hexb(t), hexb(p)))
    return lines

# =========================================================================================== C18 oracles

def reference_frames(f):
    """Independent reading of a capture.  Returns the frames C18 promises, or None when the capture is
    outside the hypotheses of the property (then nothing is claimed)."""
    if len(f) < 24:
        return None
    pos, pkts = 24, []
    while pos < len(f):
        if pos + 16 > len(f):
            return None
        incl = int.from_bytes(f[pos + 8:pos + 12], "little")
        if pos + 16 + incl > len(f):
            return None
        pkts.append(f[pos + 16:pos + 16 + incl])
        pos += 16 + incl
    out, L = [], None
    for pkt in pkts:
        if len(pkt) <= 0x46 or pkt[0x17] != 17:
            continue                                     # too short / not UDP
        d = pkt[0x2A:]
        if len(d) < 28 or int.from_bytes(d[12:16], "big") != len(d):
            continue                                     # not iNET-X
        if int.from_bytes(d[4:8], "big") != STREAM:
            continue                                     # another stream
        body = d[28 + 10:]
        if len(d) < 28 + 10 + 4:
            return None
        if L is None:
            occ = naive_occ(d[28:], SYNC)
            if not occ or occ[0] != 10:
                return None
            L = occ[1] - occ[0] if len(occ) > 1 else len(body)
            starts = [10 + L * j for j in range(len(body) // L)] if L > 0 and len(body) % L == 0 else None
            # every frame start is an occurrence; further occurrences (the pattern as DATA) may only lie inside the
            # second or a later frame — the first two occurrences fix the frame length
            if starts is None or any(x not in occ for x in starts) or occ[:2] != starts[:2] or \
                    any(x < 10 + L for x in occ if x not in starts):
                return None
        if len(body) == 0 or len(body) % L:
            return None
        fr = [body[j:j + L] for j in range(0, len(body), L)]
        if any(x[:4] != SYNC for x in fr):
            return None
        out += fr
    return out

def check_capture(args):
    """frames() over a capture satisfying the hypotheses returns exactly the frames carried, in order"""
    from ..adapters.search import drain_frames
    from ..core import guarded
    f = bytes.fromhex(args["file"])
    exp = [bytes.fromhex(x) for x in args["expected"]] if "expected" in args else reference_frames(f)
    if exp is None:
        return None
    st = guarded(lambda: drain_frames(f))
    if st[0] != "ok":
        return "SamDecPcap.frames() did not finish on a %d-byte capture (%s)" % (len(f), st[0])
    got, err = st[1]
    if err is not None:
        return "SamDecPcap.frames() raised %s after %d of %d frames on a well-formed capture" % (err, len(got), len(exp))
    if got != exp:
        i = next((k for k, (a, b) in enumerate(zip(got, exp)) if a != b), min(len(got), len(exp)))
        return "SamDecPcap.frames() returned %d frames, the capture carries %d; first difference at frame %d: got %s, carried %s" % (
            len(got), len(exp), i, got[i].hex() if i < len(got) else None, exp[i].hex() if i < len(exp) else None)
    return None

def spec_capture(rng):
    """a valid capture assembled by the Lean Spec (record / packet layouts) from random parameters"""
    L = rng.choice([4, 6, 8, 16, 33])
    lines, plan = [], []
    for i in range(rng.randrange(1, 4)):
        k = rng.randrange(1, 4)
        frames = [frame(rng, L) for _ in range(k)]
        while naive_occ(b"".join(frames), SYNC) != [j * L for j in range(k)]:
            frames = [frame(rng, L) for _ in range(k)]
        lines.append(gen.F("spec.samdec.packet", hexb(l234(rng)), str(rng.boundary(32)), str(rng.boundary(32)),
                           str(rng.boundary(32)), str(rng.boundary(32)), str(rng.boundary(32)), hexb(clean(rng, 10)),
                           "[" + ";".join(hexb(x) for x in frames) + "]"))
        plan.append(frames)
    pk = _spec(lines)
    recs = _spec([gen.F("spec.samdec.record", str(rng.boundary(32)), str(rng.boundary(32)), a[3:]) for a in pk])
    f = GHDR + b"".join(bytes.fromhex(r[4:]) for r in recs)
    return f, [x for fr in plan for x in fr]

def oracles_C18(ctx, hints):
    fails, n = [], 0
    rng = ctx.rng
    tags = {"class": "SamDecPcap", "check": "frames_exact"}
    for kind, args in _hint_args(hints):
        if kind == "capture":
            n += 1
            w = check_capture(args)
            if w and not fails:
                fails.append(Failure("samdec_capture", args, w, tags))
    for i in range(ctx.scale(200, 5000) * (3 if getattr(ctx, "search_mode", False) else 1)):
        if fails:
            break
        if i == 1:
            f, exp = max_capture(rng)
        else:
            f, exp = valid_capture(rng, big=ctx.tier == "thorough") if i % 5 else spec_capture(rng)
        ref = reference_frames(f)
        if ref != exp:
            raise RuntimeError("generator and reference reader disagree on a generated capture")
        args = {"file": f.hex(), "expected": [x.hex() for x in exp]}
        n += 1
        w = check_capture(args)
        if w:
            fails.append(Failure("samdec_capture", args, w, tags))
    ctx.count("oracle_evaluations", n)
    return fails

ORACLES = {"search_occ": check_search, "swap_groups": check_swap, "samdec_capture": check_capture}
CLASSGEN = {}
