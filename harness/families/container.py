"""Family: the container protocol (`len(obj)`, `obj[i]`) and the remaining small methods of classes that other
families own (their generators are reused through the CLASSGEN registry).

Correspondence (ops `len`, `getitem <int>` of the line protocol, `call`, `F`):
  C01  FTI classes        C04  Chapter 11 payload classes       C13  all of them + the small methods
  C08  the same ops after arbitrary / mutated buffers
Oracles state the laws on the real code:
  * `len` / `[i]` leave the observable state alone — except iNetX / IENA / iNET, whose `__len__` packs: there the
    state after `len` is the state after `pack`, and `len(o) == len(o.pack())`
  * `o[i]` after `unpack` is the i-th element of the decoded list for `-n <= i < n`, `IndexError` exactly outside
  * `len` after `unpack b` does not depend on what the object held before
"""
from ..core import hexb, run_ops_impl, ADAPTERS, pyval, parse_val, canon, guarded
from ..runner import Failure
from .. import gen

FTI = ["iNetX", "IENA", "IENAM", "IENAQ", "IENAD", "IENAN", "iNET", "NPD", "ParserAlignedBlock", "ParserAlignedPacket"]
CH11 = ["ARINC429DataPacket", "MILSTD1553DataPacket", "UARTDataPacket", "PCMDataPacket", "TimeDataFormat1",
        "TimeDataFormat2"]
OTHER = ["PcapRecord", "NAL", "MPEGTS"]
LEN_PACKS = ("iNetX", "IENA", "iNET")               # __len__ is len(self.pack())

def _cgs(classes):
    from . import classgens
    return [(k, cg) for k, cg in sorted(classgens().items()) if cg.cls in classes]

def _samples(ctx, cg, n):
    from .. import generic
    return generic._samples(ctx, cg, n)

def _count(cls, f):
    fld = gen.CONTAINER[cls][2]
    return gen.list_count(f.get(fld, "[]")) if fld else 0

def _tail(cg):
    return ["obs"] + ([cg.pack_op(), "obs"] if cg.can_pack else [])

def _lines(ctx, classes, per_class):
    """directed histories for the container ops of `classes`"""
    rng, lines = ctx.rng, []
    for _, cg in _cgs(classes):
        cls = cg.cls
        has_len, has_get, _fld = gen.CONTAINER[cls]
        samples = _samples(ctx, cg, per_class)
        for (opts, f, sets, b) in samples:
            n = _count(cls, f)
            inside = sorted(set(i for i in gen.index_candidates(n) if -n <= i < n))
            gets = ["getitem %d" % i for i in inside] if has_get else []
            lens = ["len"] if has_len else []
            # a built object: len / every inside index / observe that nothing moved / pack / again
            lines.append(gen.H(cls, sets + lens + ["obs"] + gets + lens + _tail(cg) + lens + gets + ["obs"], opts))
            if b is not None and cg.can_unpack:
                # a decoded object, first into a new object then into the one that held the sample before
                other = rng.choice(samples)
                pre = other[2] + ([cg.pack_op()] if cg.can_pack and rng.random() < 0.5 else []) if other[0] == opts else []
                for head in ([], pre):
                    lines.append(gen.H(cls, head + [cg.unpack_op(b)] + lens + gets + ["obs"] + lens + _tail(cg), opts))
                # every candidate index on its own line (an IndexError ends the specified part of a history)
                if has_get:
                    for i in sorted(set(gen.index_candidates(n))):
                        lines.append(gen.H(cls, [cg.unpack_op(b), "getitem %d" % i] + lens + ["obs"], opts))
        # an object that never held anything
        opts0 = cg.opts[0]
        lines.append(gen.H(cls, lens + ["obs"] + (["getitem 0"] if has_get else []), opts0))
        if has_get:
            lines.append(gen.H(cls, ["getitem -1", "obs"], opts0))
        if cls == "PCMDataPacket":
            lines.append(gen.H(cls, ["len", "obs"], opts0))            # no __len__: TypeError
    return lines

def _malformed_lines(ctx, classes, per_class):
    rng, lines = ctx.rng, []
    for _, cg in _cgs(classes):
        if not cg.can_unpack:
            continue
        cls = cg.cls
        has_len, has_get, _ = gen.CONTAINER[cls]
        for (opts, f, sets, b) in _samples(ctx, cg, 3):
            if b is None:
                continue
            ms = gen.malformed(rng, b, cg.length_fields, max_trunc=16)
            for m in rng.sample(ms, min(len(ms), per_class)):
                ops = [cg.unpack_op(m)] + (["len"] if has_len else [])
                if has_get:
                    ops += ["getitem %d" % rng.choice([0, -1, 1])]
                lines.append(gen.H(cls, ops + ["obs"], opts))
    return lines

# --------------------------------------------------------------------------------------- the small methods
def _small_method_lines(ctx):
    rng, L = ctx.rng, []
    for _ in range(ctx.scale(40, 2000)):
        a, b = rng.boundary(32), rng.boundary(32)
        L.append(gen.H("iNetX", ["call setPacketTime %d %d" % (a, b), "obs", "pack", "call setPacketTime %d" % b, "obs", "len", "obs"]))
    for cls in ("IENA", "IENAM", "IENAQ", "IENAD", "IENAN"):
        for _ in range(ctx.scale(8, 200)):
            v, w = rng.boundary(8), rng.boundary(16)
            L.append(gen.H(cls, ["set n2 %d" % v, "call n2", "set streamid %d" % w, "call streamid", "obs", "pack", "obs",
                                 "set status %d" % w, "call n2", "set key %d" % v, "call streamid"]))
    import struct
    def bits(x):
        return struct.unpack(">Q", struct.pack(">d", x))[0]
    clocks = [0.0, 0.5, 0.999999, 0.9999995, 0.9999999999, 1.0, 1.000001, 1700000000.0, 1700000000.000001,
              1759190400.123456, 4294967295.999999, 4294967296.25]
    clocks += [rng.randrange(0, 2 ** 32) + rng.randrange(0, 10 ** 6) / 1e6 for _ in range(ctx.scale(60, 3000))]
    clocks += [rng.randrange(0, 2 ** 33) + rng.random() for _ in range(ctx.scale(60, 3000))]
    for t in clocks:
        m = rng.choice(["set_current_time", "setCurrentTime"])
        L.append(gen.H("PcapRecord", ["set payload %s" % hexb(rng.bytes_(rng.randrange(0, 5))), "call %s %d" % (m, bits(t)),
                                      "obs", "len", "pack"]))
    for _ in range(ctx.scale(10, 200)):
        d = hexb(rng.bytes_(rng.randrange(0, 9)))
        L.append(gen.H("PCMMinorFrame", ["call payload", "set minor_frame_data %s" % d, "call payload", "obs"], ("0", "False", "0")))
    L.append(gen.H("MPEGTS", ["call NumberOfBlocks", "call FirstCount", "call LastCount", "len", "obs"]))
    for _ in range(ctx.scale(60, 3000)):
        size = rng.choice([0, 1, 11, 12, 13, 23, 24, 25, 32, rng.randrange(0, 40)])
        code = rng.choice([0, 1, (1 << 12) - 1, (1 << 24) - 1, rng.getrandbits(12), rng.getrandbits(24), rng.getrandbits(30)])
        L.append(gen.H("Golay", ["call onesincode_old %d %d" % (code, size), "call onesincode %d %d" % (code, size)]))
    macs = [0, 1, 0xFF, 0x0102030405, 0xFFFFFFFFFFFF, 1 << 48, (1 << 48) + 0xAB, 0x0A0B0C0D0E0F, 0x9A00000000BC]
    macs += [rng.getrandbits(48) for _ in range(ctx.scale(40, 2000))] + [rng.getrandbits(64) for _ in range(5)]
    L += [gen.F("mactoreadable", str(m)) for m in macs]
    for n in list(range(0, 20)) + [rng.randrange(20, 200) for _ in range(ctx.scale(10, 300))]:
        L.append(gen.F("buf_to_printable", hexb(rng.bytes_(n))))
        L.append(gen.F("bytes_to_ascii", hexb(rng.bytes_(n))))
    L.append(gen.F("bytes_to_ascii", hexb(bytes(range(256)))))
    L.append(gen.F("buf_to_printable", hexb(bytes(range(256)))))
    return L

def corr_C01(ctx):
    return _lines(ctx, FTI, ctx.scale(5, 60))

def corr_C04(ctx):
    return _lines(ctx, CH11, ctx.scale(4, 40))

# --------------------------------------------------------------------------------------- iteration cursor
CURSOR = ("IENAM", "IENAQ", "IENAD", "IENAN", "NPD", "ParserAlignedPacket", "ARINC429DataPacket",
          "MILSTD1553DataPacket", "UARTDataPacket", "PCMDataPacket", "MPEGTS")

def _cursor_lines(ctx):
    """direct calls of `next()` / `iter(obj)` around loops, pack and unpack: the cursor `_index` is created by the first
    `__iter__`, moved by every loop over the object (the one inside some `pack`s too) and never reset by `unpack`"""
    rng, lines = ctx.rng, []
    for _, cg in _cgs(CURSOR):
        cls = cg.cls
        samples = _samples(ctx, cg, ctx.scale(3, 30))
        opts0 = cg.opts[0]
        lines.append(gen.H(cls, ["call next"], opts0))                       # never iterated: AttributeError
        lines.append(gen.H(cls, ["iter", "call next"], opts0))               # after a loop: StopIteration
        lines.append(gen.H(cls, ["call iter", "call next"], opts0))          # rewound, empty: StopIteration
        for (opts, f, sets, b) in samples:
            n = _count(cls, f)
            steps = ["call next"] * rng.randrange(0, n + 1)
            lines.append(gen.H(cls, sets + ["call iter"] + ["call next"] * (n + 1), opts))       # every element, then stop
            lines.append(gen.H(cls, sets + ["call iter"] + steps + ["obs", "len"] if gen.CONTAINER[cls][0] else sets + ["call iter"] + steps + ["obs"], opts))
            if cg.can_pack:
                lines.append(gen.H(cls, sets + [cg.pack_op(), "call next"], opts))               # does pack loop over self?
                lines.append(gen.H(cls, sets + ["call iter"] + steps + [cg.pack_op(), "call next", "call next"], opts))
            if b is not None and cg.can_unpack:
                other = rng.choice(samples)
                if other[0] == opts and other[3] is not None:
                    k = rng.randrange(0, _count(cls, other[1]) + 1)
                    # a stale cursor survives unpack: what next() returns depends on the history, not on the bytes
                    lines.append(gen.H(cls, [cg.unpack_op(other[3]), "call iter"] + ["call next"] * k +
                                       [cg.unpack_op(b), "call next", "call next"], opts))
                lines.append(gen.H(cls, [cg.unpack_op(b), "call next"], opts))                   # never iterated
                lines.append(gen.H(cls, [cg.unpack_op(b), "iter", "call next"], opts))
                lines.append(gen.H(cls, ["iter", cg.unpack_op(b), "call next", "call next"], opts))
    return lines

def corr_C13(ctx):
    return _lines(ctx, FTI + CH11 + OTHER, ctx.scale(3, 40)) + _small_method_lines(ctx) + _cursor_lines(ctx)

def corr_C08(ctx):
    return _malformed_lines(ctx, FTI + CH11 + OTHER, ctx.scale(12, 200))

# --------------------------------------------------------------------------------------- oracles
def _obs(a, o):
    st = guarded(lambda: canon(o))
    return st[1] if st[0] == "ok" else "<" + str(st) + ">"

def check_container(args):
    """the container laws on the real code for one sample of one class (see module docstring)"""
    cls, opts, sets = args["cls"], args["opts"], args["sets"]
    a = ADAPTERS[cls]
    has_len, has_get, fld = gen.CONTAINER[cls]
    po = [pyval(parse_val(x)) for x in opts]
    pa = [pyval(parse_val(x)) for x in args.get("pack_args", [])]
    ua = [pyval(parse_val(x)) for x in args.get("unpack_args", [])]
    def build():
        o, dirty, out = run_ops_impl(a, po, list(sets))
        return None if dirty else o
    o = build()
    if o is None:
        return None
    before = _obs(a, o)
    # ---- len
    n_len = None
    if has_len:
        st = guarded(lambda: len(o))
        if cls in LEN_PACKS:
            p = build()
            sp = guarded(lambda: a.pack(p, *pa))
            if st[0] != sp[0] or (st[0] == "err" and st[1] != sp[1]):
                return "%s: len(o) %s but o.pack() %s" % (cls, st, (sp[0], sp[1] if sp[0] == "err" else "…"))
            if st[0] == "ok":
                if st[1] != len(sp[1]):
                    return "%s: len(o) = %d but len(o.pack()) = %d" % (cls, st[1], len(sp[1]))
                if _obs(a, o) != _obs(a, p):
                    return "%s: the state after len(o) is not the state after o.pack(): %s / %s" % (cls, _obs(a, o)[:200], _obs(a, p)[:200])
        else:
            if st[0] != "ok":
                return "%s: len(o) raised %s" % (cls, st[1])
            n_len = st[1]
            if _obs(a, o) != before:
                return "%s: len(o) changed the object: %s -> %s" % (cls, before[:200], _obs(a, o)[:200])
            if fld is not None and n_len != len(getattr(o, fld)):
                return "%s: len(o) = %d but the object holds %d elements" % (cls, n_len, len(getattr(o, fld)))
            if cls == "ParserAlignedBlock":
                sp = guarded(lambda: a.pack(build()))
                if sp[0] == "ok" and len(sp[1]) != n_len:
                    return "ParserAlignedBlock: len(o) = %d but pack() emits %d bytes" % (n_len, len(sp[1]))
            if cls == "PcapRecord":
                sp = guarded(lambda: a.pack(build()))
                if sp[0] == "ok" and len(sp[1]) != n_len + 16:
                    return "PcapRecord: len(o) = %d but pack() emits %d bytes (16 of header)" % (n_len, len(sp[1]))
            if cls == "TimeDataFormat2":
                sp = guarded(lambda: a.pack(build()))
                if sp[0] == "ok" and len(sp[1]) != n_len:
                    return "TimeDataFormat2: len(o) = %d but pack() emits %d bytes" % (n_len, len(sp[1]))
    elif cls == "PCMDataPacket":
        st = guarded(lambda: len(o))
        if st != ("err", "type"):
            return "PCMDataPacket: len(o) gives %s (the class has no __len__)" % (st,)
    # ---- getitem on the built object and on what its own bytes decode to
    if has_get:
        objs = [("built", o)]
        if args.get("can_pack", True) and args.get("can_unpack", True):
            sp = guarded(lambda: a.pack(build(), *pa))
            if sp[0] == "ok":
                # into a new object, and into one that held other elements before
                for label, prior in (("decoded", None), ("re-used", args.get("prior"))):
                    if label == "re-used" and not prior:
                        continue
                    q, dq, _ = run_ops_impl(a, po, list(prior or []))
                    su = guarded(lambda: a.unpack(q, sp[1], *ua))
                    if su[0] == "ok":
                        objs.append((label, q))
        first = None
        for label, x in objs:
            elems = list(getattr(x, fld))
            n = len(elems)
            if label != "built":
                if first is None:
                    first = [canon(e) for e in elems]
                elif [canon(e) for e in elems] != first:
                    return "%s: the elements after unpack depend on what the object held before" % cls
                if has_len and len(x) != n:
                    return "%s: len after unpack is %d, the decoded list holds %d" % (cls, len(x), n)
            st0 = _obs(a, x)
            for i in gen.index_candidates(n) + [-n, 2 * n + 3, -2 * n - 3]:
                st = guarded(lambda: x[i])
                if -n <= i < n:
                    if st[0] != "ok":
                        return "%s (%s): o[%d] raised %s with %d elements" % (cls, label, i, st[1], n)
                    if st[1] is not elems[i]:
                        return "%s (%s): o[%d] is not element %d of %d" % (cls, label, i, i % n, n)
                elif st != ("err", "index"):
                    return "%s (%s): o[%d] with %d elements gives %s, not IndexError" % (cls, label, i, n, st[:2])
            if _obs(a, x) != st0:
                return "%s (%s): indexing changed the object" % (cls, label)
    return None

def _oracle(ctx, classes, per_class, pid):
    fails, n = [], 0
    for _, cg in _cgs(classes):
        samples = _samples(ctx, cg, per_class)
        seen = False
        for (opts, f, sets, b) in samples:
            prior = ctx.rng.choice(samples)
            args = {"cls": cg.cls, "opts": list(opts), "sets": sets, "pack_args": list(cg.pack_args),
                    "unpack_args": list(cg.unpack_args), "can_pack": cg.can_pack, "can_unpack": cg.can_unpack,
                    "prior": (prior[2] if prior[0] == opts else None)}
            n += 1
            w = check_container(args)
            if w and not seen:
                seen = True
                fails.append(Failure("container", args, w, {"class": cg.cls, "check": "container", "property": pid}))
    ctx.count("oracle_evaluations", n)
    return fails

def oracles_C01(ctx, hints):
    return _oracle(ctx, FTI, ctx.scale(12, 200), "C01")

def oracles_C04(ctx, hints):
    return _oracle(ctx, CH11, ctx.scale(8, 120), "C04")

def oracles_C13(ctx, hints):
    return _oracle(ctx, FTI + CH11 + OTHER, ctx.scale(6, 100), "C13")

ORACLES = {"container": check_container}
