"""Decoders that no property anchors and the Lean model does not cover (H264 / NAL, ADTS, the STANAG 4609
SEI class, ParserAligned.ARINC429, IPv6, ICMP): C08 still runs them on arbitrary and structured bytes under
the watchdog and the allocation ceiling (a test, labelled as such in DESIGN §1/§8 — no theorem is claimed)."""
import tracemalloc
from ..core import guarded, WATCHDOG_S
from ..runner import Failure

def _decoders():
    import AcraNetwork.MPEG.H264 as h264, AcraNetwork.MPEG.ADTS as adts, AcraNetwork.MPEG.STANAG4609 as sei
    import AcraNetwork.ParserAligned as pa, AcraNetwork.SimpleEthernet as eth
    return {
        "H264": lambda b: h264.H264().unpack(b),
        "NAL": lambda b: h264.NAL().unpack(b),
        "ADTS": lambda b: adts.ADTS().unpack(b),
        "STANAG4609_SEI": lambda b: sei.STANAG4609_SEI().unpack(b),
        "ParserAligned.ARINC429": lambda b: pa.ARINC429().unpack(b),
        "IPv6": lambda b: eth.IPv6().unpack(b),
        "ICMP": lambda b: eth.ICMP().unpack(b),
    }

def check_unmodelled_total(args):
    name, b = args["decoder"], bytes.fromhex(args["buf"])
    f = _decoders()[name]
    tracemalloc.start()
    try:
        st = guarded(lambda: f(b))
        cur, peak = tracemalloc.get_traced_memory()
    finally:
        tracemalloc.stop()
    if st[0] == "timeout":
        return "%s.unpack did not return within %d s on %d bytes" % (name, WATCHDOG_S, len(b))
    if st[0] == "err" and st[1] in ("recursion", "memory"):
        return "%s.unpack hit %s" % (name, st[1])
    if peak > 4096 * len(b) + (2 << 20):
        return "%s.unpack allocated %d bytes for a %d-byte buffer" % (name, peak, len(b))
    return None

def oracles_C08(ctx, hints):
    rng = ctx.rng
    fails, n = [], 0
    seeds = [b"", b"\x00\x00\x00\x01\x06\x05\x1c" + bytes(40), b"\xff\xf1" + bytes(20), b"\x00\x00\x00\x01" * 8,
             b"\x05\x1c" + b"MISPmicrosectime" + bytes(20), bytes(range(64))]
    for name in sorted(_decoders()):
        bufs = list(seeds) + [rng.bytes_(rng.randrange(0, 200)) for _ in range(ctx.scale(60, 3000))]
        for s in seeds:
            for t in range(len(s)):
                bufs.append(s[:t])
        for b in bufs:
            n += 1
            args = {"decoder": name, "buf": b.hex()}
            w = check_unmodelled_total(args)
            if w:
                fails.append(Failure("unmodelled_total", args, w, {"class": name, "check": "total"}))
                break
    ctx.count("oracle_evaluations", n)
    ctx.count("unmodelled_decoder_runs", n)
    return fails

ORACLES = {"unmodelled_total": check_unmodelled_total}
