"""Decoders that the Lean model does not cover: C08 runs them on arbitrary and structured bytes under the watchdog and
the allocation ceiling only (a test, labelled as such — no theorem is claimed).

The registry is EMPTY since the `extra` family (harness/families/extra.py, lean/Acra/Model/Extra*.lean) models
H264 / NAL, ADTS, STANAG4609_SEI, ParserAligned.ARINC429 and IPv6; ICMP has been in the `net` family all along
(Model/Net.lean, `ICMP_unpack_total`).  A decoder added to the library before its model exists goes here."""
import tracemalloc
from ..core import guarded, WATCHDOG_S
from ..runner import Failure

def _decoders():
    return {}

def check_unmodelled_total(args):
    name, b = args["decoder"], bytes.fromhex(args["buf"])
    f = _decoders()[name]
    tracemalloc.start()
    try:
        st = guarded(lambda: f(b))
        cur, peak = tracemalloc.get_traced_memory()
    finally:
        tracemalloc.stop()
    if st[0] == "timeout":
        return "%s.unpack did not return within %d s on %d bytes" % (name, WATCHDOG_S, len(b))
    if st[0] == "err" and st[1] in ("recursion", "memory"):
        return "%s.unpack hit %s" % (name, st[1])
    if peak > 4096 * len(b) + (2 << 20):
        return "%s.unpack allocated %d bytes for a %d-byte buffer" % (name, peak, len(b))
    return None

def oracles_C08(ctx, hints):
    rng = ctx.rng
    fails, n = [], 0
    seeds = [b"", b"\x00\x00\x00\x01\x06\x05\x1c" + bytes(40), b"\xff\xf1" + bytes(20), b"\x00\x00\x00\x01" * 8,
             b"\x05\x1c" + b"MISPmicrosectime" + bytes(20), bytes(range(64))]
    for name in sorted(_decoders()):
        bufs = list(seeds) + [rng.bytes_(rng.randrange(0, 200)) for _ in range(ctx.scale(60, 3000))]
        for s in seeds:
            for t in range(len(s)):
                bufs.append(s[:t])
        for b in bufs:
            n += 1
            args = {"decoder": name, "buf": b.hex()}
            w = check_unmodelled_total(args)
            if w:
                fails.append(Failure("unmodelled_total", args, w, {"class": name, "check": "total"}))
                break
    ctx.count("oracle_evaluations", n)
    ctx.count("unmodelled_decoder_runs", n)
    return fails

ORACLES = {"unmodelled_total": check_unmodelled_total}
