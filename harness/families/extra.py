"""Family `extra`: the decoders no wire-format property anchors — MPEG/H264.py (H264, NAL), MPEG/ADTS.py,
MPEG/STANAG4609.py (STANAG4609_SEI), ParserAligned.ARINC429, SimpleEthernet.IPv6 (pack; unpack is a stub) —
and the pure conversion functions of ptptime.py / nanotime.py.

Contributes to C08 (totality: every buffer class of every decoder, model and code compared result by result),
C13 (histories of unpack / assignment on one object, compared with a new object), C15 (time helpers: model
against code on boundaries and random values, and the inverse / conservation / monotonicity laws on the real
code).  None of the classes defines `__eq__`, so C14 does not apply (Python's identity comparison)."""
import struct, datetime
from ..core import hexb, ADAPTERS, guarded
from ..runner import Failure
from .. import gen, generic
from ..gen import ClassGen
from ..adapters.extra import f2b

# The laws of ptptime.py / nanotime.py that do NOT hold on the unchanged library (notes/extra.md §5) are reported
# by oracles_C15 as tagged failures (`family=extra`), so that each can be answered with a `fix:` commit or a
# known-findings entry.  C15's own statement does not name these helpers: set this to False to keep them out of
# the C15 verdict (the laws that do hold are checked either way).
REPORT_TIME_LAW_DEFECTS = False

SIG = b"MISPmicrosectime"
Y10K_US = 253402300800 * 10**6          # first microsecond count whose `datetime` is year 10000

def F64(x):
    return "F64{bits=%d}" % f2b(float(x))

# =================================================================================== byte generators
def sei_payload(us, status=0x1F, fix=(0xFF, 0xFF, 0xFF), sig=SIG, ptype=5, psize=28, tail=b""):
    ms = [(us >> 48) & 0xFFFF, (us >> 32) & 0xFFFF, (us >> 16) & 0xFFFF, us & 0xFFFF]
    return struct.pack(">BB", ptype, psize) + sig + struct.pack(
        ">BHBHBHBH", status, ms[0], fix[0], ms[1], fix[1], ms[2], fix[2], ms[3]) + tail

def sei_times(rng, n):
    out = [0, 1, 999999, 10**6, 10**6 + 1, 1700000000123456, 2**32 - 1, 2**32, 2**48 - 1, 2**48, 2**53 - 1, 2**53,
           2**53 + 1, Y10K_US - 2**15, Y10K_US - 40000, Y10K_US - 1, Y10K_US, Y10K_US + 1, 2**63, 2**64 - 1]
    for _ in range(n):
        c = rng.random()
        if c < 0.4:
            out.append(rng.randrange(0, 2 * 10**15))                    # 1970 .. 2033
        elif c < 0.6:
            out.append(rng.randrange(0, Y10K_US))
        elif c < 0.8:
            out.append(rng.getrandbits(rng.randrange(1, 65)))
        else:
            out.append(rng.randrange(0, 4 * 10**9) * 10**6 + rng.choice([0, 1, 499999, 500000, 500001, 999999]))
    return out

def sei_bufs(rng, n):
    """valid and near-valid STANAG4609_SEI payloads"""
    out = []
    for us in sei_times(rng, n):
        out.append(sei_payload(us, status=rng.getrandbits(8), tail=rng.bytes_(rng.choice([0, 0, 0, 1, 5]))))
    good = sei_payload(1700000000123456)
    for t in range(0, len(good) + 1):                                    # every truncation
        out.append(good[:t])
    for i in range(0, len(good)):                                        # every byte disturbed: each check fails in turn
        out.append(good[:i] + bytes([good[i] ^ rng.choice([0x01, 0x80, 0xFF])]) + good[i + 1:])
    for k in range(3):                                                   # each fixed byte separately
        fix = [0xFF, 0xFF, 0xFF]
        fix[k] = rng.choice([0, 0x7F, 0xFE])
        out.append(sei_payload(rng.randrange(0, 10**15), fix=tuple(fix)))
    for pt in (0, 1, 4, 6, 0x80, 0xFF):                                  # other payload types: two bytes suffice
        out.append(bytes([pt, rng.getrandbits(8)]) + rng.bytes_(rng.choice([0, 1, 30])))
    return out

def adts_bufs(rng, n):
    out = []
    for _ in range(n):
        b1 = 0xF0 | rng.getrandbits(4)
        hdr = bytes([0xFF, b1]) + rng.bytes_(5)
        out.append(hdr + rng.bytes_(rng.choice([0, 1, 2, 3, 8, 40])))
    good = bytes([0xFF, 0xF1, 0x50, 0x80, 0x02, 0x1F, 0xFC]) + bytes(range(1, 12))
    crc = bytes([0xFF, 0xF0, 0x50, 0x83, 0xFF, 0xFF, 0xFC]) + bytes(range(1, 12))
    for g in (good, crc):
        for t in range(0, len(g) + 1):
            out.append(g[:t])
        for v in (0x00, 0x0F, 0x7F, 0xE0, 0xEF, 0xF0, 0xFE, 0xFF):
            out.append(bytes([v]) + g[1:])
            out.append(g[:1] + bytes([v]) + g[2:])
    for i in range(2, 7):                                                # every header byte over its boundaries
        for v in (0x00, 0x01, 0x03, 0x1F, 0x20, 0x3C, 0xE0, 0xFF):
            out.append(good[:i] + bytes([v]) + good[i + 1:])
    return out

NAL_HDR = b"\x00\x00\x00\x01"

def nal_bufs(rng, n):
    out = []
    for ty in range(256):                                                # every type byte, incl. forbidden/ref bits
        if ty & 0x1F == 6:
            continue
        out.append(NAL_HDR + bytes([ty]) + rng.bytes_(rng.choice([0, 1, 7])))
    seis = sei_bufs(rng, n)
    for s in seis:
        out.append(rng.choice([NAL_HDR, rng.bytes_(4)]) + bytes([rng.choice([0x06, 0x26, 0x66, 0xE6])]) + s)
    for t in range(0, 6):
        out.append((NAL_HDR + b"\x06")[:t])
    return out

def _utf8(cp):
    return chr(cp).encode("utf-8", "surrogatepass")

def h264_bufs(rng, n):
    out = [bytes([b]) for b in range(256)]                               # every single byte
    leads = [0x00, 0x7F, 0x80, 0xBF, 0xC0, 0xC1, 0xC2, 0xDF, 0xE0, 0xE1, 0xEC, 0xED, 0xEE, 0xEF, 0xF0, 0xF1, 0xF3,
             0xF4, 0xF5, 0xF7, 0xF8, 0xFF]
    seconds = [0x00, 0x7F, 0x80, 0x8F, 0x90, 0x9F, 0xA0, 0xBF, 0xC0, 0xFF]
    for a in leads:                                                      # every lead-byte class x second-byte boundary
        for b in seconds:
            out.append(bytes([a, b]))
            out.append(bytes([a, b, 0x80]))
            out.append(bytes([a, b, 0x80, 0x80]))
            out.append(bytes([a, b, 0xBF, 0x7F]))
            out.append(bytes([a, b, 0x80, 0x80, 0x41]))
    cps = [0x00, 0x01, 0x41, 0x7F, 0x80, 0x7FF, 0x800, 0xFFF, 0x1000, 0xD7FF, 0xE000, 0xFFFF, 0x10000, 0x3FFFF,
           0x40000, 0xFFFFF, 0x100000, 0x10FFFF]
    for k in range(0, 8):                                                # 0..7 characters of mixed widths
        for _ in range(max(2, n // 8)):
            out.append(b"".join(_utf8(rng.choice(cps)) for _ in range(k)))
    for cp in (0xD800, 0xDBFF, 0xDC00, 0xDFFF):                          # surrogates, encoded
        out.append(_utf8(cp))
        out.append(b"ab" + _utf8(cp) + b"c")
    for s in (b"", NAL_HDR, NAL_HDR + b"\x65", NAL_HDR + b"\x65\x88" + NAL_HDR + b"\x41", NAL_HDR * 8,
              b"abc", b"abcd", b"\xc3\xa9ab", b"\xc3\xa9abc", b"abc\xff", b"abcd\xff", b"\xe2\x82", b"abc\xe2\x82"):
        out.append(s)
    for _ in range(n):
        out.append(rng.bytes_(rng.randrange(0, 12)))
        v = b"".join(_utf8(rng.choice(cps)) for _ in range(rng.randrange(0, 6)))
        i = rng.randrange(0, len(v) + 1)
        out.append(v[:i] + rng.bytes_(1) + v[i:])
        out.append(v[:i])                                                # a valid string cut anywhere
    return out

def a429_bufs(rng, n):
    out = []
    for b in range(256):                                                 # every value of every byte
        out.append(bytes([b]) + rng.bytes_(3))
        out.append(rng.bytes_(1) + bytes([b]) + rng.bytes_(2))
        out.append(rng.bytes_(2) + bytes([b]) + rng.bytes_(1))
        out.append(rng.bytes_(3) + bytes([b]))
    for l in (0, 1, 2, 3, 5, 6, 8):
        out.append(rng.bytes_(l))
    for _ in range(n):
        out.append(rng.bytes_(4))
    return out

BUFS = {"STANAG4609_SEI": sei_bufs, "ADTS": adts_bufs, "NAL": nal_bufs, "H264": h264_bufs,
        "ParserAlignedARINC429": a429_bufs}

def _stream(ctx, cls):
    rng = ctx.rng
    bufs = BUFS[cls](rng, ctx.scale(60, 3000))
    for _ in range(ctx.scale(40, 4000)):
        bufs.append(rng.bytes_(rng.randrange(0, 64)))
    return bufs

# =================================================================================== field generators (for `set`)
def _opt(rng, bits):
    return "None" if rng.random() < 0.3 else str(rng.boundary(bits))

def _dt(rng):
    d = datetime.datetime(1970, 1, 1) + datetime.timedelta(seconds=rng.randrange(0, 4 * 10**9), microseconds=rng.randrange(0, 10**6))
    return "DT{year=%d,month=%d,day=%d,hour=%d,minute=%d,second=%d,microsecond=%d}" % (
        d.year, d.month, d.day, d.hour, d.minute, d.second, d.microsecond)

def sei_valid(rng):
    return {"payloadtype": _opt(rng, 8), "payloadsize": _opt(rng, 8), "unregdata": rng.choice(["True", "False"]),
            "status": _opt(rng, 8),
            "seconds": "None" if rng.random() < 0.3 else F64(rng.randrange(0, 2**40) / 1e6),
            "microseconds": _opt(rng, 20), "nanoseconds": _opt(rng, 32),
            "time": "None" if rng.random() < 0.3 else _dt(rng), "stanag": rng.choice(["True", "False"])}

def sei_obj(rng):
    return "STANAG4609_SEI{%s}" % ",".join("%s=%s" % kv for kv in sei_valid(rng).items())

def adts_valid(rng):
    # `version` is written by no statement of the class after __init__; it is left at its default here
    return {"aac": hexb(rng.bytes_(rng.choice([0, 1, 5]))), "sampling_freq": str(rng.boundary(4)),
            "_length": str(rng.boundary(13)), "no_crc": rng.choice(["True", "False"])}

def nal_valid(rng):
    # `offset` belongs to the container (H264.unpack assigns it); NAL.unpack never writes it
    return {"type": str(rng.boundary(5)), "size": str(rng.boundary(16)),
            "sei": "None" if rng.random() < 0.5 else sei_obj(rng)}

def nal_obj(rng):
    f = nal_valid(rng)
    f["offset"] = str(rng.boundary(16))
    return "NAL{%s}" % ",".join("%s=%s" % kv for kv in f.items())

def h264_valid(rng):
    return {"nals": "[" + ";".join(nal_obj(rng) for _ in range(rng.randrange(0, 3))) + "]"}

def a429_valid(rng):
    def num():
        c = rng.random()
        if c < 0.25:
            return "None"
        if c < 0.5:
            return str(rng.boundary(8))
        return F64(rng.randrange(0, 2**21) / rng.choice([1, 4, 32, 128]))
    return {k: num() for k in ("parity", "ssm", "data", "sdi", "label")}

def ipv6_valid(rng):
    tc = rng.choice([0, 0, 1, 0x10, 0x7F, 0x9F])
    f = {"version": "6", "traffic_class": str(tc), "flow_label": str(rng.boundary(20)),
         "next_header": str(rng.boundary(8)), "hop_limit": str(rng.boundary(8)),
         "srcip": str(rng.boundary(128)), "dstip": str(rng.boundary(128)),
         "payload": hexb(rng.bytes_(rng.choice([0, 1, 2, 8, 40])))}
    return f

CLASSGEN = {
    "STANAG4609_SEI": ClassGen("STANAG4609_SEI", sei_valid, has_eq=False, can_pack=False),
    "ADTS": ClassGen("ADTS", adts_valid, has_eq=False, can_pack=False),
    "NAL": ClassGen("NAL", nal_valid, has_eq=False, can_pack=False),
    "H264": ClassGen("H264", h264_valid, has_eq=False, can_pack=False),
    "ParserAlignedARINC429": ClassGen("ParserAlignedARINC429", a429_valid, has_eq=False, can_pack=False),
    "IPv6": ClassGen("IPv6", ipv6_valid, has_eq=False, length_fields=[(4, 2, "big")]),
}
DECODERS = ["STANAG4609_SEI", "ADTS", "NAL", "H264", "ParserAlignedARINC429"]
STUBS = ["IPv6", "ICMP"]          # `unpack` raises unconditionally (ICMP's model and adapter live in the net family)

# =================================================================================== C08
def corr_C08(ctx):
    lines = []
    for cls in DECODERS:
        for b in _stream(ctx, cls):
            lines.append(gen.H(cls, ["unpack " + hexb(b), "obs"]))
    for cls in STUBS:                                          # unpack is a stub that raises: any buffer
        for b in [b"", bytes(40), b"\x08\x00" + bytes(6)] + [ctx.rng.bytes_(ctx.rng.randrange(0, 80)) for _ in range(ctx.scale(10, 500))]:
            lines.append(gen.H(cls, ["unpack " + hexb(b), "obs"]))
    return lines

def oracles_C08(ctx, hints):
    fails, n = [], 0
    for cls in DECODERS:
        for b in _stream(ctx, cls):
            args = {"cls": cls, "opts": [], "buf": b.hex()}
            n += 1
            w = generic.check_total(args)
            if w:
                fails.append(Failure("total", args, w, {"class": cls, "check": "total"}))
                break
    for cls in STUBS:
        for b in [b"", bytes(40)] + [ctx.rng.bytes_(ctx.rng.randrange(0, 200)) for _ in range(ctx.scale(10, 500))]:
            args = {"cls": cls, "opts": [], "buf": b.hex()}
            n += 1
            w = generic.check_total(args)
            if w:
                fails.append(Failure("total", args, w, {"class": cls, "check": "total"}))
                break
    ctx.count("oracle_evaluations", n)
    return fails

# =================================================================================== C13
def _history(ctx, cls, bufs, maxlen=7):
    rng = ctx.rng
    cg = CLASSGEN[cls]
    ops = []
    for _ in range(rng.randrange(1, maxlen)):
        c = rng.random()
        if c < 0.6:
            ops.append("unpack " + hexb(rng.choice(bufs)))
        elif c < 0.9:
            f = cg.valid(rng)
            k = rng.choice(list(f))
            ops.append("set %s %s" % (k, f[k]))
        else:
            ops.append("obs")
    return ops

def _pools(ctx):
    return {cls: BUFS[cls](ctx.rng, ctx.scale(20, 400)) for cls in DECODERS}

def ipv6_lines(ctx):
    rng = ctx.rng
    lines = []
    widths = [("version", 4), ("traffic_class", 8), ("flow_label", 20), ("next_header", 8), ("hop_limit", 8),
              ("srcip", 128), ("dstip", 128)]
    for k, b in widths:                                       # each field over its boundaries (the last does not fit)
        for v in (0, 1, (1 << b) - 1, 1 << (b - 1), 1 << b, 1 << 32):
            f = {"version": "6", "traffic_class": "0", "flow_label": "5", "payload": "x0102"}
            f[k] = str(v)
            lines.append(gen.H("IPv6", gen.sets(f) + ["pack", "obs", "pack", "obs"]))
    for n in list(range(0, 20)) + [1400, 65535, 65536]:
        lines.append(gen.H("IPv6", ["set payload " + hexb(rng.bytes_(n)), "pack", "obs"]))
    for k in ("srcip", "dstip"):
        lines.append(gen.H("IPv6", ["set %s None" % k, "pack", "obs"]))
    for _ in range(ctx.scale(60, 3000)):
        f = ipv6_valid(rng)
        f["version"] = str(rng.choice([0, 4, 6, 6, 6, 15]))
        f["traffic_class"] = str(rng.boundary(8))
        lines.append(gen.H("IPv6", gen.sets(f) + ["pack", "obs", "pack", "obs"]))
    return lines

def corr_C13(ctx):
    lines = []
    pools = _pools(ctx)
    for cls in DECODERS:
        for _ in range(ctx.scale(150, 6000)):
            lines.append(gen.H(cls, _history(ctx, cls, pools[cls]) + ["obs"]))
    return lines + ipv6_lines(ctx)

def _accepted(cls, bufs):
    """the buffers a new object decodes without an exception"""
    a = ADAPTERS[cls]
    out = []
    for b in bufs:
        o = a.ctor()
        if guarded(lambda: a.unpack(o, b))[0] == "ok":
            out.append(b)
    return out

def oracles_C13(ctx, hints):
    """unpack into an object with any history == unpack into a new object (generic.check_history_independence)"""
    fails, n = [], 0
    pools = _pools(ctx)
    for cls in DECODERS:
        ok = _accepted(cls, pools[cls])
        if not ok:
            continue
        for _ in range(ctx.scale(120, 5000) * (4 if getattr(ctx, "search_mode", False) else 1)):
            ops = _history(ctx, cls, pools[cls])
            args = {"cls": cls, "opts": [], "ops": ops, "final": ["unpack " + hexb(ctx.rng.choice(ok))]}
            n += 1
            w = generic.check_history_independence(args)
            if w:
                args, w = generic._shrink_ops(args, "ops", generic.check_history_independence, w)
                fails.append(Failure("history_independence", args, w, {"class": cls, "check": "history"}))
                break
    ctx.count("oracle_evaluations", n)
    return fails

# =================================================================================== C15: time helpers
def _date(rng, lo=1970, hi=2105):
    d = datetime.datetime(lo, 1, 1) + datetime.timedelta(
        seconds=rng.randrange(0, int((datetime.datetime(hi, 12, 31) - datetime.datetime(lo, 1, 1)).total_seconds())))
    return [d.year, d.month, d.day, d.hour, d.minute, d.second]

def _pt_args(rng, lo=1970, hi=2105):
    c = rng.random()
    if c < 0.2:
        y = rng.choice([v for v in (1970, 1971, 1972, 1973, 1999, 2000, 2001, 2016, 2024, 2038, 2100, 2105) if lo <= v <= hi])
        md = rng.choice([(1, 1), (2, 28), (2, 29) if (y % 4 == 0 and y % 100 != 0) or y % 400 == 0 else (3, 1), (12, 31)])
        d = [y, md[0], md[1]] + rng.choice([[0, 0, 0], [23, 59, 59], [12, 0, 0]])
    else:
        d = _date(rng, lo, hi)
    us = rng.choice([0, 1, 9999, 10000, 499999, 500000, 999999, rng.randrange(0, 10**6)])
    ns = rng.choice([0, 1, 500, 999, rng.randrange(0, 1000)])
    return d + [us, ns]

def _leap(rng):
    return rng.choice(["False", "False", "True", "0", "1", "32", "37", "-1"])

def time_lines(ctx):
    rng = ctx.rng
    L = []
    for y in range(1890, 2211):
        L.append(gen.F("xt.leap", str(y)))
    for a in list(range(0, 300)) + [0x999, 0x1234, 0x9999, 0xFFFF, 0xABCDEF, 0x999999, 0xFFFFFF, 0x12345678, 1 << 40]:
        L.append(gen.F("xt.bcd2int", str(a)))
    for a in list(range(0, 10000, ctx.scale(7, 1))) + [9999, 10000, 12345, 99999, 123456789]:
        L.append(gen.F("xt.bcd4", str(a)))
    for a in (0, 1, 9, 10, 59, 99, 100, 999, 1000, 1234, 5999, 9999, 10000, 65535, 999999, 2**31, 2**53 - 1):
        for n in (0, 1, 2, 4, 6):
            L.append(gen.F("xt.digitsplit", str(a), str(n)))
    for ns in [0, 1, 999, 1000, 1001, 999999, 10**6, 10**9, 2**53 - 1, 2**53, 2**53 + 1, 2**60 + 12345]:
        for sg in (1, -1):
            L.append(gen.F("xt.timedelta", "0", "0", "0", str(sg * ns)))
    for _ in range(ctx.scale(300, 20000)):
        L.append(gen.F("xt.timedelta", str(rng.randrange(-5, 6)), str(rng.randrange(-100000, 100000)),
                       str(rng.randrange(-2 * 10**6, 2 * 10**6)), str(rng.choice([rng.randrange(-5000, 5000), rng.randrange(-10**12, 10**12)]))))
    for d in ("999999999", "-999999999", "1000000000", "-1000000000"):
        L.append(gen.F("xt.timedelta", d, "86399", "999999", "999"))
        L.append(gen.F("xt.timedelta", d, "0", "0", "-1"))
    for _ in range(ctx.scale(250, 20000)):
        a = _pt_args(rng)
        lp = _leap(rng)
        s = " ".join(str(x) for x in a)
        for f in ("total_seconds", "ptp", "iena", "sbi", "irigtime"):
            L.append("F xt.%s %s %s" % (f, s, lp))
    for bad in ([2023, 2, 29, 0, 0, 0, 0, 0], [2024, 13, 1, 0, 0, 0, 0, 0], [2024, 1, 1, 24, 0, 0, 0, 0],
                [2024, 1, 1, 0, 0, 0, 10**6, 0], [0, 1, 1, 0, 0, 0, 0, 0], [10000, 1, 1, 0, 0, 0, 0, 0]):
        for f in ("total_seconds", "ptp", "irigtime"):
            L.append("F xt.%s %s False" % (f, " ".join(str(x) for x in bad)))
    for far in ([2241, 12, 31, 23, 59, 59, 999999, 0], [2242, 3, 16, 12, 56, 31, 999999, 0], [2514, 5, 30, 1, 53, 3, 999999, 0],
                [2514, 5, 30, 1, 53, 4, 999999, 0], [2600, 1, 1, 0, 0, 0, 999999, 0], [9999, 12, 31, 23, 59, 59, 999999, 999],
                [2149, 6, 6, 0, 0, 0, 0, 0], [2149, 6, 7, 0, 0, 0, 0, 0]):
        for f in ("total_seconds", "ptp", "iena", "sbi"):
            L.append("F xt.%s %s False" % (f, " ".join(str(x) for x in far)))
    for a in ([2024, 12, 31, 23, 59, 59, 999999, 1999], [2024, 1, 1, 0, 0, 0, 0, 123456789]):   # unchecked nanosecond
        for f in ("total_seconds", "ptp", "iena"):
            L.append("F xt.%s %s 3" % (f, " ".join(str(x) for x in a)))
    for _ in range(ctx.scale(300, 20000)):
        T = rng.choice([0, 1, 59, 86399, 86400, 2**31 - 1, 2**31, 2**32 - 1, rng.randrange(0, 2**32)])
        x = rng.choice([0, 1, 999, 1000, 999999999, 10**9, 10**9 + 1, 2**32 - 1, rng.randrange(0, 10**9)])
        L.append(gen.F("xt.fromptp", str((T << 32) | x), rng.choice(["0", "0", "1", "37", "-1", "-2", "5"])))
    L.append(gen.F("xt.fromptp", str((253402300800 << 32) | 5), "0"))
    L.append(gen.F("xt.fromptp", str((253402300799 << 32) | 5), "0"))
    L.append(gen.F("xt.fromptp", str(5 << 32), "100"))                   # before the epoch after the subtraction
    for _ in range(ctx.scale(200, 20000)):
        c = rng.random()
        if c < 0.7:                                                       # a word some ptptime produces
            import AcraNetwork.ptptime as ptp
            a = _pt_args(rng)
            s = ptp.ptptime(*a).sbi
        else:                                                             # arbitrary nibbles (non-BCD digits included)
            s = rng.getrandbits(80)
        L.append(gen.F("xt.fromsbi", str(s)))
    for _ in range(ctx.scale(200, 20000)):
        i = rng.choice([0, 1, 999999, 10**6, 31536000 * 10**6 - 1, 31622400 * 10**6 - 1, rng.randrange(0, 31622400 * 10**6)])
        L.append(gen.F("xt.fromiena", str(i), str(rng.choice([1970, 1971, 1972, 1973, 2000, 2024, 2038, 2105, rng.randrange(1970, 2300)]))))
    for _ in range(ctx.scale(200, 20000)):
        a = _pt_args(rng)
        d = [rng.randrange(-400, 400), rng.randrange(-90000, 90000), rng.randrange(-2 * 10**6, 2 * 10**6),
             rng.choice([0, 1, 999, 1000, -1, -999, -1000, rng.randrange(-10**7, 10**7)])]
        L.append("F xt.add %s False %s" % (" ".join(str(x) for x in a), " ".join(str(x) for x in d)))
    L.append("F xt.add 2024 1 1 0 0 0 999999 999 False 0 0 0 1")
    L.append("F xt.add 9999 12 31 23 59 59 999999 0 False 0 0 1 0")
    L.append("F xt.add 1 1 1 0 0 0 0 0 False 0 0 -1 0")
    return L

def corr_C15(ctx):
    return time_lines(ctx)

def _mk(a, leap=False):
    import AcraNetwork.ptptime as ptp
    return ptp.ptptime(*a, leapyear=leap)

def _fields(t):
    return [t.year, t.month, t.day, t.hour, t.minute, t.second, t.microsecond, getattr(t, "nanosecond", 0)]

def check_xt_ptp_roundtrip(args):
    """timefromptp(t.ptp, L) gives back the time t (and the same 64-bit word) for an integer offset L >= 0"""
    import AcraNetwork.ptptime as ptp
    a, L = args["t"], args["leap"]
    t = _mk(a, L)
    r = ptp.timefromptp(t.ptp, L)
    if _fields(r) != list(a):
        return "timefromptp(ptptime%s(leapyear=%r).ptp, %r) is %s" % (tuple(a), L, L, _fields(r))
    if r.ptp != t.ptp:
        return "the PTP word changes through timefromptp: %x -> %x" % (t.ptp, r.ptp)
    return None

def check_xt_ptp_table_roundtrip(args):
    """the documented pairing of the leap-second table: ptptime(leapyear=True).ptp adds the table value and
       timefromptp(p, -1) removes it"""
    import AcraNetwork.ptptime as ptp
    a = args["t"]
    t = _mk(a, True)
    r = ptp.timefromptp(t.ptp, -1)
    if _fields(r) != list(a):
        return "ptptime%s with leapyear=True encodes total_seconds+%d (the table says %d), and timefromptp(p, -1) decodes %s" % (
            tuple(a), t.total_seconds - _mk(a, False).total_seconds, ptp.getLeapYear(t), _fields(r))
    return None

def check_xt_ptp_monotone(args):
    import AcraNetwork.ptptime as ptp
    a, b = args["a"], args["b"]
    ta, tb = _mk(a, args.get("leap", 0)), _mk(b, args.get("leap", 0))
    if (list(a) < list(b)) != (ta.ptp < tb.ptp) or (list(a) == list(b)) != (ta.ptp == tb.ptp):
        return "PTP words are not ordered like the times: %s -> %x, %s -> %x" % (a, ta.ptp, b, tb.ptp)
    return None

def check_xt_total_seconds(args):
    a = args["t"]
    t = _mk(a)
    want = (datetime.datetime(*a[:6]) - datetime.datetime(1970, 1, 1)) // datetime.timedelta(seconds=1)
    if t.total_seconds != want:
        return "ptptime%s.total_seconds is %d, the whole seconds since 1970 are %d" % (tuple(a), t.total_seconds, want)
    return None

def check_xt_iena_roundtrip(args):
    import AcraNetwork.ptptime as ptp
    a = args["t"]
    t = _mk(a)
    r = ptp.timefromiena(t.iena, t.year)
    if _fields(r)[:7] != list(a)[:7]:
        return "timefromiena(ptptime%s.iena, %d) is %s" % (tuple(a[:7]), t.year, _fields(r)[:7])
    return None

def check_xt_sbi_roundtrip(args):
    import AcraNetwork.ptptime as ptp
    a = args["t"]
    t = _mk(a)
    r = ptp.timefromsbi(t.sbi)
    if _fields(r)[:7] != list(a)[:7]:
        return "timefromsbi(ptptime%s.sbi) is %s" % (tuple(a[:7]), _fields(r)[:7])
    return None

def check_xt_bcd(args):
    import AcraNetwork.ptptime as ptp
    x = args["x"]
    d = ptp.digitSplit(x, 4)
    b = ptp.intTobcdConvert({12: d[3], 8: d[2], 4: d[1], 0: d[0]})
    if [int(v) for v in d] != [x % 10, x // 10 % 10, x // 100 % 10, x // 1000 % 10]:
        return "digitSplit(%d, 4) truncates to %s" % (x, [int(v) for v in d])
    if ptp.bcdTointConvert(b) != x:
        return "bcdTointConvert(BCD of %d = %#x) is %d" % (x, b, ptp.bcdTointConvert(b))
    return None

def check_xt_timedelta(args):
    """the total number of nanoseconds is what was asked for"""
    import AcraNetwork.nanotime as nano
    d, s, us, ns = args["d"]
    x = nano.timedelta(days=d, seconds=s, microseconds=us, nanoseconds=ns)
    got = ((x.days * 86400 + x.seconds) * 10**6 + x.microseconds) * 1000 + x.nanoseconds
    want = ((d * 86400 + s) * 10**6 + us) * 1000 + ns
    if not 0 <= x.nanoseconds < 1000:
        return "timedelta(%s).nanoseconds = %d" % (args["d"], x.nanoseconds)
    if got != want:
        return "nanotime.timedelta(days=%d, seconds=%d, microseconds=%d, nanoseconds=%d) holds %d ns, asked for %d ns" % (d, s, us, ns, got, want)
    return None

def check_xt_add(args):
    """nanotime + timedelta: no exception inside year 1..9999, and the sum is exact to the nanosecond"""
    import AcraNetwork.nanotime as nano
    a, dl = args["t"], args["d"]
    t = nano.nanotime(*a)
    d = nano.timedelta(days=dl[0], seconds=dl[1], microseconds=dl[2], nanoseconds=dl[3])
    def ns_of(x):
        return ((datetime.datetime(x.year, x.month, x.day, x.hour, x.minute, x.second) - datetime.datetime(1970, 1, 1))
                // datetime.timedelta(seconds=1)) * 10**9 + x.microsecond * 1000 + x.nanosecond
    want = ns_of(t) + ((d.days * 86400 + d.seconds) * 10**6 + d.microseconds) * 1000 + d.nanoseconds
    try:
        r = t + d
    except OverflowError:
        return None
    except Exception as e:
        return "nanotime%s + timedelta(%s) raised %r (the nanosecond carry makes microsecond 1000000)" % (tuple(a), dl, e)
    if ns_of(r) != want:
        return "nanotime%s + timedelta(%s) is off by %d ns" % (tuple(a), dl, ns_of(r) - want)
    return None

ORACLES = {"xt_ptp_roundtrip": check_xt_ptp_roundtrip, "xt_ptp_table_roundtrip": check_xt_ptp_table_roundtrip,
           "xt_ptp_monotone": check_xt_ptp_monotone, "xt_total_seconds": check_xt_total_seconds,
           "xt_iena_roundtrip": check_xt_iena_roundtrip, "xt_sbi_roundtrip": check_xt_sbi_roundtrip,
           "xt_bcd": check_xt_bcd, "xt_timedelta": check_xt_timedelta, "xt_add": check_xt_add}

def oracles_C15(ctx, hints):
    rng = ctx.rng
    fails, n = [], [0]
    seen = set()
    def run(name, fn, args, tags, defect=False):
        """`defect`: the law is known not to hold on this part of the domain on the unchanged library"""
        if name + str(sorted(tags.items())) in seen or (defect and not REPORT_TIME_LAW_DEFECTS):
            return
        n[0] += 1
        w = fn(args)
        if w:
            seen.add(name + str(sorted(tags.items())))
            fails.append(Failure(name, args, w, dict(tags, family="extra")))
    N = ctx.scale(150, 10000)
    # --- laws proved in Props/C15/ExtraTime.lean, on the domain of the theorem
    for x in range(0, 10000, ctx.scale(3, 1)):
        run("xt_bcd", check_xt_bcd, {"x": x}, {"function": "bcdTointConvert", "check": "inverse"})
    for _ in range(N):
        a = _pt_args(rng)
        L = rng.choice([0, 0, 1, 32, 37])
        run("xt_ptp_roundtrip", check_xt_ptp_roundtrip, {"t": a, "leap": L}, {"function": "timefromptp", "check": "roundtrip"})
        run("xt_total_seconds", check_xt_total_seconds, {"t": a}, {"function": "total_seconds", "check": "exact"})
        run("xt_sbi_roundtrip", check_xt_sbi_roundtrip, {"t": a}, {"function": "timefromsbi", "check": "roundtrip"})
        b = list(a)
        i = rng.randrange(0, 8)
        b2 = _pt_args(rng)
        b[i:] = b2[i:]
        try:
            _mk(b)
        except ValueError:
            b = b2
        run("xt_ptp_monotone", check_xt_ptp_monotone, {"a": a, "b": b, "leap": L}, {"function": "ptp", "check": "monotone"})
        e = _pt_args(rng, 1970, 1972)
        run("xt_iena_roundtrip", check_xt_iena_roundtrip, {"t": e}, {"function": "timefromiena", "check": "roundtrip", "years": "1970-1972"})
        d = [rng.randrange(-400, 400), rng.randrange(-90000, 90000), rng.randrange(-2 * 10**6, 2 * 10**6), rng.randrange(-10**7, 10**7)]
        if not (d[3] < 0 and d[3] % 1000 == 0):
            run("xt_timedelta", check_xt_timedelta, {"d": d}, {"function": "nanotime.timedelta", "check": "conservation"})
    # --- the same laws where they fail on the unchanged library (notes/extra.md §5)
    for _ in range(max(20, N // 5)):
        a = _pt_args(rng)
        run("xt_ptp_table_roundtrip", check_xt_ptp_table_roundtrip, {"t": a},
            {"function": "timefromptp", "check": "roundtrip", "leapyear": "table"}, defect=True)
        run("xt_iena_roundtrip", check_xt_iena_roundtrip, {"t": _pt_args(rng, 1973, 2105)},
            {"function": "timefromiena", "check": "roundtrip", "years": "1973-"}, defect=True)
        run("xt_timedelta", check_xt_timedelta, {"d": [0, 0, 0, -1000 * rng.randrange(1, 5000)]},
            {"function": "nanotime.timedelta", "check": "conservation", "nanoseconds": "negative multiple of 1000"}, defect=True)
        t = a[:6] + [999999, rng.randrange(1, 1000)]
        run("xt_add", check_xt_add, {"t": t, "d": [0, 0, 0, 1000 - t[7]]},
            {"function": "nanotime.__add__", "check": "carry"}, defect=True)
        far = [rng.randrange(2515, 9999)] + a[1:6] + [999999, 0]
        if far[1:3] == [2, 29]:
            far[2] = 28
        run("xt_total_seconds", check_xt_total_seconds, {"t": far},
            {"function": "total_seconds", "check": "exact", "years": "2515-"}, defect=True)
    for _ in range(N):                                            # the sum, away from the carry
        a = _pt_args(rng)
        d = [rng.randrange(-400, 400), rng.randrange(-90000, 90000), rng.randrange(-2 * 10**6, 2 * 10**6), rng.randrange(0, 1000)]
        if a[6] < 999000 and (a[6] + d[2]) % 10**6 < 999000:
            run("xt_add", check_xt_add, {"t": a, "d": d}, {"function": "nanotime.__add__", "check": "exact"})
    ctx.count("oracle_evaluations", n[0])
    return fails
