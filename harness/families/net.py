"""Family: net — AcraNetwork/SimpleEthernet.py (unpack48/pack48, ip_calc_checksum, Ethernet, IP/IPv4, UDP,
ICMP, IGMPv3, ARP, combine_ip_fragments) and AcraNetwork/Pcap.py (PcapRecord, Pcap files).

Properties served: C02 (layouts, round trips, IP re-encode, stack transparency), C05 (pcap files), C07 (IPv4 /
ICMP / IGMP checksums, Ethernet FCS), C16 (reassembly), C09 (short buffers, 16-byte record header), and through
CLASSGEN the generic C08 / C13 / C14 checks; C08 additionally iterates pcap files with arbitrary contents."""
import os, itertools, shutil, tempfile, tracemalloc, zlib
from ..core import hexb, run_line_impl, run_driver, SPECDRIVER, ADAPTERS, guarded
from .. import core
from ..runner import Failure
from .. import gen
from ..gen import ClassGen

def _spec(lines):
    return run_driver(lines, exe=SPECDRIVER)

def _spec_bytes(line):
    r = _spec([line])[0]
    if not r.startswith("ok:x"):
        raise RuntimeError("spec driver: %s -> %s" % (line[:80], r))
    return bytes.fromhex(r[4:])

def _spec_int(line):
    r = _spec([line])[0]
    if not r.startswith("ok:"):
        raise RuntimeError("spec driver: %s -> %s" % (line[:80], r))
    return int(r[3:])

def quad(n):
    return "%d.%d.%d.%d" % ((n >> 24) & 255, (n >> 16) & 255, (n >> 8) & 255, n & 255)

def ipint(s):
    a, b, c, d = (int(x) for x in s.split("."))
    return (a << 24) | (b << 16) | (c << 8) | d

def _impl_bytes(line):
    """last `ok:x…` answer of a history run on the implementation"""
    for p in reversed(run_line_impl(line).split("|")):
        if p.startswith("ok:x"):
            return bytes.fromhex(p[4:])
    return None

# ------------------------------------------------------------------------------ independent references
def ref_rfc1071(b):
    """RFC 1071 written from the text: big-endian 16-bit words, end-around carry, complement"""
    b = bytes(b)
    if len(b) % 2:
        b += b"\0"
    s = 0
    for i in range(0, len(b), 2):
        s += (b[i] << 8) | b[i + 1]
        if s > 0xFFFF:
            s = (s & 0xFFFF) + 1
    return s ^ 0xFFFF

def ref_crc32(b):
    """IEEE 802.3 CRC-32, bit by bit, least significant bit first"""
    r = 0xFFFFFFFF
    for x in bytes(b):
        for i in range(8):
            bit = ((x >> i) ^ r) & 1
            r >>= 1
            if bit:
                r ^= 0xEDB88320
    return r ^ 0xFFFFFFFF


# ------------------------------------------------------------------------------ directed checksum cases
def _be_words(b):
    b = bytes(b)
    if len(b) % 2:
        b += b"\0"
    return [(b[i] << 8) | b[i + 1] for i in range(0, len(b), 2)]

def _swap16(v):
    return ((v & 0xFF) << 8) | (v >> 8)

DIRECTED_KINDS = ["cks0000", "fold_ffff", "fold_10000", "fold_10001", "fold_max", "run_10000", "run_ffff", "run_fffe"]

def solve_word(msg, off, kind):
    """value for the free big-endian 16-bit field at even offset `off` of `msg` (currently zero there) such that
         cks0000     the RFC 1071 checksum of the message is 0x0000 (the one's-complement sum is 0xFFFF)
         fold_X      the code's little-endian word sum s has (s >> 16) + (s & 0xFFFF) == X (0xFFFF, 0x10000, 0x10001,
                     or the largest reachable value): the first fold itself overflows 16 bits
         run_X       the running big-endian end-around-carry sum, taken word by word, is exactly X after adding the
                     field (0x10000 -> wraps to 1; 0xFFFF; 0xFFFE)
       Returns None when no 16-bit value does it."""
    ws = _be_words(msg)
    k = off // 2
    if kind == "cks0000":
        t = sum(ws) - ws[k]
        v = (-t) % 65535
        if v == 0 and t == 0:
            v = 65535
        return v
    if kind.startswith("fold_"):
        t = sum(_swap16(w) for i, w in enumerate(ws) if i != k)
        targets = {"fold_ffff": [0xFFFF], "fold_10000": [0x10000], "fold_10001": [0x10001],
                   "fold_max": list(range(0x1000F, 0xFFFF, -1))}[kind]
        for target in targets:
            for hi in ((t >> 16), (t >> 16) + 1):
                lo = target - hi
                if 0 <= lo <= 0xFFFF:
                    v = ((hi << 16) | lo) - t
                    if 0 <= v <= 0xFFFF:
                        return _swap16(v)
        return None
    if kind.startswith("run_"):
        acc = 0
        for w in ws[:k]:
            acc += w
            if acc > 0xFFFF:
                acc = (acc & 0xFFFF) + 1
        v = {"run_10000": 0x10000, "run_ffff": 0xFFFF, "run_fffe": 0xFFFE}[kind] - acc
        return v if 0 <= v <= 0xFFFF else None
    raise ValueError(kind)

def directed_ip_fields(rng, kind, plen=None):
    """IPv4 field values (ints / dotted quads) with the identification solved for `kind`; None if unsolvable"""
    f = {"srcip": addr(rng)[1:], "dstip": addr(rng)[1:], "flags": rng.boundary(3), "fragment_offset": 8 * rng.boundary(13),
         "protocol": rng.boundary(8), "dscp": rng.boundary(8), "id": 0, "ttl": rng.boundary(8)}
    if kind.startswith("fold_") or rng.random() < 0.3:          # large words make the little-endian sum exceed 16 bits
        f["srcip"], f["dstip"] = quad(rng.getrandbits(32) | 0x80808080), quad(rng.getrandbits(32) | 0x80808080)
    if kind.startswith("run_"):                                   # the running sum before the id is word0 + total length
        f["dscp"] = rng.choice([0xFF, 0xF0, rng.boundary(8)])
    n = rng.choice([0, 1, 8, 100, 1480]) if plen is None else plen
    if kind.startswith("run_") and rng.random() < 0.2:
        n = rng.choice([0xBA00 - 20 + rng.randrange(0, 200), 65515])             # 0x45xx + total length wraps / nearly wraps
    fu = f["fragment_offset"] // 8
    h = bytes([0x45, f["dscp"]]) + (20 + n).to_bytes(2, "big") + b"\0\0" + bytes([(f["flags"] << 5) | (fu >> 8), fu & 0xFF,
        f["ttl"], f["protocol"], 0, 0]) + ipint(f["srcip"]).to_bytes(4, "big") + ipint(f["dstip"]).to_bytes(4, "big")
    v = solve_word(h, 4, kind)
    if v is None:
        return None, n
    f["id"] = v
    return f, n

def directed_wire_header(rng, kind, n):
    """a 20-byte option-less header as a conforming sender would emit it, identification solved for `kind`"""
    for _ in range(20):
        h = bytearray(rng.bytes_(20))
        h[0] = 0x45
        h[2:4] = (20 + n).to_bytes(2, "big")
        h[4:6] = b"\0\0"
        h[10:12] = b"\0\0"
        if kind.startswith("fold_"):
            for i in (12, 14, 16, 18):
                h[i] |= 0x80
                h[i + 1] |= 0x80
        v = solve_word(bytes(h), 4, kind)
        if v is None:
            continue
        h[4:6] = v.to_bytes(2, "big")
        h[10:12] = ref_rfc1071(bytes(h)).to_bytes(2, "big")
        return bytes(h)
    return wire_header(rng, n)

def directed_icmp(rng, kind):
    """ICMP fields + payload with request_id solved; kind 'zero' is the all-zero message (checksum 0xFFFF)"""
    if kind == "zero":
        return {"type": 0, "code": 0, "request_id": 0, "request_sequence": 0}, bytes(rng.choice([0, 1, 2, 7, 64]))
    n = rng.choice([0, 1, 2, 3, 8, 33, 64, 1473])
    pl = bytes(rng.choice([0xFF, 0x80, rng.getrandbits(8)]) | (0x80 if kind.startswith("fold_") else 0) for _ in range(n))
    f = {"type": rng.boundary(8), "code": rng.boundary(8), "request_id": 0, "request_sequence": rng.boundary(16)}
    if kind.startswith("run_"):
        f["type"], f["code"] = rng.choice([0xFF, 0xFE, 0x80]), rng.boundary(8)
    msg = bytes([f["type"], f["code"], 0, 0, 0, 0]) + f["request_sequence"].to_bytes(2, "big") + pl
    v = solve_word(msg, 4, kind)
    if v is None:
        return None, pl
    f["request_id"] = v
    return f, pl

def directed_igmp_groups(rng, kind):
    """group list whose last group's low (or high) word is solved for `kind`"""
    cnt = rng.choice([1, 1, 2, 3, 5])
    groups = [rng.getrandbits(32) | (0x80808080 if kind.startswith("fold_") else 0) for _ in range(cnt)]
    mode = 4 if cnt == 1 else 2
    msg = bytes([0x22, 0, 0, 0, 0, 0]) + cnt.to_bytes(2, "big")
    for g in groups:
        msg += bytes([mode, 0, 0, 0]) + g.to_bytes(4, "big")
    # high word is at len-4, low word at len-2.  For the running-sum kinds the LAST word matters most: an
    # end-around-carry slip on an intermediate sum of exactly 0x10000 corrects itself on the next addition.
    which = rng.choice([2, 4]) if not kind.startswith("run_") else rng.choice([2, 2, 4])
    off = len(msg) - which
    msg = msg[:off] + b"\0\0" + msg[off + 2:]
    v = solve_word(msg, off, kind)
    if v is None:
        return None
    msg = msg[:off] + v.to_bytes(2, "big") + msg[off + 2:]
    return [quad(int.from_bytes(msg[8 + 8 * i + 4:8 + 8 * i + 8], "big")) for i in range(cnt)]

def directed_cases(ctx, per_kind):
    """(what, args…) tuples shared by the correspondence stream and the oracles"""
    rng = ctx.rng
    out = []
    for kind in DIRECTED_KINDS:
        for _ in range(per_kind):
            f, n = directed_ip_fields(rng, kind)
            if f is not None:
                out.append(("ip", kind, f, n))
            out.append(("wire", kind, directed_wire_header(rng, kind, rng.choice([0, 1, 8, 26, 100])), None))
            f, pl = directed_icmp(rng, kind)
            if f is not None:
                out.append(("icmp", kind, f, pl))
            g = directed_igmp_groups(rng, kind)
            if g is not None:
                out.append(("igmp", kind, g, None))
    for _ in range(per_kind):
        f, pl = directed_icmp(rng, "zero")
        out.append(("icmp", "zero", f, pl))
    return out

def directed_lines(ctx, per_kind):
    rng = ctx.rng
    lines = []
    for what, kind, a, b in directed_cases(ctx, per_kind):
        if what == "ip":
            f = {k: ("q" + v if k in ("srcip", "dstip") else str(v)) for k, v in a.items()}
            f["payload"] = hexb(rng.bytes_(b))
            l = gen.H("IP", gen.sets(f) + ["pack", "obs"])
            lines.append(l)
            pb = _impl_bytes(l)
            if pb is not None:
                lines.append(gen.F("ip_calc_checksum", hexb(pb[:10] + b"\0\0" + pb[12:20])))
                lines.append(gen.F("ip_calc_checksum", hexb(pb[:20])))
                lines.append(gen.H("IP", ["unpack " + hexb(pb + rng.bytes_(rng.choice([0, 3, 46]))), "obs", "pack"]))
        elif what == "wire":
            n = int.from_bytes(a[2:4], "big") - 20
            lines.append(gen.H("IP", ["unpack " + hexb(a + rng.bytes_(n) + rng.bytes_(rng.choice([0, 0, 2, 46]))), "obs", "pack", "obs"]))
            lines.append(gen.F("ip_calc_checksum", hexb(a)))
        elif what == "icmp":
            f = {k: str(v) for k, v in a.items()}
            f["payload"] = hexb(b)
            lines.append(gen.H("ICMP", gen.sets(f) + ["pack", "obs"]))
        elif what == "igmp":
            lines.append(gen.F("igmp.join_groups", "[" + ";".join("q" + g for g in a) + "]"))
    return lines

# =================================================================================== generators
PAYLOAD_SMALL = [0, 1, 2, 3, 4, 5, 8, 17, 46, 64]

def addr(rng):
    c = rng.random()
    if c < 0.1:
        return "q0.0.0.0"
    if c < 0.2:
        return "q255.255.255.255"
    return "q" + quad(rng.getrandbits(32))

def eth_valid(rng):
    vlan = rng.random() < 0.5
    ty = rng.boundary(16)
    if vlan and rng.random() < 0.25:
        ty = 0x8100                       # legal with the VLAN switch: the type after the tag is again 0x8100
    if not vlan and ty == 0x8100:
        ty = 0x0800
    return {"dstmac": str(rng.boundary(48)), "srcmac": str(rng.boundary(48)), "type": str(ty),
            "vlan": "True" if vlan else "False", "vlantag": str(rng.boundary(16)) if vlan else "65535",
            "payload": hexb(rng.bytes_(rng.choice(PAYLOAD_SMALL)))}

def eth_alt(rng, field, cur):
    if field == "vlan":
        return "False" if cur == "True" else "True"
    return None

def ip_valid(rng):
    return {"srcip": addr(rng), "dstip": addr(rng), "flags": str(rng.boundary(3)),
            "fragment_offset": str(8 * rng.boundary(13)), "protocol": str(rng.boundary(8)),
            "dscp": str(rng.boundary(8)), "id": str(rng.boundary(16)), "ttl": str(rng.boundary(8)),
            "len": str(rng.boundary(16)), "version": str(rng.boundary(4)), "ihl": str(rng.boundary(4)),
            "payload": hexb(rng.bytes_(rng.choice(PAYLOAD_SMALL)))}

def udp_valid(rng):
    return {"srcport": str(rng.boundary(16)), "dstport": str(rng.boundary(16)), "len": str(rng.boundary(16)),
            "payload": hexb(rng.bytes_(rng.choice(PAYLOAD_SMALL)))}

def icmp_valid(rng):
    return {"type": str(rng.boundary(8)), "code": str(rng.boundary(8)), "request_id": str(rng.boundary(16)),
            "request_sequence": str(rng.boundary(16)), "payload": hexb(rng.bytes_(rng.choice(PAYLOAD_SMALL)))}

ARP_W = [("hardware_type", 16), ("protocol_type", 16), ("hardware_length", 8), ("protocol_length", 8),
         ("operation", 16), ("srcmac", 48), ("dstmac", 48)]

def arp_valid(rng):
    f = {k: str(rng.boundary(b)) for k, b in ARP_W}
    f["srcip"] = addr(rng)
    f["dstip"] = addr(rng)
    return f

def rec_valid(rng):
    f = {"sec": str(rng.boundary(32)), "usec": str(rng.boundary(32))}
    f["payload"] = hexb(rng.bytes_(rng.choice([0, 0, 0, 1, 2, 5, 17])))
    return f

CLASSGEN = {
    "Ethernet": ClassGen("Ethernet", eth_valid, alt=eth_alt),
    "EthernetFCS": ClassGen("EthernetFCS", eth_valid, alt=eth_alt),
    "IP": ClassGen("IP", ip_valid, length_fields=[(2, 2, "big")], has_eq=False),
    "UDP": ClassGen("UDP", udp_valid, length_fields=[(4, 2, "big")], has_eq=False),
    "ICMP": ClassGen("ICMP", icmp_valid, has_eq=False, can_unpack=False),
    "ARP": ClassGen("ARP", arp_valid),
    "PcapRecord": ClassGen("PcapRecord", rec_valid, has_eq=False,
                           length_fields=[(8, 4, "little"), (12, 4, "little")]),
}

def _decode_side(lines, extra=()):
    """bytes produced by the implementation, decoded into a fresh object and re-encoded"""
    out = []
    for l in lines:
        cls = l.split()[1]
        if not ADAPTERS[cls].fields or cls == "ICMP":
            continue
        a = run_line_impl(l)
        for p in a.split("|"):
            if p.startswith("ok:x"):
                out.append(gen.H(cls, ["unpack " + p[3:], "obs", "pack", "obs"]))
    return out

# =================================================================================== C02
def eth_lines(ctx):
    rng = ctx.rng
    lines = []
    lens = list(range(0, 24)) + [46, 47, 1500] + [rng.randrange(24, 1500) for _ in range(ctx.scale(4, 100))]
    for vlan in (False, True):
        for n in lens:
            f = eth_valid(rng)
            f["vlan"] = str(vlan)
            f["vlantag"] = str(rng.boundary(16))
            f["payload"] = hexb(rng.bytes_(n))
            lines.append(gen.H("Ethernet", gen.sets(f) + ["pack", "pack True", "pack False", "obs"]))
            lines.append(gen.H("EthernetFCS", gen.sets(f) + ["pack", "obs"]))
    for k, b in (("dstmac", 48), ("srcmac", 48), ("type", 16), ("vlantag", 16)):
        for v in (0, 1, (1 << b) - 1, 1 << (b - 1), 1 << b, (1 << b) + 5, 0x8100, 1 << 32, (1 << 32) - 1):
            for vlan in ("False", "True"):
                f = {"dstmac": "1", "srcmac": "2", "type": "2048", "vlantag": "7", "vlan": vlan, "payload": "x0a0b0c0d0e"}
                f[k] = str(v)
                lines.append(gen.H("Ethernet", gen.sets(f) + ["pack", "pack True", "obs"]))
    dec = []
    for l in lines:
        a = run_line_impl(l)
        for p in a.split("|"):
            if p.startswith("ok:x"):
                b = p[3:]
                dec.append(gen.H("Ethernet", ["unpack " + b, "obs", "pack", "unpack " + b + " True", "obs", "pack True"]))
                break
    # malformed: truncations at every offset, boundary bytes, random strings, both fcs settings
    some = [bytes.fromhex(d.split("unpack x")[1].split("|")[0]) for d in rng.sample(dec, min(len(dec), ctx.scale(6, 60)))]
    for b in some:
        for m in gen.malformed(rng, b[:64], max_trunc=ctx.scale(24, 64)):
            lines.append(gen.H("Ethernet", ["unpack " + hexb(m), "obs"]))
            lines.append(gen.H("EthernetFCS", ["unpack " + hexb(m), "obs"]))
    return lines + dec

IP_W = [("dscp", 8), ("id", 16), ("ttl", 8), ("protocol", 8)]

def ip_lines(ctx):
    rng = ctx.rng
    lines = []
    lens = list(range(0, 12)) + [1480, 65515, 65516, 65517, 70000] + [rng.randrange(12, 1480) for _ in range(ctx.scale(4, 100))]
    for n in lens:
        f = ip_valid(rng)
        f["payload"] = hexb(rng.bytes_(n))
        lines.append(gen.H("IP", gen.sets(f) + ["pack", "obs"]))
    for fl in list(range(0, 10)) + [255, 256]:                 # all 8 flag values, and values that do not fit 3 bits
        for fo in (0, 8, 16, 2040, 2048, 8 * 8191, 8 * 8192, 7, 9, 65535, 65536, 65544, rng.randrange(0, 8192) * 8):
            f = ip_valid(rng)
            f["flags"], f["fragment_offset"] = str(fl), str(fo)
            lines.append(gen.H("IP", gen.sets(f) + ["pack", "obs"]))
    for k, b in IP_W:
        for v in (0, 1, (1 << b) - 1, 1 << (b - 1), 1 << b):
            f = ip_valid(rng)
            f[k] = str(v)
            lines.append(gen.H("IP", gen.sets(f) + ["pack", "obs"]))
    for bad in (("srcip", "q"), ("dstip", "q")):
        f = ip_valid(rng)
        f[bad[0]] = bad[1]
        lines.append(gen.H("IP", gen.sets(f) + ["pack", "obs"]))
    lines.append(gen.H("IP", ["pack", "obs"]))
    dec = []
    for l in lines:
        b = _impl_bytes(l)
        if b is not None and len(b) < 4000:
            for pad in (0, 1, 6, 46):
                dec.append(gen.H("IP", ["unpack " + hexb(b + rng.bytes_(pad)), "obs", "pack", "obs"]))
    # arbitrary (option-less or not) headers: version/IHL nibbles, total length below 20 / beyond the buffer
    for _ in range(ctx.scale(600, 5000)):
        h = bytearray(rng.bytes_(20))
        c = rng.random()
        if c < 0.7:
            h[0] = 0x45
        n = rng.choice([0, 1, 5, 30])
        if rng.random() < 0.7:
            h[2:4] = max(0, 20 + n + rng.choice([0, 0, 0, -1, 1, -25, 3])).to_bytes(2, "big")
        if rng.random() < 0.6:
            h[10:12] = b"\0\0"
            h[10:12] = ref_rfc1071(bytes(h)).to_bytes(2, "big")
        dec.append(gen.H("IP", ["unpack " + hexb(bytes(h) + rng.bytes_(n) + rng.bytes_(rng.choice([0, 0, 3, 46]))), "obs", "pack", "obs"]))
    for n in range(0, 26):
        dec.append(gen.H("IP", ["unpack " + hexb(rng.bytes_(n)), "obs"]))
    return lines + dec

def udp_lines(ctx):
    rng = ctx.rng
    lines = []
    for n in list(range(0, 12)) + [1472, 65527, 65528, 65529] + [rng.randrange(12, 1472) for _ in range(ctx.scale(4, 100))]:
        f = udp_valid(rng)
        f["payload"] = hexb(rng.bytes_(n))
        lines.append(gen.H("UDP", gen.sets(f) + ["pack", "obs"]))
    for k in ("srcport", "dstport"):
        for v in (0, 1, 65535, 32768, 65536):
            f = udp_valid(rng)
            f[k] = str(v)
            lines.append(gen.H("UDP", gen.sets(f) + ["pack", "obs"]))
    dec = _decode_side(lines)
    for n in range(0, 14):
        dec.append(gen.H("UDP", ["unpack " + hexb(rng.bytes_(n)), "obs"]))
    return lines + dec

def arp_lines(ctx):
    rng = ctx.rng
    lines = []
    for _ in range(ctx.scale(40, 1000)):
        lines.append(gen.H("ARP", gen.sets(arp_valid(rng)) + ["pack", "obs"]))
    for k, b in ARP_W:
        for v in (0, 1, (1 << b) - 1, 1 << b):
            f = arp_valid(rng)
            f[k] = str(v)
            lines.append(gen.H("ARP", gen.sets(f) + ["pack", "obs"]))
    for k in ("srcip", "dstip"):
        f = arp_valid(rng)
        f[k] = "q"
        f["dstmac"] = str(rng.choice([5, 1 << 48]))
        lines.append(gen.H("ARP", gen.sets(f) + ["pack", "obs"]))
    dec = _decode_side(lines)
    for n in range(0, 34):
        dec.append(gen.H("ARP", ["unpack " + hexb(rng.bytes_(n)), "obs", "pack"]))
    return lines + dec

def rec_lines(ctx):
    rng = ctx.rng
    lines = []
    for _ in range(ctx.scale(30, 500)):
        f = rec_valid(rng)
        ops = gen.sets(f)
        c = rng.random()
        if c < 0.3:                                   # lengths out of step with the payload
            ops += ["set incl_len %d" % rng.boundary(32), "set orig_len %d" % rng.boundary(32)]
        elif c < 0.4:
            ops += ["set sec %d" % (1 << 32)]
        elif c < 0.5:
            ops = ["set incl_len 7"] + ops + ["set packet x010203"]
        lines.append(gen.H("PcapRecord", ops + ["pack", "obs"]))
    for n in range(0, 20):
        lines.append(gen.H("PcapRecord", ["set payload x0a0b", "unpack " + hexb(rng.bytes_(n)), "obs", "pack"]))
    for _ in range(ctx.scale(20, 300)):
        lines.append(gen.H("PcapRecord", ["unpack " + hexb(rng.bytes_(16)), "obs", "pack", "obs"]))
    return lines

def func_lines(ctx):
    rng = ctx.rng
    lines = []
    for v in (0, 1, (1 << 32) - 1, 1 << 32, (1 << 48) - 1, 1 << 48, (1 << 47), 0x0102030405060708):
        lines.append(gen.F("pack48", str(v)))
    for _ in range(ctx.scale(20, 300)):
        lines.append(gen.F("pack48", str(rng.boundary(48))))
    for n in (0, 1, 5, 6, 7, 12):
        lines.append(gen.F("unpack48", hexb(rng.bytes_(n))))
    for _ in range(ctx.scale(20, 300)):
        lines.append(gen.F("unpack48", hexb(rng.bytes_(6))))
    return lines

STACK_X = [0, 1, 17, 18, 46, 1472]
STACK_PAD = [0, 1, 17, 46]

def build_stack(rng, x, vlan, fcs, pad, ports=None):
    """the encoded layers of a pcap-record / Ethernet / IPv4 / UDP stack built on the implementation"""
    import AcraNetwork.SimpleEthernet as se, AcraNetwork.Pcap as pcap
    u = se.UDP()
    u.srcport, u.dstport = ports or (rng.boundary(16), rng.boundary(16))
    u.payload = x
    ub = u.pack()
    i = se.IP()
    i.srcip, i.dstip = addr(rng)[1:], addr(rng)[1:]
    i.id, i.ttl, i.dscp = rng.boundary(16), rng.boundary(8), rng.boundary(8)
    i.payload = ub
    ib = i.pack()
    e = se.Ethernet()
    e.srcmac, e.dstmac = rng.boundary(48), rng.boundary(48)
    e.vlan = vlan
    if vlan:
        e.vlantag = rng.boundary(16)
    e.payload = ib + pad
    eb = e.pack(fcs)
    r = pcap.PcapRecord()
    r.sec, r.usec = rng.boundary(32), rng.boundary(32)
    r.payload = eb
    rb = r.pack()
    return ub, ib, eb, rb

def stack_lines(ctx):
    rng = ctx.rng
    lines = []
    xs = STACK_X + ([65507] if ctx.tier == "thorough" else [])
    for vlan in (False, True):
        for fcs in (False, True):
            for n in xs + [rng.randrange(0, 1472)]:
                for p in STACK_PAD:
                    padb = rng.bytes_(p)
                    ub, ib, eb, rb = build_stack(rng, rng.bytes_(n), vlan, fcs, padb)
                    lines.append(gen.H("PcapRecord", ["unpack " + hexb(rb[:16]), "obs"]))
                    lines.append(gen.H("Ethernet", ["unpack %s %s" % (hexb(eb), fcs), "obs"]))
                    lines.append(gen.H("IP", ["unpack " + hexb(ib + padb), "obs", "pack"]))
                    lines.append(gen.H("UDP", ["unpack " + hexb(ub), "obs", "pack"]))
    return lines

STACK_TOP = [65480, 65499, 65506, 65507]

def stack_file_cases(ctx):
    """two-record pcap files whose records carry UDP payloads at the top of the range, every nesting, pad 0..46"""
    rng = ctx.rng
    cases = []
    for vlan in (False, True):
        for fcs in (False, True):
            tops = STACK_TOP if ctx.tier == "thorough" else [rng.choice(STACK_TOP[:2]), 65507]
            for n in tops:
                recs = []
                for n2 in (n, rng.choice(STACK_TOP + [0, 1, 18, rng.randrange(65480, 65508)])):
                    recs.append({"x": n2, "pad": rng.choice([0, 1, 17, 46, rng.randrange(0, 47)]), "vlan": vlan, "fcs": fcs,
                                 "seed": rng.getrandbits(32)})
                cases.append(recs)
    return cases

def stack_file_lines(ctx):
    rng = ctx.rng
    lines = []
    for recs in stack_file_cases(ctx):
        ops = ["call open qw"]
        per = []
        for r in recs:
            r2 = core.Rng(r["seed"])
            x, padb = r2.bytes_(r["x"]), r2.bytes_(r["pad"])
            ub, ib, eb, rb = build_stack(r2, x, r["vlan"], r["fcs"], padb)
            ops.append("call write PcapRecord{sec=%d,usec=%d,payload=%s}" % (int.from_bytes(rb[0:4], "little"), int.from_bytes(rb[4:8], "little"), hexb(eb)))
            per.append((ub, ib, eb, padb, r["fcs"]))
        ops += ["call close", "call open qr", "call readall", "call getitem 1", "call getitem 0", "call close"]
        lines.append(gen.H("PcapFile", ops))
        for ub, ib, eb, padb, fcs in per:
            lines.append(gen.H("Ethernet", ["unpack %s %s" % (hexb(eb), fcs), "obs"]))
            lines.append(gen.H("IP", ["unpack " + hexb(ib + padb), "obs", "pack"]))
            lines.append(gen.H("UDP", ["unpack " + hexb(ub), "obs", "pack"]))
    return lines

def corr_C02(ctx):
    return (eth_lines(ctx) + ip_lines(ctx) + udp_lines(ctx) + arp_lines(ctx) + rec_lines(ctx) + func_lines(ctx) +
            stack_lines(ctx) + stack_file_lines(ctx) + directed_lines(ctx, ctx.scale(15, 100)))

# ---- oracles
def check_eth_layout(args):
    """Ethernet.pack == 802.3/802.1Q layout for the nesting; decode returns the fields; re-encode identical"""
    import AcraNetwork.SimpleEthernet as se
    f, p, vlan, fcs = args["fields"], bytes.fromhex(args["payload"]), args["vlan"], args["fcs"]
    e = se.Ethernet()
    e.dstmac, e.srcmac, e.type, e.payload, e.vlan = f["dstmac"], f["srcmac"], f["type"], p, vlan
    if vlan:
        e.vlantag = f["vlantag"]
    b = e.pack(fcs)
    exp = _spec_bytes(gen.F("spec.Ethernet.encode", str(f["dstmac"]), str(f["srcmac"]),
                            str(f["vlantag"]) if vlan else "None", str(f["type"]), hexb(p), str(bool(fcs))))
    if b != exp:
        return "Ethernet.pack(vlan=%s, fcs=%s) emits %s but the layout is %s" % (vlan, fcs, b.hex(), exp.hex())
    q = se.Ethernet()
    q.unpack(b, fcs)
    got = (q.dstmac, q.srcmac, int(q.type), q.payload, bool(q.vlan), q.vlantag)
    want = (f["dstmac"], f["srcmac"], f["type"], p, vlan, f["vlantag"] if vlan else 0xFFFF)
    if got != want:
        return "Ethernet round trip (vlan=%s, fcs=%s) changes the fields: %r -> %r" % (vlan, fcs, want, got)
    if q.pack(fcs) != b:
        return "Ethernet re-encode of a decoded frame differs"
    return None

def check_ip_layout(args):
    """IP.pack == RFC 791 layout with RFC 1071 checksum; decode (with trailing pad) returns the fields"""
    import AcraNetwork.SimpleEthernet as se
    f, p, pad = args["fields"], bytes.fromhex(args["payload"]), bytes.fromhex(args.get("pad", ""))
    i = se.IP()
    for k, v in f.items():
        setattr(i, k, v)
    i.payload = p
    b = i.pack()
    exp = _spec_bytes(gen.F("spec.IPv4.encode", str(f["dscp"]), str(f["id"]), str(f["flags"]), str(f["fragment_offset"]),
                            str(f["ttl"]), str(f["protocol"]), str(ipint(f["srcip"])), str(ipint(f["dstip"])), hexb(p)))
    if b != exp:
        return "IP.pack emits %s but the IPv4 layout is %s" % (b[:24].hex(), exp[:24].hex())
    if ref_rfc1071(b[:10] + b"\0\0" + b[12:20]) != int.from_bytes(b[10:12], "big"):
        return "IPv4 header checksum %s is not the RFC 1071 checksum of the header" % b[10:12].hex()
    q = se.IP()
    q.unpack(b + pad)
    for k, v in f.items():
        if getattr(q, k) != v:
            return "IP round trip changes %s: %r -> %r" % (k, v, getattr(q, k))
    if q.payload != p or q.len != 20 + len(p) or q.version != 4 or q.ihl != 5:
        return "IP round trip changes payload/len/version/ihl (pad %d bytes)" % len(pad)
    if q.pack() != b:
        return "IP re-encode of a decoded packet differs"
    return None

def check_ip_reencode(args):
    """an option-less header from the wire (valid checksum, total length = 20+|p|) re-encodes to the same bytes"""
    import AcraNetwork.SimpleEthernet as se
    h, p, pad = bytes.fromhex(args["header"]), bytes.fromhex(args["payload"]), bytes.fromhex(args["pad"])
    q = se.IP()
    q.unpack(h + p + pad)
    b = q.pack()
    if b != h + p:
        return "IP header %s decodes (flags=%d, fragment_offset=%d) and re-encodes as %s" % (h.hex(), q.flags, q.fragment_offset, b[:20].hex())
    return None

def check_ip_reencode_shared(args):
    """the same law when ONE IP object decodes and re-encodes a sequence of datagrams (e.g. the fragments of one
    datagram: same addresses and flags, different fragment offsets): each comes back as its own 20 bytes"""
    import AcraNetwork.SimpleEthernet as se
    q = se.IP()
    for k, (hh, pp) in enumerate(args["datagrams"]):
        h, p = bytes.fromhex(hh), bytes.fromhex(pp)
        q.unpack(h + p)
        b = q.pack()
        if b != h + p:
            return "datagram %d of %d decoded and re-encoded by one IP object: header %s (flags=%d, fragment_offset=%d) comes back as %s" % (
                k, len(args["datagrams"]), h.hex(), q.flags, q.fragment_offset, b[:20].hex())
    return None

def check_eth_type_roundtrip(args):
    """every ethertype survives encode/decode unchanged (0x8100 only behind a tag): fields, payload, re-encode"""
    import AcraNetwork.SimpleEthernet as se
    vlan, fcs, p = args["vlan"], args["fcs"], bytes.fromhex(args["payload"])
    for ty in args["types"]:
        if ty == 0x8100 and not vlan:
            continue
        e = se.Ethernet()
        e.dstmac, e.srcmac, e.type, e.payload, e.vlan = 0x010203040506, 0x0A0B0C0D0E0F, ty, p, vlan
        if vlan:
            e.vlantag = 0x2ABC
        b = e.pack(fcs)
        q = se.Ethernet()
        q.unpack(b, fcs)
        got = (q.dstmac, q.srcmac, int(q.type), q.payload, bool(q.vlan), q.vlantag)
        want = (0x010203040506, 0x0A0B0C0D0E0F, ty, p, vlan, 0x2ABC if vlan else 0xFFFF)
        if got != want:
            return "Ethernet round trip (vlan=%s, fcs=%s, ethertype 0x%04X) changes the fields: %r -> %r" % (vlan, fcs, ty, want, got)
        if q.pack(fcs) != b:
            return "Ethernet re-encode of a decoded frame with ethertype 0x%04X differs" % ty
    return None

def wire_header(rng, n):
    h = bytearray(rng.bytes_(20))
    h[0] = 0x45
    h[2:4] = (20 + n).to_bytes(2, "big")
    h[6] = (rng.randrange(8) << 5) | rng.boundary(5)
    h[7] = rng.boundary(8)
    h[10:12] = b"\0\0"
    h[10:12] = ref_rfc1071(bytes(h)).to_bytes(2, "big")
    return bytes(h)

def check_udp_layout(args):
    import AcraNetwork.SimpleEthernet as se
    sp, dp, p = args["srcport"], args["dstport"], bytes.fromhex(args["payload"])
    u = se.UDP()
    u.srcport, u.dstport, u.payload = sp, dp, p
    b = u.pack()
    exp = _spec_bytes(gen.F("spec.UDP.encode", str(sp), str(dp), hexb(p)))
    if b != exp:
        return "UDP.pack emits %s but the UDP layout is %s" % (b[:8].hex(), exp[:8].hex())
    q = se.UDP()
    q.unpack(b)
    if (q.srcport, q.dstport, q.len, q.payload) != (sp, dp, 8 + len(p), p):
        return "UDP round trip changes the fields"
    if q.pack() != b:
        return "UDP re-encode differs"
    return None

def check_arp_layout(args):
    import AcraNetwork.SimpleEthernet as se
    f = args["fields"]
    a = se.ARP()
    for k, v in f.items():
        setattr(a, k, v)
    b = a.pack()
    exp = _spec_bytes(gen.F("spec.ARP.encode", *[str(f[k]) for k, _ in ARP_W[:5]], str(f["srcmac"]), str(ipint(f["srcip"])),
                            str(f["dstmac"]), str(ipint(f["dstip"]))))
    if b != exp or len(b) != 28:
        return "ARP.pack emits %s but the 28-byte ARP layout is %s" % (b.hex(), exp.hex())
    q = se.ARP()
    q.unpack(b)
    for k, v in f.items():
        if getattr(q, k) != v:
            return "ARP round trip changes %s: %r -> %r" % (k, v, getattr(q, k))
    if q.pack() != b or not (q == a):
        return "ARP re-encode differs or decoded object is not equal"
    return None

def check_rec_layout(args):
    import AcraNetwork.Pcap as pcap
    sec, usec, p = args["sec"], args["usec"], bytes.fromhex(args["payload"])
    r = pcap.PcapRecord()
    r.sec, r.usec, r.payload = sec, usec, p
    b = r.pack()
    exp = _spec_bytes(gen.F("spec.Pcap.record", str(sec), str(usec), str(len(p)), str(len(p)), hexb(p)))
    if b != exp:
        return "PcapRecord.pack emits %s but the record layout is %s" % (b[:16].hex(), exp[:16].hex())
    q = pcap.PcapRecord()
    q.unpack(b[:16])
    q.payload = b[16:16 + q.incl_len]
    if (q.sec, q.usec, q.incl_len, q.orig_len, q.payload) != (sec, usec, len(p), len(p), p):
        return "PcapRecord round trip changes the fields"
    return None

def check_stack(args):
    """x put in the innermost layer comes back unchanged when the layers are decoded in turn"""
    import AcraNetwork.SimpleEthernet as se, AcraNetwork.Pcap as pcap
    x, pad, vlan, fcs = bytes.fromhex(args["x"]), bytes.fromhex(args["pad"]), args["vlan"], args["fcs"]
    rng = core.Rng(args.get("seed", 0))
    ub, ib, eb, rb = build_stack(rng, x, vlan, fcs, pad)
    r = pcap.PcapRecord()
    r.unpack(rb[:16])
    r.payload = rb[16:16 + r.incl_len]
    e = se.Ethernet()
    e.unpack(r.payload, fcs)
    i = se.IP()
    i.unpack(e.payload)
    u = se.UDP()
    u.unpack(i.payload)
    if u.payload != x:
        return "stack (vlan=%s, fcs=%s, %d-byte payload, %d-byte pad): innermost payload comes back as %s…(%d bytes)" % (
            vlan, fcs, len(x), len(pad), u.payload[:16].hex(), len(u.payload))
    if e.vlan != vlan or i.protocol != 17 or u.len != 8 + len(x):
        return "stack decode reports wrong layer fields"
    return None

def check_stack_file(args):
    """records holding pcap-record/Ethernet/IPv4/UDP stacks are written to a real pcap file (two per file, so that a
       mis-framed first record shows in the second), read back, decoded layer by layer: the innermost bytes return"""
    import AcraNetwork.SimpleEthernet as se, AcraNetwork.Pcap as pcap
    d = _tmp()
    try:
        fn = os.path.join(d, "s.pcap")
        f = pcap.Pcap(fn, mode="w")
        want = []
        for r in args["records"]:
            r2 = core.Rng(r["seed"])
            x, padb = r2.bytes_(r["x"]), r2.bytes_(r["pad"])
            ub, ib, eb, rb = build_stack(r2, x, r["vlan"], r["fcs"], padb)
            rec = pcap.PcapRecord()
            rec.sec, rec.usec = int.from_bytes(rb[0:4], "little"), int.from_bytes(rb[4:8], "little")
            rec.payload = eb
            f.write(rec)
            want.append((x, r))
        f.close()
        g = pcap.Pcap(fn)
        got = list(g)
        g.close()
        if len(got) != len(want):
            return "pcap file with %d stacked records reads back %d records" % (len(want), len(got))
        for k, (rec, (x, r)) in enumerate(zip(got, want)):
            e = se.Ethernet()
            e.unpack(rec.payload, r["fcs"])
            i = se.IP()
            i.unpack(e.payload)
            u = se.UDP()
            u.unpack(i.payload)
            if u.payload != x:
                return "record %d (vlan=%s, fcs=%s, %d-byte UDP payload, %d-byte pad) read from a pcap file: innermost payload comes back as %d bytes, first difference at %d" % (
                    k, r["vlan"], r["fcs"], len(x), r["pad"], len(u.payload),
                    next((j for j, (a, b) in enumerate(zip(u.payload, x)) if a != b), min(len(x), len(u.payload))))
            if u.len != (8 + len(x)) % 65536 or i.len != 28 + len(x):
                return "record %d: UDP/IP length fields %d/%d for a %d-byte payload" % (k, u.len, i.len, len(x))
    finally:
        shutil.rmtree(d, True)
    return None

def oracles_C02(ctx, hints):
    rng = ctx.rng
    fails, n = [], 0
    k = 4 if getattr(ctx, "search_mode", False) else 1
    def run(name, fn, args, tags):
        nonlocal n
        n += 1
        try:
            w = fn(args)
        except Exception as e:
            w = "%s raised %r on a well-formed input" % (name, e)
        if w:
            fails.append(Failure(name, args, w, tags))
            return True
        return False
    for vlan in (False, True):
        for fcs in (False, True):
            for j in range(ctx.scale(25, 600) * k):
                ty = rng.boundary(16)
                if vlan and j % 5 == 0:
                    ty = 0x8100                   # legal with the VLAN switch (inner type 0x8100)
                if ty == 0x8100 and not vlan:
                    ty = 0x86DD
                f = {"dstmac": rng.boundary(48), "srcmac": rng.boundary(48), "type": ty, "vlantag": rng.boundary(16)}
                args = {"fields": f, "payload": rng.bytes_(j % 50 if j % 7 else rng.randrange(0, 1600)).hex(), "vlan": vlan, "fcs": fcs}
                if run("eth_layout", check_eth_layout, args, {"class": "Ethernet", "check": "layout", "vlan": vlan, "fcs": fcs}):
                    break
    for j in range(ctx.scale(200, 5000) * k):
        f = {"srcip": addr(rng)[1:], "dstip": addr(rng)[1:], "flags": j % 8, "fragment_offset": 8 * rng.boundary(13),
             "protocol": rng.boundary(8), "dscp": rng.boundary(8), "id": rng.boundary(16), "ttl": rng.boundary(8)}
        plen = rng.choice([0, 1, 7, 8, 30, 1480]) if j % 40 else rng.choice([65515, 60000])
        args = {"fields": f, "payload": rng.bytes_(plen).hex(), "pad": rng.bytes_(rng.choice([0, 0, 1, 6, 46])).hex()}
        if run("ip_layout", check_ip_layout, args, {"class": "IP", "check": "layout"}):
            break
    for j in range(ctx.scale(300, 8000) * k):
        plen = rng.choice([0, 1, 8, 26, 100])
        args = {"header": wire_header(rng, plen).hex(), "payload": rng.bytes_(plen).hex(), "pad": rng.bytes_(rng.choice([0, 0, 2, 46])).hex()}
        if run("ip_reencode", check_ip_reencode, args, {"class": "IP", "check": "reencode"}):
            break
    # one IP object decodes and re-encodes the fragments of one datagram (same addresses / flags, other offsets)
    for j in range(ctx.scale(60, 1500) * k):
        base = bytearray(wire_header(rng, 8))
        dgs = []
        for i in range(rng.randrange(2, 5)):
            h = bytearray(base)
            if rng.random() < 0.8:
                off = rng.boundary(13)
                h[6] = (h[6] & 0xE0) | (off >> 8)
                h[7] = off & 0xFF
            else:
                h[8] = rng.boundary(8)
            h[10:12] = b"\0\0"
            h[10:12] = ref_rfc1071(bytes(h)).to_bytes(2, "big")
            dgs.append([bytes(h).hex(), rng.bytes_(8).hex()])
        if run("ip_reencode_shared", check_ip_reencode_shared, {"datagrams": dgs}, {"class": "IP", "check": "reencode", "directed": "shared_object"}):
            break
    # every ethertype that occurs as a literal anywhere in the library's source (sync words, other protocols'
    # type codes, …), its neighbours and byte-swapped forms, plus a random block of the 16-bit range
    types = sorted(set(rng.dictionary(16)) | set(range(0x8000, 0x9000)) | set(rng.getrandbits(16) for _ in range(ctx.scale(200, 8000))))
    for vlan in (False, True):
        for fcs in (False, True):
            args = {"vlan": vlan, "fcs": fcs, "types": types, "payload": rng.bytes_(rng.choice([0, 5, 46])).hex()}
            if run("eth_type_roundtrip", check_eth_type_roundtrip, args, {"class": "Ethernet", "check": "roundtrip", "directed": "ethertype_sweep"}):
                break
    for j in range(ctx.scale(100, 3000) * k):
        plen = rng.choice([0, 1, 2, 9, 1472]) if j % 30 else 65527
        args = {"srcport": rng.boundary(16), "dstport": rng.boundary(16), "payload": rng.bytes_(plen).hex()}
        if run("udp_layout", check_udp_layout, args, {"class": "UDP", "check": "layout"}):
            break
    for j in range(ctx.scale(100, 3000) * k):
        f = {kk: rng.boundary(b) for kk, b in ARP_W}
        f["srcip"], f["dstip"] = addr(rng)[1:], addr(rng)[1:]
        if run("arp_layout", check_arp_layout, {"fields": f}, {"class": "ARP", "check": "layout"}):
            break
    for j in range(ctx.scale(100, 3000) * k):
        args = {"sec": rng.boundary(32), "usec": rng.boundary(32), "payload": rng.bytes_(rng.choice([0, 1, 5, 60, 1514])).hex()}
        if run("rec_layout", check_rec_layout, args, {"class": "PcapRecord", "check": "layout"}):
            break
    for what, kind, a, b in directed_cases(ctx, ctx.scale(15, 150) * k):
        if what == "ip":
            args = {"fields": a, "payload": rng.bytes_(b).hex(), "pad": rng.bytes_(rng.choice([0, 0, 1, 46])).hex()}
            if run("ip_layout", check_ip_layout, args, {"class": "IP", "check": "layout", "directed": kind}):
                break
        elif what == "wire":
            pln = int.from_bytes(a[2:4], "big") - 20
            args = {"header": a.hex(), "payload": rng.bytes_(pln).hex(), "pad": rng.bytes_(rng.choice([0, 0, 2, 46])).hex()}
            if run("ip_reencode", check_ip_reencode, args, {"class": "IP", "check": "reencode", "directed": kind}):
                break
    for recs in stack_file_cases(ctx):
        if run("stack_file", check_stack_file, {"records": recs}, {"class": "stack", "check": "transparent_file",
                                                                   "vlan": recs[0]["vlan"], "fcs": recs[0]["fcs"]}):
            break
    xs = STACK_X + [65507] + [rng.randrange(0, 65507) for _ in range(ctx.scale(1, 30))]
    done = False
    for vlan in (False, True):
        for fcs in (False, True):
            for xl in xs:
                for p in (STACK_PAD if xl < 2000 else [0, 46]):
                    args = {"x": rng.bytes_(xl).hex(), "pad": rng.bytes_(p).hex(), "vlan": vlan, "fcs": fcs, "seed": rng.getrandbits(32)}
                    if not done and run("stack", check_stack, args, {"class": "stack", "check": "transparent", "vlan": vlan, "fcs": fcs}):
                        done = True
    ctx.count("oracle_evaluations", n)
    return fails

# =================================================================================== C07
def _flip(b, i):
    return b[:i // 8] + bytes([b[i // 8] ^ (1 << (i % 8))]) + b[i // 8 + 1:]

def icmp_lines(ctx):
    rng = ctx.rng
    lines = []
    for n in list(range(0, 20)) + [1472, 1473, 65535, 140001] + [rng.randrange(20, 1472) for _ in range(ctx.scale(4, 100))]:
        f = icmp_valid(rng)
        f["payload"] = hexb(rng.bytes_(n) if n < 100000 else b"\xff" * n)
        lines.append(gen.H("ICMP", gen.sets(f) + ["pack", "obs"]))
    for k, b in (("type", 8), ("code", 8), ("request_id", 16), ("request_sequence", 16)):
        for v in (0, (1 << b) - 1, 1 << b):
            f = icmp_valid(rng)
            f[k] = str(v)
            lines.append(gen.H("ICMP", gen.sets(f) + ["pack", "obs"]))
    lines.append(gen.H("ICMP", ["unpack x0800", "obs"]))
    return lines

def checksum_inputs(ctx):
    """byte strings whose 16-bit sums carry repeatedly or hit 0x0000 / 0xFFFF, odd and even lengths"""
    rng = ctx.rng
    out = [b"", b"\0", b"\xff", b"\0\0", b"\xff\xff", b"\xff\xff\xff\xff", b"\xff\xff\x00\x01", b"\x00\x01\xff\xff",
           b"\xff" * 20, b"\xff" * 21, b"\x80\x00" * 2, b"\x80\x00" * 3, b"\xff\xfe\x00\x01", b"\x01\x00\xff"]
    for n in range(0, 42):
        out.append(rng.bytes_(n))
    for _ in range(ctx.scale(30, 1000)):
        n = rng.randrange(0, 300)
        out.append(bytes(rng.choice([0, 0xFF, 0x80, 0x7F, rng.getrandbits(8)]) for _ in range(n)))
    out += [b"\xff" * 131070, b"\xff" * 131073, b"\xff\xfe" * 70000, rng.bytes_(65535)]
    return out

def corr_C07(ctx):
    rng = ctx.rng
    lines = []
    for b in checksum_inputs(ctx):
        lines.append(gen.F("ip_calc_checksum", hexb(b)))
        if len(b) < 70000:
            lines.append(gen.F("crc32", hexb(b)))
    lines.append(gen.F("crc32", hexb(b"123456789")))
    for a in (0, 1, 0x7FFF, 0x8000, 0xFFFE, 0xFFFF, 0x10000, rng.getrandbits(16)):
        for b in (0, 1, 0x8000, 0xFFFF, rng.getrandbits(16)):
            lines.append(gen.F("ones_comp_add16", str(a), str(b)))
    lines.append(gen.F("igmp.membership_query"))
    for n in list(range(0, 8)) + [40]:
        for _ in range(ctx.scale(3, 60)):
            lines.append(gen.F("igmp.join_groups", "[" + ";".join(addr(rng) for _ in range(n)) + "]"))
    lines += directed_lines(ctx, ctx.scale(15, 150))
    lines.append(gen.F("igmp.join_groups", "[q1.2.3.4;q]"))
    lines.append(gen.F("igmp.join_groups", "[q255.255.255.255;q255.255.255.255;q255.255.255.255]"))
    lines += icmp_lines(ctx)
    # IPv4 header checksums on encode (fields chosen so that the sum carries / hits the extremes)
    for _ in range(ctx.scale(60, 2000)):
        f = ip_valid(rng)
        if rng.random() < 0.3:
            f.update({"srcip": "q255.255.255.255", "dstip": "q255.255.255.255", "id": "65535"})
        lines.append(gen.H("IP", gen.sets(f) + ["pack"]))
    # Ethernet FCS: encode, verify, and every single-bit flip of some frames
    for _ in range(ctx.scale(4, 40)):
        f = eth_valid(rng)
        f["payload"] = hexb(rng.bytes_(rng.choice([0, 1, 5, 46])))
        b = _impl_bytes(gen.H("EthernetFCS", gen.sets(f) + ["pack"]))
        lines.append(gen.H("EthernetFCS", gen.sets(f) + ["pack", "unpack " + hexb(b), "obs"]))
        for i in range(8 * len(b)):
            lines.append(gen.H("EthernetFCS", ["unpack " + hexb(_flip(b, i)), "obs"]))
    return lines

def check_ipv4_checksum(args):
    import AcraNetwork.SimpleEthernet as se
    f = args["fields"]
    i = se.IP()
    for k, v in f.items():
        setattr(i, k, v)
    i.payload = bytes.fromhex(args["payload"])
    b = i.pack()
    if b[0] != 0x45:
        return "IP.pack emits version/IHL byte %#04x for an option-less 20-byte header (fields %r)" % (b[0], {k: f[k] for k in f if k in ("version", "ihl")})
    protected = b[:10] + b"\0\0" + b[12:20]
    want = _spec_int(gen.F("spec.rfc1071", hexb(protected)))
    if want != ref_rfc1071(protected):
        return "internal: Lean Spec.rfc1071 and the Python reference disagree on %s" % protected.hex()
    if b[10:12] != want.to_bytes(2, "big"):
        return "IPv4 header checksum bytes %s; RFC 1071 over the emitted header gives %04x" % (b[10:12].hex(), want)
    if se.ip_calc_checksum(b[:20]) != 0:
        return "verifying the emitted IPv4 header does not give 0"
    return None

def check_wire_verifies(args):
    """ip_calc_checksum over a header that carries its RFC 1071 checksum gives 0, and over the header with the
       field zeroed gives the field (as the native-order value the code stores)"""
    import AcraNetwork.SimpleEthernet as se
    h = bytes.fromhex(args["header"])
    if se.ip_calc_checksum(h) != 0:
        return "ip_calc_checksum of the valid header %s is %04x, not 0" % (h.hex(), se.ip_calc_checksum(h))
    z = h[:10] + b"\0\0" + h[12:]
    want = _spec_int(gen.F("spec.rfc1071", hexb(z)))
    if want != ref_rfc1071(z) or want.to_bytes(2, "big") != h[10:12]:
        return "internal: references disagree on %s" % z.hex()
    if se.ip_calc_checksum(z).to_bytes(2, "little") != h[10:12]:
        return "ip_calc_checksum(%s) stored natively is %s; RFC 1071 gives %s" % (z.hex(), se.ip_calc_checksum(z).to_bytes(2, "little").hex(), h[10:12].hex())
    return None

def check_icmp_checksum(args):
    import AcraNetwork.SimpleEthernet as se
    f = args["fields"]
    i = se.ICMP()
    for k, v in f.items():
        setattr(i, k, v)
    i.payload = bytes.fromhex(args["payload"])
    b = i.pack()
    protected = b[:2] + b"\0\0" + b[4:]
    want = ref_rfc1071(protected)
    if len(protected) < 3000 and want != _spec_int(gen.F("spec.rfc1071", hexb(protected))):
        return "internal: Lean Spec.rfc1071 and the Python reference disagree"
    if b[2:4] != want.to_bytes(2, "big"):
        return "ICMP checksum bytes %s; RFC 1071 over the emitted %d-byte message gives %04x" % (b[2:4].hex(), len(b), want)
    exp = (bytes([f["type"], f["code"]]) + want.to_bytes(2, "big") + f["request_id"].to_bytes(2, "big") +
           f["request_sequence"].to_bytes(2, "big") + i.payload)
    if b != exp:
        return "ICMP.pack layout differs from type, code, checksum, id, sequence, payload"
    return None

def check_igmp_join(args):
    import AcraNetwork.SimpleEthernet as se
    groups = args["groups"]
    b = se.IGMPv3.join_groups(groups)
    protected = b[:2] + b"\0\0" + b[4:]
    want = ref_rfc1071(protected)
    if b[2:4] != want.to_bytes(2, "big"):
        return "IGMPv3 join of %r: checksum bytes %s; RFC 1071 over the emitted report gives %04x" % (groups, b[2:4].hex(), want)
    exp = _spec_bytes(gen.F("spec.IGMP.report", "[" + ";".join(str(ipint(g)) for g in groups) + "]"))
    if b != exp:
        return "IGMPv3 join of %r emits %s but the report layout is %s" % (groups, b.hex(), exp.hex())
    return None

def check_igmp_query(args):
    import AcraNetwork.SimpleEthernet as se
    b = se.IGMPv3.membership_query()
    protected = b[:2] + b"\0\0" + b[4:]
    want = ref_rfc1071(protected)
    if b[2:4] != want.to_bytes(2, "big"):
        return "IGMPv3 membership query carries checksum %s; the bytes emitted sum to %04x" % (b[2:4].hex(), want)
    exp = _spec_bytes(gen.F("spec.IGMP.query"))
    if b != exp:
        return "IGMPv3 membership query emits %s but the layout is %s" % (b.hex(), exp.hex())
    return None

def check_eth_fcs(args):
    """FCS = CRC-32 (IEEE 802.3) of everything before it, least significant byte first; unpack(fcs=True)
       accepts the frame and rejects every single-bit flip of it"""
    import AcraNetwork.SimpleEthernet as se
    f, p, vlan = args["fields"], bytes.fromhex(args["payload"]), args["vlan"]
    e = se.Ethernet()
    e.dstmac, e.srcmac, e.type, e.payload, e.vlan, e.vlantag = f["dstmac"], f["srcmac"], f["type"], p, vlan, f["vlantag"]
    b = e.pack(True)
    want = ref_crc32(b[:-4])
    if want != _spec_int(gen.F("spec.crc32", hexb(b[:-4]))) or want != (zlib.crc32(b[:-4]) & 0xFFFFFFFF):
        return "internal: CRC-32 references disagree on %s" % b[:-4].hex()
    if b[-4:] != want.to_bytes(4, "little"):
        return "Ethernet FCS bytes %s; CRC-32 of the %d bytes before them is %08x" % (b[-4:].hex(), len(b) - 4, want)
    try:
        se.Ethernet().unpack(b, True)
    except Exception as ex:
        return "Ethernet.unpack(fcs=True) rejects the frame pack(fcs=True) produced: %r" % (ex,)
    for i in range(8 * len(b)):
        try:
            se.Ethernet().unpack(_flip(b, i), True)
        except Exception:
            continue
        return "Ethernet.unpack(fcs=True) accepts the frame %s with bit %d flipped" % (b.hex(), i)
    return None

def oracles_C07(ctx, hints):
    rng = ctx.rng
    fails, n = [], 0
    k = 4 if getattr(ctx, "search_mode", False) else 1
    def run(name, fn, args, tags):
        nonlocal n
        n += 1
        try:
            w = fn(args)
        except Exception as e:
            w = "%s raised %r on a well-formed input" % (name, e)
        if w:
            fails.append(Failure(name, args, w, tags))
            return True
        return False
    for j in range(ctx.scale(200, 5000) * k):
        f = {"srcip": addr(rng)[1:], "dstip": addr(rng)[1:], "flags": rng.boundary(3), "fragment_offset": 8 * rng.boundary(13),
             "protocol": rng.boundary(8), "dscp": rng.boundary(8), "id": rng.boundary(16), "ttl": rng.boundary(8)}
        if j % 5 == 0:
            f.update({"srcip": "255.255.255.255", "dstip": "255.255.255.255", "id": 65535, "ttl": 255, "protocol": 255, "dscp": 255})
        if j % 6 == 1:
            # what unpack() of a header with options (or of another IP version) leaves in the object
            f["ihl"], f["version"] = rng.choice([5, 6, 7, 15]), rng.choice([4, 4, 6])
        args = {"fields": f, "payload": rng.bytes_(rng.choice([0, 1, 1480])).hex()}
        if run("ipv4_checksum", check_ipv4_checksum, args, {"class": "IP", "check": "checksum"}):
            break
    for j, pl in enumerate(checksum_inputs(ctx)):
        if len(pl) > 65535:
            continue
        f = {"type": rng.boundary(8), "code": rng.boundary(8), "request_id": rng.boundary(16), "request_sequence": rng.boundary(16)}
        if run("icmp_checksum", check_icmp_checksum, {"fields": f, "payload": pl.hex()}, {"class": "ICMP", "check": "checksum"}):
            break
    for j in range(ctx.scale(60, 2000) * k):
        cnt = j % 9 if j % 50 else 300
        groups = [addr(rng)[1:] for _ in range(cnt)]
        if j % 7 == 0:
            groups = ["255.255.255.255"] * cnt
        if run("igmp_join", check_igmp_join, {"groups": groups}, {"class": "IGMPv3", "check": "join_checksum"}):
            break
    run("igmp_query", check_igmp_query, {}, {"class": "IGMPv3", "check": "query_checksum"})
    stop = set()
    for what, kind, a, b in directed_cases(ctx, ctx.scale(15, 150) * k):
        if what in stop:
            continue
        if what == "ip":
            bad = run("ipv4_checksum", check_ipv4_checksum, {"fields": a, "payload": rng.bytes_(b).hex()},
                      {"class": "IP", "check": "checksum", "directed": kind})
        elif what == "wire":
            bad = run("wire_verifies", check_wire_verifies, {"header": a.hex()}, {"class": "ip_calc_checksum", "check": "verify", "directed": kind})
        elif what == "icmp":
            bad = run("icmp_checksum", check_icmp_checksum, {"fields": a, "payload": b.hex()}, {"class": "ICMP", "check": "checksum", "directed": kind})
        else:
            bad = run("igmp_join", check_igmp_join, {"groups": a}, {"class": "IGMPv3", "check": "join_checksum", "directed": kind})
        if bad:
            stop.add(what)
    for j in range(ctx.scale(12, 200) * k):
        vlan = bool(j % 2)
        ty = rng.boundary(16)
        if ty == 0x8100 and not vlan:
            ty = 0x0806
        f = {"dstmac": rng.boundary(48), "srcmac": rng.boundary(48), "type": ty, "vlantag": rng.boundary(16)}
        args = {"fields": f, "payload": rng.bytes_(rng.choice([0, 1, 4, 46, 100])).hex(), "vlan": vlan}
        if run("eth_fcs", check_eth_fcs, args, {"class": "Ethernet", "check": "fcs"}):
            break
    ctx.count("oracle_evaluations", n)
    return fails

# =================================================================================== C05 (and the file part of C08)
def rec_text(rng, maxlen=40, wild=0.15):
    n = rng.choice([0, 1, 2, 3, 7, 16, 17, rng.randrange(0, maxlen + 1)])
    parts = ["sec=%d" % rng.boundary(32), "usec=%d" % rng.boundary(32), "payload=" + hexb(rng.bytes_(n))]
    c = rng.random()
    if c < wild / 3:
        parts.append("incl_len=%d" % rng.choice([0, 1, n + 1, max(n - 1, 0), 0xFFFFFFFF, rng.boundary(32)]))
    elif c < 2 * wild / 3:
        parts.append("orig_len=%d" % rng.boundary(32))
    elif c < wild:
        parts[0] = "sec=%d" % (1 << 32)                    # does not fit: pack raises, nothing is written
    return "PcapRecord{" + ",".join(parts) + "}"

def pcap_session_history(rng, n_rec=None, maxlen=40, wild=0.15):
    """sessions (w, a, a, …) of writes, then reading back by iteration and by index"""
    ops = ["call open qw"]
    n = rng.randrange(0, 7) if n_rec is None else n_rec
    for i in range(n):
        ops.append("call write " + rec_text(rng, maxlen, wild))
        if rng.random() < 0.25:
            ops += ["call close", "call open qa"]
    ops += ["call close", "obs", "call open qr", "obs", "call readall", "call next"]
    for i in (0, n - 1, n, rng.randrange(-2, n + 2)):
        ops.append("call getitem %d" % i)
    # negative indices (review B8): None, never "from the end"; the scan leaves the cursor at the end of the file
    ops += ["call getitem -1", "call next", "call getitem %d" % -max(n, 1), "call getitem 0"]
    ops += ["call next", "call close", "call next", "obs"]
    return ops

NEG_INDEXES = [-1, -2, -3, -(1 << 31), -(1 << 32) - 1, -(1 << 63), -(1 << 64) - 5]

def pcap_negative_history(rng):
    """index access with negative / far out-of-range indices on a reader, on a writer and on a closed object"""
    n = rng.randrange(0, 5)
    ops = ["call open qw"] + ["call write " + rec_text(rng, 12, 0.0) for _ in range(n)] + ["call close", "call open qr"]
    for k in [-n, -n - 1] + [rng.choice(NEG_INDEXES) for _ in range(2)]:
        ops += ["call getitem %d" % k, "call next"]                 # None, then StopIteration: cursor at the end
        if n:
            ops.append("call getitem %d" % rng.randrange(0, n))      # index access rewinds: still every record
    ops += ["call getitem %d" % (n + rng.choice([0, 1, 1 << 31, 1 << 64])), "call next", "call readall", "call close",
            "call getitem -1"]                                       # closed object: ValueError
    if rng.random() < 0.5:                                           # a writer: the scan ends at once, None
        ops += ["call open qa", "call getitem -1", "call write " + rec_text(rng, 12, 0.0), "call getitem -2", "call close",
                "call open qr", "call readall", "call getitem -1"]
    return ops + ["obs"]

SOUP = ["call open qw", "call open qa", "call open qr", "call close", "call flush", "call next", "call readall",
        "call getitem 0", "call getitem 1", "call getitem -1", "obs", "call delete"]

def pcap_soup_history(rng, length):
    """any operation at any time: writes on a read handle, reads on a write handle, indexing a mode-w object and
       writing afterwards, use after close, truncation between sessions"""
    ops = []
    for _ in range(length):
        c = rng.random()
        if c < 0.35:
            ops.append("call write " + rec_text(rng, 12))
        elif c < 0.42:
            ops.append("call truncate %d" % rng.choice([0, 5, 23, 24, 25, 39, 40, 41, 60, rng.randrange(0, 120)]))
        elif c < 0.47:
            ops.append("call setfile " + hexb(rng.bytes_(rng.choice([0, 10, 23, 24, 40, 41, 70]))))
        else:
            ops.append(rng.choice(SOUP))
    return ops + ["obs"]

EMPTY_SHAPES = [[0], [0, 0], [5, 0], [0, 5], [0, 5, 0], [3, 0, 0, 7, 0], [16, 0], [0, 16, 0, 1]]

def pcap_zero_session_history(rng):
    """a first session that writes no record (open "w", close), then append sessions (some empty too) writing
       records whose payload may be empty — in particular the last one; then every index including the last"""
    ops = ["call open qw", "call close", "obs"]
    n = 0
    for _ in range(rng.randrange(1, 4)):
        ops.append("call open qa")
        for _ in range(rng.choice([0, 1, 1, 2])):
            ln = rng.choice([0, 0, 1, 5])
            ops.append("call write PcapRecord{sec=%d,usec=%d,payload=%s}" % (rng.boundary(32), rng.boundary(32), hexb(rng.bytes_(ln))))
            n += 1
        ops.append("call close")
    if rng.random() < 0.5:
        ops += ["call open qa", "call write PcapRecord{sec=%d,usec=0,payload=x}" % rng.boundary(32), "call close"]
        n += 1
    ops += ["obs", "call open qr", "call readall"]
    for i in range(0, n + 1):
        ops.append("call getitem %d" % i)
    ops += ["call getitem %d" % (n - 1), "call next", "obs"]
    return ops

def pcap_truncation_lines(ctx, rng, max_file, shape=None):
    """one file, every truncation offset"""
    lines = []
    recs = []
    size = 24
    while True:
        if shape is not None:
            if len(recs) == len(shape):
                break
            n = shape[len(recs)]
        else:
            n = rng.choice([0, 1, 3, 16, 20, rng.randrange(0, 40)])
        if shape is None and size + 16 + n > max_file:
            break
        recs.append("PcapRecord{sec=%d,usec=%d,payload=%s}" % (rng.boundary(32), rng.boundary(32), hexb(rng.bytes_(n))))
        size += 16 + n
    head = ["call open qw"] + ["call write " + r for r in recs] + ["call close"]
    for t in range(0, size + 2):
        lines.append(gen.H("PcapFile", head + ["call truncate %d" % t, "call open qr", "call readall", "call getitem %d" % (len(recs) - 1), "obs"]))
    return lines

def malformed_pcap_files(ctx, rng):
    """arbitrary and mutated file contents"""
    out = []
    import struct
    for _ in range(ctx.scale(6, 60)):
        body = b""
        for _ in range(rng.randrange(1, 4)):
            p = rng.bytes_(rng.choice([0, 1, 5, 20]))
            body += struct.pack("<IIII", rng.boundary(32), rng.boundary(32), len(p), len(p)) + p
        valid = struct.pack("<IhhiIII", 0xA1B2C3D4, 2, 4, 0, 0, 65535, 1) + body
        out.append(valid)
        out += gen.malformed(rng, valid, [(32, 4, "little"), (36, 4, "little")], max_trunc=ctx.scale(20, 80))
    for _ in range(ctx.scale(60, 3000)):
        out.append(rng.bytes_(rng.randrange(0, 120)))
    return out

def corr_C05(ctx):
    rng = ctx.rng
    lines = []
    for _ in range(ctx.scale(400, 3000)):
        lines.append(gen.H("PcapFile", pcap_session_history(rng)))
    for _ in range(ctx.scale(500, 3000)):
        lines.append(gen.H("PcapFile", pcap_soup_history(rng, rng.randrange(1, 14))))
    for _ in range(ctx.scale(40, 600)):
        lines.append(gen.H("PcapFile", pcap_zero_session_history(rng)))
    for _ in range(ctx.scale(120, 1500)):
        lines.append(gen.H("PcapFile", pcap_negative_history(rng)))
    for _ in range(ctx.scale(4, 12)):
        lines += pcap_truncation_lines(ctx, rng, ctx.scale(300, 400))
    for shape in EMPTY_SHAPES:                         # empty payloads: last record, and directly before the cut
        lines += pcap_truncation_lines(ctx, rng, 0, shape)
    for n in ([1500, 65535] if ctx.tier == "thorough" else [1500]):
        lines.append(gen.H("PcapFile", ["call open qw", "call write PcapRecord{sec=1,usec=2,payload=%s}" % hexb(rng.bytes_(n)),
                                        "call close", "call open qr", "call readall", "obs"]))
    for b in malformed_pcap_files(ctx, rng)[: ctx.scale(200, 5000)]:
        lines.append(gen.H("PcapFile", ["call setfile " + hexb(b), "call open qr", "obs", "call readall", "call getitem 1"]))
    return lines

def _tmp():
    return tempfile.mkdtemp(prefix="acra-verif-oracle-")

def check_pcap_mixed_access(args):
    """by iteration or by index, in any interleaving on ONE open reader: `p[i]` is record i (None past the end),
    whatever was read before it"""
    import AcraNetwork.Pcap as pcap
    recs = [(s, u, bytes.fromhex(p)) for s, u, p in args["records"]]
    d = _tmp()
    try:
        fn = os.path.join(d, "m.pcap")
        f = pcap.Pcap(fn, mode="w")
        for s, u, p in recs:
            r = pcap.PcapRecord()
            r.sec, r.usec, r.payload = s, u, p
            f.write(r)
        f.close()
        want = [(s, u, len(p), len(p), p) for s, u, p in recs]
        g = pcap.Pcap(fn)
        done = []
        for op in args["ops"]:
            done.append(op)
            if op == "next":
                try:
                    next(g)
                except StopIteration:
                    pass
            else:
                r = g[op]
                exp = want[op] if 0 <= op < len(want) else None
                got = None if r is None else (r.sec, r.usec, r.incl_len, r.orig_len, r.payload)
                if got != exp:
                    return "Pcap[%d] of a %d-record file after the accesses %r returns %s, not record %d" % (
                        op, len(want), done[:-1], "None" if got is None else "another record (sec=%d)" % got[0], op)
        g.close()
    finally:
        shutil.rmtree(d, True)
    return None

def check_pcap_sessions(args):
    """records written in sessions (w, a, a, …) give the standard header followed by the records; reading back by
       iteration and by index returns the same time stamps, lengths and payloads in order"""
    import AcraNetwork.Pcap as pcap
    recs = [(s, u, bytes.fromhex(p)) for s, u, p in args["records"]]
    splits = args["splits"]
    d = _tmp()
    try:
        fn = os.path.join(d, "t.pcap")
        it = iter(recs)
        for si, cnt in enumerate(splits):
            f = pcap.Pcap(fn, mode="w" if si == 0 else "a")
            for _ in range(cnt):
                s, u, p = next(it)
                r = pcap.PcapRecord()
                r.sec, r.usec, r.payload = s, u, p
                f.write(r)
            f.close()
        data = open(fn, "rb").read()
        exp = _spec_bytes(gen.F("spec.Pcap.globalHeader"))
        if exp != bytes.fromhex("d4c3b2a1020004000000000000000000ffff000001000000"):
            return "internal: Spec.Pcap.globalHeader is not the standard libpcap 2.4 header"
        for s, u, p in recs:
            exp += s.to_bytes(4, "little") + u.to_bytes(4, "little") + len(p).to_bytes(4, "little") * 2 + p
        if data != exp:
            return "pcap file written in sessions %r differs from header ++ records at byte %d" % (
                splits, next((i for i, (a, b) in enumerate(zip(data, exp)) if a != b), min(len(data), len(exp))))
        f = pcap.Pcap(fn)
        got = [(r.sec, r.usec, r.incl_len, r.orig_len, r.payload) for r in f]
        want = [(s, u, len(p), len(p), p) for s, u, p in recs]
        if got != want:
            return "reading back %d records written in sessions %r returns %d records / different contents" % (len(recs), splits, len(got))
        for i in list(range(len(recs))) + [len(recs)]:
            r = f[i]
            if i < len(recs):
                if r is None or (r.sec, r.usec, r.incl_len, r.orig_len, r.payload) != want[i]:
                    return "Pcap[%d] differs from the record written" % i
            elif r is not None:
                return "Pcap[%d] of a %d-record file is not None" % (i, len(recs))
        f.close()
    finally:
        shutil.rmtree(d, True)
    return None

def check_pcap_negative_index(args):
    """C05.getitem_negative / getitem_negative_exhausts / getitem_beyond on the real code: pcap[k] for k < 0 and for
       k >= len is None (negative indices do NOT count from the end), the scan leaves the iterator exhausted, index
       access afterwards still returns every record; on a closed object it raises ValueError"""
    import AcraNetwork.Pcap as pcap
    recs = [(s, u, bytes.fromhex(p)) for s, u, p in args["records"]]
    d = _tmp()
    try:
        fn = os.path.join(d, "t.pcap")
        f = pcap.Pcap(fn, mode="w")
        for s, u, p in recs:
            r = pcap.PcapRecord()
            r.sec, r.usec, r.payload = s, u, p
            f.write(r)
        f.close()
        want = [(s, u, len(p), len(p), p) for s, u, p in recs]
        f = pcap.Pcap(fn)
        for k in args["indexes"]:
            st = guarded(lambda: f[k])
            inside = 0 <= k < len(recs)
            if st[0] != "ok":
                return "Pcap[%d] of a %d-record file: %s" % (k, len(recs), st)
            if inside:
                r = st[1]
                if r is None or (r.sec, r.usec, r.incl_len, r.orig_len, r.payload) != want[k]:
                    return "Pcap[%d] differs from the record written" % k
                continue
            if st[1] is not None:
                return "Pcap[%d] of a %d-record file is not None" % (k, len(recs))
            st = guarded(lambda: next(f))
            if st[0] != "err" or st[1] != "stopiteration":
                return "after Pcap[%d] (None) the iterator is not exhausted: next() gave %r" % (k, st)
            for i in range(len(recs)):
                r = f[i]
                if r is None or (r.sec, r.usec, r.incl_len, r.orig_len, r.payload) != want[i]:
                    return "Pcap[%d] after Pcap[%d] differs from the record written" % (i, k)
        f.close()
        st = guarded(lambda: f[-1])
        if st[0] != "err" or st[1] != "value":
            return "Pcap[-1] on a closed object: %r, expected ValueError" % (st,)
    finally:
        shutil.rmtree(d, True)
    return None

def expected_after_truncation(recs, t):
    """the property's statement: every record completely present, then at most one shortened final record"""
    out, pos = [], 24
    for s, u, p in recs:
        if pos + 16 > t:
            break
        if pos + 16 + len(p) <= t:
            out.append((s, u, len(p), len(p), p))
            pos += 16 + len(p)
            continue
        cut = p[: t - pos - 16]
        out.append((s, u, len(cut), len(cut), cut))
        break
    return out

def check_pcap_truncation(args):
    import AcraNetwork.Pcap as pcap
    recs = [(s, u, bytes.fromhex(p)) for s, u, p in args["records"]]
    t = args["t"]
    d = _tmp()
    try:
        fn = os.path.join(d, "t.pcap")
        f = pcap.Pcap(fn, mode="w")
        for s, u, p in recs:
            r = pcap.PcapRecord()
            r.sec, r.usec, r.payload = s, u, p
            f.write(r)
        f.close()
        os.truncate(fn, t)
        st = guarded(lambda: [(r.sec, r.usec, r.incl_len, r.orig_len, r.payload) for r in pcap.Pcap(fn)])
        if st[0] != "ok":
            return "reading a pcap file cut at byte %d: %s" % (t, st)
        want = expected_after_truncation(recs, t)
        if st[1] != want:
            return "pcap file of %d records cut at byte %d: read %d records %r, expected the %d complete ones%s" % (
                len(recs), t, len(st[1]), [len(x[4]) for x in st[1]], len(want), " and a shortened one" if want and want[-1][4] not in [r[2] for r in recs] else "")
    finally:
        shutil.rmtree(d, True)
    return None

def oracles_C05(ctx, hints):
    rng = ctx.rng
    fails, n = [], 0
    k = 4 if getattr(ctx, "search_mode", False) else 1
    for j in range(ctx.scale(150, 1500) * k):
        cnt = j % 7
        recs = [[rng.boundary(32), rng.boundary(32), rng.bytes_(rng.choice([0, 1, 5, 16, 60]) if j % 20 else 65535).hex()] for _ in range(cnt)]
        splits, left = [], cnt
        while True:
            c = rng.randrange(0, left + 1)
            splits.append(c)
            left -= c
            if left == 0 and rng.random() < 0.5:
                break
        splits[-1] += left
        args = {"records": recs, "splits": splits}
        n += 1
        w = check_pcap_sessions(args)
        if w:
            fails.append(Failure("pcap_sessions", args, w, {"class": "Pcap", "check": "write_read"}))
            break
    # any 32-bit sec/usec: every wide literal of the library's own source (magic numbers, sync words, their
    # byte-swapped forms and neighbours) as a time stamp of a record in the middle of a file
    wide = [v for v in rng.dictionary(32) if v >= 0x10000]
    for j in range(0, len(wide), 2):
        vs = wide[j:j + 2]
        recs = [[1, 2, rng.bytes_(5).hex()]]
        for v in vs:
            recs.append([v, rng.boundary(32), rng.bytes_(rng.choice([0, 16, 33])).hex()])
            recs.append([rng.boundary(32), v, rng.bytes_(rng.choice([1, 16])).hex()])
        recs.append([3, 4, rng.bytes_(7).hex()])
        args = {"records": recs, "splits": [len(recs)]}
        n += 1
        w = check_pcap_sessions(args)
        if w:
            fails.append(Failure("pcap_sessions", args, w, {"class": "Pcap", "check": "write_read", "directed": "literal_timestamps"}))
            break
    for j in range(ctx.scale(60, 1500) * k):            # indexing and iteration interleaved on one reader
        cnt = rng.randrange(1, 7)
        recs = [[rng.boundary(32), rng.boundary(32), rng.bytes_(rng.choice([0, 1, 5, 16])).hex()] for _ in range(cnt)]
        ops = [rng.choice(["next", "next", rng.randrange(0, cnt), rng.randrange(0, cnt + 2)]) for _ in range(rng.randrange(2, 9))]
        args = {"records": recs, "ops": ops}
        n += 1
        w = check_pcap_mixed_access(args)
        if w:
            fails.append(Failure("pcap_mixed_access", args, w, {"class": "Pcap", "check": "write_read", "directed": "mixed_access"}))
            break
    for j in range(ctx.scale(40, 600) * k):            # first session writes nothing; empty payloads, also last
        cnt = rng.randrange(0, 5)
        recs = [[rng.boundary(32), rng.boundary(32), rng.bytes_(rng.choice([0, 0, 1, 5])).hex()] for _ in range(cnt)]
        if cnt and j % 2:
            recs[-1][2] = ""
        splits = [0] + [0] * rng.randrange(0, 2)
        left = cnt
        while left:
            c = rng.randrange(0, left + 1)
            splits.append(c)
            left -= c
        args = {"records": recs, "splits": splits}
        n += 1
        w = check_pcap_sessions(args)
        if w:
            fails.append(Failure("pcap_sessions", args, w, {"class": "Pcap", "check": "write_read", "directed": "zero_session"}))
            break
    for j in range(ctx.scale(60, 600) * k):            # negative and far out-of-range indices (review B8)
        cnt = j % 5
        recs = [[rng.boundary(32), rng.boundary(32), rng.bytes_(rng.choice([0, 1, 5, 16])).hex()] for _ in range(cnt)]
        idx = [-1, -cnt, -cnt - 1, cnt, cnt + 1, rng.choice(NEG_INDEXES), rng.randrange(-3, cnt + 3), 1 << 64]
        rng.shuffle(idx)
        args = {"records": recs, "indexes": idx}
        n += 1
        w = check_pcap_negative_index(args)
        if w:
            fails.append(Failure("pcap_negative_index", args, w, {"class": "Pcap", "check": "getitem_negative"}))
            break
    shapes = list(EMPTY_SHAPES)
    for j in range(ctx.scale(6, 60) * k + len(shapes)):
        if j < len(shapes):
            recs = [[rng.boundary(32), rng.boundary(32), rng.bytes_(ln).hex()] for ln in shapes[j]]
        else:
            recs = [[rng.boundary(32), rng.boundary(32), rng.bytes_(rng.choice([0, 1, 5, 16, 30])).hex()] for _ in range(rng.randrange(0, 6))]
        size = 24 + sum(16 + len(r[2]) // 2 for r in recs)
        bad = False
        for t in range(24, size + 1):
            args = {"records": recs, "t": t}
            n += 1
            w = check_pcap_truncation(args)
            if w:
                fails.append(Failure("pcap_truncation", args, w, {"class": "Pcap", "check": "truncation"}))
                bad = True
                break
        if bad:
            break
    ctx.count("oracle_evaluations", n)
    return fails

def corr_C08(ctx):
    rng = ctx.rng
    lines = []
    for b in malformed_pcap_files(ctx, rng):
        lines.append(gen.H("PcapFile", ["call setfile " + hexb(b), "call open qr", "call readall", "obs"]))
    return lines

def check_pcap_iter_total(args):
    """iterating a pcap file with arbitrary contents stops, yields no more records than the file has 16-byte
       headers, and does not allocate out of proportion to the file"""
    import AcraNetwork.Pcap as pcap
    data = bytes.fromhex(args["file"])
    d = _tmp()
    try:
        fn = os.path.join(d, "t.pcap")
        with open(fn, "wb") as f:
            f.write(data)
        def run():
            try:
                p = pcap.Pcap(fn)
            except Exception:
                return 0
            try:
                return sum(1 for _ in p)
            finally:
                p.close()
        tracemalloc.start()
        try:
            st = guarded(run)
            cur, peak = tracemalloc.get_traced_memory()
        finally:
            tracemalloc.stop()
        if st[0] == "timeout":
            return "iterating a %d-byte pcap file did not finish within %d s" % (len(data), core.WATCHDOG_S)
        if st[0] == "err":
            return "iterating a %d-byte pcap file raised %s" % (len(data), st[1])
        if st[1] > len(data) // 16:
            return "iterating a %d-byte pcap file yielded %d records" % (len(data), st[1])
        if peak > 4096 * len(data) + (2 << 20):
            return "iterating a %d-byte pcap file allocated %d bytes (a record header declares incl_len=%s)" % (
                len(data), peak, [int.from_bytes(data[i + 8:i + 12], "little") for i in (24,) if len(data) >= 36])
    finally:
        shutil.rmtree(d, True)
    return None

def oracles_C08(ctx, hints):
    rng = ctx.rng
    fails, n = [], 0
    for b in malformed_pcap_files(ctx, rng):
        args = {"file": b.hex()}
        n += 1
        w = check_pcap_iter_total(args)
        if w:
            tags = {"class": "Pcap", "check": "alloc" if "allocated" in w else "iter_total"}
            fails.append(Failure("pcap_iter_total", args, w, tags))
            break
    ctx.count("oracle_evaluations", n)
    return fails

# =================================================================================== C16
def frag_vals(rng, x, cuts, hdr):
    """IP{…} texts of the fragments of payload x cut at the given offsets (ascending, starting with 0)"""
    out = []
    df = 2 if rng.random() < 0.3 else 0                 # Don't Fragment as captured traffic carries it
    for i, c in enumerate(cuts):
        end = cuts[i + 1] if i + 1 < len(cuts) else len(x)
        h = dict(hdr) if i == 0 else dict(hdr, ttl=rng.boundary(8), dscp=rng.boundary(8), protocol=rng.boundary(8))
        out.append("IP{srcip=%s,dstip=%s,protocol=%d,dscp=%d,id=%d,ttl=%d,flags=%d,fragment_offset=%d,payload=%s}" % (
            h["srcip"], h["dstip"], h["protocol"], h["dscp"], h["id"], h["ttl"], (1 if i + 1 < len(cuts) else 0) | df, c, hexb(x[c:end])))
    return out

def rand_cuts(rng, total, n):
    """n ascending cut offsets, multiples of 8, the first 0, all below `total` (needs total > 8*(n-1))"""
    pts = sorted(rng.sample(range(8, total, 8), n - 1)) if n > 1 else []
    return [0] + pts

def corr_C16(ctx):
    rng = ctx.rng
    lines = []
    for n in range(0, 7):
        total = 8 * n + rng.randrange(0, 30) + 8
        x = rng.bytes_(total)
        hdr = {"srcip": addr(rng), "dstip": addr(rng), "protocol": 17, "dscp": rng.boundary(8), "id": rng.boundary(16), "ttl": rng.boundary(8)}
        fr = frag_vals(rng, x, rand_cuts(rng, total, n), hdr) if n else []
        for perm in itertools.permutations(fr):
            lines.append(gen.F("combine_ip_fragments", "[" + ";".join(perm) + "]"))
    for _ in range(ctx.scale(300, 2000)):
        n = rng.randrange(1, 12)
        total = 8 * n + rng.randrange(0, 60) + 8
        x = rng.bytes_(total)
        hdr = {"srcip": addr(rng), "dstip": addr(rng), "protocol": 17, "dscp": rng.boundary(8), "id": rng.boundary(16), "ttl": rng.boundary(8)}
        fr = frag_vals(rng, x, rand_cuts(rng, total, n), hdr)
        rng.shuffle(fr)
        c = rng.random()
        if c < 0.15:                                   # duplicate offsets: the stable sort decides
            fr.append(rng.choice(fr).replace("payload=x", "payload=xee"))
            rng.shuffle(fr)
        elif c < 0.3:                                  # refused: differing identification
            i = rng.randrange(len(fr))
            fr[i] = fr[i].replace("id=%d," % hdr["id"], "id=%d," % ((hdr["id"] + 1) % 65536))
        elif c < 0.4:                                  # refused: not an IP object
            fr.insert(rng.randrange(len(fr) + 1), rng.choice(["5", "None", "x00", "UDP{srcport=1}", "[]"]))
        lines.append(gen.F("combine_ip_fragments", "[" + ";".join(fr) + "]"))
    return lines

def check_reassembly(args):
    """fragments of x cut at 8-byte multiples, in any order, reassemble to x with the first fragment's header
       fields and cleared fragmentation fields; built as objects or by decoding their encodings"""
    import AcraNetwork.SimpleEthernet as se
    x, cuts, perm, hdr = bytes.fromhex(args["x"]), args["cuts"], args["perm"], args["hdr"]
    frags = []
    for i, c in enumerate(cuts):
        end = cuts[i + 1] if i + 1 < len(cuts) else len(x)
        p = se.IP()
        p.srcip, p.dstip, p.protocol, p.dscp, p.id, p.ttl = hdr["srcip"], hdr["dstip"], hdr["protocol"], hdr["dscp"], hdr["id"], hdr["ttl"]
        if i > 0 and args.get("vary"):
            p.ttl, p.dscp = (hdr["ttl"] + i) % 256, (hdr["dscp"] + i) % 256
        p.flags = (1 if i + 1 < len(cuts) else 0) | (2 if args.get("df") else 0)     # MF, and DF as captured traffic has it
        p.fragment_offset = c
        # `mutable`: the payloads are bytearrays (fragments decoded from a receive buffer): still the caller's objects
        p.payload = bytearray(x[c:end]) if args.get("mutable") else x[c:end]
        if args.get("via_bytes"):
            q = se.IP()
            q.unpack(p.pack())
            p = q
        frags.append(p)
    before = [(f.fragment_offset, f.flags, bytes(f.payload)) for f in frags]
    got = se.combine_ip_fragments([frags[i] for i in perm])
    if args.get("twice"):
        # the same fragment objects reassembled again (another arrival order): the function may not have changed them
        if [(f.fragment_offset, f.flags, bytes(f.payload)) for f in frags] != before:
            return "combine_ip_fragments changed the fragments it was given (%d fragments, cuts %r)" % (len(cuts), cuts)
        got = se.combine_ip_fragments([frags[i] for i in reversed(perm)])
    if got.payload != x:
        return "reassembly of %d fragments (cuts %r) in order %r returns a %d-byte payload that is not the original %d bytes" % (
            len(cuts), cuts, perm, len(got.payload), len(x))
    first = frags[0]
    for a in ("srcip", "dstip", "protocol", "version", "ihl", "dscp", "id", "ttl"):
        if getattr(got, a) != getattr(first, a):
            return "reassembly in order %r takes %s from a fragment other than the first (%r, first has %r)" % (perm, a, getattr(got, a), getattr(first, a))
    if got.flags != 0 or got.fragment_offset != 0:
        return "reassembled packet keeps fragmentation fields flags=%r offset=%r" % (got.flags, got.fragment_offset)
    return None

def check_reassembly_refuses(args):
    import AcraNetwork.SimpleEthernet as se
    ids, foreign = args["ids"], args.get("foreign")
    pk = []
    for i, ident in enumerate(ids):
        p = se.IP()
        p.id, p.fragment_offset, p.payload = ident, 8 * i, bytes(8)
        pk.append(p)
    if foreign is not None:
        kind = args.get("foreign_kind", "udp")
        pk.insert(foreign, {"udp": se.UDP(), "eth": se.Ethernet(), "bytes": b"\x45" * 20, "none": None, "int": 5}[kind])
    if args.get("only_foreign"):
        pk = [pk[foreign]]
    try:
        se.combine_ip_fragments(pk)
    except Exception:
        return None
    return "combine_ip_fragments accepted identifications %r%s" % (ids, " and a non-IP element" if foreign is not None else "")

def oracles_C16(ctx, hints):
    rng = ctx.rng
    fails, n = [], 0
    k = 4 if getattr(ctx, "search_mode", False) else 1
    bad = False
    for cnt in range(1, 7):
        if bad:
            break
        total = 8 * cnt + rng.randrange(0, 40)
        x = rng.bytes_(total)
        cuts = rand_cuts(rng, total, cnt)
        hdr = {"srcip": addr(rng)[1:], "dstip": addr(rng)[1:], "protocol": rng.boundary(8), "dscp": rng.boundary(8), "id": rng.boundary(16), "ttl": rng.boundary(8)}
        for perm in itertools.permutations(range(cnt)):
            args = {"x": x.hex(), "cuts": cuts, "perm": list(perm), "hdr": hdr, "vary": True, "via_bytes": bool(len(perm) % 2),
                    "df": n % 3 == 0}
            n += 1
            w = check_reassembly(args)
            if w:
                fails.append(Failure("reassembly", args, w, {"class": "combine_ip_fragments", "check": "order"}))
                bad = True
                break
    for _ in range(ctx.scale(200, 5000) * k):
        if bad:
            break
        cnt = rng.randrange(1, 40)
        total = 8 * cnt + rng.randrange(0, 200) + 8
        x = rng.bytes_(total)
        cuts = rand_cuts(rng, total, cnt)
        perm = list(range(cnt))
        rng.shuffle(perm)
        hdr = {"srcip": addr(rng)[1:], "dstip": addr(rng)[1:], "protocol": rng.boundary(8), "dscp": rng.boundary(8), "id": rng.boundary(16), "ttl": rng.boundary(8)}
        args = {"x": x.hex(), "cuts": cuts, "perm": perm, "hdr": hdr, "vary": True, "via_bytes": rng.random() < 0.5,
                "df": rng.random() < 0.3}
        if rng.random() < 0.25:
            args.update({"via_bytes": False, "mutable": True, "twice": True})
        n += 1
        w = check_reassembly(args)
        if w:
            fails.append(Failure("reassembly", args, w, {"class": "combine_ip_fragments", "check": "order"}))
            bad = True
    # real datagram sizes: MTU-sized fragments of datagrams up to the IPv4 maximum (fragment offsets beyond 8191 bytes,
    # i.e. beyond what 13 bits hold when the byte offset is mistaken for the field value; 65515 = 65535 - 20)
    for total in (1481, 8184, 8192, 8200, 9000, 20000, 65507, 65515) + tuple(rng.randrange(8192, 65515) for _ in range(ctx.scale(2, 40))):
        if bad:
            break
        cuts = list(range(0, total, 1480))
        perm = list(range(len(cuts)))
        rng.shuffle(perm)
        hdr = {"srcip": addr(rng)[1:], "dstip": addr(rng)[1:], "protocol": 17, "dscp": 0, "id": rng.boundary(16), "ttl": 64}
        args = {"x": rng._raw(total).hex(), "cuts": cuts, "perm": perm, "hdr": hdr, "vary": False, "via_bytes": total % 2 == 1,
                "df": False, "twice": True, "mutable": total % 3 == 0 and total % 2 == 0}
        n += 1
        w = check_reassembly(args)
        if w:
            fails.append(Failure("reassembly", args, w, {"class": "combine_ip_fragments", "check": "order", "directed": "large_datagram"}))
            bad = True
    for _ in range(ctx.scale(40, 500)):
        cnt = rng.randrange(2, 6)
        base = rng.choice([0, 0, 1, 7, 0xFFFF, rng.getrandbits(16)])      # identification 0 is falsy in Python
        ids = [base] * cnt
        foreign = None
        if rng.random() < 0.6:
            ids[rng.randrange(0, cnt)] = rng.choice([x for x in (0, 1, 8, base ^ 1, 0xFFFF) if x != base])
        else:
            foreign = rng.randrange(0, cnt + 1)
        args = {"ids": ids, "foreign": foreign}
        if foreign is not None:
            args["foreign_kind"] = rng.choice(["udp", "eth", "bytes", "none", "int"])
            args["only_foreign"] = rng.random() < 0.3        # a one-element list holding a non-IP object
        n += 1
        w = check_reassembly_refuses(args)
        if w:
            fails.append(Failure("reassembly_refuses", args, w, {"class": "combine_ip_fragments", "check": "refuses"}))
            break
    ctx.count("oracle_evaluations", n)
    return fails

# =================================================================================== C09
def corr_C09(ctx):
    rng = ctx.rng
    lines = []
    for n in range(0, 30):
        for cls in ("IP", "UDP", "PcapRecord", "ARP", "Ethernet", "EthernetFCS"):
            lines.append(gen.H(cls, ["unpack " + hexb(rng.bytes_(n)), "obs"]))
    for _ in range(ctx.scale(10, 200)):
        b = _impl_bytes(gen.H("IP", gen.sets(ip_valid(rng)) + ["pack"]))
        for (off, size, order) in [(2, 2, "big")]:
            real = int.from_bytes(b[off:off + size], order)
            for v in (0, 19, 20, 21, real - 1, real + 1, 65535):
                if 0 <= v <= 65535:
                    lines.append(gen.H("IP", ["unpack " + hexb(b[:off] + v.to_bytes(2, "big") + b[off + 2:]), "obs"]))
        for d in (-2, -1, 1, 2):
            lines.append(gen.H("IP", ["unpack " + hexb(b[:len(b) + d] if d < 0 else b + bytes(d)), "obs"]))
    return lines

SHORT = {"IP": 20, "UDP": 8, "ARP": 28}

def check_short_exact(args):
    """IP / UDP / ARP accept a buffer exactly when it holds a whole header; PcapRecord exactly 16 bytes;
       an accepted UDP payload is everything after the header, an accepted IP payload buf[20:total length]"""
    cls, b = args["cls"], bytes.fromhex(args["buf"])
    a = ADAPTERS[cls]
    o = a.ctor()
    try:
        a.unpack(o, b)
        ok = True
    except Exception:
        ok = False
    should = (len(b) == 16) if cls == "PcapRecord" else len(b) >= SHORT[cls]
    if ok != should:
        return "%s.unpack %s a %d-byte buffer" % (cls, "accepted" if ok else "rejected", len(b))
    if ok and cls == "UDP" and o.payload != b[8:]:
        return "UDP.unpack returned a payload that is not the bytes after the header"
    if ok and cls == "IP" and o.payload != b[20:int.from_bytes(b[2:4], "big")]:
        return "IP.unpack returned a payload that is not buf[20:total length]"
    return None

def oracles_C09(ctx, hints):
    rng = ctx.rng
    fails, n = [], 0
    seen = set()
    for cls in ("IP", "UDP", "ARP", "PcapRecord"):
        for ln in list(range(0, 40)) + [rng.randrange(40, 2000) for _ in range(ctx.scale(5, 200))]:
            args = {"cls": cls, "buf": rng.bytes_(ln).hex()}
            n += 1
            w = check_short_exact(args)
            if w and cls not in seen:
                seen.add(cls)
                fails.append(Failure("short_exact", args, w, {"class": cls, "check": "accept_exact"}))
    ctx.count("oracle_evaluations", n)
    return fails

ORACLES = {
    "eth_layout": check_eth_layout, "ip_layout": check_ip_layout, "ip_reencode": check_ip_reencode,
    "ip_reencode_shared": check_ip_reencode_shared, "eth_type_roundtrip": check_eth_type_roundtrip,
    "pcap_mixed_access": check_pcap_mixed_access,
    "udp_layout": check_udp_layout, "arp_layout": check_arp_layout, "rec_layout": check_rec_layout, "stack": check_stack,
    "ipv4_checksum": check_ipv4_checksum, "icmp_checksum": check_icmp_checksum, "igmp_join": check_igmp_join,
    "igmp_query": check_igmp_query, "eth_fcs": check_eth_fcs, "wire_verifies": check_wire_verifies, "stack_file": check_stack_file,
    "pcap_sessions": check_pcap_sessions, "pcap_truncation": check_pcap_truncation,
    "pcap_negative_index": check_pcap_negative_index, "pcap_iter_total": check_pcap_iter_total,
    "reassembly": check_reassembly, "reassembly_refuses": check_reassembly_refuses,
    "short_exact": check_short_exact,
}
