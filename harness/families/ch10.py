"""Family: IRIG 106 Chapter 10 UDP transfer header, Chapter 11 packet header (+ PTPTime, RTCTime, the two
arithmetic checksums), Chapter 10 files (FileParser) and the deprecated AcraNetwork.Chapter10 namespace.

Properties served: C03, C07 (Chapter 11 part), C08, C09, C12, C13, C14 (through CLASSGEN), C15 (PTP / RTC /
pinksheet part), C19."""
import os, json, tempfile
from ..core import hexb, run_line_impl, run_driver, SPECDRIVER, ADAPTERS, guarded, parse_val
from .. import core
from ..runner import Failure
from .. import gen
from ..gen import ClassGen

def _spec(lines):
    return run_driver(lines, exe=SPECDRIVER)

def _wt(w, default):
    """(what, tags) of an oracle result: the replayable checks return a pair, but the watchdog wrapper of
    harness/families/__init__.py returns a plain string when the check itself raised or timed out"""
    if isinstance(w, (tuple, list)) and len(w) == 2:
        return w[0], w[1]
    return str(w), default

def _first(fails, f):
    """keep one failure per distinct tag set"""
    key = json.dumps(f.tags, sort_keys=True)
    if key not in [json.dumps(x.tags, sort_keys=True) for x in fails]:
        fails.append(f)

# =================================================================================== Chapter10UDP
UDP_SEQ_BITS = {0: 32, 1: 28, 2: 24, 3: 20, 4: 16}

def _plen(rng):
    return rng.choice([0, 1, 2, 3, 4, 5, 6, 7, 8, 11, 12, 13, 16, 31, 64])

def udp_fields(rng, fmt=None, k1=False):
    """a well-formed Chapter10UDP object of the given format as a dict field -> int/bytes/None.
    Only the fields the format carries are set (the others stay at their defaults).  Format 2: unless
    `k1`, sequence bits 19..16 avoid the values 1 and 3 (known finding K1: such a header is decoded as
    format 1 / 3)."""
    fmt = fmt or rng.choice([1, 2, 3])
    if fmt == 1:
        f = {"version": 1, "type": rng.choice([0, 0, 0, 2, 7, 15]), "sequence": rng.boundary(24)}
    elif fmt == 2:
        seq = rng.boundary(24)
        if not k1:
            while (seq >> 16) & 0xF in (1, 3):
                seq = rng.boundary(24)
        f = {"version": 2, "type": rng.boundary(4), "sequence": seq, "segmentoffset": rng.boundary(24),
             "channelID": rng.boundary(16)}
    else:
        n = rng.randrange(0, 5)
        f = {"version": 3, "sourceid_len": n, "sourceid": rng.boundary(4 * n) if n else 0,
             "sequence": rng.boundary(UDP_SEQ_BITS[n]), "offset_pkt_start": rng.boundary(16)}
    f["payload"] = rng.bytes_(_plen(rng))
    return f

def _txt(v):
    if isinstance(v, (bytes, bytearray)):
        return hexb(v)
    if v is None:
        return "None"
    if v is True or v is False:
        return str(v)
    if isinstance(v, dict):           # PTPTime
        return "PTPTime{seconds=%d,nanoseconds=%d}" % (v["seconds"], v["nanoseconds"])
    return str(v)

def _sets(f):
    return gen.sets({k: _txt(v) for k, v in f.items()})

def udp_valid(rng):
    return {k: _txt(v) for k, v in udp_fields(rng).items()}

def udp_alt(rng, k, cur):
    if k == "payload":
        b = bytes.fromhex(cur[1:])
        return hexb(b + b"\x01") if rng.random() < 0.5 or not b else hexb(bytes([b[0] ^ 1]) + b[1:])
    if k == "version":
        return None
    if k == "sourceid_len":
        return None
    if cur == "None":
        return "0"
    return str(int(cur) ^ 1)

def fmt3_sweep(rng):
    """every source-id length 0..4 x source ids over the full width (0, 1, max, high nibble only, low nibble
    only, alternating patterns such as 0x5a5) x sequence numbers over the complementary width"""
    out = []
    for n in range(0, 5):
        w, sb = 4 * n, 32 - 4 * n
        m = (1 << w) - 1
        sids = [0] if n == 0 else sorted(set([0, 1, m, m - 1, 0xF << (w - 4), 0xF, 0x5A5A & m, 0xA5A5 & m, 1 << (w - 1)]))
        sm = (1 << sb) - 1
        seqs = sorted(set([0, 1, sm, sm - 1, 1 << (sb - 1), 0xF << (sb - 4), 0x5A5A5A5A & sm, 0xA5A5A5A5 & sm, rng.getrandbits(sb)]))
        for sid in sids:
            for seq in seqs:
                out.append({"version": 3, "sourceid_len": n, "sourceid": sid, "sequence": seq,
                            "offset_pkt_start": rng.boundary(16), "payload": rng.bytes_(rng.randrange(0, 6))})
    return out

def udp_lines(ctx):
    rng = ctx.rng
    L = []
    for f in fmt3_sweep(rng):
        L.append(gen.H("Chapter10UDP", _sets(f) + ["pack", "obs"]))
    # every payload length 0..40 for each format, plus big ones
    big = [1400, 1401, 1402, 1403] + [rng.randrange(41, ctx.scale(2000, 9000)) for _ in range(ctx.scale(3, 40))]
    for fmt in (1, 2, 3):
        for n in list(range(0, 41)) + big:
            f = udp_fields(rng, fmt, k1=True)
            f["payload"] = rng.bytes_(n)
            L.append(gen.H("Chapter10UDP", _sets(f) + ["pack", "obs"]))
    # format 2: every value of sequence bits 19..16
    for nib in range(16):
        for _ in range(2):
            f = udp_fields(rng, 2, k1=True)
            f["sequence"] = (f["sequence"] & 0xF0FFFF) | (nib << 16)
            L.append(gen.H("Chapter10UDP", _sets(f) + ["pack", "obs"]))
    # format 3: every source-id length (5, 6, 15, 16 are invalid), extreme source ids / sequences
    for n in (0, 1, 2, 3, 4, 5, 6, 15, 16):
        for sid in (0, 1, (1 << (4 * min(n, 4))) - 1 if n else 0, 1 << (4 * min(n, 4))):
            for seq in (0, 1, (1 << UDP_SEQ_BITS.get(n, 16)) - 1, 1 << UDP_SEQ_BITS.get(n, 16), 0xFFFFFFFF, 1 << 32):
                f = {"version": 3, "sourceid_len": n, "sourceid": sid, "sequence": seq,
                     "offset_pkt_start": rng.boundary(16), "payload": rng.bytes_(3)}
                L.append(gen.H("Chapter10UDP", _sets(f) + ["pack", "obs"]))
    L.append(gen.H("Chapter10UDP", ["set version 3", "pack", "obs"]))            # offset_pkt_start is None
    L.append(gen.H("Chapter10UDP", ["set format 3", "set offset_pkt_start 65536", "pack"]))
    # each field over its boundaries, one at a time, per format (the last value does not fit)
    widths = {1: [("type", 4), ("sequence", 24)],
              2: [("type", 4), ("sequence", 24), ("segmentoffset", 24), ("channelID", 16)],
              3: [("offset_pkt_start", 16), ("sequence", 32)]}
    for fmt, ws in widths.items():
        for k, b in ws:
            for v in (0, 1, (1 << b) - 1, 1 << (b - 1), 1 << b, (1 << b) + 1):
                f = udp_fields(rng, fmt)
                f[k] = v
                L.append(gen.H("Chapter10UDP", _sets(f) + ["pack", "obs"]))
    # format 1 segmented (encode only) and its fields; unpack of it raises
    for _ in range(ctx.scale(12, 200)):
        f = {"version": 1, "type": 1, "sequence": rng.boundary(24), "channelID": rng.boundary(16),
             "channelsequence": rng.boundary(8), "segmentoffset": rng.boundary(32), "payload": rng.bytes_(_plen(rng))}
        L.append(gen.H("Chapter10UDP", _sets(f) + ["pack", "obs"]))
    for k, b in (("channelID", 16), ("channelsequence", 8), ("segmentoffset", 32)):
        f = {"version": 1, "type": 1, k: 1 << b}
        L.append(gen.H("Chapter10UDP", _sets(f) + ["pack"]))
    # versions other than 1, 2, 3; packetsize preset; format alias
    for v in (0, 4, 5, 15, 16, 255, 256):
        L.append(gen.H("Chapter10UDP", ["set version %d" % v, "set sequence 66051", "set payload x0a0b", "pack", "obs"]))
    L.append(gen.H("Chapter10UDP", ["set format 2", "set packetsize 77", "set payload x0102030405", "obs", "pack", "obs"]))
    # big payload in format 2 so that packetsize needs its upper byte is out of reach (2^18 bytes); skip
    return L

def udp_unpack_lines(ctx, packed):
    """decode side: valid packets decoded into a fresh object and re-encoded; malformed mutants; raw bytes"""
    rng = ctx.rng
    L = []
    for b in packed:
        L.append(gen.H("Chapter10UDP", ["unpack " + hexb(b), "obs", "pack", "obs"]))
    for b in packed[:: max(1, len(packed) // ctx.scale(12, 120))]:
        for m in gen.malformed(rng, b, [(5, 3, "big")], max_trunc=14):
            L.append(gen.H("Chapter10UDP", ["unpack " + hexb(m), "obs"]))
    for b0 in range(256):                          # every first byte, at lengths around each format's minimum
        for n in (3, 4, 7, 8, 11, 12, 13):
            L.append(gen.H("Chapter10UDP", ["unpack " + hexb(bytes([b0]) + rng.bytes_(n - 1)), "obs"]))
    for n in range(0, 14):
        for _ in range(ctx.scale(4, 100)):
            L.append(gen.H("Chapter10UDP", ["unpack " + hexb(rng.bytes_(n)), "obs"]))
    return L

def _packed_of(lines):
    out = []
    for l in lines:
        a = run_line_impl(l)
        for p in a.split("|"):
            if p.startswith("ok:x"):
                out.append(bytes.fromhex(p[4:]))
    return out

def check_udp_layout(args):
    """pack() equals the IRIG 106 layout of the object's format; unpack(pack()) returns the same field
    values; re-encoding the decoded header reproduces the bytes"""
    import AcraNetwork.IRIG106.Chapter10.Chapter10UDP as udp
    f = dict(args["fields"])
    p = bytes.fromhex(args["payload"])
    fmt = f["version"]
    o = udp.Chapter10UDP()
    for k, v in f.items():
        setattr(o, k, v)
    o.payload = p
    tags = {"class": "Chapter10UDP", "format": fmt}
    st = guarded(lambda: o.pack())
    if st[0] != "ok":
        return ("Chapter10UDP.pack raised (%s) on a well-formed format-%d header %r" % (st[1], fmt, f), dict(tags, check="layout"))
    b = st[1]
    if fmt == 1 and f.get("type", 0) == 1:
        line = gen.F("spec.Ch10UDP.fmt1seg", str(f["sequence"]), str(f["channelID"]), str(f["channelsequence"]),
                     str(f["segmentoffset"]), hexb(p))
    elif fmt == 1:
        line = gen.F("spec.Ch10UDP.fmt1", str(f["type"]), str(f["sequence"]), hexb(p))
    elif fmt == 2:
        line = gen.F("spec.Ch10UDP.fmt2", str(f["type"]), str(f["sequence"]), str(f["segmentoffset"]),
                     str(f["channelID"]), hexb(p))
    else:
        line = gen.F("spec.Ch10UDP.fmt3", str(f["sourceid_len"]), str(f["sourceid"]), str(f["sequence"]),
                     str(f["offset_pkt_start"]), hexb(p))
    exp = _spec([line])[0]
    if exp != "ok:" + hexb(b):
        return ("Chapter10UDP.pack (format %d) emits %s but the IRIG 106 layout of %r is %s" % (fmt, hexb(b), f, exp),
                dict(tags, check="layout"))
    if fmt == 1 and f.get("type", 0) == 1:
        return None                                 # segmented format 1 is encode-only in the library
    q = udp.Chapter10UDP()
    st = guarded(lambda: q.unpack(b))
    rt = dict(tags, check="roundtrip")
    if fmt == 2:
        nib = (f["sequence"] >> 16) & 0xF
        if nib in (1, 3):
            rt["seq_nibble"] = nib
    if st[0] != "ok":
        return ("Chapter10UDP.unpack raised (%s) on the encoding %s of a well-formed format-%d header %r" % (st[1], hexb(b), fmt, f), rt)
    for k, v in list(f.items()) + [("payload", p)]:
        if getattr(q, k) != v:
            return ("Chapter10UDP format-%d round trip changes %s: %r -> %r (decoded as format %r from %s)" % (
                fmt, k, v, getattr(q, k), q.format, hexb(b[:12])), rt)
    if fmt == 2 and q.packetsize != len(p) // 4:
        return ("Chapter10UDP format-2 packet size %r is not the payload length in 32-bit words" % (q.packetsize,), rt)
    st = guarded(lambda: q.pack())
    if st[0] != "ok" or st[1] != b:
        return ("Chapter10UDP: re-encoding the decoded format-%d header differs" % fmt, rt)
    return None

def udp_oracle_cases(ctx):
    rng = ctx.rng
    n = ctx.scale(150, 6000) * (3 if getattr(ctx, "search_mode", False) else 1)
    for i in range(n):
        fmt = (1, 2, 3)[i % 3]
        f = udp_fields(rng, fmt, k1=True)
        p = f.pop("payload")
        if i % 11 == 0:
            p = rng.bytes_(rng.randrange(0, ctx.scale(600, 9000)))
        yield {"fields": f, "payload": p.hex()}
    for nib in range(16):                            # every value of the ambiguous nibble
        f = udp_fields(rng, 2, k1=True)
        f["sequence"] = (f["sequence"] & 0xF0FFFF) | (nib << 16)
        p = f.pop("payload")
        yield {"fields": f, "payload": p.hex()}
    for f in fmt3_sweep(rng):                        # every source-id length, ids / sequences over the full widths
        p = f.pop("payload")
        yield {"fields": f, "payload": p.hex()}
    for _ in range(ctx.scale(20, 400)):              # segmented format 1, encode side
        f = {"version": 1, "type": 1, "sequence": rng.boundary(24), "channelID": rng.boundary(16),
             "channelsequence": rng.boundary(8), "segmentoffset": rng.boundary(32)}
        yield {"fields": f, "payload": rng.bytes_(_plen(rng)).hex()}

# =================================================================================== Chapter11
CH11_HDR = [("channelID", 16), ("datatypeversion", 8), ("sequence", 8), ("datatype", 8), ("relativetimecounter", 48)]

def legal_flag(rng, secondary=None):
    if secondary is None:
        secondary = rng.random() < 0.5
    if secondary:
        return 0x80 | 0x04 | (rng.getrandbits(4) << 4 & 0x70) | rng.getrandbits(2)
    return rng.getrandbits(7)

def ch11_fields(rng, secondary=None, n=None):
    f = {k: rng.boundary(b) for k, b in CH11_HDR}
    if rng.random() < 0.2:
        f["syncpattern"] = rng.boundary(16)
    f["packetflag"] = legal_flag(rng, secondary)
    if f["packetflag"] & 0x80:
        f["ptptime"] = {"seconds": rng.boundary(32), "nanoseconds": rng.boundary(32)}
    f["payload"] = rng.bytes_(_plen(rng) if n is None else n)
    return f

def ch11_valid(rng):
    return {k: _txt(v) for k, v in ch11_fields(rng).items()}

def ch11_alt(rng, k, cur):
    if k == "payload":
        b = bytes.fromhex(cur[1:])
        return hexb(b + b"\x01\x02\x03\x04") if rng.random() < 0.5 or not b else hexb(bytes([b[0] ^ 1]) + b[1:])
    if k == "packetflag":
        return str(int(cur) ^ rng.choice([1, 2, 0x10, 0x20, 0x40]))
    if k == "ptptime":
        v = parse_val(cur)
        d = dict(v.fields)
        if rng.random() < 0.5:
            d["seconds"] ^= 1
        else:
            d["nanoseconds"] ^= 1
        return "PTPTime{seconds=%d,nanoseconds=%d}" % (d["seconds"], d["nanoseconds"])
    return str(int(cur) ^ 1)

def ch11_lines(ctx, cls="Chapter11"):
    rng = ctx.rng
    L = []
    big = [1400, 1401, 1402, 1403] + [rng.randrange(41, ctx.scale(3000, 9000)) for _ in range(ctx.scale(4, 40))]
    for sec in (False, True):
        for n in list(range(0, 41)) + big:
            L.append(gen.H(cls, _sets(ch11_fields(rng, sec, n)) + ["pack", "obs"]))
    # each header field over its boundaries (the last two values do not fit)
    for k, b in CH11_HDR + [("syncpattern", 16)]:
        for v in (0, 1, (1 << b) - 1, 1 << (b - 1), 1 << b, (1 << b) + 5):
            f = ch11_fields(rng, False, 5)
            f[k] = v
            L.append(gen.H(cls, _sets(f) + ["pack", "obs"]))
    for k in ("seconds", "nanoseconds"):
        for v in (0, 1, (1 << 32) - 1, 1 << 32):
            f = ch11_fields(rng, True, 6)
            f["ptptime"][k] = v
            L.append(gen.H(cls, _sets(f) + ["pack", "obs"]))
    # every flag byte through the setter, then pack; values that do not fit a byte
    for v in list(range(256)) + [256, 257, 1 << 16]:
        L.append(gen.H(cls, ["set payload x010203", "set packetflag %d" % v, "obs", "pack", "obs"]))
    # pack looks at has_secondary_header / ts_source, not at the flag
    for hs in ("True", "False"):
        for ts in (0, 1, 2, 3):
            for fl in (0, 0x84, 0x80):
                ops = ["set packetflag %d" % fl, "set has_secondary_header %s" % hs, "set ts_source %d" % ts,
                       "set ptptime PTPTime{seconds=%d,nanoseconds=%d}" % (rng.boundary(32), rng.boundary(32)),
                       "set payload " + hexb(rng.bytes_(rng.randrange(0, 9))), "pack", "obs"]
                L.append(gen.H(cls, ops))
    # data_checksum_size, preset filler / packetlen / datalen (pack overwrites the last three)
    for d in (0, 1, 2, 3, 4, 5):
        for n in range(0, 5):
            L.append(gen.H(cls, ["set data_checksum_size %d" % d, "set payload " + hexb(rng.bytes_(n)),
                                 "set filler x0102", "set packetlen 9", "set datalen 99", "pack", "obs", "pack", "obs"]))
    return L

REPACK_LENGTHS = [1, 4, 0, 3, 8, 2, 5, 0, 7, 6, 12, 9]

def ch11_repack_cases(ctx, cls="Chapter11"):
    """ONE object packed again and again with payload lengths in every residue mod 4 (unaligned, aligned,
    empty, …), with and without the secondary header, other fields changing in between"""
    rng = ctx.rng
    out = []
    for i in range(ctx.scale(8, 300)):
        lens = list(REPACK_LENGTHS) if i < 2 else [rng.randrange(0, 14) for _ in range(rng.randrange(3, 10))]
        steps = []
        for n in lens:
            f = ch11_fields(rng, secondary=(i % 2 == 1) if i < 2 else None, n=n)
            f.pop("syncpattern", None)
            if rng.random() < 0.5 and steps:                # sometimes only the payload changes
                f = {"payload": f["payload"]}
            steps.append(f)
        out.append({"cls": cls, "steps": [{k: (v.hex() if isinstance(v, bytes) else v) for k, v in f.items()} for f in steps]})
    return out

def _unhex_step(f):
    return {k: (bytes.fromhex(v) if k == "payload" else v) for k, v in f.items()}

def ch11_repack_lines(ctx, cls="Chapter11"):
    L = []
    for c in ch11_repack_cases(ctx, cls):
        ops = []
        for f in c["steps"]:
            ops += _sets(_unhex_step(f)) + ["pack", "obs"]
        L.append(gen.H(cls, ops))
        # the same after decoding something first (filler / payload / ptptime left by unpack)
        L.append(gen.H(cls, ["unpack x25eb0100200000000500000005070084" + "00" * 8 + "0102030405060708090a0b0c" + "aabbccddee" + "ffffff"] + ops))
    return L

def check_ch11_repack(args):
    """every pack() of a re-used object: length a multiple of four, packetlen = the real length, datalen = the
    payload length, bytes = header ++ secondary header ++ payload ++ filler with the filler recomputed"""
    cls = args.get("cls", "Chapter11")
    import AcraNetwork.IRIG106.Chapter11 as ch11
    o = ADAPTERS[cls].ctor()
    cur = {"syncpattern": 0xEB25, "channelID": 0, "datatypeversion": o.datatypeversion, "sequence": 0, "packetflag": 0,
           "datatype": 0, "relativetimecounter": 0, "ptptime": {"seconds": 0, "nanoseconds": 0}, "payload": b""}
    for i, f in enumerate(args["steps"]):
        f = _unhex_step(f)
        for k, v in f.items():
            if k == "ptptime":
                o.ptptime = ch11.PTPTime(v["seconds"], v["nanoseconds"])
            else:
                setattr(o, k, v)
            cur[k] = v
        st = guarded(lambda: o.pack())
        if st[0] != "ok":
            return "%s.pack #%d of a re-used object raised (%s)" % (cls, i + 1, st[1])
        b, p = st[1], cur["payload"]
        sec = bool(cur["packetflag"] & 0x80)
        exp = _spec([gen.F("spec.Ch11.encode", str(cur["syncpattern"]), str(cur["channelID"]), str(cur["datatypeversion"]),
                           str(cur["sequence"]), str(cur["packetflag"]), str(cur["datatype"]), str(cur["relativetimecounter"]),
                           "[%d;%d]" % (cur["ptptime"]["seconds"], cur["ptptime"]["nanoseconds"]) if sec else "None", hexb(p))])[0]
        hl = 36 if sec else 24
        k = len(b) - hl - len(p)
        if len(b) % 4 or o.packetlen != len(b) or int.from_bytes(b[4:8], "little") != len(b) or o.datalen != len(p) \
                or b[hl:hl + len(p)] != p or not (0 <= k < 4) or b[hl + len(p):] != b"\xff" * k or o.filler != b"\xff" * k \
                or exp != "ok:" + hexb(b):
            return ("%s.pack #%d of a re-used object (payload lengths so far %s) emits %s (packetlen=%d datalen=%d filler=%s); "
                    "the Chapter 11 layout is %s" % (cls, i + 1, [len(_unhex_step(g).get("payload", b"")) for g in args["steps"][:i + 1]],
                                                   hexb(b), o.packetlen, o.datalen, hexb(o.filler), exp))
    return None

def ch11_unpack_lines(ctx, packed, cls="Chapter11"):
    rng = ctx.rng
    L = []
    for b in packed:
        L.append(gen.H(cls, ["unpack " + hexb(b), "obs", "pack", "obs"]))
    step = max(1, len(packed) // ctx.scale(10, 100))
    for b in packed[::step]:
        for m in gen.malformed(rng, b, [(4, 4, "little"), (8, 4, "little")], max_trunc=40):
            L.append(gen.H(cls, ["unpack " + hexb(m), "obs"]))
    # every flag byte in a decodable packet, with and without room for the secondary header
    base = rng.bytes_(14)
    for v in range(256):
        for n in (24, 35, 36, 41):
            b = (b"\x25\xeb" + base[2:14] + bytes([v]) + rng.bytes_(n))[:n]
            L.append(gen.H(cls, ["unpack " + hexb(b), "obs", "pack", "obs"]))
    for n in list(range(0, 40)):
        for _ in range(ctx.scale(2, 50)):
            L.append(gen.H(cls, ["unpack " + hexb(rng.bytes_(n)), "obs"]))
    return L

def _ch11_obj(cls, f, p):
    import AcraNetwork.IRIG106.Chapter11 as ch11
    o = ADAPTERS[cls].ctor()
    # `_order` (a permutation seed): the attributes are plain data, so the order in which a caller assigns them —
    # payload before or after the flags, the time stamp first or last — must not matter
    keys = [k for k in f if k not in ("_via_decode", "_order", "_legacy")] + ["payload"]
    if f.get("_order") is not None:
        core.Rng(f["_order"]).shuffle(keys)
    for k in keys:
        if k == "payload":
            o.payload = p
        elif k == "ptptime":
            v = f[k]
            o.ptptime = ch11.PTPTime(v["seconds"], v["nanoseconds"])
        else:
            setattr(o, k, f[k])
    if f.get("_via_decode"):
        # the object a reader would hold: decoded from the packet's own bytes (checksum / time-format flag bits
        # and all), then handed to a writer
        q = ADAPTERS[cls].ctor()
        q.unpack(o.pack())
        return q
    return o

def check_ch11_layout(args):
    """pack() equals the Chapter 11 layout; its length is a multiple of four, the packet-length field is the
    real length, the data-length field is the payload length; unpack(pack()) returns the same field values
    and the original payload followed only by 0xFF filler (fewer than four bytes)"""
    cls = args.get("cls", "Chapter11")
    f = dict(args["fields"])
    p = bytes.fromhex(args["payload"])
    tags = {"class": cls}
    o = _ch11_obj(cls, f, p)
    st = guarded(lambda: o.pack())
    if st[0] != "ok":
        return ("%s.pack raised (%s) on a well-formed packet %r" % (cls, st[1], f), dict(tags, check="layout"))
    b = st[1]
    ptp = f.get("ptptime")
    sec = bool(f["packetflag"] & 0x80)
    exp = _spec([gen.F("spec.Ch11.encode", str(f.get("syncpattern", 0xEB25)), str(f["channelID"]), str(f["datatypeversion"]),
                       str(f["sequence"]), str(f["packetflag"]), str(f["datatype"]), str(f["relativetimecounter"]),
                       "[%d;%d]" % (ptp["seconds"], ptp["nanoseconds"]) if sec else "None", hexb(p))])[0]
    if exp != "ok:" + hexb(b):
        return ("%s.pack emits %s but the Chapter 11 layout of %r with a %d-byte payload is %s" % (cls, hexb(b), f, len(p), exp),
                dict(tags, check="layout"))
    if len(b) % 4 != 0:
        return ("%s.pack emits %d bytes, not a multiple of four" % (cls, len(b)), dict(tags, check="shape"))
    if int.from_bytes(b[4:8], "little") != len(b) or o.packetlen != len(b):
        return ("%s packet-length field %d / attribute %d differ from the %d bytes emitted" % (
            cls, int.from_bytes(b[4:8], "little"), o.packetlen, len(b)), dict(tags, check="shape"))
    if int.from_bytes(b[8:12], "little") != len(p) or o.datalen != len(p):
        return ("%s data-length field is not the payload length %d" % (cls, len(p)), dict(tags, check="shape"))
    q = ADAPTERS[cls].ctor()
    st = guarded(lambda: q.unpack(b))
    if st[0] != "ok":
        return ("%s.unpack raised (%s) on the encoding of a well-formed packet %r" % (cls, st[1], f), dict(tags, check="roundtrip"))
    for k, v in f.items():
        if k in ("_order", "_via_decode", "_legacy"):
            continue
        got = getattr(q, k)
        if k == "ptptime":
            got = {"seconds": got.seconds, "nanoseconds": got.nanoseconds}
        if got != v:
            return ("%s round trip changes %s: %r -> %r" % (cls, k, v, got), dict(tags, check="roundtrip"))
    if q.has_secondary_header != sec or q.ts_source != (1 if sec else 0) or q.packetlen != len(b) or q.datalen != len(p):
        return ("%s round trip changes the derived fields" % cls, dict(tags, check="roundtrip"))
    fill = q.payload[len(p):]
    if q.payload[:len(p)] != p or len(fill) >= 4 or fill != b"\xff" * len(fill) or (len(p) + len(fill) + (12 if sec else 0)) % 4:
        return ("%s decoded payload %s is not the original %d bytes followed only by 0xFF filler" % (cls, hexb(q.payload), len(p)),
                dict(tags, check="roundtrip"))
    return None

def check_ch11_flags(args):
    """legal packet flags := bit 7 clear, or bit 7 set with time-format bits 01.  The setter accepts every
    byte except bit 7 with time format 2/3; pack and unpack accept exactly the legal ones."""
    cls, v = args.get("cls", "Chapter11"), args["flag"]
    legal = (v & 0x80) == 0 or ((v >> 2) & 3) == 1
    o = ADAPTERS[cls].ctor()
    st = guarded(lambda: setattr(o, "packetflag", v))
    setter_ok = st[0] == "ok"
    if setter_ok != ((v & 0x80) == 0 or ((v >> 2) & 3) < 2):
        return "%s.packetflag = %#x %s" % (cls, v, "accepted" if setter_ok else "rejected")
    if setter_ok:
        o.payload = b"\x01\x02\x03\x04"
        st = guarded(lambda: o.pack())
        if (st[0] == "ok") != legal:
            return "%s.pack %s packet flag %#x" % (cls, "accepted the illegal" if st[0] == "ok" else "rejected the legal", v)
    # decode side: a 40-byte buffer with this flag byte
    b = b"\x25\xeb" + bytes(12) + bytes([v]) + bytes(25)
    q = ADAPTERS[cls].ctor()
    st = guarded(lambda: q.unpack(b))
    if (st[0] == "ok") != legal:
        return "%s.unpack %s packet flag %#x" % (cls, "accepted the illegal" if st[0] == "ok" else "rejected the legal", v)
    return None

def ch11_oracle_cases(ctx, cls="Chapter11"):
    rng = ctx.rng
    n = ctx.scale(160, 6000) * (3 if getattr(ctx, "search_mode", False) else 1)
    for i in range(n):
        f = ch11_fields(rng, secondary=(i % 2 == 1), n=i % 4 + 4 * rng.randrange(0, 8))
        p = f.pop("payload")
        if i % 13 == 0:
            p = rng.bytes_(rng.randrange(0, ctx.scale(2000, 9000)))
        if i % 3 == 2:
            f["_order"] = rng.getrandbits(16)
        yield {"cls": cls, "fields": f, "payload": p.hex()}

# =================================================================================== PTPTime / RTCTime
def ptp_valid(rng):
    return {"seconds": str(rng.boundary(32)), "nanoseconds": str(rng.boundary(32))}

def _ptp_compensating(rng):
    """pairs that differ in BOTH fields in a way that keeps some derived quantity equal (total nanoseconds, the
    float seconds+ns/1e9, the sum of the two fields): equal such pairs must still encode identically"""
    out = []
    for _ in range(3):
        s0 = rng.choice([0, 1, 1700000000, 2 ** 31, rng.randrange(0, 2 ** 32 - 2)])
        ns = rng.randrange(0, 2 ** 32 - 10 ** 9)
        out.append(({"seconds": str(s0 + 1), "nanoseconds": str(ns)},
                    {"seconds": str(s0), "nanoseconds": str(ns + 10 ** 9)}, "seconds+nanoseconds (same total ns)"))
        d = rng.randrange(1, 1000)
        if ns >= d:
            out.append(({"seconds": str(s0 + d), "nanoseconds": str(ns - d)},
                        {"seconds": str(s0), "nanoseconds": str(ns)}, "seconds+nanoseconds (same field sum)"))
    return out

def rtc_valid(rng):
    return {"count": str(rng.boundary(48))}

# =================================================================================== C03
def corr_C03(ctx):
    L = udp_lines(ctx)
    L += udp_unpack_lines(ctx, _packed_of(L))
    for cls in ("Chapter11", "Chapter10"):
        A = ch11_lines(ctx, cls)
        L += A + ch11_unpack_lines(ctx, _packed_of(A), cls)
        L += ch11_repack_lines(ctx, cls)
    return L

def oracles_C03(ctx, hints):
    fails = []
    n = 0
    for args in udp_oracle_cases(ctx):
        n += 1
        w = check_udp_layout(args)
        if w:
            _first(fails, Failure("udp_layout", args, *_wt(w, {"class": "Chapter10UDP", "check": "layout"})))
    for cls in ("Chapter11", "Chapter10"):
        for args in ch11_oracle_cases(ctx, cls):
            n += 1
            w = check_ch11_layout(args)
            if w:
                _first(fails, Failure("ch11_layout", args, *_wt(w, {"class": cls, "check": "layout"})))
        for args in ch11_repack_cases(ctx, cls):
            n += 1
            w = check_ch11_repack(args)
            if w:
                _first(fails, Failure("ch11_repack", args, w, {"class": cls, "check": "repack"}))
        for v in range(256):
            args = {"cls": cls, "flag": v}
            n += 1
            w = check_ch11_flags(args)
            if w:
                _first(fails, Failure("ch11_flags", args, w, {"class": cls, "check": "flags"}))
    ctx.count("oracle_evaluations", n)
    return fails

def _w0(fn):
    def g(args):
        w = fn(args)
        return w[0] if w else None
    return g

ORACLES = {"udp_layout": _w0(check_udp_layout), "ch11_layout": _w0(check_ch11_layout), "ch11_flags": check_ch11_flags,
           "ch11_repack": check_ch11_repack}

# The deprecated subclass `Chapter10` is NOT enrolled here: it would only duplicate every Chapter11 result of the
# generic C08/C13/C14 checks (including the K5 finding).  It runs through corr_C03 / corr_C13 / corr_C14 / corr_C19
# below and through the C19 oracle `chapter10_same`.
CLASSGEN = {
    "Chapter10UDP": ClassGen("Chapter10UDP", udp_valid, length_fields=[(5, 3, "big")], alt=udp_alt),
    "Chapter11": ClassGen("Chapter11", ch11_valid, length_fields=[(4, 4, "little"), (8, 4, "little")], alt=ch11_alt),
    "PTPTime": ClassGen("PTPTime", ptp_valid, extra_twins=lambda rng: _ptp_compensating(rng)),
    "RTCTime": ClassGen("RTCTime", rtc_valid),
}

# =================================================================================== C07 (Chapter 11 part)
def _sum16(b):
    return sum(b[i] | (b[i + 1] << 8) for i in range(0, len(b) - 1, 2)) & 0xFFFF

def corr_C07(ctx):
    rng = ctx.rng
    L = []
    for n in list(range(0, 34)) + [64, 65, 254, 255, 256, 1000, 1001]:
        for _ in range(ctx.scale(3, 40)):
            b = rng.bytes_(n)
            L.append(gen.F("get_checksum_buf", hexb(b)))
            L.append(gen.F("get_checksum_byte_buf", hexb(b)))
    for n in (2, 22, 24, 512, 1024, 4096):                    # sums that carry repeatedly / hit 0 and 0xFFFF
        L.append(gen.F("get_checksum_buf", hexb(b"\xff" * n)))
        L.append(gen.F("get_checksum_byte_buf", hexb(b"\xff" * n)))
        L.append(gen.F("get_checksum_buf", hexb(b"\x00" * n)))
        L.append(gen.F("get_checksum_buf", hexb(b"\xff\xff" + b"\x01\x00" + b"\x00" * n)))
    for a in ch11_checksum_cases(ctx):
        L.append(gen.H(a["cls"], _sets(_case_fields(a)) + ["pack", "obs"]))
    return L

def _case_fields(a):
    f = dict(a["fields"])
    f["payload"] = bytes.fromhex(a["payload"])
    return f

def ch11_checksum_cases(ctx):
    """random packets, plus packets steered (through the channel id / the PTP seconds) to header sums and
    secondary-header sums of 0x0000, 0xFFFF, 0x0001, 0x8000 so that the sums carry and wrap"""
    rng = ctx.rng
    import AcraNetwork.IRIG106.Chapter11 as ch11
    out = []
    for i in range(ctx.scale(60, 3000)):
        f = ch11_fields(rng, secondary=(i % 2 == 0), n=rng.randrange(0, 12))
        p = f.pop("payload")
        out.append({"cls": "Chapter11", "fields": f, "payload": p.hex()})
    for target in (0x0000, 0xFFFF, 0x0001, 0x8000, 0xFFFE):
        for i in range(ctx.scale(4, 60)):
            f = ch11_fields(rng, secondary=(i % 2 == 0), n=rng.randrange(0, 9))
            p = f.pop("payload")
            f.pop("syncpattern", None)
            o = _ch11_obj("Chapter11", dict(f, channelID=0), p)
            st = guarded(lambda: o.pack())
            if st[0] != "ok":
                continue
            s = _sum16(st[1][:22])
            f["channelID"] = (target - s) & 0xFFFF
            if f["packetflag"] & 0x80:
                # byte sum of the ten secondary-header bytes: steer with the seconds field where possible
                t = f["ptptime"]
                cur = sum(int(t["nanoseconds"]).to_bytes(4, "little")) 
                want = target & 0x3FF if target not in (0xFFFF, 0x8000, 0xFFFE) else 4 * 255
                rest = max(0, min(4 * 255, want - cur))
                secs = bytes(min(255, max(0, rest - 255 * j)) for j in range(4))
                t["seconds"] = int.from_bytes(secs, "little")
            out.append({"cls": "Chapter11", "fields": f, "payload": p.hex()})
    return out

def check_ch11_checksums(args):
    """the header checksum inside pack() is the 16-bit arithmetic sum of the first eleven 16-bit words
    emitted; the secondary-header checksum is the 16-bit arithmetic sum of its first ten bytes"""
    cls = args.get("cls", "Chapter11")
    f, p = dict(args["fields"]), bytes.fromhex(args["payload"])
    o = _ch11_obj(cls, f, p)
    st = guarded(lambda: o.pack())
    if st[0] != "ok":
        return None
    b = st[1]
    got = int.from_bytes(b[22:24], "little")
    words = [int.from_bytes(b[i:i + 2], "little") for i in range(0, 22, 2)]
    exp = sum(words) % 65536
    spec = _spec([gen.F("spec.Ch11.hdrChecksum", hexb(b[:22]))])[0]
    if got != exp or spec != "ok:%d" % got:
        return "%s header checksum field %#06x, but the 16-bit sum of the eleven header words %s is %#06x (spec: %s)" % (
            cls, got, hexb(b[:22]), exp, spec)
    if f["packetflag"] & 0x80:
        got = int.from_bytes(b[34:36], "little")
        exp = sum(b[24:34]) % 65536
        spec = _spec([gen.F("spec.Ch11.secChecksum", hexb(b[24:34]))])[0]
        if got != exp or spec != "ok:%d" % got:
            return "%s secondary-header checksum field %#06x, but the byte sum of %s is %#06x (spec: %s)" % (
                cls, got, hexb(b[24:34]), exp, spec)
    return None

def check_checksum_helpers(args):
    import AcraNetwork.IRIG106.Chapter11 as ch11
    b = bytes.fromhex(args["buf"])
    if len(b) % 2 == 0 and b:
        if ch11.get_checksum_buf(b) != _sum16(b):
            return "get_checksum_buf(%s) = %#x, the 16-bit word sum is %#x" % (hexb(b), ch11.get_checksum_buf(b), _sum16(b))
    if b and ch11.get_checksum_byte_buf(b) != sum(b) % 65536:
        return "get_checksum_byte_buf(%s) = %#x, the byte sum is %#x" % (hexb(b), ch11.get_checksum_byte_buf(b), sum(b) % 65536)
    return None

def oracles_C07(ctx, hints):
    fails, n = [], 0
    rng = ctx.rng
    for a in ch11_checksum_cases(ctx):
        n += 1
        w = check_ch11_checksums(a)
        if w:
            _first(fails, Failure("ch11_checksums", a, w, {"class": "Chapter11", "check": "checksum"}))
    for i in range(ctx.scale(200, 5000)):
        a = {"buf": (b"\xff" * (2 * i) if i < 40 else rng.bytes_(rng.randrange(1, 300))).hex()}
        n += 1
        w = check_checksum_helpers(a)
        if w:
            _first(fails, Failure("checksum_helpers", a, w, {"class": "Chapter11", "check": "checksum_helper"}))
    ctx.count("oracle_evaluations", n)
    return fails

ORACLES["ch11_checksums"] = check_ch11_checksums
ORACLES["checksum_helpers"] = check_checksum_helpers

# =================================================================================== C12 / C08: files
SYNC = b"\x25\xeb"

JUNK_LENGTHS = [0, 1, 2, 3, 4, 5, 6, 7, 8, 9, 10, 15, 16, 17, 23, 24, 25, 31, 32, 33, 40] + list(range(0, 41)) + \
    [63, 64, 65, 127, 128, 129, 255, 256, 257, 511, 512, 513, 1023, 1024, 1025, 1026, 1538, 2051]
# either side of block sizes a reader might scan in; drawn rarely (the Lean model of the resynchronisation is quadratic
# in the junk length, so a run holds a bounded number of these: see `junk_length`)
JUNK_BIG = [2047, 2048, 2049, 4094, 4095, 4096, 4097, 4098, 8191, 8192, 8193, 8194, 16383, 16384, 16385]
_big_budget = {"left": 0}

def junk_length(rng):
    if _big_budget["left"] > 0 and rng.random() < 0.08:
        _big_budget["left"] -= 1
        return rng.choice(JUNK_BIG)
    return rng.choice(JUNK_LENGTHS)

def junk(rng, n, tail25=False):
    """n bytes that do not contain the sync pattern 25 EB (optionally ending in 0x25); 0x25 not followed
    by EB, EB not preceded by 25 and zero bytes are frequent"""
    b = bytearray(rng.bytes_(n))
    for i in range(len(b)):
        if rng.random() < 0.25:
            b[i] = rng.choice([0x25, 0xEB, 0xEB, 0x00])
    for i in range(len(b) - 1):
        if b[i] == 0x25 and b[i + 1] == 0xEB:
            b[i + 1] = 0xEC
    if tail25 and b:
        b[-1] = 0x25
    return bytes(b)

def file_items(rng, n_pkts=None, with_junk=True):
    """a file as a list of items: ("obj", fields, payload) written as a Chapter11 object, ("raw", bytes) a
    packed packet written as bytes, ("junk", bytes) sync-free bytes written as bytes"""
    n_pkts = rng.randrange(0, 6) if n_pkts is None else n_pkts
    items = []
    def j():
        if with_junk and rng.random() < 0.6:
            b = junk(rng, junk_length(rng), tail25=rng.random() < 0.4)
            if b:
                items.append(("junk", b))
    j()
    for i in range(n_pkts):
        f = ch11_fields(rng, n=rng.randrange(0, 10))
        f.pop("syncpattern", None)
        p = f.pop("payload")
        c = rng.random()
        if c < 0.2:
            # an object that was used before: pack() left filler / packetlen / datalen behind
            f.update({"filler": rng.choice([b"", b"\xff", b"\xff\xff\xff"]), "packetlen": rng.choice([0, 24, 28, 1000]),
                      "datalen": rng.randrange(0, 50)})
            items.append(("obj", f, p))
        elif c < 0.4:
            if rng.random() < 0.3 and "Chapter10" in ADAPTERS:
                f["_legacy"] = True
            items.append(("obj", f, p))
        elif c < 0.55 and len(p) % 4 == 0:
            f["_via_decode"] = True
            items.append(("obj", f, p))
        else:
            b = _ch11_obj("Chapter11", f, p).pack()
            items.append(("raw", b))
        j()
    return items

def item_texts(items, cls="Chapter11"):
    out = []
    for it in items:
        if it[0] == "obj":
            f = dict(it[1]); f.pop("_via_decode", None); f.pop("_legacy", None); f["payload"] = it[2]
            out.append("%s{%s}" % (cls, ",".join("%s=%s" % (k, _txt(v)) for k, v in f.items())))
        else:
            out.append(hexb(it[1]))
    return "[" + ";".join(out) + "]" if out else "[]"

def item_bytes(items):
    """(file bytes, [(start, end) of each packet]) — the reference, from the construction, not by parsing"""
    data, spans = b"", []
    for it in items:
        b = _ch11_obj("Chapter11", it[1], it[2]).pack() if it[0] == "obj" else it[1]
        if it[0] != "junk":
            spans.append((len(data), len(data) + len(b)))
        data += b
    return data, spans

def file_lines(ctx):
    rng = ctx.rng
    L = []
    _big_budget["left"] = 6              # the same in both tiers: these lines also run on the (quadratic) Lean model
    # write sessions, then read everything / step by step
    for i in range(ctx.scale(60, 2000)):
        items = file_items(rng)
        cls = "Chapter10" if i % 7 == 0 else "Chapter11"
        n = sum(1 for it in items if it[0] != "junk")
        ops = ["call write qwb " + item_texts(items, cls), "pack", "call iter", "call offset", "call next", "call offset",
               "call reopen"] + ["call next", "call offset"] * (n + 2)
        L.append(gen.H("Ch10File", ops))
    # junk of every length 0..40 before, between and after two packets
    for n in range(0, 41):
        a = file_items(rng, n_pkts=2, with_junk=False)
        items = [("junk", junk(rng, n, tail25=(n % 3 == 1)))] if n else []
        items += [a[0]] + ([("junk", junk(rng, n, tail25=(n % 3 == 2)))] if n else []) + [a[1]]
        items += [("junk", junk(rng, (n * 7) % 41))] if (n * 7) % 41 else []
        L.append(gen.H("Ch10File", ["call write qwb " + item_texts(items), "pack", "call iter", "call offset"]))
    # every truncation offset of small files (a crash leaves a prefix)
    for i in range(ctx.scale(8, 120)):
        items = file_items(rng, n_pkts=rng.randrange(1, 4))
        data, _ = item_bytes(items)
        if len(data) > ctx.scale(150, 400):
            continue
        for t in range(len(data) + 1):
            L.append(gen.H("Ch10File", ["unpack " + hexb(data[:t]), "call iter", "call offset", "call next"]))
        L.append(gen.H("Ch10File", ["call write qwb " + item_texts(items)] +
                       sum((["call truncate %d" % t, "call reopen", "call iter"] for t in range(len(data), -1, -7)), [])))
    # two write sessions (the second truncates), sessions in modes that cannot write, things that are not packets
    a, b = file_items(rng, 2), file_items(rng, 1)
    L.append(gen.H("Ch10File", ["call write qwb " + item_texts(a), "pack", "call write qwb " + item_texts(b), "pack", "call iter"]))
    L.append(gen.H("Ch10File", ["call write qwb " + item_texts(a), "call write qab []", "call write qrb []", "pack", "call iter"]))
    for mode in ("qab", "qrb"):
        L.append(gen.H("Ch10File", ["call write qwb " + item_texts(a), "call write %s %s" % (mode, item_texts(b)), "pack"]))
    for bad in ("5", "None", "[x00]", "qtext"):
        L.append(gen.H("Ch10File", ["call write qwb [x0102;%s;x0304]" % bad, "pack"]))
    L.append(gen.H("Ch10File", ["call write qwb [x0102;Chapter11{channelID=65536};x0304]", "pack"]))
    L.append(gen.H("Ch10File", ["call write qwb [Chapter11{packetflag=128}]", "pack"]))
    # objects with data_checksum_size = k > 0 (outside WFn/WFs): pack declares k bytes more than it emits, so the reader
    # loses the packet when it is the last one and glues k bytes of the next packet on otherwise
    # (C12.datacksum_last_packet_lost / datacksum_packet_swallows_next; model = code is what is checked here)
    for k in (1, 2, 3, 4, 5, 8):
        for n in (0, 1, 2, 3, 4):
            obj = "Chapter11{data_checksum_size=%d,channelID=%d,payload=%s}" % (k, rng.boundary(16), hexb(rng.bytes_(n)))
            nxt = "Chapter11{channelID=%d,payload=%s}" % (rng.boundary(16), hexb(rng.bytes_(rng.randrange(0, 9))))
            tail = ["pack", "call iter", "call offset", "call reopen", "call next", "call offset", "call next", "call offset"]
            L.append(gen.H("Ch10File", ["call write qwb [%s]" % obj] + tail))
            L.append(gen.H("Ch10File", ["call write qwb [%s;%s]" % (obj, nxt)] + tail))
            L.append(gen.H("Ch10File", ["call write qwb [%s;%s;%s]" % (nxt, obj, nxt)] + tail))
    L.append(gen.H("Ch10File", ["call next", "call iter", "call offset", "pack", "obs"]))
    return L

def raw_file(rng, n):
    """arbitrary file contents biased towards sync patterns and length fields that stress `next`"""
    b = bytearray(rng.bytes_(n))
    for _ in range(rng.randrange(0, 5)):
        if n < 8:
            break
        i = rng.randrange(0, n - 7)
        ln = rng.choice([0, 0, 1, 1, 2, 2, 3, 3, 4, 5, 7, 8, 9, 24, n - i, n - i + 1, n - i - 1, n, 0xFFFFFFFF, rng.getrandbits(8), rng.getrandbits(32)])
        b[i:i + 8] = SYNC + rng.bytes_(2) + (ln & 0xFFFFFFFF).to_bytes(4, "little")
    return bytes(b)

def file_malformed_lines(ctx):
    rng = ctx.rng
    L = []
    L.append(gen.H("Ch10File", ["unpack x25eb000000000000", "call iter", "call offset"]))       # D11 regression
    L.append(gen.H("Ch10File", ["unpack x25eb00000000000025eb000008000000", "call iter", "call offset"]))
    for ln in (1, 2, 3, 4, 7, 8, 9):                              # tiny length fields after a sync word
        for tail in (b"", b"\x25\xeb", b"\x25\xeb\x00\x00" + bytes([ln, 0, 0, 0]) + b"\x00" * 9):
            d = b"\x25\xeb\x01\x00" + bytes([ln, 0, 0, 0]) + tail
            L.append(gen.H("Ch10File", ["unpack " + hexb(d), "call iter", "call offset", "call next"]))
    for n in list(range(0, 20)) + [rng.randrange(20, 300) for _ in range(ctx.scale(60, 3000))]:
        L.append(gen.H("Ch10File", ["unpack " + hexb(raw_file(rng, n)), "call iter", "call offset", "call next", "call offset"]))
    for _ in range(ctx.scale(20, 400)):                          # step by step with `next`
        d = raw_file(rng, rng.randrange(8, 120))
        L.append(gen.H("Ch10File", ["unpack " + hexb(d)] + ["call next", "call offset"] * 8))
    return L

def corr_C12(ctx):
    return file_lines(ctx) + file_malformed_lines(ctx)

def corr_C08(ctx):
    return file_malformed_lines(ctx)

def _write_file(path, items, reuse=False):
    """write the items through FileParser; with `reuse` ONE Chapter11 object is re-assigned and written
    for every object item (so each write sees what the previous pack left behind)"""
    import AcraNetwork.IRIG106.Chapter10.FileParser as fileparser
    import AcraNetwork.IRIG106.Chapter11 as ch11
    shared = ch11.Chapter11()
    with fileparser.FileParser(path, mode="wb") as f:
        for it in items:
            if it[0] != "obj":
                f.write(it[1])
            elif not reuse:
                # `_legacy`: the object is an instance of the deprecated subclass AcraNetwork.Chapter10.Chapter10 — still a
                # Chapter 11 packet object (C19: it encodes identically), so a writer must take it
                f.write(_ch11_obj("Chapter10" if it[1].get("_legacy") else "Chapter11", it[1], it[2]))
            else:
                for k, v in it[1].items():
                    if k in ("_legacy", "_order", "_via_decode"):
                        continue
                    if k == "ptptime":
                        shared.ptptime = ch11.PTPTime(v["seconds"], v["nanoseconds"])
                    else:
                        setattr(shared, k, v)
                shared.payload = it[2]
                f.write(shared)

def _iterate(path):
    import AcraNetwork.IRIG106.Chapter10.FileParser as fileparser
    def run():
        with fileparser.FileParser(path, mode="rb") as f:
            return list(f)
    return guarded(run)

def _items_json(items):
    return [[it[0], it[1], it[2].hex()] if it[0] == "obj" else [it[0], it[1].hex()] for it in items]

def _items_unjson(js):
    return [(j[0], j[1], bytes.fromhex(j[2])) if j[0] == "obj" else (j[0], bytes.fromhex(j[1])) for j in js]

def check_file_roundtrip(args):
    """packets (objects or raw bytes) written through FileParser come back as the same byte strings in the
    same order, sync-free junk between them is skipped, and for the file cut at byte t iteration returns
    exactly the packets that end at or before t and then stops"""
    items = _items_unjson(args["items"])
    data, spans = item_bytes(items)
    fd, path = tempfile.mkstemp(prefix="acra_c12_", suffix=".ch10")
    os.close(fd)
    try:
        _write_file(path, items, reuse=args.get("reuse", False))
        with open(path, "rb") as f:
            on_disk = f.read()
        if on_disk != data:
            return ("FileParser.write: the file holds %s, the items written are %s" % (hexb(on_disk), hexb(data)), "write")
        ts = args.get("cuts")
        if ts is None:
            ts = [len(data)]
        for t in ts:
            with open(path, "wb") as f:
                f.write(data[:t])
            st = _iterate(path)
            exp = [data[a:b] for a, b in spans if b <= t]
            if st[0] != "ok":
                return ("iterating the %d-byte file %s cut at %d: %s" % (len(data), hexb(data), t, st[0] if st[0] == "timeout" else st[1]),
                        "total" if st[0] == "timeout" else "iterate")
            if st[1] != exp:
                kind = "roundtrip" if t == len(data) else "truncation"
                return ("file %s cut at byte %d: iteration returns %d items %s, the packets completely present are %d: %s" % (
                    hexb(data), t, len(st[1]), [hexb(x)[:40] for x in st[1]], len(exp), [hexb(x)[:40] for x in exp]), kind)
    finally:
        os.unlink(path)
    return None

def check_file_total(args):
    """iterating a file with arbitrary contents stops and yields no more items than the file has bytes"""
    data = bytes.fromhex(args["data"])
    fd, path = tempfile.mkstemp(prefix="acra_c08_", suffix=".ch10")
    os.close(fd)
    try:
        with open(path, "wb") as f:
            f.write(data)
        st = _iterate(path)
    finally:
        os.unlink(path)
    if st[0] == "timeout":
        return "iterating a %d-byte Chapter 10 file did not stop: %s" % (len(data), hexb(data)[:80])
    if st[0] != "ok":
        return "iterating a %d-byte Chapter 10 file raised %s" % (len(data), st[1])
    if len(st[1]) > len(data) or any(len(x) == 0 for x in st[1]):
        return "iterating a %d-byte Chapter 10 file yields %d items" % (len(data), len(st[1]))
    return None

def check_file_big(args):
    """one LARGE packet (payload of n bytes, a multiple of 4; the packet-length field is 32 bits wide and setup records
    run to megabytes) followed by a small one: both come back from the file, in order, byte-identical"""
    import AcraNetwork.IRIG106.Chapter11 as ch11
    n = args["n"]
    big = ch11.Chapter11()
    big.channelID, big.sequence, big.payload = 1, 7, bytes((i * 7 + 3) & 0xFF for i in range(n))
    small = ch11.Chapter11()
    small.channelID, small.sequence, small.payload = 2, 8, b"\x01\x02\x03\x04"
    bb, sb = big.pack(), small.pack()
    fd, path = tempfile.mkstemp(prefix="acra_c12_", suffix=".ch10")
    os.close(fd)
    try:
        _write_file(path, [("raw", bb), ("raw", sb)] if args.get("raw") else [("obj", {"channelID": 1, "sequence": 7}, big.payload), ("raw", sb)])
        st = _iterate(path)
        if st[0] != "ok":
            return "iterating a file holding a %d-byte packet and a small one: %s" % (len(bb), st[0] if st[0] == "timeout" else st[1])
        got = [bytes(x) for x in st[1]]
        if got != [bb, sb]:
            return "a file holding a %d-byte packet and a %d-byte packet reads back as %d items of lengths %r" % (
                len(bb), len(sb), len(got), [len(x) for x in got])
    finally:
        os.unlink(path)
    return None

def oracles_C12(ctx, hints):
    fails, n = [], 0
    rng = ctx.rng
    _big_budget["left"] = ctx.scale(40, 600)      # implementation only: cheap
    for nbytes in (65536, 524288 - 24, 524288, 1 << 20) + ((16 << 20,) if ctx.tier == "thorough" else ()):
        args = {"n": nbytes, "raw": nbytes % 3 == 0}
        n += 1
        w = check_file_big(args)
        if w:
            fails.append(Failure("file_big", args, w, {"class": "FileParser", "check": "roundtrip", "size": "large"}))
            break
    k = 3 if getattr(ctx, "search_mode", False) else 1
    for i in range(ctx.scale(60, 1500) * k):
        items = file_items(rng)
        data, _ = item_bytes(items)
        cuts = list(range(len(data) + 1)) if len(data) <= ctx.scale(200, 600) and i % 3 == 0 else \
            sorted(set([len(data)] + [rng.randrange(0, len(data) + 1) for _ in range(6)]))
        args = {"items": _items_json(items), "cuts": cuts, "reuse": i % 4 == 1}
        n += len(cuts)
        w = check_file_roundtrip(args)
        if w:
            what, chk = _wt(w, "roundtrip")
            _first(fails, Failure("file_roundtrip", args, what, {"class": "FileParser", "check": chk if isinstance(chk, str) else "roundtrip"}))
    for i in range(ctx.scale(100, 3000)):
        args = {"data": raw_file(rng, rng.randrange(0, 200)).hex()}
        n += 1
        w = check_file_total(args)
        if w:
            _first(fails, Failure("file_total", args, w, {"class": "FileParser", "check": "total"}))
            break
    ctx.count("oracle_evaluations", n)
    return fails

def oracles_C08(ctx, hints):
    fails, n = [], 0
    rng = ctx.rng
    cases = [bytes.fromhex("25eb000000000000"), bytes.fromhex("25eb00000000000025eb000008000000")]
    # many places that look like a packet start whose length field points past the end of the file (and
    # length fields 1..7): the iterator must stop, without recursion proportional to the file size
    for ln in (0x80000001, 0x7fffffff, 0xffffffff, 40000):
        cases.append((bytes.fromhex("25eb0100") + ln.to_bytes(4, "little")) * 1500)
    cases.append(bytes.fromhex("25eb") * 6000)
    cases += [raw_file(rng, rng.randrange(0, 300)) for _ in range(ctx.scale(300, 10000))]
    for d in cases:
        args = {"data": d.hex()}
        n += 1
        w = check_file_total(args)
        if w:
            _first(fails, Failure("file_total", args, w, {"class": "FileParser", "check": "total"}))
            break
    ctx.count("oracle_evaluations", n)
    return fails

ORACLES["file_roundtrip"] = lambda a: (check_file_roundtrip(a) or [None])[0]
ORACLES["file_total"] = check_file_total
ORACLES["file_big"] = check_file_big

# =================================================================================== C09: accept / reject boundaries
def corr_C09(ctx):
    rng = ctx.rng
    L = []
    for v in (0x00, 0x04, 0x7F, 0x80, 0x84, 0x85, 0x88, 0x8C, 0xF7, 0xFF):
        for n in range(20, 40):
            b = (SYNC + rng.bytes_(12) + bytes([v]) + rng.bytes_(30))[:n]
            L.append(gen.H("Chapter11", ["unpack " + hexb(b), "obs"]))
    for b0 in (0x01, 0x11, 0x21, 0xF1, 0x03, 0x13, 0x23, 0x43, 0x53, 0xF3, 0x00, 0x02, 0x12, 0x0F, 0xFE):
        for n in range(0, 15):
            L.append(gen.H("Chapter10UDP", ["unpack " + hexb((bytes([b0]) + rng.bytes_(14))[:n]), "obs"]))
    return L

def check_ch10_accept(args):
    """Chapter11.unpack accepts exactly: >= 24 bytes, and either bit 7 of the flag byte clear, or time format
    01 with >= 36 bytes.  Chapter10UDP.unpack accepts exactly: format nibble 1 with >= 4 bytes and type != 1;
    nibble 3 with >= 8 bytes and source-id length <= 4; any other nibble with >= 12 bytes.  An accepted
    buffer's payload is everything after the header(s): nothing is truncated or padded."""
    cls, b = args["cls"], bytes.fromhex(args["buf"])
    o = ADAPTERS[cls].ctor()
    st = guarded(lambda: o.unpack(b))
    ok = st[0] == "ok"
    if cls == "Chapter11":
        should = len(b) >= 24 and (b[14] & 0x80 == 0 or ((b[14] >> 2) & 3 == 1 and len(b) >= 36))
        hdr = 24 if len(b) >= 24 and b[14] & 0x80 == 0 else 36
    else:
        if len(b) < 4:
            should, hdr = False, 0
        elif b[0] & 0xF == 1:
            should, hdr = (b[0] >> 4) != 1, 4
        elif b[0] & 0xF == 3:
            should, hdr = len(b) >= 8 and (b[0] >> 4) <= 4, 8
        else:
            should, hdr = len(b) >= 12, 12
    if ok != should:
        return "%s.unpack %s the %d-byte buffer %s" % (cls, "accepted" if ok else "rejected (%s)" % st[1], len(b), hexb(b))
    if ok and o.payload != b[hdr:]:
        return "%s.unpack returned a payload that is not the bytes after the %d-byte header" % (cls, hdr)
    return None

def oracles_C09(ctx, hints):
    fails, n = [], 0
    for l in corr_C09(ctx):
        w = l.split()
        args = {"cls": w[1], "buf": w[4].split("|")[0][1:]}
        n += 1
        r = check_ch10_accept(args)
        if r:
            _first(fails, Failure("ch10_accept", args, r, {"class": args["cls"], "check": "accept_exact"}))
    ctx.count("oracle_evaluations", n)
    return fails

ORACLES["ch10_accept"] = check_ch10_accept

# =================================================================================== C14: extra twins
def corr_C14(ctx):
    """twins that differ in each settable field in turn — including the fields the format does not carry,
    which `__eq__` ignores or compares depending on the format"""
    rng = ctx.rng
    L = []
    allf = ["version", "type", "channelID", "channelsequence", "sequence", "segmentoffset", "packetsize",
            "sourceid_len", "sourceid", "offset_pkt_start", "payload"]
    for fmt in (1, 2, 3, 1, 2, 3):
        f = udp_fields(rng, fmt)
        base = {k: _txt(v) for k, v in f.items()}
        for k in allf:
            cur = base.get(k, "None" if k in ("packetsize", "offset_pkt_start") else "0")
            alt = udp_alt(rng, k, cur) if k not in ("version", "sourceid_len") else str(int(cur) + 1)
            g = dict(base); g[k] = alt
            L.append(gen.E("Chapter10UDP", gen.sets(base), gen.sets(g)))
            L.append(gen.E("Chapter10UDP", gen.sets(g), gen.sets(base)))
    segb = {"version": "1", "type": "1", "sequence": "5", "channelID": "7", "channelsequence": "9", "segmentoffset": "11", "payload": "x01"}
    for k in allf:
        g = dict(segb); g[k] = udp_alt(rng, k, segb.get(k, "0")) or "2"
        L.append(gen.E("Chapter10UDP", gen.sets(segb), gen.sets(g)))
    ch = ["syncpattern", "channelID", "packetlen", "datalen", "datatypeversion", "sequence", "packetflag", "datatype",
          "relativetimecounter", "ptptime", "ts_source", "payload", "data_checksum_size", "filler", "has_secondary_header"]
    for cls in ("Chapter11", "Chapter10"):
        for _ in range(3):
            base = ch11_valid(rng)
            for k in ch:
                g = dict(base)
                if k == "has_secondary_header":
                    g[k] = "True" if not (int(base["packetflag"]) & 0x80) else "False"
                elif k == "filler":
                    g[k] = "xff"
                elif k == "ptptime":
                    g[k] = ch11_alt(rng, k, base.get(k, "PTPTime{seconds=0,nanoseconds=0}"))
                else:
                    g[k] = ch11_alt(rng, k, base.get(k, "0"))
                L.append(gen.E(cls, gen.sets(base), gen.sets(g)))
    for _ in range(10):
        a, b = ptp_valid(rng), ptp_valid(rng)
        L.append(gen.E("PTPTime", gen.sets(a), gen.sets(b)))
        L.append(gen.E("PTPTime", gen.sets(a), gen.sets(a)))
        L.append(gen.E("RTCTime", gen.sets(rtc_valid(rng)), gen.sets(rtc_valid(rng))))
    return L

# =================================================================================== C15: PTP / RTC
def ptp_pairs(ctx):
    rng = ctx.rng
    secs = [0, 1, 2 ** 31 - 1, 2 ** 31, 2 ** 32 - 2, 2 ** 32 - 1, 1700000000, 1700000001, 1759104000, 1800000000,
            4102444799, 4294967295]
    nss = [0, 1, 2, 499999999, 500000000, 999999998, 999999999]
    out = []
    for s in secs:
        for n in nss:
            out.append(((s, n), (s, n)))
            out.append(((s, n), (s, (n + 1) % 10 ** 9)))
            out.append(((s, n), (s + 1, 0)))
            out.append(((s, n), (max(0, s - 1), 999999999)))
    for _ in range(ctx.scale(100, 5000)):                  # 1 ns apart at present-day and late epochs, both orders
        s0 = rng.choice([rng.randrange(1700000000, 1900000000), 2 ** 32 - 1, rng.randrange(2 ** 31, 2 ** 32)])
        n0 = rng.choice([0, 1, 999999998, rng.randrange(0, 10 ** 9 - 1)])
        out.append(((s0, n0), (s0, n0 + 1)))
        out.append(((s0, n0 + 1), (s0, n0)))
        out.append(((s0, n0), (s0, n0)))
    for _ in range(ctx.scale(300, 20000)):
        a = (rng.choice(secs + [rng.getrandbits(32)]), rng.choice(nss + [rng.randrange(0, 10 ** 9)]))
        c = rng.random()
        if c < 0.3:
            b = (a[0], rng.choice(nss + [rng.randrange(0, 10 ** 9)]))
        elif c < 0.5:
            b = (a[0] + rng.choice([-1, 1]) if a[0] else 1, a[1])
        else:
            b = (rng.choice(secs + [rng.getrandbits(32)]), rng.choice(nss + [rng.randrange(0, 10 ** 9)]))
        out.append((a, b))
    return out

def pinksheet_rollovers(rng, n):
    """(seconds, nanoseconds) either side of a roll-over of the 48-bit count of 100 ns units (every 2^48 / 10^7 s =
    325.8 days; 152 of them fit below 2^32 seconds), and the largest nanosecond values within such a second"""
    out = []
    ks = [1, 2, 62, 152] + [rng.randrange(1, 153) for _ in range(n)]
    for k in ks:
        t = k * 2 ** 48                        # in 100 ns units
        s, r = divmod(t, 10 ** 7)
        for ns in (r * 100 - 100, r * 100 - 1, r * 100, r * 100 + 99, r * 100 + 100, 0, 999999999, 999999900):
            if 0 <= ns < 10 ** 9 and s < 2 ** 32:
                out.append((s, ns))
    return out

def corr_C15(ctx):
    rng = ctx.rng
    L = []
    for (s, n) in pinksheet_rollovers(rng, ctx.scale(6, 150)):
        L.append(gen.F("ptp.pinksheet", str(s), str(n)))
        L.append(gen.H("PTPTime", ["set seconds %d" % s, "set nanoseconds %d" % n, "pack", "obs", "call to_pinksheet_rtc"]))
    for (a, b) in ptp_pairs(ctx):
        args = [str(a[0]), str(a[1]), str(b[0]), str(b[1])]
        for op in ("add", "sub", "lt", "le", "gt", "ge", "eq", "ne"):
            L.append(gen.F("ptp." + op, *args))
    # operands outside the well-formed range: nanoseconds >= 1e9, negative values, big values (< 2^52)
    for _ in range(ctx.scale(100, 3000)):
        vals = [rng.choice([0, 1, -1, 10 ** 9, 10 ** 9 - 1, 2 * 10 ** 9 + 5, -10 ** 9, 2 ** 32, -(2 ** 32), 2 ** 51, rng.randrange(-10 ** 12, 10 ** 12)])
                for _ in range(4)]
        for op in ("add", "sub", "lt", "le", "gt", "ge", "eq"):
            L.append(gen.F("ptp." + op, *[str(v) for v in vals]))
    for s in [0, 1, 2 ** 31, 2 ** 32 - 1, 1700000000, 281474, 281475, 2 ** 32, 10 ** 18] + [rng.getrandbits(32) for _ in range(ctx.scale(50, 2000))]:
        for n in (0, 1, 99, 100, 101, 999999999, rng.randrange(0, 10 ** 9)):
            L.append(gen.F("ptp.pinksheet", str(s), str(n)))
            L.append(gen.H("PTPTime", ["set seconds %d" % s, "set nanoseconds %d" % n, "pack", "obs", "call to_pinksheet_rtc"]))
    for _ in range(ctx.scale(60, 2000)):
        b = rng.bytes_(rng.choice([8, 8, 8, 8, 0, 7, 9, 16]))
        L.append(gen.H("PTPTime", ["unpack " + hexb(b), "obs", "pack"]))
        L.append(gen.H("RTCTime", ["unpack " + hexb(b), "obs", "pack", "call to_rtc", "call to_pinksheet_rtc"]))
    for c in [0, 1, 2 ** 32 - 1, 2 ** 32, 2 ** 48 - 1, 2 ** 48, 2 ** 48 + 1, 2 ** 64] + [rng.boundary(48) for _ in range(ctx.scale(40, 1000))]:
        L.append(gen.H("RTCTime", ["set count %d" % c, "pack", "obs", "call to_rtc"]))
    return L

def check_ptp_pair(args):
    """ordering = lexicographic on (seconds, nanoseconds); + and - exact, nanoseconds in [0, 1e9), inverse"""
    import AcraNetwork.IRIG106.Chapter11 as ch11
    a, b = tuple(args["a"]), tuple(args["b"])
    A, B = ch11.PTPTime(*a), ch11.PTPTime(*b)
    for name, got, exp in (("<", A < B, a < b), ("<=", A <= B, a <= b), (">", A > B, a > b), (">=", A >= B, a >= b),
                           ("==", A == B, a == b), ("!=", A != B, a != b)):
        if got is not exp:
            return "PTPTime%r %s PTPTime%r is %r, the (seconds, nanoseconds) order says %r" % (a, name, b, got, exp)
    tot = lambda t: t[0] * 10 ** 9 + t[1]
    S = A + B
    if not (0 <= S.nanoseconds < 10 ** 9) or tot((S.seconds, S.nanoseconds)) != tot(a) + tot(b) or \
            type(S.nanoseconds) is not int or type(S.seconds) is not int:
        return "PTPTime%r + PTPTime%r = (%r, %r)" % (a, b, S.seconds, S.nanoseconds)
    D = A - B
    if not (0 <= D.nanoseconds < 10 ** 9) or tot((D.seconds, D.nanoseconds)) != tot(a) - tot(b):
        return "PTPTime%r - PTPTime%r = (%r, %r)" % (a, b, D.seconds, D.nanoseconds)
    U = S - B
    if (U.seconds, U.nanoseconds) != a:
        return "(a + b) - b != a for a = %r, b = %r: (%r, %r)" % (a, b, U.seconds, U.nanoseconds)
    V = D + B
    if (V.seconds, V.nanoseconds) != a:
        return "(a - b) + b != a for a = %r, b = %r: (%r, %r)" % (a, b, V.seconds, V.nanoseconds)
    return None

def check_time_codec(args):
    """PTP (32+32 bit) and RTC (48 bit) stamps survive pack/unpack; layouts; pinksheet RTC = total ns / 100 mod 2^48"""
    import AcraNetwork.IRIG106.Chapter11 as ch11
    s, n, c = args["s"], args["n"], args["c"]
    p = ch11.PTPTime(s, n)
    b = p.pack()
    if b != n.to_bytes(4, "little") + s.to_bytes(4, "little"):
        return "PTPTime(%d, %d).pack() = %s" % (s, n, hexb(b))
    q = ch11.PTPTime()
    q.unpack(b)
    if (q.seconds, q.nanoseconds) != (s, n) or not (q == p):
        return "PTPTime(%d, %d) comes back as (%d, %d)" % (s, n, q.seconds, q.nanoseconds)
    if n < 10 ** 9 and p.to_pinksheet_rtc() != ((s * 10 ** 9 + n) // 100) % 2 ** 48:
        return "PTPTime(%d, %d).to_pinksheet_rtc() = %d" % (s, n, p.to_pinksheet_rtc())
    r = ch11.RTCTime(c)
    b = r.pack()
    if b != c.to_bytes(6, "little") + b"\x00\x00":
        return "RTCTime(%d).pack() = %s" % (c, hexb(b))
    t = ch11.RTCTime()
    t.unpack(b)
    if t.count != c or not (t == r) or t.to_rtc() != c or t.to_pinksheet_rtc() != c:
        return "RTCTime(%d) comes back as %d" % (c, t.count)
    return None

def oracles_C15(ctx, hints):
    fails, n = [], 0
    rng = ctx.rng
    for (a, b) in ptp_pairs(ctx):
        args = {"a": list(a), "b": list(b)}
        n += 1
        w = check_ptp_pair(args)
        if w:
            _first(fails, Failure("ptp_pair", args, w, {"class": "PTPTime", "check": "order_arith"}))
            break
    cases = [{"s": s, "n": ns, "c": rng.boundary(48)} for (s, ns) in pinksheet_rollovers(rng, ctx.scale(10, 150))]
    for i in range(ctx.scale(300, 20000)):
        cases.append({"s": rng.boundary(32), "n": rng.choice([0, 1, 999999999, rng.randrange(0, 10 ** 9), rng.boundary(32)]), "c": rng.boundary(48)})
    for args in cases:
        n += 1
        w = check_time_codec(args)
        if w:
            _first(fails, Failure("time_codec", args, w, {"class": "PTPTime", "check": "codec"}))
            break
    ctx.count("oracle_evaluations", n)
    return fails

ORACLES["ptp_pair"] = check_ptp_pair
ORACLES["time_codec"] = check_time_codec

# =================================================================================== C19: namespace
def _legacy_modules():
    r = run_line_impl("F ns.modules")
    return [str(x) for x in parse_val(r[3:])]

def corr_C19(ctx):
    L = ["F ns.modules"]
    for m in _legacy_modules():
        for f in ("same", "other", "warnings"):
            L.append("F ns.%s q%s" % (f, m))
    # Chapter10 (deprecated subclass) through the Chapter 11 generator: the model is the same
    A = ch11_lines(ctx, "Chapter10")
    L += A + ch11_unpack_lines(ctx, _packed_of(A)[:: 4], "Chapter10")
    return L

ALLOWED_EXTRA = {"warnings"}

def check_namespace(args):
    """in a fresh interpreter: importing the legacy module raises nothing worse than a DeprecationWarning, and
    every public name it binds is the very object of the IRIG106 module the standard mapping names (the
    `warnings` module and the class Chapter10 excepted; Chapter10 must be a subclass of Chapter11 that
    overrides no method and restates only equal constants)"""
    from ..adapters import ch10 as ad
    L = args["module"]
    exp = _spec([gen.F("spec.Namespace.expectedTarget", "q" + L)])[0]
    if not exp.startswith("ok:q"):
        return "no IRIG106 counterpart is defined for the legacy module %s" % L
    target = exp[4:]
    code = ad.PROBE
    import subprocess, sys as _sys
    from ..core import REPO
    p = subprocess.run([_sys.executable, "-c", code, REPO, L, json.dumps([target])], stdout=subprocess.PIPE,
                       stderr=subprocess.PIPE, timeout=120, env={k: v for k, v in os.environ.items() if k != "PYTHONWARNINGS"})
    try:
        r = json.loads(p.stdout.decode().strip().split("\n")[-1])
    except Exception:
        return "probe of %s failed: %s" % (L, p.stderr.decode()[-300:])
    if r.get("error"):
        return "importing %s raised %s" % (L, r["error"])
    bad = [w for w in r["warnings"] if w != "DeprecationWarning"]
    if bad:
        return "importing %s raised warnings %s" % (L, bad)
    other = [n for n in r["other"] if n not in ALLOWED_EXTRA and not (L.endswith(".Chapter10") and n == "Chapter10")]
    if other:
        return "%s: public names %s are not the objects exported by %s" % (L, other, target)
    if not r["same"]:
        return "%s re-exports nothing from %s" % (L, target)
    return None

SUBCLASS_PROBE = r"""
import sys, json, warnings, inspect
sys.path.insert(0, sys.argv[1])
warnings.simplefilter("ignore")
from AcraNetwork.Chapter10.Chapter10 import Chapter10
from AcraNetwork.IRIG106.Chapter11 import Chapter11
out = {"subclass": issubclass(Chapter10, Chapter11) and Chapter10 is not Chapter11, "diff": [], "defs": []}
for k, v in vars(Chapter10).items():
    if k.startswith("__"):
        continue
    if callable(v) or isinstance(v, (property, staticmethod, classmethod)):
        out["defs"].append(k)
    elif not hasattr(Chapter11, k) or getattr(Chapter11, k) != v:
        out["diff"].append(k)
print(json.dumps(out))
"""

def check_chapter10_class(args):
    import subprocess, sys as _sys
    from ..core import REPO
    p = subprocess.run([_sys.executable, "-c", SUBCLASS_PROBE, REPO], stdout=subprocess.PIPE, stderr=subprocess.PIPE, timeout=120)
    try:
        r = json.loads(p.stdout.decode().strip().split("\n")[-1])
    except Exception:
        return "probe failed: " + p.stderr.decode()[-300:]
    if not r["subclass"]:
        return "AcraNetwork.Chapter10.Chapter10.Chapter10 is not a proper subclass of Chapter11"
    if r["defs"]:
        return "class Chapter10 overrides %s" % r["defs"]
    if r["diff"]:
        return "class Chapter10 restates constants with other values: %s" % r["diff"]
    return None

def check_chapter10_same(args):
    """one request line run on Chapter11 and on Chapter10 gives the same answer (class name aside)"""
    l = args["line"]
    a = run_line_impl(l)
    b = run_line_impl(l.replace("H Chapter11 ", "H Chapter10 ", 1)).replace("Chapter10{", "Chapter11{")
    if a != b:
        return "Chapter10 and Chapter11 differ on %s: %s vs %s" % (l[:200], b[:200], a[:200])
    return None

def check_namespace_stable(args):
    """every import history: the names a legacy module binds are the same objects after the other legacy paths have
    been imported (package first, then its sub-modules — and the reverse)"""
    from ..adapters import ch10 as ad
    r = ad.ns_stable(args["order"])
    if r.get("error"):
        return "importing the legacy modules in order %r raised %s" % (args["order"], r["error"])
    if r["changed"]:
        m, nme, now = r["changed"][0]
        return "%s.%s is no longer the object it was when %s was first imported (now: %s) once the other legacy modules are imported" % (
            m, nme, m, now)
    return None

def oracles_C19(ctx, hints):
    fails, n = [], 0
    mods = _legacy_modules()
    for order in (sorted(mods), sorted(mods, reverse=True), sorted(mods, key=lambda m: (m.count("."), m))):
        n += 1
        w = check_namespace_stable({"order": order})
        if w:
            fails.append(Failure("namespace_stable", {"order": order}, w, {"class": "namespace", "check": "import_history"}))
            break
    for m in _legacy_modules():
        args = {"module": m}
        n += 1
        w = check_namespace(args)
        if w:
            _first(fails, Failure("namespace", args, w, {"class": "namespace", "check": "same_objects", "module": m}))
    n += 1
    w = check_chapter10_class({})
    if w:
        fails.append(Failure("chapter10_class", {}, w, {"class": "Chapter10", "check": "subclass"}))
    A = ch11_lines(ctx, "Chapter11")
    A = A + ch11_unpack_lines(ctx, _packed_of(A)[:: 4], "Chapter11")
    for l in A:
        n += 1
        w = check_chapter10_same({"line": l})
        if w:
            fails.append(Failure("chapter10_same", {"line": l}, w, {"class": "Chapter10", "check": "same_behaviour"}))
            break
    ctx.count("oracle_evaluations", n)
    return fails

ORACLES["namespace"] = check_namespace
ORACLES["namespace_stable"] = check_namespace_stable
ORACLES["chapter10_class"] = check_chapter10_class
ORACLES["chapter10_same"] = check_chapter10_same

# =================================================================================== C13: targeted histories
def _c13_cases(ctx):
    """(class, ops, final unpack): an object that has been filled and packed (so that pack's derived fields
    — filler, packetlen, datalen, packetsize — and every optional field are set), optionally re-used for
    another buffer, then given the final buffer; compared with a fresh object given only the final buffer"""
    rng = ctx.rng
    gens = {"Chapter10UDP": lambda: {k: _txt(v) for k, v in udp_fields(rng).items()},
            "Chapter11": lambda: {k: _txt(v) for k, v in ch11_fields(rng, n=rng.randrange(0, 9)).items()},
            "Chapter10": lambda: {k: _txt(v) for k, v in ch11_fields(rng, n=rng.randrange(0, 9)).items()},
            "PTPTime": lambda: ptp_valid(rng), "RTCTime": lambda: rtc_valid(rng)}
    out = []
    for cls, g in gens.items():
        packed = _packed_of([gen.H(cls, gen.sets(g()) + ["pack"]) for _ in range(12)])
        if not packed:
            continue
        for _ in range(ctx.scale(30, 1500)):
            ops = gen.sets(g()) + ["pack"]
            c = rng.random()
            if c < 0.4:
                ops.append("unpack " + hexb(rng.choice(packed)))
            elif c < 0.6:
                ops += ["unpack " + hexb(rng.choice(packed)), "pack"]
            out.append((cls, ops, "unpack " + hexb(rng.choice(packed))))
    # every value of the packet-flag byte on the wire (secondary header present / absent x time format x checksum bits),
    # decoded into an object that has just decoded a packet WITH an IEEE-1588 secondary header: whatever the decoder
    # does with the byte (accept, warn, refuse), a used object and a new one must end in the same state
    for cls in ("Chapter11", "Chapter10"):
        secs = _packed_of([gen.H(cls, gen.sets({k: _txt(v) for k, v in ch11_fields(rng, secondary=True, n=rng.randrange(0, 9)).items()}) + ["pack"])
                           for _ in range(3)])
        plain = _packed_of([gen.H(cls, gen.sets({k: _txt(v) for k, v in ch11_fields(rng, secondary=False, n=4).items()}) + ["pack"])
                            for _ in range(2)])
        if not secs:
            continue
        for v in range(256):
            for base in (secs[v % len(secs)],) + ((plain[v % len(plain)],) if plain and v % 4 == 0 else ()):
                m = bytearray(base)
                m[14] = v
                m[22:24] = (sum(int.from_bytes(m[i:i + 2], "little") for i in range(0, 22, 2)) % 65536).to_bytes(2, "little")
                out.append((cls, ["unpack " + hexb(secs[(v + 1) % len(secs)])], "unpack " + hexb(bytes(m))))
    return out

def corr_C13(ctx):
    L = [gen.H(cls, ops + [final, "obs", "pack", "obs", "pack", "obs"]) for cls, ops, final in _c13_cases(ctx)]
    for cls in ("Chapter11", "Chapter10"):
        L += ch11_repack_lines(ctx, cls)
    return L

def oracles_C13(ctx, hints):
    from .. import generic
    fails, n = [], 0
    for cls, ops, final in _c13_cases(ctx):
        if cls not in CLASSGEN:              # Chapter10: correspondence only (see the note above CLASSGEN)
            continue
        args = {"cls": cls, "opts": [], "ops": ops, "final": [final]}
        n += 1
        w = generic.check_history_independence(args)
        if w:
            _first(fails, Failure("history_independence", args, w, {"class": cls, "check": "history"}))
    for cls in ("Chapter11", "Chapter10"):
        for args in ch11_repack_cases(ctx, cls):
            n += 1
            w = check_ch11_repack(args)
            if w:
                _first(fails, Failure("ch11_repack", args, w, {"class": cls, "check": "repack"}))
    ctx.count("oracle_evaluations", n)
    return fails
