"""Family: tortc — `PTPTime.to_rtc` (AcraNetwork/IRIG106/Chapter11/__init__.py:70), the conversion of a PTP time
stamp to a 10 MHz count relative to the start of the year, in binary64 arithmetic.  (The pink-sheet conversion
`to_pinksheet_rtc`, the one C15's sentence describes, belongs to the ch10 family.)

Model: lean/Acra/Model/PTPToRtc.lean (calendar of Model.Ch11TimeFmt + the exact binary64 model Py.Float.rne);
line-protocol function `ptp.to_rtc <seconds> <nanoseconds>`; theorems: lean/Acra/Props/C15/ToRtc.lean.

What holds (and is checked by the oracle on the real code): on the exactness domain of the theorems —
`S·10^7 + ns//100 < 4.5·10^13` for every rounding with the two binary64 facts, `S·10^7 + ns//100 + 1 <= 2^47` with
`ns < 2^32` for binary64 itself (sharp), S = seconds since the start of the year — the result is `S·10^7 + ns//100`.
Outside it the result is one tick too large for some inputs (fraction .99 from 2^47 ticks, .97–.99 from 2^48) and
it exceeds 48 bits from 22 November on: OBSERVATIONS (evidence notes), not failures — C15 does not speak of `to_rtc`."""
import calendar, time
from ..core import FUNCS
from ..runner import Failure
from .. import gen

def _to_rtc(seconds, nanoseconds):
    from AcraNetwork.IRIG106.Chapter11 import PTPTime
    return PTPTime(seconds, nanoseconds).to_rtc()

FUNCS["ptp.to_rtc"] = _to_rtc

DOMAIN = 45000000000000           # the bound of Props/C15/ToRtc.lean `to_rtc_exact` (every rounding with the two facts)
DOMAIN_EXEC = 2 ** 47             # `to_rtc_exact_exec_sharp`: binary64 itself, ns < 2^32, ticks + 1 <= 2^47
MODEL_MAX_SECONDS = 2 ** 40       # beyond, CPython's fromtimestamp raises OSError / OverflowError instead of ValueError

def year_start(y):
    return calendar.timegm((y, 1, 1, 0, 0, 0))

def since_year_start(seconds):
    """seconds since 1 January 00:00:00 UTC of the year that contains `seconds` (via time.gmtime, not datetime)"""
    t = time.gmtime(seconds)
    return (t.tm_yday - 1) * 86400 + t.tm_hour * 3600 + t.tm_min * 60 + t.tm_sec

NS_EDGE = [0, 1, 49, 50, 96, 97, 98, 99, 100, 101, 199, 999999899, 999999900, 999999996, 999999997, 999999998, 999999999,
           10 ** 9, 10 ** 9 + 99, 2 ** 32 - 1]
S_EDGE = [0, 1, 59, 60, 3599, 3600, 86399, 86400, 4499999, 4500000, 4500001,
          7036874, 7036875,                     # 2^46 ticks
          14073747, 14073748, 14073749,         # 2^47 ticks: first second with an off-by-one at .99
          28147497, 28147498,                   # 2^48 ticks: the 48-bit counter overflows; .97-.99 round up
          31535999, 31536000, 31622399]

def stamps(rng, n):
    """(seconds, nanoseconds) pairs: every edge second of several years (leap and common, 1970, 2000, 2038, 2099, 2100,
    2106), every edge nanosecond count, random ones, and seconds beyond 32 bits up to the year-10000 refusal"""
    out = []
    years = [1970, 1971, 1972, 1999, 2000, 2024, 2025, 2037, 2038, 2099, 2100, 2105, rng.randrange(1970, 2106)]
    for y in years:
        y0 = year_start(y)
        for s in S_EDGE:
            for ns in (rng.choice(NS_EDGE), rng.choice(NS_EDGE[3:8])):
                out.append((y0 + s, ns))
        if y0 > 0:
            out.append((y0 - 1, 999999999))    # the last second of the year before
    for ns in NS_EDGE:
        out.append((year_start(2024) + rng.choice(S_EDGE), ns))
    for _ in range(n):
        c = rng.random()
        s = rng.randrange(0, 2 ** 32) if c < 0.8 else rng.randrange(2 ** 32, 253402300800)
        r = rng.random()
        ns = rng.choice(NS_EDGE) if r < 0.3 else (100 * rng.randrange(0, 10 ** 7) + rng.choice([0, 1, 50, 96, 97, 98, 99])
                                                  if r < 0.7 else rng.randrange(0, 2 ** 32))
        out.append((s, ns))
    y24 = year_start(2024)
    out += [(y24 + 14073748, 835532700), (y24 + 14073748, 835532699), (y24 + 14073748, 835532799), (y24 + 14073748, 835532899),
            (253402300799, 999999999), (253402300800, 0), (253402300800 + 86400 * 400, 5), (2 ** 40 - 1, 1)]
    return out

def corr_C15(ctx):
    return [gen.F("ptp.to_rtc", str(s), str(ns)) for s, ns in stamps(ctx.rng, ctx.scale(1500, 60000))]

def check_to_rtc(args):
    """on the exactness domain of `to_rtc_exact`: to_rtc() == S*10^7 + ns//100, S = seconds since the start of the year"""
    s, ns = args["seconds"], args["nanoseconds"]
    got = _to_rtc(s, ns)
    S = since_year_start(s)
    want = S * 10 ** 7 + ns // 100
    if (want < DOMAIN or (want + 1 <= DOMAIN_EXEC and ns < 2 ** 32)) and got != want:
        return "PTPTime(%d, %d).to_rtc() = %d, but second %d of the year and %d ns are %d ticks of 100 ns" % (
            s, ns, got, S, ns, want)
    return None

def oracles_C15(ctx, hints):
    fails, n = [], 0
    off, big, total_out = [], [], 0
    for s, ns in stamps(ctx.rng, ctx.scale(1500, 60000)):
        if s >= 253402300800:
            continue
        n += 1
        args = {"seconds": s, "nanoseconds": ns}
        w = check_to_rtc(args)
        if w:
            fails.append(Failure("to_rtc", args, w, {"function": "PTPTime.to_rtc", "check": "exact_domain"}))
            break
        S = since_year_start(s)
        want = S * 10 ** 7 + ns // 100
        if not (want < DOMAIN or (want + 1 <= DOMAIN_EXEC and ns < 2 ** 32)):
            total_out += 1
            got = _to_rtc(s, ns)
            if got != want:
                off.append((s, ns, got - want))
            if got >= 2 ** 48:
                big.append((s, ns))
    if off:
        ctx.notes.append("observation (to_rtc): outside the exactness domain %d of %d stamps differ from S*10^7 + ns//100, "
                         "every difference is %s; first: PTPTime(%d, %d)" % (
                             len(off), total_out, sorted(set(d for _, _, d in off)), off[0][0], off[0][1]))
    if big:
        ctx.notes.append("observation (to_rtc): %d results do not fit 48 bits (no modulus in to_rtc); first: PTPTime(%d, %d)" % (
            len(big), big[0][0], big[0][1]))
    ctx.count("oracle_evaluations", n)
    return fails

ORACLES = {"to_rtc": check_to_rtc}
