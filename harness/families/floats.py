"""The exact binary64 model (lean/Acra/Py/Float.lean: rationals + round-to-nearest-even) compared
bit for bit with CPython's float arithmetic.  Every float theorem is about that model's `rne`
(proved to satisfy Lemmas.Float.FloatSem), so this comparison is what ties the theorems to CPython."""
import struct
from ..core import FUNCS
from .. import gen

def _bits(x):
    return struct.unpack("<Q", struct.pack("<d", x))[0]
def _flt(b):
    return struct.unpack("<d", struct.pack("<Q", b))[0]

FUNCS["float.add"] = lambda a, b: _bits(_flt(a) + _flt(b))
FUNCS["float.sub"] = lambda a, b: _bits(_flt(a) - _flt(b))
FUNCS["float.mul"] = lambda a, b: _bits(_flt(a) * _flt(b))
FUNCS["float.div"] = lambda a, b: _bits(_flt(a) / _flt(b))
FUNCS["float.ofnat"] = lambda n: _bits(float(n))
FUNCS["float.tonat"] = lambda a: int(_flt(a))
FUNCS["float.round"] = lambda a: round(_flt(a))

def _rand_float(rng):
    c = rng.random()
    if c < 0.25:
        return float(rng.randrange(0, 2 ** 40))
    if c < 0.45:
        return rng.random() * 10 ** rng.randrange(0, 12)
    if c < 0.65:
        return float(rng.randrange(0, 2 ** 33)) / 90e3          # PTS seconds
    if c < 0.8:
        return float(rng.randrange(0, 10 ** 9)) * (2 ** 32 / 1e9)  # NTP fractions
    return rng.uniform(1e-9, 1e10)

def float_lines(ctx, n):
    rng = ctx.rng
    lines = []
    for _ in range(n):
        a, b = _rand_float(rng), _rand_float(rng)
        lines.append(gen.F("float.add", str(_bits(a)), str(_bits(b))))
        lines.append(gen.F("float.mul", str(_bits(a)), str(_bits(b))))
        if b > 0:
            lines.append(gen.F("float.div", str(_bits(a)), str(_bits(b))))
        if a >= b:
            lines.append(gen.F("float.sub", str(_bits(a)), str(_bits(b))))
        lines.append(gen.F("float.tonat", str(_bits(a))))
        lines.append(gen.F("float.round", str(_bits(a * rng.choice([1, 0.5])))))
        lines.append(gen.F("float.ofnat", str(rng.choice([rng.randrange(0, 2 ** 64), rng.randrange(2 ** 53, 2 ** 54), 2 ** 53 + 1]))))
    return lines

def corr_C15(ctx):
    return float_lines(ctx, ctx.scale(1500, 60000))

def corr_C04(ctx):
    return float_lines(ctx, ctx.scale(500, 20000))
