"""Family: MPEG-TS packet, adaptation field + extension, MPEGTS, PMT, PES, STANAG 4609, PTS helpers."""
import struct
from ..core import hexb, run_line_impl, run_driver, SPECDRIVER, ADAPTERS
from ..runner import Failure
from .. import gen
from ..gen import ClassGen

def _spec(lines):
    return run_driver(lines, exe=SPECDRIVER)

def B(x):
    return "True" if x else "False"

def obj(name, d):
    return name + "{" + ",".join("%s=%s" % (k, v) for k, v in d.items()) + "}"

# =================================================================================== generators
EXT_SIZES = (("ltw", 2), ("piecewise", 3), ("seamless_splice", 5))

def ext_fields(rng, subset=None):
    """a well-formed extension: every part absent or of its exact size"""
    if subset is None:
        subset = rng.randrange(8)
    f = {}
    for i, (k, n) in enumerate(EXT_SIZES):
        f[k] = hexb(rng.bytes_(n)) if (subset >> i) & 1 else "x"
    return f

def ext_len(f):
    return 2 + sum(len(f[k]) // 2 for k, _ in EXT_SIZES if k in f)

def af_fields(rng, subset=None, ext_subset=None, stuffing=0, private_len=None, consistent_flags=True):
    """a well-formed adaptation field.  subset bits: 0 pcr, 1 opcr, 2 splice, 3 private data, 4 extension"""
    if subset is None:
        subset = rng.randrange(32)
    f = {"discontinutiy": B(rng.random() < 0.5), "random_access": B(rng.random() < 0.5),
         "es_priority": B(rng.random() < 0.5)}
    n = 1
    f["pcr"] = hexb(rng.bytes_(6)) if subset & 1 else "x"
    f["opcr"] = hexb(rng.bytes_(6)) if subset & 2 else "x"
    f["splice_countdown"] = str(rng.choice([1, 2, 127, 128, 255, rng.randrange(1, 256)])) if subset & 4 else "0"
    if subset & 8:
        pl = private_len if private_len is not None else rng.choice([1, 2, 3, 7, 16, 40])
        f["private_data"] = hexb(rng.bytes_(pl))
        n += 1 + pl
    else:
        f["private_data"] = "x"
    if subset & 16:
        e = ext_fields(rng, ext_subset)
        f["adaption_extension"] = obj("MPEGAdaptionExtension", e)
        n += ext_len(e)
    else:
        f["adaption_extension"] = "None"
    n += (6 if subset & 1 else 0) + (6 if subset & 2 else 0) + (1 if subset & 4 else 0)
    f["length"] = str(n + stuffing) if stuffing else str(rng.choice([0, 0, n, max(0, n - 1)]))
    if not consistent_flags:
        for k in ("pcr_flag", "opcr_flag", "splicing_flag", "transpart_flag", "extension_flag"):
            f[k] = B(rng.random() < 0.5)
    return f, max(n, int(f["length"]))        # fields, value of the emitted length byte

def af_valid(rng):
    return af_fields(rng, stuffing=rng.choice([0, 0, 1, 5, 30]))[0]

HDR = [("pid", 13), ("transport_priority", 1), ("tsc", 2), ("continuitycounter", 4)]

def hdr_fields(rng):
    f = {"sync": "71", "tei": B(rng.random() < 0.3), "pusi": B(rng.random() < 0.5)}
    for k, b in HDR:
        f[k] = str(rng.boundary(b))
    return f

def pkt_exact(rng, afc=None, room=None):
    """a packet that fills its 188 bytes exactly (what the format can express); `room` keeps that many
    payload bytes free for a subclass to fill.  Returns (fields, payload bytes available)."""
    f = hdr_fields(rng)
    afc = rng.choice([1, 1, 2, 3, 3, 3, 0]) if afc is None else afc
    f["adaption_ctrl"] = str(afc)
    f["adaption_field"] = "None"
    avail = 0
    if afc == 1:
        avail = 184
    elif afc == 2:
        af, ln = af_fields(rng, stuffing=rng.choice([0, 3, 20]))
        f["adaption_field"] = obj("MPEGAdaption", af)
    elif afc == 3:
        if rng.random() < 0.2:
            avail = 183                                  # adaption_field None: a single 0 byte
        else:
            af, ln = af_fields(rng, private_len=rng.choice([1, 2, 5]))
            if room is not None:                         # stuff the adaptation field so that `room` bytes remain
                want = 183 - room
                if want > ln:
                    af["length"] = str(want)
                    ln = want
            f["adaption_field"] = obj("MPEGAdaption", af)
            avail = 183 - ln
    f["payload"] = hexb(rng.bytes_(avail)) if room is None else "x"
    return f, avail

def pkt_valid(rng):
    return pkt_exact(rng)[0]

def ts_valid(rng):
    return {"blocks": "[" + ";".join(obj("MPEGPacket", pkt_exact(rng)[0]) for _ in range(rng.randrange(0, 4))) + "]"}

def desc_fields(rng):
    return {"tag": str(rng.boundary(8)), "data": hexb(rng.bytes_(rng.choice([0, 1, 2, 5, 9])))}

def stream_fields(rng):
    return {"streamtype": str(rng.boundary(8)), "elementary_pid": str(rng.boundary(13)),
            "elementary_stream_descriptors": hexb(rng.bytes_(rng.choice([0, 0, 1, 4, 6, 11])))}

PMT_OWN = [("tableid", 8), ("syntax_indicator", 1), ("program_number", 16), ("version", 5),
           ("current_next_indicator", 1), ("section", 8), ("last_section", 8), ("pcr_pid", 13)]

def pmt_valid(rng, nd=None, ns=None):
    f = hdr_fields(rng)
    f["adaption_ctrl"] = str(rng.choice([1, 1, 3]))
    f["adaption_field"] = "None"
    if f["adaption_ctrl"] == "3" and rng.random() < 0.6:
        f["adaption_field"] = obj("MPEGAdaption", af_fields(rng, subset=rng.choice([0, 1, 8]), private_len=2)[0])
    for k, b in PMT_OWN:
        f[k] = str(rng.boundary(b))
    nd = rng.randrange(0, 4) if nd is None else nd
    ns = rng.randrange(0, 5) if ns is None else ns
    f["descriptor_tags"] = "[" + ";".join(obj("DescriptorTag", desc_fields(rng)) for _ in range(nd)) + "]"
    f["streams"] = "[" + ";".join(obj("PMTStream", stream_fields(rng)) for _ in range(ns)) + "]"
    return f

def pes_valid(rng, header=None, fill=True):
    """PES packet; fill=True: the PES packet fills the TS packet exactly"""
    header = (rng.random() < 0.5) if header is None else header
    afc = rng.choice([1, 3])
    hd = rng.bytes_(rng.choice([0, 5, 5, 10])) if header else None
    over = 6 + ((3 + len(hd)) if header else 0)
    room = rng.choice([over + 1, over + 20, 100, 150, 170])
    if afc == 1:
        room = 184
    f, avail = pkt_exact(rng, afc=afc, room=room)
    n = max(0, avail - over) if fill else rng.randrange(0, max(1, avail - over))
    data = bytearray(rng.bytes_(n))
    if not header and n and (data[0] >> 4) == 8:
        data[0] ^= 0x40                                  # keep clear of the K2 heuristic (that is C06's business)
    f["streamid"] = str(rng.boundary(8))
    f["pesdata"] = hexb(bytes(data))
    if header:
        f["extension_w1"] = str(0x80 | rng.randrange(16))
        f["extension_w2"] = str(rng.boundary(8))
        f["header_data"] = hexb(hd)
    else:
        f["extension_w1"] = f["extension_w2"] = f["header_data"] = "None"
    return f

def stanag_valid(rng, header=None):
    """a STANAG 4609 packet whose 36 bytes of metadata end exactly at byte 188 (adaptation-field stuffing)"""
    header = (rng.random() < 0.5) if header is None else header
    hd = rng.bytes_(5) if header else None
    over = 6 + ((3 + len(hd)) if header else 0)
    f, avail = pkt_exact(rng, afc=3, room=over + 36)
    while avail != over + 36:                            # the random adaptation field was too long: draw again
        f, avail = pkt_exact(rng, afc=3, room=over + 36)
    f["streamid"] = str(rng.boundary(8))
    if header:
        f["extension_w1"] = str(0x80 | rng.randrange(16))
        f["extension_w2"] = str(rng.boundary(8))
        f["header_data"] = hexb(hd)
    else:
        f["extension_w1"] = f["extension_w2"] = f["header_data"] = "None"
    f["stanag_counter"] = str(rng.boundary(16))
    f["_unknown"] = str(rng.boundary(8))
    f["_unknown2"] = str(rng.boundary(16))
    f["time_us"] = str(rng.boundary(64))
    return f

CLASSGEN = {
    "MPEGAdaptionExtension": ClassGen("MPEGAdaptionExtension", lambda rng: ext_fields(rng), length_fields=[(0, 1, "big")]),
    "MPEGAdaption": ClassGen("MPEGAdaption", af_valid, length_fields=[(0, 1, "big")]),
    "MPEGPacket": ClassGen("MPEGPacket", pkt_valid, length_fields=[(4, 1, "big")]),
    "MPEGTS": ClassGen("MPEGTS", ts_valid, length_fields=[(4, 1, "big")]),
    "DescriptorTag": ClassGen("DescriptorTag", desc_fields, length_fields=[(1, 1, "big")]),
    "PMTStream": ClassGen("PMTStream", stream_fields, length_fields=[(3, 2, "big")]),
    "MPEGPacketPMT": ClassGen("MPEGPacketPMT", pmt_valid, length_fields=[(4, 1, "big"), (5, 1, "big"), (6, 2, "big"), (15, 2, "big")]),
    "PES": ClassGen("PES", pes_valid, length_fields=[(4, 1, "big"), (8, 2, "big")]),
    "STANAG4609": ClassGen("STANAG4609", stanag_valid, length_fields=[(4, 1, "big")],
                           # _unknown/_unknown2 are encoded but private: outside C14's quantifier ("public fields")
                           eq_fields=["sync", "tei", "pusi", "pid", "transport_priority", "tsc", "continuitycounter",
                                      "adaption_ctrl", "adaption_field", "payload", "streamid", "extension_w1",
                                      "extension_w2", "header_data", "stanag_counter", "time_us"]),
}

ORACLES = {}
