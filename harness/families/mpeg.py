"""Family: MPEG-TS packet, adaptation field + extension, MPEGTS, PMT, PES, STANAG 4609, PTS helpers."""
import struct
from ..core import hexb, run_line_impl, run_driver, SPECDRIVER, ADAPTERS
from ..runner import Failure
from .. import gen
from ..gen import ClassGen

def _spec(lines):
    return run_driver(lines, exe=SPECDRIVER)

def B(x):
    return "True" if x else "False"

def obj(name, d):
    return name + "{" + ",".join("%s=%s" % (k, v) for k, v in d.items()) + "}"

# =================================================================================== generators
EXT_SIZES = (("ltw", 2), ("piecewise", 3), ("seamless_splice", 5))

def ext_fields(rng, subset=None):
    """a well-formed extension: every part absent or of its exact size"""
    if subset is None:
        subset = rng.randrange(8)
    f = {}
    for i, (k, n) in enumerate(EXT_SIZES):
        f[k] = hexb(rng.bytes_(n)) if (subset >> i) & 1 else "x"
    return f

def ext_len(f):
    return 2 + sum(len(f[k]) // 2 for k, _ in EXT_SIZES if k in f)

def af_fields(rng, subset=None, ext_subset=None, stuffing=0, private_len=None, consistent_flags=True):
    """a well-formed adaptation field.  subset bits: 0 pcr, 1 opcr, 2 splice, 3 private data, 4 extension"""
    if subset is None:
        subset = rng.randrange(32)
    f = {"discontinutiy": B(rng.random() < 0.5), "random_access": B(rng.random() < 0.5),
         "es_priority": B(rng.random() < 0.5)}
    n = 1
    f["pcr"] = hexb(rng.bytes_(6)) if subset & 1 else "x"
    f["opcr"] = hexb(rng.bytes_(6)) if subset & 2 else "x"
    f["splice_countdown"] = str(rng.choice([1, 2, 127, 128, 255, rng.randrange(1, 256)])) if subset & 4 else "0"
    if subset & 8:
        pl = private_len if private_len is not None else rng.choice([1, 2, 3, 7, 16, 40])
        f["private_data"] = hexb(rng.bytes_(pl))
        n += 1 + pl
    else:
        f["private_data"] = "x"
    if subset & 16:
        e = ext_fields(rng, ext_subset)
        f["adaption_extension"] = obj("MPEGAdaptionExtension", e)
        n += ext_len(e)
    else:
        f["adaption_extension"] = "None"
    n += (6 if subset & 1 else 0) + (6 if subset & 2 else 0) + (1 if subset & 4 else 0)
    f["length"] = str(n + stuffing) if stuffing else str(rng.choice([0, 0, n, max(0, n - 1)]))
    if not consistent_flags:
        for k in ("pcr_flag", "opcr_flag", "splicing_flag", "transpart_flag", "extension_flag"):
            f[k] = B(rng.random() < 0.5)
    return f, max(n, int(f["length"]))        # fields, value of the emitted length byte

def af_valid(rng):
    return af_fields(rng, stuffing=rng.choice([0, 0, 1, 5, 30]))[0]

HDR = [("pid", 13), ("transport_priority", 1), ("tsc", 2), ("continuitycounter", 4)]

def hdr_fields(rng):
    f = {"sync": "71", "tei": B(rng.random() < 0.3), "pusi": B(rng.random() < 0.5)}
    for k, b in HDR:
        f[k] = str(rng.boundary(b))
    return f

def pkt_exact(rng, afc=None, room=None):
    """a packet that fills its 188 bytes exactly (what the format can express); `room` keeps that many
    payload bytes free for a subclass to fill.  Returns (fields, payload bytes available)."""
    f = hdr_fields(rng)
    afc = rng.choice([1, 1, 2, 3, 3, 3, 0]) if afc is None else afc
    f["adaption_ctrl"] = str(afc)
    f["adaption_field"] = "None"
    avail = 0
    if afc == 1:
        avail = 184
    elif afc == 2:
        af, ln = af_fields(rng, stuffing=rng.choice([0, 3, 20]))
        f["adaption_field"] = obj("MPEGAdaption", af)
    elif afc == 3:
        if rng.random() < 0.2:
            avail = 183                                  # adaption_field None: a single 0 byte
        else:
            af, ln = af_fields(rng, private_len=rng.choice([1, 2, 5]))
            if room is not None:                         # stuff the adaptation field so that `room` bytes remain
                want = 183 - room
                if want > ln:
                    af["length"] = str(want)
                    ln = want
            f["adaption_field"] = obj("MPEGAdaption", af)
            avail = 183 - ln
    f["payload"] = hexb(rng.bytes_(avail)) if room is None else "x"
    return f, avail

def pkt_valid(rng):
    return pkt_exact(rng)[0]

def ts_valid(rng):
    return {"blocks": "[" + ";".join(obj("MPEGPacket", pkt_exact(rng)[0]) for _ in range(rng.randrange(0, 4))) + "]"}

def desc_fields(rng):
    return {"tag": str(rng.boundary(8)), "data": hexb(rng.bytes_(rng.choice([0, 1, 2, 5, 9])))}

def stream_fields(rng):
    return {"streamtype": str(rng.boundary(8)), "elementary_pid": str(rng.boundary(13)),
            "elementary_stream_descriptors": hexb(rng.bytes_(rng.choice([0, 0, 1, 4, 6, 11])))}

PMT_OWN = [("tableid", 8), ("syntax_indicator", 1), ("program_number", 16), ("version", 5),
           ("current_next_indicator", 1), ("section", 8), ("last_section", 8), ("pcr_pid", 13)]

def pmt_valid(rng, nd=None, ns=None):
    f = hdr_fields(rng)
    f["adaption_ctrl"] = str(rng.choice([1, 1, 3]))
    f["adaption_field"] = "None"
    if f["adaption_ctrl"] == "3" and rng.random() < 0.6:
        f["adaption_field"] = obj("MPEGAdaption", af_fields(rng, subset=rng.choice([0, 1, 8]), private_len=2)[0])
    for k, b in PMT_OWN:
        f[k] = str(rng.boundary(b))
    nd = rng.randrange(0, 4) if nd is None else nd
    ns = rng.randrange(0, 5) if ns is None else ns
    f["descriptor_tags"] = "[" + ";".join(obj("DescriptorTag", desc_fields(rng)) for _ in range(nd)) + "]"
    f["streams"] = "[" + ";".join(obj("PMTStream", stream_fields(rng)) for _ in range(ns)) + "]"
    return f

def pes_valid(rng, header=None, fill=True):
    """PES packet; fill=True: the PES packet fills the TS packet exactly"""
    header = (rng.random() < 0.5) if header is None else header
    afc = rng.choice([1, 3])
    hd = rng.bytes_(rng.choice([0, 5, 5, 10])) if header else None
    over = 6 + ((3 + len(hd)) if header else 0)
    room = rng.choice([over + 1, over + 20, 100, 150, 170])
    if afc == 1:
        room = 184
    f, avail = pkt_exact(rng, afc=afc, room=room)
    n = max(0, avail - over) if fill else rng.randrange(0, max(1, avail - over))
    data = bytearray(rng.bytes_(n))
    if not header and n and (data[0] >> 4) == 8:
        data[0] ^= 0x40                                  # keep clear of the K2 heuristic (that is C06's business)
    f["streamid"] = str(rng.boundary(8))
    f["pesdata"] = hexb(bytes(data))
    if header:
        f["extension_w1"] = str(0x80 | rng.randrange(16))
        f["extension_w2"] = str(rng.boundary(8))
        f["header_data"] = hexb(hd)
    else:
        f["extension_w1"] = f["extension_w2"] = f["header_data"] = "None"
    return f

def stanag_valid(rng, header=None):
    """a STANAG 4609 packet whose 36 bytes of metadata end exactly at byte 188 (adaptation-field stuffing)"""
    header = (rng.random() < 0.5) if header is None else header
    hd = rng.bytes_(5) if header else None
    over = 6 + ((3 + len(hd)) if header else 0)
    f, avail = pkt_exact(rng, afc=3, room=over + 36)
    while avail != over + 36:                            # the random adaptation field was too long: draw again
        f, avail = pkt_exact(rng, afc=3, room=over + 36)
    f["streamid"] = str(rng.boundary(8))
    if header:
        f["extension_w1"] = str(0x80 | rng.randrange(16))
        f["extension_w2"] = str(rng.boundary(8))
        f["header_data"] = hexb(hd)
    else:
        f["extension_w1"] = f["extension_w2"] = f["header_data"] = "None"
    f["stanag_counter"] = str(rng.boundary(16))
    f["_unknown"] = str(rng.boundary(8))
    f["_unknown2"] = str(rng.boundary(16))
    f["time_us"] = str(rng.boundary(64))
    return f

CLASSGEN = {
    "MPEGAdaptionExtension": ClassGen("MPEGAdaptionExtension", lambda rng: ext_fields(rng), length_fields=[(0, 1, "big")]),
    "MPEGAdaption": ClassGen("MPEGAdaption", af_valid, length_fields=[(0, 1, "big")]),
    "MPEGPacket": ClassGen("MPEGPacket", pkt_valid, length_fields=[(4, 1, "big")]),
    "MPEGTS": ClassGen("MPEGTS", ts_valid, length_fields=[(4, 1, "big")]),
    "DescriptorTag": ClassGen("DescriptorTag", desc_fields, length_fields=[(1, 1, "big")]),
    "PMTStream": ClassGen("PMTStream", stream_fields, length_fields=[(3, 2, "big")]),
    "MPEGPacketPMT": ClassGen("MPEGPacketPMT", pmt_valid, length_fields=[(4, 1, "big"), (5, 1, "big"), (6, 2, "big"), (15, 2, "big")]),
    "PES": ClassGen("PES", pes_valid, length_fields=[(4, 1, "big"), (8, 2, "big")]),
    "STANAG4609": ClassGen("STANAG4609", stanag_valid, length_fields=[(4, 1, "big")],
                           # _unknown/_unknown2 are encoded but private: outside C14's quantifier ("public fields")
                           eq_fields=["sync", "tei", "pusi", "pid", "transport_priority", "tsc", "continuitycounter",
                                      "adaption_ctrl", "adaption_field", "payload", "streamid", "extension_w1",
                                      "extension_w2", "header_data", "stanag_counter", "time_us"]),
}

ORACLES = {}

# =================================================================================== correspondence streams
def _decode_side(lines, extra_ops=("obs", "pack", "obs")):
    """every byte string the implementation produced, decoded into a fresh object and re-encoded"""
    out = []
    for l in lines:
        a = run_line_impl(l)
        cls = l.split()[1]
        for p in a.split("|"):
            if p.startswith("ok:x"):
                out.append(gen.H(cls, ["unpack " + p[3:]] + list(extra_ops)))
    return out

def ext_lines(ctx):
    rng = ctx.rng
    lines = []
    for subset in range(8):
        lines.append(gen.H("MPEGAdaptionExtension", gen.sets(ext_fields(rng, subset)) + ["pack", "obs"]))
    for k, n in EXT_SIZES:                                  # wrong sizes: bare Exception
        for m in (1, n - 1, n + 1, 9):
            f = ext_fields(rng, rng.randrange(8))
            f[k] = hexb(rng.bytes_(m))
            lines.append(gen.H("MPEGAdaptionExtension", gen.sets(f) + ["pack", "obs"]))
    for subset in range(8):                                 # stale flags are overwritten by pack
        f = ext_fields(rng, subset)
        for fl in ("ltw_flag", "piecewise_rate_flag", "seamless_splice_flag"):
            f[fl] = B(rng.random() < 0.5)
        lines.append(gen.H("MPEGAdaptionExtension", gen.sets(f) + ["obs", "pack", "obs", "pack", "obs"]))
    # decode: every flag combination x declared length 0..14 x buffer lengths around it
    for flags in range(8):
        for ln in (0, 1, 2, 3, 4, 5, 7, 9, 10, 12, 13, 200):
            body = rng.bytes_(12)
            b = bytes([ln, 0x1F | (flags << 5)]) + body
            for cut in (len(b), ln, max(0, ln - 1), ln + 1, 1, 2):
                lines.append(gen.H("MPEGAdaptionExtension", ["unpack " + hexb(b[:cut]), "obs"]))
    return lines

def af_lines(ctx):
    rng = ctx.rng
    lines = []
    # every subset of {PCR, OPCR, splice, private data, extension} x stuffing
    for subset in range(32):
        for stuffing in (0, 1, 2, 17, ctx.rng.randrange(3, 120)):
            f, _ = af_fields(rng, subset, stuffing=stuffing)
            lines.append(gen.H("MPEGAdaption", gen.sets(f) + ["pack", "obs", "pack", "obs"]))
    for ext_subset in range(8):
        f, _ = af_fields(rng, 16 | rng.randrange(16), ext_subset=ext_subset)
        lines.append(gen.H("MPEGAdaption", gen.sets(f) + ["pack", "obs"]))
    for pl in (1, 2, 3, 100, 254, 255, 256, 300):           # private data 1..255, then struct.error
        f, _ = af_fields(rng, 8 | rng.randrange(8), private_len=pl)
        lines.append(gen.H("MPEGAdaption", gen.sets(f) + ["pack", "obs"]))
    for _ in range(ctx.scale(40, 2000)):                    # flags that do not match the parts (never cleared by pack)
        f, _ = af_fields(rng, consistent_flags=False, stuffing=rng.choice([0, 0, 4]))
        lines.append(gen.H("MPEGAdaption", gen.sets(f) + ["pack", "obs"]))
    for n in (1, 2, 5, 6, 7, 12):                           # pcr must be 0 or 6 bytes; opcr may be anything
        f, _ = af_fields(rng, 0)
        f["pcr"] = hexb(rng.bytes_(n))
        lines.append(gen.H("MPEGAdaption", gen.sets(f) + ["pack", "obs"]))
        f, _ = af_fields(rng, rng.randrange(32))
        f["opcr"] = hexb(rng.bytes_(n))
        lines.append(gen.H("MPEGAdaption", gen.sets(f) + ["pack", "obs"]))
    for sc in (0, 1, 255, 256, 1000):
        f, _ = af_fields(rng, rng.randrange(32))
        f["splice_countdown"] = str(sc)
        lines.append(gen.H("MPEGAdaption", gen.sets(f) + ["pack", "obs"]))
    for ln in (0, 1, 183, 255, 256, 70000):
        f, _ = af_fields(rng, rng.randrange(32))
        f["length"] = str(ln)
        lines.append(gen.H("MPEGAdaption", gen.sets(f) + ["pack", "obs"]))
    f, _ = af_fields(rng, 16)                               # extension with a part of the wrong size
    f["adaption_extension"] = "MPEGAdaptionExtension{ltw=x01}"
    lines.append(gen.H("MPEGAdaption", gen.sets(f) + ["pack", "obs"]))
    # decode: every flags byte with buffers of every length 0..40 (truncation inside each optional part)
    for flags in list(range(0, 32)) + [rng.randrange(256) for _ in range(ctx.scale(16, 224))]:
        body = bytes([rng.randrange(0, 60), flags & 0xFF]) + rng.bytes_(6 + 6 + 1) + bytes([rng.choice([0, 1, 3, 9, 200])]) + \
               rng.bytes_(3) + bytes([rng.choice([0, 2, 4, 7, 12, 30]), rng.randrange(256)]) + rng.bytes_(14)
        for cut in sorted(set([len(body)] + [rng.randrange(0, len(body)) for _ in range(ctx.scale(4, 30))] + [0, 1, 2, 3])):
            lines.append(gen.H("MPEGAdaption", ["unpack " + hexb(body[:cut]), "obs"]))
    return lines

def pkt_lines(ctx):
    rng = ctx.rng
    lines = []
    widths = {"sync": 8, "pid": 13, "transport_priority": 1, "tsc": 2, "adaption_ctrl": 2, "continuitycounter": 4}
    for k, b in widths.items():                             # each header field over its boundaries (and beyond)
        for v in (0, 1, (1 << b) - 1, 1 << (b - 1), 1 << b, 0x47, 255, 256, 65535, 65536):
            f = hdr_fields(rng)
            f["adaption_ctrl"] = "1"
            f[k] = str(v)
            f["payload"] = hexb(rng.bytes_(rng.choice([0, 5, 184])))
            lines.append(gen.H("MPEGPacket", gen.sets(f) + ["pack", "obs"]))
    for tei in (True, False):
        for pusi in (True, False):
            f = hdr_fields(rng); f["tei"] = B(tei); f["pusi"] = B(pusi); f["adaption_ctrl"] = "1"
            lines.append(gen.H("MPEGPacket", gen.sets(f) + ["pack", "obs"]))
    for afc in range(4):                                    # every adaptation-control mode x adaption_field None / present
        for n in (0, 1, 100, 182, 183, 184, 185, 200):      # under-full, exactly full, over-full (longer packet)
            for with_af in (False, True):
                f = hdr_fields(rng)
                f["adaption_ctrl"] = str(afc)
                f["payload"] = hexb(rng.bytes_(n))
                if with_af:
                    f["adaption_field"] = obj("MPEGAdaption", af_fields(rng, stuffing=rng.choice([0, 3]))[0])
                lines.append(gen.H("MPEGPacket", gen.sets(f) + ["pack", "obs"]))
                lines.append(gen.H("MPEGPacket", gen.sets(f) + ["pack True", "obs"]))
    for subset in range(32):                                # every optional-part combination inside a packet
        for stuffing in (0, rng.randrange(1, 100)):
            af, ln = af_fields(rng, subset, stuffing=stuffing)
            f = hdr_fields(rng)
            f["adaption_ctrl"] = str(rng.choice([2, 3, 3]))
            f["adaption_field"] = obj("MPEGAdaption", af)
            f["payload"] = hexb(rng.bytes_(rng.choice([0, max(0, 183 - ln), max(0, 183 - ln - 7)])))
            lines.append(gen.H("MPEGPacket", gen.sets(f) + ["pack", "obs"]))
    for _ in range(ctx.scale(60, 3000)):                    # exactly filled packets
        lines.append(gen.H("MPEGPacket", gen.sets(pkt_exact(rng)[0]) + ["pack", "obs"]))
    for ln in range(0, 190, ctx.scale(7, 1)):               # adaptation-field length byte 0..189 with AFC 3 and 2
        for afc in (3, 2):
            b = bytes([0x47, rng.randrange(256), rng.randrange(256), (afc << 4) | rng.randrange(16), ln, rng.randrange(256)]) + rng.bytes_(182)
            lines.append(gen.H("MPEGPacket", ["unpack " + hexb(b), "obs", "pack", "obs"]))
            lines.append(gen.H("MPEGPacket", ["unpack " + hexb(b[:rng.randrange(4, 188)]), "obs"]))
    for sync in (0x00, 0x46, 0x48, 0xB8, 0xFF):
        lines.append(gen.H("MPEGPacket", ["unpack " + hexb(bytes([sync]) + rng.bytes_(187)), "obs"]))
    for n in range(0, 8):
        lines.append(gen.H("MPEGPacket", ["unpack " + hexb((b"\x47\x40\x11\x30" + rng.bytes_(8))[:n]), "obs"]))
    return lines

def ts_lines(ctx):
    rng = ctx.rng
    lines = []
    for n in range(0, 6):
        pk = [pkt_exact(rng)[0] for _ in range(n)]
        lines.append(gen.H("MPEGTS", ["set blocks [" + ";".join(obj("MPEGPacket", p) for p in pk) + "]", "pack", "obs"]))
    base = _decode_side(lines, extra_ops=())
    for l in list(base):                                    # N x 188, N x 188 + r, a bad sync byte in packet k
        b = bytes.fromhex((l.split("unpack x")[1].split("|")[0].split() or [""])[0])
        lines.append(gen.H("MPEGTS", ["unpack " + hexb(b), "obs", "pack", "obs"]))
        for r in (1, 3, 4, 5, 100, 187):
            lines.append(gen.H("MPEGTS", ["unpack " + hexb(b + b"\x47" + rng.bytes_(r - 1)), "obs"]))
        for k in range(len(b) // 188):
            m = bytearray(b); m[k * 188] = 0x48
            lines.append(gen.H("MPEGTS", ["unpack " + hexb(bytes(m)), "obs"]))
    for ops in (["pack", "obs"], ["unpack x", "obs", "pack"]):
        lines.append(gen.H("MPEGTS", ops))
    over = hdr_fields(rng); over["adaption_ctrl"] = "1"; over["payload"] = hexb(rng.bytes_(190))
    lines.append(gen.H("MPEGTS", ["set blocks [" + obj("MPEGPacket", over) + "]", "pack", "obs"]))
    return lines

def pmt_lines(ctx):
    rng = ctx.rng
    lines = []
    for nd in range(0, 4):
        for ns in range(0, 5):
            lines.append(gen.H("MPEGPacketPMT", gen.sets(pmt_valid(rng, nd, ns)) + ["pack", "obs"]))
    for k, b in PMT_OWN + [("pid", 13)]:                    # own header fields over their boundaries and beyond
        for v in (0, 1, (1 << b) - 1, 1 << (b - 1), 1 << b):
            f = pmt_valid(rng, 1, 1)
            f[k] = str(v)
            lines.append(gen.H("MPEGPacketPMT", gen.sets(f) + ["pack", "obs"]))
    f = pmt_valid(rng, 0, 0)                                # element-level failures
    f["descriptor_tags"] = "[DescriptorTag{tag=None,data=x01}]"
    lines.append(gen.H("MPEGPacketPMT", gen.sets(f) + ["pack", "obs"]))
    f["descriptor_tags"] = "[DescriptorTag{tag=256,data=x}]"
    lines.append(gen.H("MPEGPacketPMT", gen.sets(f) + ["pack", "obs"]))
    f["descriptor_tags"] = "[DescriptorTag{tag=5,data=%s}]" % hexb(rng.bytes_(256))
    lines.append(gen.H("MPEGPacketPMT", gen.sets(f) + ["pack", "obs"]))
    f["descriptor_tags"] = "[]"
    f["streams"] = "[PMTStream{streamtype=256,elementary_pid=1,elementary_stream_descriptors=x}]"
    lines.append(gen.H("MPEGPacketPMT", gen.sets(f) + ["pack", "obs"]))
    f["streams"] = "[PMTStream{streamtype=2,elementary_pid=8192,elementary_stream_descriptors=x}]"
    lines.append(gen.H("MPEGPacketPMT", gen.sets(f) + ["pack", "obs"]))
    f = pmt_valid(rng, 0, 0); f["adaption_ctrl"] = "1"     # a section longer than the packet
    f["streams"] = "[" + ";".join(obj("PMTStream", {"streamtype": "1", "elementary_pid": "2",
                    "elementary_stream_descriptors": hexb(rng.bytes_(40))}) for _ in range(5)) + "]"
    lines.append(gen.H("MPEGPacketPMT", gen.sets(f) + ["pack", "obs"]))
    for afc in (0, 2):                                      # adaptation control without payload: own decoder fails
        f = pmt_valid(rng, 1, 1); f["adaption_ctrl"] = str(afc)
        lines.append(gen.H("MPEGPacketPMT", gen.sets(f) + ["pack", "obs"]))
    for nm, fn in (("DescriptorTag", desc_fields), ("PMTStream", stream_fields)):
        for _ in range(ctx.scale(10, 200)):
            lines.append(gen.H(nm, gen.sets(fn(rng)) + ["pack", "obs"]))
    return lines

def pmt_mutants(rng, b, thorough=False):
    """a valid PMT packet with the fields that steer the parse forced to other values, truncated sections,
    a pointer field, and corrupted CRC-protected bytes"""
    out = []
    start = 4
    if (b[3] >> 4) & 3 == 3:
        start = 5 + b[4]
    if start + 13 > len(b):
        return out
    sec = start + 1
    slen = ((b[sec + 1] & 0xF) << 8) | b[sec + 2]
    pil = ((b[sec + 10] & 0xF) << 8) | b[sec + 11]
    def put(m, off, val, size):
        return m[:off] + val.to_bytes(size, "big") + m[off + size:]
    for v in (0, 1, 2, 3, slen - 5, slen - 1, slen + 1, slen + 5, 170, 183, 0xFFF):
        if 0 <= v <= 0xFFF:
            out.append(put(b, sec + 1, (b[sec + 1] & 0xF0) << 8 | v, 2))
    for v in (0, 1, 2, 3, pil - 1, pil + 1, pil + 2, slen, 0xFFF):
        if 0 <= v <= 0xFFF:
            out.append(put(b, sec + 10, (b[sec + 10] & 0xF0) << 8 | v, 2))
    for v in (1, 2, 5, 50, 170, 255):                       # pointer field
        out.append(put(b, start, v, 1))
        out.append(b[:start] + bytes([v]) + b"\xff" * v + b[start + 1:188 - v] if 188 - v > start + 1 else b)
    end = sec + 3 + slen
    positions = range(sec, min(end, len(b))) if thorough else sorted(set([sec, sec + 3, sec + 7, sec + 12, end - 5, end - 4, end - 1] +
                                                                            [rng.randrange(sec, max(sec + 1, min(end, len(b)))) for _ in range(6)]))
    for i in positions:
        if 0 <= i < len(b):
            for bit in ((0, 7) if not thorough else range(8)):
                m = bytearray(b); m[i] ^= 1 << bit
                out.append(bytes(m))
    for cut in (start, start + 1, start + 12, start + 13, end - 4, end - 1, end):
        out.append(b[:max(0, min(cut, len(b)))])
    return out

def _packed(cls, f, ops=("pack",)):
    a = run_line_impl(gen.H(cls, gen.sets(f) + list(ops)))
    r = a.split("|")[-1]
    return bytes.fromhex(r[4:]) if r.startswith("ok:x") else None

def pmt_decode_lines(ctx):
    rng = ctx.rng
    lines = []
    for _ in range(ctx.scale(8, 100)):
        b = _packed("MPEGPacketPMT", pmt_valid(rng))
        if b is None:
            continue
        lines.append(gen.H("MPEGPacketPMT", ["unpack " + hexb(b), "obs", "pack", "obs"]))
        for m in pmt_mutants(rng, b, thorough=(ctx.tier == "thorough")):
            lines.append(gen.H("MPEGPacketPMT", ["unpack " + hexb(m), "obs"]))
    return lines

K2_WITNESS = {"sync": "71", "adaption_ctrl": "1", "streamid": "224", "pesdata": hexb(bytes([0x80]) + bytes(177))}

def pes_lines(ctx):
    rng = ctx.rng
    lines = []
    for header in (False, True):
        for fill in (True, False):
            for _ in range(ctx.scale(12, 400)):
                lines.append(gen.H("PES", gen.sets(pes_valid(rng, header, fill)) + ["pack", "obs"]))
    lines.append(gen.H("PES", gen.sets(K2_WITNESS) + ["pack", "obs"]))          # K2: header-less, first byte 0x8_, exact fill
    for first in range(0, 256, 8):                           # header-less exact fill, every high nibble
        f = dict(K2_WITNESS); f["pesdata"] = hexb(bytes([first]) + rng.bytes_(177))
        lines.append(gen.H("PES", gen.sets(f) + ["pack", "obs"]))
    for w1 in (0x00, 0x40, 0x7F, 0x80, 0x81, 0x8F, 0x90, 0xC0, 0xFF, 256):      # only 0x8_ is recognised on decode
        f = pes_valid(rng, True, True); f["extension_w1"] = str(w1)
        lines.append(gen.H("PES", gen.sets(f) + ["pack", "obs"]))
    for part in ("extension_w1", "extension_w2", "header_data"):                # header present iff all three are set
        f = pes_valid(rng, True, True); f[part] = "None"
        lines.append(gen.H("PES", gen.sets(f) + ["pack", "obs"]))
    f = pes_valid(rng, True, True); f["header_data"] = hexb(rng.bytes_(256))
    lines.append(gen.H("PES", gen.sets(f) + ["pack", "obs"]))
    f = pes_valid(rng, False, True); f["streamid"] = "256"
    lines.append(gen.H("PES", gen.sets(f) + ["pack", "obs"]))
    for n in range(0, 12):                                   # short payloads: the 3-byte peek needs 9 bytes
        f = {"sync": "71", "adaption_ctrl": "1", "payload": "x"}
        b = bytes([0x47, 0x40, 0x11, 0x10]) + (bytes([0, 0, 1, 0xE0, 0, n]) + rng.bytes_(6))[:n]
        lines.append(gen.H("PES", ["unpack " + hexb(b), "obs"]))
    return lines

def pes_mutants(rng, b):
    out = []
    start = 4 if (b[3] >> 4) & 3 == 1 else 5 + b[4]
    if start + 9 > len(b):
        return out
    for i in range(3):                                       # the 24-bit prefix 000001, every byte at 0/1/other
        for v in (0, 1, 2, 0x80, 0xFF):
            m = bytearray(b); m[start + i] = v
            out.append(bytes(m))
    real = int.from_bytes(b[start + 4:start + 6], "big")
    for v in (0, real - 1, real + 1, len(b) - start - 6, 0xFFFF):
        if 0 <= v <= 0xFFFF:
            out.append(b[:start + 4] + v.to_bytes(2, "big") + b[start + 6:])
    for v in (0x00, 0x7F, 0x80, 0x8F, 0x90):
        m = bytearray(b); m[start + 6] = v
        out.append(bytes(m))
    for v in (0, 1, b[start + 8] + 1, 200, 255):
        m = bytearray(b); m[start + 8] = v
        out.append(bytes(m))
    return out

def stanag_lines(ctx):
    rng = ctx.rng
    lines = []
    for header in (False, True):
        for _ in range(ctx.scale(10, 300)):
            lines.append(gen.H("STANAG4609", gen.sets(stanag_valid(rng, header)) + ["pack", "obs"]))
    for t in (0, 1, 2 ** 32, 2 ** 63, 2 ** 64 - 1, 2 ** 64, 1706195279767139):
        f = stanag_valid(rng); f["time_us"] = str(t)
        lines.append(gen.H("STANAG4609", gen.sets(f) + ["pack", "obs"]))
    for k, b in (("stanag_counter", 16), ("_unknown", 8), ("_unknown2", 16)):
        for v in (0, (1 << b) - 1, 1 << b):
            f = stanag_valid(rng); f[k] = str(v)
            lines.append(gen.H("STANAG4609", gen.sets(f) + ["pack", "obs"]))
    f = stanag_valid(rng); f["adaption_ctrl"] = "1"; f["adaption_field"] = "None"   # not filled: own decoder rejects the checksum
    lines.append(gen.H("STANAG4609", gen.sets(f) + ["pack", "obs"]))
    lines.append(gen.H("STANAG4609", ["pack", "obs"]))
    return lines

def stanag_mutants(rng, b, every_bit=False):
    """key / tags / length / time / checksum bytes corrupted one at a time; PID changed"""
    out = []
    start = 5 + b[4] if (b[3] >> 4) & 3 == 3 else 4
    hdr = 9 + b[start + 8] if (b[start + 6] >> 4) == 8 else 6
    d = start + hdr                                          # start of pesdata
    for i in range(d, min(len(b), d + 36)):
        for bit in (range(8) if every_bit else (rng.randrange(8),)):
            m = bytearray(b); m[i] ^= 1 << bit
            out.append(bytes(m))
    for pid in (0x103, 0x105, 0x004, 0x1104 & 0x1FFF):
        m = bytearray(b); m[1] = (m[1] & 0xE0) | (pid >> 8); m[2] = pid & 0xFF
        out.append(bytes(m))
    out.append(b + b"\xff")
    out.append(b[:-1])
    return out

def corr_C06(ctx):
    lines = ext_lines(ctx) + af_lines(ctx) + pkt_lines(ctx) + pmt_lines(ctx) + pes_lines(ctx) + stanag_lines(ctx)
    lines += _decode_side([l for l in lines if "pack" in l])
    lines += ts_lines(ctx) + pmt_decode_lines(ctx)
    rng = ctx.rng
    for _ in range(ctx.scale(6, 100)):
        for hdr in (False, True):
            b = _packed("PES", pes_valid(rng, hdr, True))
            if b:
                lines += [gen.H("PES", ["unpack " + hexb(m), "obs"]) for m in pes_mutants(rng, b)]
            b = _packed("STANAG4609", stanag_valid(rng, hdr))
            if b:
                lines += [gen.H("STANAG4609", ["unpack " + hexb(m), "obs"]) for m in stanag_mutants(rng, b)]
    return lines
