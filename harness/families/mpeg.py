"""Family: MPEG-TS packet, adaptation field + extension, MPEGTS, PMT, PES, STANAG 4609, PTS helpers."""
import struct
from ..core import hexb, run_line_impl, run_driver, SPECDRIVER, ADAPTERS
from ..runner import Failure
from .. import gen
from ..gen import ClassGen

# The spec driver is a process per call; the oracles ask it thousands of small questions.  Answers are
# cached by request line, and `prefetch` runs a list of checks in "collect" mode (a check stops at the
# first question without an answer) so that the questions of a whole batch are asked in one call.
_SPEC_CACHE = {}
_COLLECT = None

class _NeedSpec(BaseException):
    pass

def _spec(lines):
    missing = [l for l in lines if l not in _SPEC_CACHE]
    if missing:
        if _COLLECT is not None:
            _COLLECT.extend(missing)
            raise _NeedSpec()
        uniq = list(dict.fromkeys(missing))
        for l, a in zip(uniq, run_driver(uniq, exe=SPECDRIVER)):
            _SPEC_CACHE[l] = a
    return [_SPEC_CACHE[l] for l in lines]

def prefetch(fn, argss):
    global _COLLECT
    try:
        for _ in range(5):
            _COLLECT = []
            for args in argss:
                try:
                    fn(args)
                except _NeedSpec:
                    pass
                except Exception:
                    pass
            need, _COLLECT = list(dict.fromkeys(_COLLECT)), None
            if not need:
                break
            for l, a in zip(need, run_driver(need, exe=SPECDRIVER)):
                _SPEC_CACHE[l] = a
    finally:
        _COLLECT = None
    if len(_SPEC_CACHE) > 200000:
        _SPEC_CACHE.clear()

def B(x):
    return "True" if x else "False"

def obj(name, d):
    return name + "{" + ",".join("%s=%s" % (k, v) for k, v in d.items()) + "}"

# =================================================================================== generators
EXT_SIZES = (("ltw", 2), ("piecewise", 3), ("seamless_splice", 5))

def ext_fields(rng, subset=None):
    """a well-formed extension: every part absent or of its exact size"""
    if subset is None:
        subset = rng.randrange(8)
    f = {}
    for i, (k, n) in enumerate(EXT_SIZES):
        f[k] = hexb(rng.bytes_(n)) if (subset >> i) & 1 else "x"
    return f

def ext_len(f):
    return 2 + sum(len(f[k]) // 2 for k, _ in EXT_SIZES if k in f)

def af_fields(rng, subset=None, ext_subset=None, stuffing=0, private_len=None, consistent_flags=True):
    """a well-formed adaptation field.  subset bits: 0 pcr, 1 opcr, 2 splice, 3 private data, 4 extension"""
    if subset is None:
        subset = rng.randrange(32)
    f = {"discontinutiy": B(rng.random() < 0.5), "random_access": B(rng.random() < 0.5),
         "es_priority": B(rng.random() < 0.5)}
    n = 1
    f["pcr"] = hexb(rng.bytes_(6)) if subset & 1 else "x"
    f["opcr"] = hexb(rng.bytes_(6)) if subset & 2 else "x"
    f["splice_countdown"] = str(rng.choice([1, 2, 127, 128, 255, rng.randrange(1, 256)])) if subset & 4 else "0"
    if subset & 8:
        pl = private_len if private_len is not None else rng.choice([1, 2, 3, 7, 16, 40])
        f["private_data"] = hexb(rng.bytes_(pl))
        n += 1 + pl
    else:
        f["private_data"] = "x"
    if subset & 16:
        e = ext_fields(rng, ext_subset)
        f["adaption_extension"] = obj("MPEGAdaptionExtension", e)
        n += ext_len(e)
    else:
        f["adaption_extension"] = "None"
    n += (6 if subset & 1 else 0) + (6 if subset & 2 else 0) + (1 if subset & 4 else 0)
    f["length"] = str(n + stuffing) if stuffing else str(rng.choice([0, 0, n, max(0, n - 1)]))
    if not consistent_flags:
        for k in ("pcr_flag", "opcr_flag", "splicing_flag", "transpart_flag", "extension_flag"):
            f[k] = B(rng.random() < 0.5)
    return f, max(n, int(f["length"]))        # fields, value of the emitted length byte

def af_valid(rng):
    return af_fields(rng, stuffing=rng.choice([0, 0, 1, 5, 30]))[0]

def af_combos():
    """every subset of {PCR, OPCR, splice countdown, private data, extension{LTW, piecewise, seamless}}:
    16 subsets without extension + 16 x 8 with an extension carrying each subset of its parts = 144"""
    out = [(s, None) for s in range(16)]
    out += [(16 | s, e) for s in range(16) for e in range(8)]
    return out

def combo_packets(rng, stuffings=(0, None), private_lens=(1, 2, 5, 9)):
    """for every combination: adaptation control 2 and 3, with and without payload, each requested stuffing
    (None = a random length that still fits)"""
    out = []
    for subset, ext_subset in af_combos():
        for st in stuffings:
            for afc in (2, 3):
                for with_payload in (False, True):
                    pl = rng.choice(private_lens)
                    af, ln = af_fields(rng, subset, ext_subset=ext_subset, private_len=pl,
                                       stuffing=(rng.randrange(1, 183 - 44) if st is None else st))
                    if st == 0:
                        af["length"] = "0"
                        ln = af_fields_len(af)
                    f = hdr_fields(rng)
                    f["adaption_ctrl"] = str(afc)
                    f["adaption_field"] = obj("MPEGAdaption", af)
                    room = max(0, 183 - ln)
                    if not with_payload:
                        f["payload"] = "x"
                    elif afc == 3:
                        f["payload"] = hexb(rng.bytes_(rng.choice([room, room, max(0, room - 1), max(1, room // 2)])))
                    else:
                        f["payload"] = hexb(rng.bytes_(rng.choice([1, 5])))   # AFC 2 ignores it on decode
                    out.append(f)
    return out

def af_fields_len(af):
    """data length (bytes after the length byte, without stuffing) of generated adaptation-field texts"""
    n = 1 + (len(af["pcr"]) - 1) // 2 + (len(af["opcr"]) - 1) // 2 + (1 if af["splice_countdown"] != "0" else 0)
    if af["private_data"] != "x":
        n += 1 + (len(af["private_data"]) - 1) // 2
    if af["adaption_extension"] != "None":
        n += 2 + sum((len(v) - 1) // 2 for v in parse_ext(af["adaption_extension"]))
    return n

def parse_ext(text):
    inner = text[text.index("{") + 1:-1]
    d = dict(kv.split("=") for kv in inner.split(",")) if inner else {}
    return [d.get(k, "x") for k, _ in EXT_SIZES]

HDR = [("pid", 13), ("transport_priority", 1), ("tsc", 2), ("continuitycounter", 4)]

def hdr_fields(rng):
    f = {"sync": "71", "tei": B(rng.random() < 0.3), "pusi": B(rng.random() < 0.5)}
    for k, b in HDR:
        f[k] = str(rng.boundary(b))
    return f

def pkt_exact(rng, afc=None, room=None):
    """a packet that fills its 188 bytes exactly (what the format can express); `room` keeps that many
    payload bytes free for a subclass to fill.  Returns (fields, payload bytes available)."""
    f = hdr_fields(rng)
    afc = rng.choice([1, 1, 2, 3, 3, 3, 0]) if afc is None else afc
    f["adaption_ctrl"] = str(afc)
    f["adaption_field"] = "None"
    avail = 0
    if afc == 1:
        avail = 184
    elif afc == 2:
        af, ln = af_fields(rng, stuffing=rng.choice([0, 3, 20]))
        f["adaption_field"] = obj("MPEGAdaption", af)
    elif afc == 3:
        if rng.random() < 0.2:
            avail = 183                                  # adaption_field None: a single 0 byte
        else:
            af, ln = af_fields(rng, private_len=rng.choice([1, 2, 5]))
            if room is not None:                         # stuff the adaptation field so that `room` bytes remain
                want = 183 - room
                if want > ln:
                    af["length"] = str(want)
                    ln = want
            f["adaption_field"] = obj("MPEGAdaption", af)
            avail = 183 - ln
    f["payload"] = hexb(rng.bytes_(avail)) if room is None else "x"
    return f, avail

def pkt_valid(rng):
    return pkt_exact(rng)[0]

def ts_valid(rng):
    return {"blocks": "[" + ";".join(obj("MPEGPacket", pkt_exact(rng)[0]) for _ in range(rng.randrange(0, 4))) + "]"}

def desc_fields(rng):
    return {"tag": str(rng.boundary(8)), "data": hexb(rng.bytes_(rng.choice([0, 1, 2, 5, 9])))}

def stream_fields(rng):
    return {"streamtype": str(rng.boundary(8)), "elementary_pid": str(rng.boundary(13)),
            "elementary_stream_descriptors": hexb(rng.bytes_(rng.choice([0, 0, 1, 4, 6, 11])))}

PMT_OWN = [("tableid", 8), ("syntax_indicator", 1), ("program_number", 16), ("version", 5),
           ("current_next_indicator", 1), ("section", 8), ("last_section", 8), ("pcr_pid", 13)]

def pmt_valid(rng, nd=None, ns=None):
    f = hdr_fields(rng)
    f["adaption_ctrl"] = str(rng.choice([1, 1, 3]))
    f["adaption_field"] = "None"
    if f["adaption_ctrl"] == "3" and rng.random() < 0.6:
        f["adaption_field"] = obj("MPEGAdaption", af_fields(rng, subset=rng.choice([0, 1, 8]), private_len=2)[0])
    for k, b in PMT_OWN:
        f[k] = str(rng.boundary(b))
    nd = rng.randrange(0, 4) if nd is None else nd
    ns = rng.randrange(0, 5) if ns is None else ns
    f["descriptor_tags"] = "[" + ";".join(obj("DescriptorTag", desc_fields(rng)) for _ in range(nd)) + "]"
    f["streams"] = "[" + ";".join(obj("PMTStream", stream_fields(rng)) for _ in range(ns)) + "]"
    return f

def pes_valid(rng, header=None, fill=True, hd_len=None, w2=None, afc=None):
    """PES packet; fill=True: the PES packet fills the TS packet exactly"""
    header = (rng.random() < 0.5) if header is None else header
    afc = rng.choice([1, 3]) if afc is None else afc
    hd = rng.bytes_(rng.choice([0, 5, 5, 10]) if hd_len is None else hd_len) if header else None
    over = 6 + ((3 + len(hd)) if header else 0)
    room = rng.choice([over + 1, over + 20, 100, 150, 170])
    if afc == 1:
        room = 184
    f, avail = pkt_exact(rng, afc=afc, room=room)
    n = max(0, avail - over) if fill else rng.randrange(0, max(1, avail - over))
    data = bytearray(rng.bytes_(n))
    if not header and n and (data[0] >> 4) == 8:
        data[0] ^= 0x40                                  # keep clear of the K2 heuristic (that is C06's business)
    f["streamid"] = str(rng.boundary(8))
    f["pesdata"] = hexb(bytes(data))
    if header:
        f["extension_w1"] = str(0x80 | rng.randrange(16))
        f["extension_w2"] = str(rng.boundary(8) if w2 is None else w2)
        f["header_data"] = hexb(hd)
    else:
        f["extension_w1"] = f["extension_w2"] = f["header_data"] = "None"
    return f

def pes_shapes(rng):
    """the header shapes C06 names: no optional header; a header with flags byte 0x00 and EMPTY header data
    (no PTS/DTS); header data of several lengths -- each filling the packet exactly with (AFC 3) and without
    (AFC 1) adaptation stuffing, and not filling it"""
    out = []
    for afc in (1, 3, 3):
        for fill in (True, False):
            out.append(pes_valid(rng, False, fill, afc=afc))
            out.append(pes_valid(rng, True, fill, hd_len=0, w2=0, afc=afc))
            for n in (0, 1, 5, 10, 19, 40):
                out.append(pes_valid(rng, True, fill, hd_len=n, w2=rng.choice([0x00, 0x80, 0xC0, rng.randrange(256)]), afc=afc))
    for n in (0, 1, 2, 3, 4):                              # short header-less packets filled by adaptation stuffing:
        for first in (None, 0x80, 0x8F):                   # fewer than 3 bytes after the prefix leave no room for the peek
            f, avail = pkt_exact(rng, afc=3, room=6 + n)
            tries = 0
            while avail != 6 + n and tries < 200:
                f, avail = pkt_exact(rng, afc=3, room=6 + n); tries += 1
            if avail != 6 + n:
                continue
            d = bytearray(rng.bytes_(n))
            if n and first is not None:
                d[0] = first
            if n >= 3 and (d[0] >> 4) == 8:
                d[0] ^= 0x40                               # K2 again from 3 bytes on
            f["streamid"] = str(rng.boundary(8)); f["pesdata"] = hexb(bytes(d))
            f["extension_w1"] = f["extension_w2"] = f["header_data"] = "None"
            out.append(f)
    return out

def stanag_valid(rng, header=None, avoid_k2=True):
    """a STANAG 4609 packet whose 36 bytes of metadata end exactly at byte 188 (adaptation-field stuffing)"""
    header = (rng.random() < 0.5) if header is None else header
    hd = rng.bytes_(5) if header else None
    over = 6 + ((3 + len(hd)) if header else 0)
    f, avail = pkt_exact(rng, afc=3, room=over + 36)
    while avail != over + 36:                            # the random adaptation field was too long: draw again
        f, avail = pkt_exact(rng, afc=3, room=over + 36)
    f["streamid"] = str(rng.boundary(8))
    if header:
        f["extension_w1"] = str(0x80 | rng.randrange(16))
        f["extension_w2"] = str(rng.boundary(8))
        f["header_data"] = hexb(hd)
    else:
        f["extension_w1"] = f["extension_w2"] = f["header_data"] = "None"
    c = rng.boundary(16)
    if avoid_k2 and not header and (c >> 12) == 8:
        c ^= 0x4000                                      # header-less + counter 0x8___: the K2 heuristic fires
    f["stanag_counter"] = str(c)
    f["_unknown"] = str(rng.boundary(8))
    f["_unknown2"] = str(rng.boundary(16))
    f["time_us"] = str(rng.boundary(64))
    return f

CLASSGEN = {
    "MPEGAdaptionExtension": ClassGen("MPEGAdaptionExtension", lambda rng: ext_fields(rng), length_fields=[(0, 1, "big")]),
    "MPEGAdaption": ClassGen("MPEGAdaption", af_valid, length_fields=[(0, 1, "big")]),
    "MPEGPacket": ClassGen("MPEGPacket", pkt_valid, length_fields=[(4, 1, "big")]),
    "MPEGTS": ClassGen("MPEGTS", ts_valid, length_fields=[(4, 1, "big")]),
    "DescriptorTag": ClassGen("DescriptorTag", desc_fields, length_fields=[(1, 1, "big")]),
    "PMTStream": ClassGen("PMTStream", stream_fields, length_fields=[(3, 2, "big")]),
    "MPEGPacketPMT": ClassGen("MPEGPacketPMT", pmt_valid, length_fields=[(4, 1, "big"), (5, 1, "big"), (6, 2, "big"), (15, 2, "big")]),
    "PES": ClassGen("PES", pes_valid, length_fields=[(4, 1, "big"), (8, 2, "big")],
                    groups=[("extension_w1", "extension_w2", "header_data")]),
    "STANAG4609": ClassGen("STANAG4609", stanag_valid, length_fields=[(4, 1, "big")],
                           # _unknown/_unknown2 are encoded but private: outside C14's quantifier ("public fields")
                           eq_fields=["sync", "tei", "pusi", "pid", "transport_priority", "tsc", "continuitycounter",
                                      "adaption_ctrl", "adaption_field", "payload", "streamid", "extension_w1",
                                      "extension_w2", "header_data", "stanag_counter", "time_us"],
                           groups=[("extension_w1", "extension_w2", "header_data")]),
}

ORACLES = {}

# =================================================================================== correspondence streams
def _decode_side(lines, extra_ops=("obs", "pack", "obs")):
    """every byte string the implementation produced, decoded into a fresh object and re-encoded"""
    out = []
    for l in lines:
        a = run_line_impl(l)
        cls = l.split()[1]
        for p in a.split("|"):
            if p.startswith("ok:x"):
                out.append(gen.H(cls, ["unpack " + p[3:]] + list(extra_ops)))
    return out

def ext_lines(ctx):
    rng = ctx.rng
    lines = []
    for subset in range(8):
        lines.append(gen.H("MPEGAdaptionExtension", gen.sets(ext_fields(rng, subset)) + ["pack", "obs"]))
    for k, n in EXT_SIZES:                                  # wrong sizes: bare Exception
        for m in (1, n - 1, n + 1, 9):
            f = ext_fields(rng, rng.randrange(8))
            f[k] = hexb(rng.bytes_(m))
            lines.append(gen.H("MPEGAdaptionExtension", gen.sets(f) + ["pack", "obs"]))
    for subset in range(8):                                 # stale flags are overwritten by pack
        f = ext_fields(rng, subset)
        for fl in ("ltw_flag", "piecewise_rate_flag", "seamless_splice_flag"):
            f[fl] = B(rng.random() < 0.5)
        lines.append(gen.H("MPEGAdaptionExtension", gen.sets(f) + ["obs", "pack", "obs", "pack", "obs"]))
    # decode: every flag combination x declared length 0..14 x buffer lengths around it
    for flags in range(8):
        for ln in (0, 1, 2, 3, 4, 5, 7, 9, 10, 12, 13, 200):
            body = rng.bytes_(12)
            b = bytes([ln, 0x1F | (flags << 5)]) + body
            for cut in (len(b), ln, max(0, ln - 1), ln + 1, 1, 2):
                lines.append(gen.H("MPEGAdaptionExtension", ["unpack " + hexb(b[:cut]), "obs"]))
    return lines

def af_lines(ctx):
    rng = ctx.rng
    lines = []
    # every subset of {PCR, OPCR, splice, private data, extension} x stuffing
    for subset, ext_subset in af_combos():
        for stuffing in (0, 1, ctx.rng.randrange(2, 120)):
            f, _ = af_fields(rng, subset, ext_subset=ext_subset, stuffing=stuffing)
            lines.append(gen.H("MPEGAdaption", gen.sets(f) + ["pack", "obs", "pack", "obs"]))
    for ext_subset in range(8):
        f, _ = af_fields(rng, 16 | rng.randrange(16), ext_subset=ext_subset)
        lines.append(gen.H("MPEGAdaption", gen.sets(f) + ["pack", "obs"]))
    for pl in (1, 2, 3, 100, 254, 255, 256, 300):           # private data 1..255, then struct.error
        f, _ = af_fields(rng, 8 | rng.randrange(8), private_len=pl)
        lines.append(gen.H("MPEGAdaption", gen.sets(f) + ["pack", "obs"]))
    for _ in range(ctx.scale(40, 2000)):                    # flags that do not match the parts (never cleared by pack)
        f, _ = af_fields(rng, consistent_flags=False, stuffing=rng.choice([0, 0, 4]))
        lines.append(gen.H("MPEGAdaption", gen.sets(f) + ["pack", "obs"]))
    for n in (1, 2, 5, 6, 7, 12):                           # pcr must be 0 or 6 bytes; opcr may be anything
        f, _ = af_fields(rng, 0)
        f["pcr"] = hexb(rng.bytes_(n))
        lines.append(gen.H("MPEGAdaption", gen.sets(f) + ["pack", "obs"]))
        f, _ = af_fields(rng, rng.randrange(32))
        f["opcr"] = hexb(rng.bytes_(n))
        lines.append(gen.H("MPEGAdaption", gen.sets(f) + ["pack", "obs"]))
    for sc in (0, 1, 255, 256, 1000):
        f, _ = af_fields(rng, rng.randrange(32))
        f["splice_countdown"] = str(sc)
        lines.append(gen.H("MPEGAdaption", gen.sets(f) + ["pack", "obs"]))
    for ln in (0, 1, 183, 255, 256, 70000):
        f, _ = af_fields(rng, rng.randrange(32))
        f["length"] = str(ln)
        lines.append(gen.H("MPEGAdaption", gen.sets(f) + ["pack", "obs"]))
    f, _ = af_fields(rng, 16)                               # extension with a part of the wrong size
    f["adaption_extension"] = "MPEGAdaptionExtension{ltw=x01}"
    lines.append(gen.H("MPEGAdaption", gen.sets(f) + ["pack", "obs"]))
    # decode: every flags byte with buffers of every length 0..40 (truncation inside each optional part)
    for flags in list(range(0, 32)) + [rng.randrange(256) for _ in range(ctx.scale(16, 224))]:
        body = bytes([rng.randrange(0, 60), flags & 0xFF]) + rng.bytes_(6 + 6 + 1) + bytes([rng.choice([0, 1, 3, 9, 200])]) + \
               rng.bytes_(3) + bytes([rng.choice([0, 2, 4, 7, 12, 30]), rng.randrange(256)]) + rng.bytes_(14)
        for cut in sorted(set([len(body)] + [rng.randrange(0, len(body)) for _ in range(ctx.scale(4, 30))] + [0, 1, 2, 3])):
            lines.append(gen.H("MPEGAdaption", ["unpack " + hexb(body[:cut]), "obs"]))
    return lines

def pkt_lines(ctx):
    rng = ctx.rng
    lines = []
    widths = {"sync": 8, "pid": 13, "transport_priority": 1, "tsc": 2, "adaption_ctrl": 2, "continuitycounter": 4}
    for k, b in widths.items():                             # each header field over its boundaries (and beyond)
        for v in (0, 1, (1 << b) - 1, 1 << (b - 1), 1 << b, 0x47, 255, 256, 65535, 65536):
            f = hdr_fields(rng)
            f["adaption_ctrl"] = "1"
            f[k] = str(v)
            f["payload"] = hexb(rng.bytes_(rng.choice([0, 5, 184])))
            lines.append(gen.H("MPEGPacket", gen.sets(f) + ["pack", "obs"]))
    for tei in (True, False):
        for pusi in (True, False):
            f = hdr_fields(rng); f["tei"] = B(tei); f["pusi"] = B(pusi); f["adaption_ctrl"] = "1"
            lines.append(gen.H("MPEGPacket", gen.sets(f) + ["pack", "obs"]))
    for afc in range(4):                                    # every adaptation-control mode x adaption_field None / present
        for n in (0, 1, 100, 182, 183, 184, 185, 200):      # under-full, exactly full, over-full (longer packet)
            for with_af in (False, True):
                f = hdr_fields(rng)
                f["adaption_ctrl"] = str(afc)
                f["payload"] = hexb(rng.bytes_(n))
                if with_af:
                    f["adaption_field"] = obj("MPEGAdaption", af_fields(rng, stuffing=rng.choice([0, 3]))[0])
                lines.append(gen.H("MPEGPacket", gen.sets(f) + ["pack", "obs"]))
                lines.append(gen.H("MPEGPacket", gen.sets(f) + ["pack True", "obs"]))
    for f in combo_packets(rng):                            # all 144 optional-part combinations x AFC 2/3 x payload x stuffing
        lines.append(gen.H("MPEGPacket", gen.sets(f) + ["pack", "obs"]))
    for _ in range(ctx.scale(60, 3000)):                    # exactly filled packets
        lines.append(gen.H("MPEGPacket", gen.sets(pkt_exact(rng)[0]) + ["pack", "obs"]))
    for ln in range(0, 190, ctx.scale(7, 1)):               # adaptation-field length byte 0..189 with AFC 3 and 2
        for afc in (3, 2):
            b = bytes([0x47, rng.randrange(256), rng.randrange(256), (afc << 4) | rng.randrange(16), ln, rng.randrange(256)]) + rng.bytes_(182)
            lines.append(gen.H("MPEGPacket", ["unpack " + hexb(b), "obs", "pack", "obs"]))
            lines.append(gen.H("MPEGPacket", ["unpack " + hexb(b[:rng.randrange(4, 188)]), "obs"]))
    for sync in (0x00, 0x46, 0x48, 0xB8, 0xFF):
        lines.append(gen.H("MPEGPacket", ["unpack " + hexb(bytes([sync]) + rng.bytes_(187)), "obs"]))
    for n in range(0, 8):
        lines.append(gen.H("MPEGPacket", ["unpack " + hexb((b"\x47\x40\x11\x30" + rng.bytes_(8))[:n]), "obs"]))
    return lines

def ts_lines(ctx):
    rng = ctx.rng
    lines = []
    for n in range(0, 6):
        pk = [pkt_exact(rng)[0] for _ in range(n)]
        lines.append(gen.H("MPEGTS", ["set blocks [" + ";".join(obj("MPEGPacket", p) for p in pk) + "]", "pack", "obs"]))
    base = _decode_side(lines, extra_ops=())
    for l in list(base):                                    # N x 188, N x 188 + r, a bad sync byte in packet k
        b = bytes.fromhex((l.split("unpack x")[1].split("|")[0].split() or [""])[0])
        lines.append(gen.H("MPEGTS", ["unpack " + hexb(b), "obs", "pack", "obs"]))
        for r in (1, 3, 4, 5, 100, 187):
            lines.append(gen.H("MPEGTS", ["unpack " + hexb(b + b"\x47" + rng.bytes_(r - 1)), "obs"]))
        for k in range(len(b) // 188):
            m = bytearray(b); m[k * 188] = 0x48
            lines.append(gen.H("MPEGTS", ["unpack " + hexb(bytes(m)), "obs"]))
    for ops in (["pack", "obs"], ["unpack x", "obs", "pack"]):
        lines.append(gen.H("MPEGTS", ops))
    over = hdr_fields(rng); over["adaption_ctrl"] = "1"; over["payload"] = hexb(rng.bytes_(190))
    lines.append(gen.H("MPEGTS", ["set blocks [" + obj("MPEGPacket", over) + "]", "pack", "obs"]))
    return lines

def pmt_lines(ctx):
    rng = ctx.rng
    lines = []
    for nd in range(0, 4):
        for ns in range(0, 5):
            lines.append(gen.H("MPEGPacketPMT", gen.sets(pmt_valid(rng, nd, ns)) + ["pack", "obs"]))
    for k, b in PMT_OWN + [("pid", 13)]:                    # own header fields over their boundaries and beyond
        for v in (0, 1, (1 << b) - 1, 1 << (b - 1), 1 << b):
            f = pmt_valid(rng, 1, 1)
            f[k] = str(v)
            lines.append(gen.H("MPEGPacketPMT", gen.sets(f) + ["pack", "obs"]))
    f = pmt_valid(rng, 0, 0)                                # element-level failures
    f["descriptor_tags"] = "[DescriptorTag{tag=None,data=x01}]"
    lines.append(gen.H("MPEGPacketPMT", gen.sets(f) + ["pack", "obs"]))
    f["descriptor_tags"] = "[DescriptorTag{tag=256,data=x}]"
    lines.append(gen.H("MPEGPacketPMT", gen.sets(f) + ["pack", "obs"]))
    f["descriptor_tags"] = "[DescriptorTag{tag=5,data=%s}]" % hexb(rng.bytes_(256))
    lines.append(gen.H("MPEGPacketPMT", gen.sets(f) + ["pack", "obs"]))
    f["descriptor_tags"] = "[]"
    f["streams"] = "[PMTStream{streamtype=256,elementary_pid=1,elementary_stream_descriptors=x}]"
    lines.append(gen.H("MPEGPacketPMT", gen.sets(f) + ["pack", "obs"]))
    f["streams"] = "[PMTStream{streamtype=2,elementary_pid=8192,elementary_stream_descriptors=x}]"
    lines.append(gen.H("MPEGPacketPMT", gen.sets(f) + ["pack", "obs"]))
    f = pmt_valid(rng, 0, 0); f["adaption_ctrl"] = "1"     # a section longer than the packet
    f["streams"] = "[" + ";".join(obj("PMTStream", {"streamtype": "1", "elementary_pid": "2",
                    "elementary_stream_descriptors": hexb(rng.bytes_(40))}) for _ in range(5)) + "]"
    lines.append(gen.H("MPEGPacketPMT", gen.sets(f) + ["pack", "obs"]))
    for afc in (0, 2):                                      # adaptation control without payload: own decoder fails
        f = pmt_valid(rng, 1, 1); f["adaption_ctrl"] = str(afc)
        lines.append(gen.H("MPEGPacketPMT", gen.sets(f) + ["pack", "obs"]))
    for nm, fn in (("DescriptorTag", desc_fields), ("PMTStream", stream_fields)):
        for _ in range(ctx.scale(10, 200)):
            lines.append(gen.H(nm, gen.sets(fn(rng)) + ["pack", "obs"]))
    return lines

def pmt_mutants(rng, b, thorough=False):
    """a valid PMT packet with the fields that steer the parse forced to other values, truncated sections,
    a pointer field, and corrupted CRC-protected bytes"""
    out = []
    start = 4
    if (b[3] >> 4) & 3 == 3:
        start = 5 + b[4]
    if start + 13 > len(b):
        return out
    sec = start + 1
    slen = ((b[sec + 1] & 0xF) << 8) | b[sec + 2]
    pil = ((b[sec + 10] & 0xF) << 8) | b[sec + 11]
    def put(m, off, val, size):
        return m[:off] + val.to_bytes(size, "big") + m[off + size:]
    for v in (0, 1, 2, 3, slen - 5, slen - 1, slen + 1, slen + 5, 170, 183, 0xFFF):
        if 0 <= v <= 0xFFF:
            out.append(put(b, sec + 1, (b[sec + 1] & 0xF0) << 8 | v, 2))
    for v in (0, 1, 2, 3, pil - 1, pil + 1, pil + 2, slen, 0xFFF):
        if 0 <= v <= 0xFFF:
            out.append(put(b, sec + 10, (b[sec + 10] & 0xF0) << 8 | v, 2))
    for v in (1, 2, 5, 50, 170, 255):                       # pointer field
        out.append(put(b, start, v, 1))
        out.append(b[:start] + bytes([v]) + b"\xff" * v + b[start + 1:188 - v] if 188 - v > start + 1 else b)
    end = sec + 3 + slen
    positions = range(sec, min(end, len(b))) if thorough else sorted(set([sec, sec + 3, sec + 7, sec + 12, end - 5, end - 4, end - 1] +
                                                                            [rng.randrange(sec, max(sec + 1, min(end, len(b)))) for _ in range(6)]))
    for i in positions:
        if 0 <= i < len(b):
            for bit in ((0, 7) if not thorough else range(8)):
                m = bytearray(b); m[i] ^= 1 << bit
                out.append(bytes(m))
    for cut in (start, start + 1, start + 12, start + 13, end - 4, end - 1, end):
        out.append(b[:max(0, min(cut, len(b)))])
    return out

def _packed(cls, f, ops=("pack",)):
    a = run_line_impl(gen.H(cls, gen.sets(f) + list(ops)))
    r = a.split("|")[-1]
    return bytes.fromhex(r[4:]) if r.startswith("ok:x") else None

def pmt_decode_lines(ctx):
    rng = ctx.rng
    lines = []
    for _ in range(ctx.scale(8, 100)):
        b = _packed("MPEGPacketPMT", pmt_valid(rng))
        if b is None:
            continue
        lines.append(gen.H("MPEGPacketPMT", ["unpack " + hexb(b), "obs", "pack", "obs"]))
        for m in pmt_mutants(rng, b, thorough=(ctx.tier == "thorough")):
            lines.append(gen.H("MPEGPacketPMT", ["unpack " + hexb(m), "obs", "pack", "obs"]))   # re-encode what was accepted
    return lines

K2_WITNESS = {"sync": "71", "adaption_ctrl": "1", "streamid": "224", "pesdata": hexb(bytes([0x80]) + bytes(177))}

def pes_lines(ctx):
    rng = ctx.rng
    lines = []
    for header in (False, True):
        for fill in (True, False):
            for _ in range(ctx.scale(12, 400)):
                lines.append(gen.H("PES", gen.sets(pes_valid(rng, header, fill)) + ["pack", "obs"]))
    for f in pes_shapes(rng):
        lines.append(gen.H("PES", gen.sets(f) + ["pack", "obs"]))
    lines.append(gen.H("PES", gen.sets(K2_WITNESS) + ["pack", "obs"]))          # K2: header-less, first byte 0x8_, exact fill
    for first in range(0, 256, 8):                           # header-less exact fill, every high nibble
        f = dict(K2_WITNESS); f["pesdata"] = hexb(bytes([first]) + rng.bytes_(177))
        lines.append(gen.H("PES", gen.sets(f) + ["pack", "obs"]))
    for w1 in (0x00, 0x40, 0x7F, 0x80, 0x81, 0x8F, 0x90, 0xC0, 0xFF, 256):      # only 0x8_ is recognised on decode
        f = pes_valid(rng, True, True); f["extension_w1"] = str(w1)
        lines.append(gen.H("PES", gen.sets(f) + ["pack", "obs"]))
    for part in ("extension_w1", "extension_w2", "header_data"):                # header present iff all three are set
        f = pes_valid(rng, True, True); f[part] = "None"
        lines.append(gen.H("PES", gen.sets(f) + ["pack", "obs"]))
    f = pes_valid(rng, True, True); f["header_data"] = hexb(rng.bytes_(256))
    lines.append(gen.H("PES", gen.sets(f) + ["pack", "obs"]))
    f = pes_valid(rng, False, True); f["streamid"] = "256"
    lines.append(gen.H("PES", gen.sets(f) + ["pack", "obs"]))
    for n in range(0, 12):                                   # short payloads: the 3-byte peek needs 9 bytes
        f = {"sync": "71", "adaption_ctrl": "1", "payload": "x"}
        b = bytes([0x47, 0x40, 0x11, 0x10]) + (bytes([0, 0, 1, 0xE0, 0, n]) + rng.bytes_(6))[:n]
        lines.append(gen.H("PES", ["unpack " + hexb(b), "obs"]))
    return lines

def pes_mutants(rng, b):
    out = []
    start = 4 if (b[3] >> 4) & 3 == 1 else 5 + b[4]
    if start + 9 > len(b):
        return out
    for i in range(3):                                       # the 24-bit prefix 000001, every byte at 0/1/other
        for v in (0, 1, 2, 0x80, 0xFF):
            m = bytearray(b); m[start + i] = v
            out.append(bytes(m))
    real = int.from_bytes(b[start + 4:start + 6], "big")
    for v in (0, real - 1, real + 1, len(b) - start - 6, 0xFFFF):
        if 0 <= v <= 0xFFFF:
            out.append(b[:start + 4] + v.to_bytes(2, "big") + b[start + 6:])
    for v in (0x00, 0x7F, 0x80, 0x8F, 0x90):
        m = bytearray(b); m[start + 6] = v
        out.append(bytes(m))
    for v in (0, 1, (b[start + 8] + 1) % 256, 200, 255):
        m = bytearray(b); m[start + 8] = v
        out.append(bytes(m))
    return out

def stanag_lines(ctx):
    rng = ctx.rng
    lines = []
    for header in (False, True):
        for _ in range(ctx.scale(10, 300)):
            lines.append(gen.H("STANAG4609", gen.sets(stanag_valid(rng, header)) + ["pack", "obs"]))
    for t in (0, 1, 2 ** 32, 2 ** 63, 2 ** 64 - 1, 2 ** 64, 1706195279767139):
        f = stanag_valid(rng); f["time_us"] = str(t)
        lines.append(gen.H("STANAG4609", gen.sets(f) + ["pack", "obs"]))
    for k, b in (("stanag_counter", 16), ("_unknown", 8), ("_unknown2", 16)):
        for v in (0, (1 << b) - 1, 1 << b):
            f = stanag_valid(rng); f[k] = str(v)
            lines.append(gen.H("STANAG4609", gen.sets(f) + ["pack", "obs"]))
    f = stanag_valid(rng); f["adaption_ctrl"] = "1"; f["adaption_field"] = "None"   # not filled: own decoder rejects the checksum
    lines.append(gen.H("STANAG4609", gen.sets(f) + ["pack", "obs"]))
    lines.append(gen.H("STANAG4609", ["pack", "obs"]))
    return lines

def stanag_mutants(rng, b, every_bit=False):
    """key / tags / length / time / checksum bytes corrupted one at a time; PID changed"""
    out = []
    start = 5 + b[4] if (b[3] >> 4) & 3 == 3 else 4
    hdr = 9 + b[start + 8] if (b[start + 6] >> 4) == 8 else 6
    d = start + hdr                                          # start of pesdata
    for i in range(d, min(len(b), d + 36)):
        for bit in (range(8) if every_bit else (rng.randrange(8),)):
            m = bytearray(b); m[i] ^= 1 << bit
            out.append(bytes(m))
    for pid in (0x103, 0x105, 0x004, 0x1104 & 0x1FFF):
        m = bytearray(b); m[1] = (m[1] & 0xE0) | (pid >> 8); m[2] = pid & 0xFF
        out.append(bytes(m))
    out.append(b + b"\xff")
    out.append(b[:-1])
    return out

def corr_C06(ctx):
    lines = ext_lines(ctx) + af_lines(ctx) + pkt_lines(ctx) + pmt_lines(ctx) + pes_lines(ctx) + stanag_lines(ctx)
    lines += _decode_side([l for l in lines if "pack" in l])
    lines += ts_lines(ctx) + pmt_decode_lines(ctx)
    rng = ctx.rng
    for _ in range(ctx.scale(6, 100)):
        for hdr in (False, True):
            b = _packed("PES", pes_valid(rng, hdr, True))
            if b:
                lines += [gen.H("PES", ["unpack " + hexb(m), "obs"]) for m in pes_mutants(rng, b)]
            b = _packed("STANAG4609", stanag_valid(rng, hdr))
            if b:
                lines += [gen.H("STANAG4609", ["unpack " + hexb(m), "obs"]) for m in stanag_mutants(rng, b)]
    return lines

# =================================================================================== oracles (real code)
from ..core import pyval, parse_val

def build(cls, fields):
    """a real object of adapter class `cls` with the canonical field texts assigned"""
    a = ADAPTERS[cls]
    o = a.ctor()
    for k, v in fields.items():
        a.setf(o, k, pyval(parse_val(v)))
    return o

def ref_crc32_mpeg2(data):
    """independent bit-serial CRC-32/MPEG-2 (ISO 13818-1 Annex A)"""
    reg = 0xFFFFFFFF
    for byte in data:
        for i in range(7, -1, -1):
            bit = (byte >> i) & 1
            out = (reg >> 31) & 1
            reg = (reg << 1) & 0xFFFFFFFF
            if out ^ bit:
                reg ^= 0x04C11DB7
    return reg

def ref_misb(data):
    """independent MISB 0601 16-bit running sum over big-endian words"""
    s = 0
    for i in range(0, len(data), 2):
        w = data[i] << 8
        if i + 1 < len(data):
            w |= data[i + 1]
        s = (s + w) & 0xFFFF
    return s

def _o(x):
    return "None" if x is None else (hexb(x) if isinstance(x, (bytes, bytearray)) else str(x))

def ext_wf(e):
    return len(e.ltw) in (0, 2) and len(e.piecewise) in (0, 3) and len(e.seamless_splice) in (0, 5)

def ext_expected(e):
    """bytes of the extension as the library codes it: `Spec.MPEG.extensionAsCoded` (ISO body, length byte
    counting itself -- notes/mpeg.md, observation E1).  The ISO-conformant `Spec.MPEG.afExtension` is asked
    too and must differ from it by exactly +1 in the first byte (Lean: `Ext_asCoded_iso_plus_one`)."""
    args = (_o(e.ltw or None), _o(e.piecewise or None), _o(e.seamless_splice or None))
    rc, ri = _spec([gen.F("spec.Ext.asCoded", *args), gen.F("spec.Ext.encode", *args)])
    coded, iso = bytes.fromhex(rc[4:]), bytes.fromhex(ri[4:])
    if coded != bytes([(iso[0] + 1) % 256]) + iso[1:]:
        raise AssertionError("Spec.extensionAsCoded %s is not Spec.afExtension %s with length byte + 1" % (hexb(coded), hexb(iso)))
    return coded

def af_wf(af):
    """every part absent or of its size, flags not set without their part, everything fits one byte"""
    if len(af.pcr) not in (0, 6) or len(af.opcr) not in (0, 6):
        return False
    if not (0 <= af.splice_countdown <= 255) or len(af.private_data) > 255 or not (0 <= af.length <= 255):
        return False
    if af.adaption_extension is not None and not ext_wf(af.adaption_extension):
        return False
    if (af.pcr_flag and not af.pcr) or (af.opcr_flag and not af.opcr) or (af.splicing_flag and af.splice_countdown == 0) \
       or (af.transpart_flag and not af.private_data) or (af.extension_flag and af.adaption_extension is None):
        return False
    return af_datalen(af) <= 255

def af_datalen(af):
    n = 1 + len(af.pcr) + len(af.opcr) + (1 if af.splice_countdown > 0 else 0)
    n += (1 + len(af.private_data)) if af.private_data else 0
    if af.adaption_extension is not None:
        e = af.adaption_extension
        n += 2 + len(e.ltw) + len(e.piecewise) + len(e.seamless_splice)
    return n

def af_expected(af):
    """Spec layout of the adaptation field of a well-formed object (before it is packed)"""
    ext = ext_expected(af.adaption_extension) if af.adaption_extension is not None else None
    stuffing = max(0, af.length - af_datalen(af))
    r = _spec([gen.F("spec.AF.encode", B(af.discontinutiy), B(af.random_access), B(af.es_priority),
                     _o(bytes(af.pcr) or None), _o(bytes(af.opcr) or None),
                     _o(af.splice_countdown if af.splice_countdown > 0 else None),
                     _o(bytes(af.private_data) or None), _o(ext), str(stuffing))])[0]
    return bytes.fromhex(r[4:])

def af_snapshot(af):
    if af is None:
        return None
    e = af.adaption_extension
    return (bool(af.discontinutiy), bool(af.random_access), bool(af.es_priority), bytes(af.pcr), bytes(af.opcr),
            af.splice_countdown, bytes(af.private_data),
            None if e is None else (bytes(e.ltw), bytes(e.piecewise), bytes(e.seamless_splice)))

def af_flags_ok(af):
    e = af.adaption_extension
    return (af.pcr_flag == bool(af.pcr) and af.opcr_flag == bool(af.opcr) and af.splicing_flag == (af.splice_countdown > 0)
            and af.transpart_flag == bool(af.private_data) and af.extension_flag == (e is not None)
            and (e is None or (e.ltw_flag == bool(e.ltw) and e.piecewise_rate_flag == bool(e.piecewise)
                               and e.seamless_splice_flag == bool(e.seamless_splice))))

def hdr_wf(p):
    return (0 <= p.sync < 256 and 0 <= p.pid < 8192 and p.transport_priority in (0, 1) and 0 <= p.tsc < 4
            and 0 <= p.adaption_ctrl < 4 and 0 <= p.continuitycounter < 16)

def hdr_expected(p):
    r = _spec([gen.F("spec.TS.header", str(p.sync), B(p.tei), B(p.pusi), str(p.transport_priority), str(p.pid),
                     str(p.tsc), str(p.adaption_ctrl), str(p.continuitycounter))])[0]
    return bytes.fromhex(r[4:])

def check_ext(args):
    """MPEGAdaptionExtension: layout, round trip, re-encode"""
    import AcraNetwork.MPEGTS as m
    e = build("MPEGAdaptionExtension", args["fields"])
    if not ext_wf(e):
        return None
    exp = ext_expected(e)
    parts = (bytes(e.ltw), bytes(e.piecewise), bytes(e.seamless_splice))
    b = e.pack()
    if b != exp:
        return "MPEGAdaptionExtension.pack emits %s, the layout is %s" % (hexb(b), hexb(exp))
    q = build("MPEGAdaptionExtension", args.get("prior", {}))
    used = q.unpack(b + bytes.fromhex(args.get("tail", "")))
    if (bytes(q.ltw), bytes(q.piecewise), bytes(q.seamless_splice)) != parts or used != len(b):
        return "MPEGAdaptionExtension round trip changes the parts: %r -> %r (used %d of %d)" % (
            parts, (q.ltw, q.piecewise, q.seamless_splice), used, len(b))
    if (q.ltw_flag, q.piecewise_rate_flag, q.seamless_splice_flag) != tuple(bool(x) for x in parts):
        return "MPEGAdaptionExtension flags after decode do not say which parts are present"
    if q.pack() != b:
        return "MPEGAdaptionExtension re-encode of the decoded object differs"
    return None

def check_af(args):
    """MPEGAdaption: Spec layout, length byte = number of bytes that follow, round trip, re-encode"""
    af = build("MPEGAdaption", args["fields"])
    if not af_wf(af):
        return None
    exp = af_expected(af)
    snap = af_snapshot(af)
    b = af.pack()
    if b != exp:
        return "MPEGAdaption.pack emits %s, the ISO 13818-1 layout is %s" % (hexb(b), hexb(exp))
    if b[0] != len(b) - 1:
        return "adaptation_field_length byte is %d but %d bytes follow it" % (b[0], len(b) - 1)
    q = build("MPEGAdaption", args.get("prior", {}))
    q.unpack(b)
    if af_snapshot(q) != snap:
        return "MPEGAdaption round trip changes the field values: %r -> %r" % (snap, af_snapshot(q))
    if q.length != b[0] or not af_flags_ok(q):
        return "MPEGAdaption decoded length/flags inconsistent with the parts"
    if q.pack() != b:
        return "MPEGAdaption re-encode of the decoded object differs"
    return None

def check_ts_packet(args):
    """MPEGPacket: 188 bytes when the parts fit, ISO header, adaptation length = bytes that follow,
    payload starts where the header says, round trip, re-encode"""
    p = build("MPEGPacket", args["fields"])
    af = p.adaption_field
    if not hdr_wf(p) or (af is not None and not af_wf(af)):
        return None
    afc = p.adaption_ctrl
    payload = bytes(p.payload)
    if afc in (2, 3):
        afb = af_expected(af) if af is not None else b"\x00"
    else:
        afb = b""
    used = 4 + len(afb) + len(payload)
    snap = af_snapshot(af) if afc in (2, 3) else None
    hdr = hdr_expected(p)
    b = p.pack()
    if used > 188:
        # outside the format: the error branch of the model (a longer packet is emitted); nothing to demand
        return None
    if len(b) != 188:
        return "MPEGPacket.pack returns %d bytes for parts that occupy %d" % (len(b), used)
    if b[:4] != hdr:
        return "MPEGPacket header is %s, ISO 13818-1 layout gives %s" % (hexb(b[:4]), hexb(hdr))
    if afc in (2, 3):
        follow = len(afb) - 1
        if b[4] != follow or b[4:4 + len(afb)] != afb:
            return "adaptation_field_length byte is %d but %d adaptation bytes follow (emitted %s, layout %s)" % (
                b[4], follow, hexb(b[4:4 + len(afb)]), hexb(afb))
        start = 5 + b[4]
    else:
        start = 4
    if b[start:start + len(payload)] != payload or b[start + len(payload):] != b"\xff" * (188 - used):
        return "payload does not start at offset %d / stuffing is not 0xFF" % start
    q = build("MPEGPacket", args.get("prior", {}))
    q.unpack(b)
    for k in ("sync", "pid", "tei", "pusi", "transport_priority", "tsc", "adaption_ctrl", "continuitycounter"):
        if getattr(q, k) != getattr(p, k):
            return "MPEGPacket round trip changes %s: %r -> %r" % (k, getattr(p, k), getattr(q, k))
    exp_payload = {0: b"", 2: b""}.get(afc, payload + b"\xff" * (188 - used))
    if afc in (1, 3) and bytes(q.payload) != exp_payload:
        return "MPEGPacket round trip: payload %s decodes to %s" % (hexb(payload)[:60], hexb(q.payload)[:60])
    if afc in (0, 2) and bytes(q.payload) != b"":
        return "MPEGPacket with adaptation control %d decodes a payload" % afc
    if afc in (2, 3) and af is not None:
        if af_snapshot(q.adaption_field) != snap:
            return "MPEGPacket round trip changes the adaptation field: %r -> %r" % (snap, af_snapshot(q.adaption_field))
    if afc == 3 and af is None and q.adaption_field is not None:
        return "a zero-length adaptation field decodes to an object"
    # re-encode: AFC 2 needs an adaptation-field object (with None a single 0 byte is emitted and the 0xFF
    # stuffing after it is decoded as flags and parts -- explicit precondition of C06, see notes/mpeg.md)
    if afc in (1, 3) or (afc == 2 and not payload and af is not None) or (afc == 0 and not payload):
        try:
            b2 = q.pack()
        except Exception as e:
            return "re-encoding the decoded MPEGPacket raises %r" % (e,)
        if b2 != b:
            return "re-encoding the decoded MPEGPacket gives different bytes"
    return None

def check_ts_unpack_n(args):
    """a buffer of N 188-byte packets decodes to N packets, in order, each as if decoded alone"""
    import AcraNetwork.MPEGTS as m
    pk = [build("MPEGPacket", f) for f in args["packets"]]
    bs = [p.pack() for p in pk]
    if any(len(b) != 188 for b in bs):
        return None
    buf = b"".join(bs)
    ts = m.MPEGTS()
    for junk in args.get("prior", []):
        try:
            ts.unpack(bytes.fromhex(junk))
        except Exception:
            pass
    if ts.unpack(buf) is not True:
        return "MPEGTS.unpack does not return True on %d valid packets" % len(bs)
    if len(ts.blocks) != len(bs):
        return "MPEGTS.unpack of %d x 188 bytes returns %d packets" % (len(bs), len(ts.blocks))
    for i, b in enumerate(bs):
        q = m.MPEGPacket()
        q.unpack(b)
        if not (ts.blocks[i] == q):
            return "MPEGTS.unpack: packet %d differs from the packet decoded alone" % i
    if ts.pack() != buf:
        return "MPEGTS.pack of the decoded stream differs from the buffer"
    return None

def _pmt_expected_payload(p):
    ds = "[" + ";".join("[%d;%s]" % (t.tag, hexb(t.data)) for t in p.descriptor_tags) + "]"
    ss = "[" + ";".join("[%d;%d;%s]" % (s.streamtype, s.elementary_pid, hexb(s.elementary_stream_descriptors)) for s in p.streams) + "]"
    r = _spec([gen.F("spec.PMT.payload", str(p.tableid), str(p.syntax_indicator), str(p.program_number), str(p.version),
                     str(p.current_next_indicator), str(p.section), str(p.last_section), str(p.pcr_pid), ds, ss)])[0]
    return bytes.fromhex(r[4:])

def pmt_wf(p):
    if not hdr_wf(p) or p.adaption_ctrl not in (1, 3):
        return False
    if p.adaption_field is not None and not af_wf(p.adaption_field):
        return False
    if not (0 <= p.tableid < 256 and p.syntax_indicator in (0, 1) and 0 <= p.program_number < 65536 and 0 <= p.version < 32
            and p.current_next_indicator in (0, 1) and 0 <= p.section < 256 and 0 <= p.last_section < 256 and 0 <= p.pcr_pid < 8192):
        return False
    for t in p.descriptor_tags:
        if t.tag is None or not (0 <= t.tag < 256) or len(t.data) > 255:
            return False
    for s in p.streams:
        if not (0 <= s.streamtype < 256 and 0 <= s.elementary_pid < 8192 and len(s.elementary_stream_descriptors) < 4096):
            return False
    return True

def check_pmt(args):
    """MPEGPacketPMT: section layout, section_length / program_info_length laws, CRC big-endian after the
    section, round trip (True = CRC verified), re-encode"""
    p = build("MPEGPacketPMT", args["fields"])
    if not pmt_wf(p):
        return None
    af = p.adaption_field
    afb = b"" if p.adaption_ctrl == 1 else (af_expected(af) if af is not None else b"\x00")
    exp_payload = _pmt_expected_payload(p)
    used = 4 + len(afb) + len(exp_payload)
    if used > 188:
        return None
    hdr = hdr_expected(p)
    tags = [(t.tag, bytes(t.data)) for t in p.descriptor_tags]
    streams = [(s.streamtype, s.elementary_pid, bytes(s.elementary_stream_descriptors)) for s in p.streams]
    own = {k: getattr(p, k) for k, _ in PMT_OWN}
    snap = af_snapshot(af) if p.adaption_ctrl == 3 else None
    b = p.pack()
    exp = hdr + afb + exp_payload + b"\xff" * (188 - used)
    if b != exp:
        return "MPEGPacketPMT.pack emits %s, the ISO 13818-1 layout is %s" % (hexb(b), hexb(exp))
    sec = b[4 + len(afb) + 1:]
    slen = ((sec[1] & 0xF) << 8) | sec[2]
    if 3 + slen != len(exp_payload) - 1:
        return "section_length %d does not count the %d bytes after it" % (slen, len(exp_payload) - 4)
    pil = ((sec[10] & 0xF) << 8) | sec[11]
    if pil != sum(2 + len(d) for _, d in tags) or p.program_info_len != pil:
        return "program_info_length %d is not the size of the descriptor loop" % pil
    if int.from_bytes(sec[3 + slen - 4:3 + slen], "big") != ref_crc32_mpeg2(sec[:3 + slen - 4]):
        return "CRC_32 after the section is not CRC-32/MPEG-2 of the section"
    q = build("MPEGPacketPMT", args.get("prior", {}))
    r = q.unpack(b)
    if r is not True:
        return "MPEGPacketPMT.unpack of its own encoding returns %r" % (r,)
    for k, v in own.items():
        if getattr(q, k) != v:
            return "MPEGPacketPMT round trip changes %s: %r -> %r" % (k, v, getattr(q, k))
    if [(t.tag, bytes(t.data)) for t in q.descriptor_tags] != tags:
        return "MPEGPacketPMT round trip changes the descriptors"
    if [(s.streamtype, s.elementary_pid, bytes(s.elementary_stream_descriptors)) for s in q.streams] != streams:
        return "MPEGPacketPMT round trip changes the streams"
    if af_snapshot(q.adaption_field) != snap:
        return "MPEGPacketPMT round trip changes the adaptation field"
    try:
        b2 = q.pack()
    except Exception as e:
        return "re-encoding the decoded MPEGPacketPMT raises %r" % (e,)
    if b2 != b:
        return "re-encoding the decoded MPEGPacketPMT gives different bytes"
    end = 4 + len(afb) + 1 + 3 + slen                   # a corrupted CRC_32 is reported as False, not accepted
    for i in (end - 4, end - 1):
        m = bytearray(b); m[i] ^= 0x10
        q = build("MPEGPacketPMT", {})
        try:
            r = q.unpack(bytes(m))
        except Exception:
            r = False
        if r is not False:
            return "MPEGPacketPMT.unpack returns %r for a packet whose CRC_32 byte %d is corrupted" % (r, i)
    return None

def pes_wf(p):
    if not hdr_wf(p) or p.adaption_ctrl not in (1, 3) or not (0 <= p.streamid < 256):
        return False
    if p.adaption_field is not None and not af_wf(p.adaption_field):
        return False
    hdr = p.extension_w1 is not None and p.extension_w2 is not None and p.header_data is not None
    if hdr and not (0x80 <= p.extension_w1 <= 0x8F and 0 <= p.extension_w2 < 256 and len(p.header_data) < 256):
        return False
    if not hdr and not (p.extension_w1 is None and p.extension_w2 is None and p.header_data is None):
        return False
    return True

def _pes_expected_payload(p):
    hdr = p.extension_w1 is not None
    h = "[%d;%d;%s]" % (p.extension_w1, p.extension_w2, hexb(p.header_data)) if hdr else "None"
    r = _spec([gen.F("spec.PES.packet", str(p.streamid), h, hexb(p.pesdata))])[0]
    return bytes.fromhex(r[4:])

def check_pes(args):
    """PES: layout, round trip with and without the optional header, re-encode.
    Returns (message, tags) through the wrapper below."""
    return _check_pes(args)[0]

def _check_pes(args, cls="PES"):
    p = build(cls, args["fields"])
    if not pes_wf(p):
        return None, {}
    af = p.adaption_field
    afb = b"" if p.adaption_ctrl == 1 else (af_expected(af) if af is not None else b"\x00")
    has_hdr = p.extension_w1 is not None
    data = bytes(p.pesdata)
    exp_payload = _pes_expected_payload(p)
    used = 4 + len(afb) + len(exp_payload)
    if used > 188 or (has_hdr and used != 188):
        return None, {}      # the optional header is only recognisable in a PES packet that fills the TS packet
    hdr = hdr_expected(p)
    want = (p.streamid, p.extension_w1, p.extension_w2, None if p.header_data is None else bytes(p.header_data))
    try:
        b = p.pack()
    except Exception as e:
        return "%s.pack raises %r on a well-formed packet (%s optional header)" % (cls, e, "with" if has_hdr else "without"), {"check": "layout"}
    exp = hdr + afb + exp_payload + b"\xff" * (188 - used)
    if b != exp:
        return "%s.pack emits %s, the ISO 13818-1 layout is %s" % (cls, hexb(b), hexb(exp)), {"check": "layout"}
    looks = (not has_hdr) and used == 188 and len(data) >= 3 and (data[0] >> 4) == 8   # the peek needs 3 bytes
    tags = {"check": "roundtrip"}
    if looks:
        tags["heuristic"] = "optional_header"
    q = build(cls, args.get("prior", {}))
    try:
        q.unpack(b)
    except Exception as e:
        return "%s.unpack of its own encoding raises %r" % (cls, e), tags
    got = (q.streamid, q.extension_w1, q.extension_w2, None if q.header_data is None else bytes(q.header_data))
    if got != want:
        return "%s round trip changes (streamid, w1, w2, header_data): %r -> %r" % (cls, want, got), tags
    if bytes(q.pesdata) != data + b"\xff" * (188 - used):
        return "%s round trip: pesdata %s decodes to %s" % (cls, hexb(data)[:40], hexb(q.pesdata)[:40]), tags
    try:
        b2 = q.pack()
    except Exception as e:
        return "re-encoding the decoded %s raises %r" % (cls, e), tags
    if used == 188 and b2 != b:
        return "re-encoding the decoded %s gives different bytes" % cls, tags
    return None, tags

def check_stanag(args):
    """STANAG 4609: metadata layout (key, tags, 64-bit time, MISB checksum), round trip, re-encode"""
    p = build("STANAG4609", args["fields"])
    if not pes_wf(p) or not (0 <= p.stanag_counter < 65536 and 0 <= p._unknown < 256 and 0 <= p._unknown2 < 65536
                             and 0 <= p.time_us < 2 ** 64):
        return None
    r = _spec([gen.F("spec.STANAG.data", str(p.stanag_counter), str(p._unknown), str(p._unknown2), str(p.time_us))])[0]
    data = bytes.fromhex(r[4:])
    want = (p.stanag_counter, p._unknown, p._unknown2, p.time_us)
    b = p.pack()
    if bytes(p.pesdata) != data:
        return "STANAG4609.pack builds metadata %s, the MISB 0601 layout is %s" % (hexb(p.pesdata), hexb(data))
    if p.pid != 0x104:
        return "STANAG4609.pack does not set the PID"
    if data not in b:
        return "the metadata is not inside the packet"
    if not b.endswith(data):
        return None                # not exactly filled: the checksum range of the decoder includes stuffing (outside the format)
    q = build("STANAG4609", args.get("prior", {}))
    try:
        q.unpack(b)
    except Exception as e:
        return "STANAG4609.unpack of its own encoding raises %r (counter %#x, optional header %s)" % (
            e, p.stanag_counter, "present" if p.extension_w1 is not None else "absent")
    got = (q.stanag_counter, q._unknown, q._unknown2, q.time_us)
    if got != want:
        return "STANAG4609 round trip changes (counter, unknown, unknown2, time_us): %r -> %r" % (want, got)
    try:
        b2 = q.pack()
    except Exception as e:
        return "re-encoding the decoded STANAG4609 raises %r" % (e,)
    if b2 != b:
        return "re-encoding the decoded STANAG4609 gives different bytes"
    return None

def garbage_packet(rng):
    """at most 188 arbitrary bytes that MPEGPacket.unpack is likely to accept: sync forced, adaptation control and the
    adaptation length / flags bytes drawn from the values that steer the decoder (truncated parts, every flag subset)"""
    n = rng.choice([188, 188, 188, 187, 100, 12, 6, 5, 4])
    b = bytearray(rng.bytes_(n))
    b[0] = 0x47
    if rng.random() < 0.8:
        b[3] = (b[3] & 0xCF) | (rng.choice([2, 3, 3]) << 4)
        if n > 4:
            b[4] = rng.choice([0, 1, 2, 3, 4, 7, 8, 9, 13, 14, 15, 20, 50, 100, 182, 183, 184, 200, 255])
    if n > 5 and rng.random() < 0.6:
        b[5] = rng.choice([0x10, 0x08, 0x04, 0x02, 0x01, 0x1F, 0x03, 0x06, 0x12, 0x05, 0x00, 0xFF, rng.randrange(256)])
    return bytes(b)

def check_ts_reencode_any(args):
    """Lean: TS_reencode_total / MPEGTS_reencode_total.  Whatever bytes (<= 188 per packet) the decoder accepts, pack() of
    the decoded object succeeds or raises the bare Exception of the adaptation-field validation -- never struct.error,
    TypeError (D07) or anything else"""
    import AcraNetwork.MPEGTS as m
    bufs = [bytes.fromhex(x) for x in args["bufs"]]
    for b in bufs:
        p = m.MPEGPacket()
        try:
            p.unpack(b)
        except Exception:
            continue
        for nostuff in (False, True):
            try:
                p.pack(nostuff)
            except Exception as e:
                if type(e) is not Exception:
                    return "re-encoding the packet decoded from %s raises %s: %s" % (hexb(b)[:60], type(e).__name__, e)
    if all(len(b) == 188 for b in bufs):
        ts = m.MPEGTS()
        try:
            ts.unpack(b"".join(bufs))
        except Exception:
            return None
        try:
            ts.pack()
        except Exception as e:
            if type(e) is not Exception:
                return "re-encoding the stream decoded from %d arbitrary packets raises %s: %s" % (len(bufs), type(e).__name__, e)
    return None

ORACLES["mpeg_ts_reencode_any"] = check_ts_reencode_any
ORACLES.update({"mpeg_ext": check_ext, "mpeg_af": check_af, "mpeg_ts_packet": check_ts_packet,
                "mpeg_ts_unpack_n": check_ts_unpack_n, "mpeg_pmt": check_pmt, "mpeg_pes": check_pes,
                "mpeg_stanag": check_stanag})

def _prior(rng, valid):
    """field assignments that put a used object into some other state before it decodes"""
    return valid(rng) if rng.random() < 0.5 else {}

def oracles_C06(ctx, hints):
    rng = ctx.rng
    fails, n = [], 0
    mult = 4 if getattr(ctx, "search_mode", False) else 1
    def run(name, fn, cls, argss, tagsfn=None):
        nonlocal n
        prefetch(fn, argss)
        for args in argss:
            n += 1
            try:
                w = fn(args)
            except Exception as e:
                w = "%s: unexpected %r" % (name, e)
            if w:
                tags = {"class": cls, "check": "roundtrip"}
                if tagsfn:
                    tags.update(tagsfn(args))
                fails.append(Failure(name, args, w, tags))
                return
    run("mpeg_ext", check_ext, "MPEGAdaptionExtension",
        [{"fields": ext_fields(rng, s), "prior": ext_fields(rng), "tail": rng.bytes_(rng.randrange(0, 4)).hex()} for s in range(8)])
    run("mpeg_af", check_af, "MPEGAdaption",
        [{"fields": af_fields(rng, s, ext_subset=e, stuffing=st)[0], "prior": _prior(rng, af_valid)}
         for s, e in af_combos() for st in (0, rng.randrange(1, 150))] +
        [{"fields": af_fields(rng, 8 | rng.randrange(8), private_len=pl)[0]} for pl in (1, 2, 100, 200)])
    pk = [{"fields": f, "prior": _prior(rng, pkt_valid)} for f in combo_packets(rng)]
    for afc in (0, 1, 2, 3):
        for n_ in (0, 1, 90, 183, 184):
            f = hdr_fields(rng); f["adaption_ctrl"] = str(afc); f["payload"] = hexb(rng.bytes_(n_))
            pk.append({"fields": f, "prior": _prior(rng, pkt_valid)})
    pk += [{"fields": pkt_exact(rng)[0], "prior": _prior(rng, pkt_valid)} for _ in range(ctx.scale(60, 3000) * mult)]
    run("mpeg_ts_packet", check_ts_packet, "MPEGPacket", pk)
    run("mpeg_ts_unpack_n", check_ts_unpack_n, "MPEGTS",
        [{"packets": [pkt_exact(rng)[0] for _ in range(k)], "prior": [rng.bytes_(188).hex(), (b"\x47" + rng.bytes_(375)).hex()][:rng.randrange(3)]}
         for k in list(range(0, 7)) * ctx.scale(2, 40)])
    run("mpeg_ts_reencode_any", check_ts_reencode_any, "MPEGPacket",
        [{"bufs": [garbage_packet(rng).hex() for _ in range(rng.randrange(1, 4))]} for _ in range(ctx.scale(150, 6000) * mult)] +
        [{"bufs": ["4700003003" + "10aabb010203", "47000030" + "07" + "04" + "ff" + "00" * 181]}],
        tagsfn=lambda a: {"check": "reencode"})
    run("mpeg_pmt", check_pmt, "MPEGPacketPMT",
        [{"fields": pmt_valid(rng, nd, ns), "prior": _prior(rng, pmt_valid)} for nd in range(4) for ns in range(5)] +
        [{"fields": pmt_valid(rng), "prior": _prior(rng, pmt_valid)} for _ in range(ctx.scale(30, 2000) * mult)])
    # PES: with / without the optional header, filling the packet with and without adaptation stuffing
    pes_args = [{"fields": pes_valid(rng, h, fill), "prior": _prior(rng, pes_valid)}
                for h in (False, True) for fill in (True, False) for _ in range(ctx.scale(15, 800) * mult)]
    pes_args += [{"fields": f, "prior": _prior(rng, pes_valid)} for f in pes_shapes(rng)]
    pes_args.append({"fields": dict(K2_WITNESS)})
    for first in range(0, 256, 16):
        f = dict(K2_WITNESS); f["pesdata"] = hexb(bytes([first | 3]) + rng.bytes_(177))
        pes_args.append({"fields": f})
    seen_k2 = False
    prefetch(check_pes, pes_args)
    for args in pes_args:
        n += 1
        w, tags = _check_pes(args)
        if w:
            tags = dict(tags, **{"class": "PES"})
            if tags.get("heuristic"):
                if seen_k2:
                    continue
                seen_k2 = True
            fails.append(Failure("mpeg_pes", args, w, tags))
            if not tags.get("heuristic"):
                break
    run("mpeg_stanag", check_stanag, "STANAG4609",
        [{"fields": stanag_valid(rng, h), "prior": _prior(rng, stanag_valid)} for h in (False, True) for _ in range(ctx.scale(12, 600) * mult)] +
        [{"fields": dict(stanag_valid(rng), time_us=str(t))} for t in (0, 1, 2 ** 32 - 1, 2 ** 32, 2 ** 63, 2 ** 64 - 1)])
    # K2 through the subclass: header-less STANAG packet whose counter is 0x8___ (first data byte 0x8_), exactly filled
    run("mpeg_stanag", check_stanag, "STANAG4609",
        [{"fields": dict(stanag_valid(rng, False), stanag_counter=str(c))} for c in (0x8000, 0x8FFF, 0x8123)],
        # the defect is PES.unpack's (inherited): same finding as K2, reached through the subclass
        tagsfn=lambda a: {"class": "PES", "via": "STANAG4609", "heuristic": "optional_header"})
    ctx.count("oracle_evaluations", n)
    return fails

# =================================================================================== C07: PMT CRC, STANAG checksum
def corr_C07(ctx):
    rng = ctx.rng
    lines = [gen.F("crc32mpeg2", hexb(b"123456789")), gen.F("crc32mpeg2", "x"), gen.F("checksum_stanag", "x")]
    for n in list(range(0, 20)) + [183, 184, 400]:
        lines.append(gen.F("crc32mpeg2", hexb(rng.bytes_(n))))
        lines.append(gen.F("checksum_stanag", hexb(rng.bytes_(n))))
    for fill in (0x00, 0xFF, 0x80):                           # sums that carry repeatedly / hit 0x0000 and 0xFFFF
        for n in (1, 2, 3, 256, 257, 512, 514):
            lines.append(gen.F("checksum_stanag", hexb(bytes([fill]) * n)))
            lines.append(gen.F("crc32mpeg2", hexb(bytes([fill]) * (n % 64))))
    lines.append(gen.F("checksum_stanag", hexb(b"\xff\xff" + b"\x00\x01")))
    for _ in range(ctx.scale(4, 60)):                         # verifying decoders on every single-bit corruption
        b = _packed("MPEGPacketPMT", pmt_valid(rng))
        if b:
            lines.append(gen.H("MPEGPacketPMT", ["unpack " + hexb(b), "obs"]))
            lines += [gen.H("MPEGPacketPMT", ["unpack " + hexb(m)]) for m in _pmt_flips(b)[:: ctx.scale(5, 1)]]
        b = _packed("STANAG4609", stanag_valid(rng))
        if b:
            lines += [gen.H("STANAG4609", ["unpack " + hexb(m)]) for m in _stanag_flips(b)[:: ctx.scale(3, 1)]]
    return lines

def _pmt_section_range(b):
    start = 4 if (b[3] >> 4) & 3 == 1 else 5 + b[4]
    sec = start + 1 + b[start]
    slen = ((b[sec + 1] & 0xF) << 8) | b[sec + 2]
    return sec, sec + 3 + slen

def _pmt_flips(b):
    lo, hi = _pmt_section_range(b)
    out = []
    for i in range(lo, hi):
        for bit in range(8):
            m = bytearray(b); m[i] ^= 1 << bit
            out.append(bytes(m))
    return out

def _stanag_flips(b):
    """every bit of pesdata[5:] of an exactly filled packet: key, length, tags, time, checksum"""
    out = []
    for i in range(len(b) - 31, len(b)):
        for bit in range(8):
            m = bytearray(b); m[i] ^= 1 << bit
            out.append(bytes(m))
    return out

def check_pmt_crc(args):
    """the CRC_32 bytes inside pack() are CRC-32/MPEG-2 (independent bit-serial implementation and the Lean
    Spec) of the section bytes actually emitted; crc32mpeg2() itself agrees on the same bytes"""
    import AcraNetwork.MPEG.PMT as pmt
    p = build("MPEGPacketPMT", args["fields"])
    if not pmt_wf(p):
        return None
    b = p.pack()
    if len(b) != 188:
        return None
    lo, hi = _pmt_section_range(b)
    prot, field = b[lo:hi - 4], int.from_bytes(b[hi - 4:hi], "big")
    ref = ref_crc32_mpeg2(prot)
    if field != ref:
        return "PMT CRC field %#010x is not CRC-32/MPEG-2 of the %d protected bytes (%#010x)" % (field, len(prot), ref)
    sp = _spec([gen.F("spec.crc32mpeg2", hexb(prot))])[0]
    if sp != "ok:%d" % field:
        return "PMT CRC field %#010x differs from the Lean Spec CRC (%s)" % (field, sp)
    if pmt.crc32mpeg2(prot) != ref:
        return "crc32mpeg2() differs from CRC-32/MPEG-2 on %s" % hexb(prot)
    return None

def check_pmt_crc_redecode(args):
    """the same for an object that has DECODED a legal packet before it encodes: the section is moved behind a
    non-zero pointer_field (filler 0xFF, section bytes and CRC untouched), decoded, and encoded again; the CRC
    field of what is emitted must be CRC-32/MPEG-2 of the section emitted, wherever it starts"""
    p = build("MPEGPacketPMT", args["fields"])
    if not pmt_wf(p):
        return None
    b = p.pack()
    if len(b) != 188:
        return None
    lo, hi = _pmt_section_range(b)
    v = args["pointer"]
    start = lo - 1
    if hi + v > 188:
        return None
    moved = b[:start] + bytes([v]) + b"\xff" * v + b[lo:hi] + b"\xff" * (188 - hi - v)
    q = build("MPEGPacketPMT", {})
    if q.unpack(moved) is not True:
        return "MPEGPacketPMT.unpack rejects a legal section placed behind pointer_field=%d: %s" % (v, hexb(moved))
    for k in range(2):
        b2 = q.pack()
        lo2, hi2 = _pmt_section_range(b2)
        if hi2 > len(b2):
            return "after decoding a packet with pointer_field=%d, pack() emits a section that overruns the packet: %s" % (v, hexb(b2))
        prot, field = b2[lo2:hi2 - 4], int.from_bytes(b2[hi2 - 4:hi2], "big")
        if field != ref_crc32_mpeg2(prot):
            return ("after decoding a legal packet with pointer_field=%d, pack() writes CRC %#010x but CRC-32/MPEG-2 of "
                    "the section it emits is %#010x" % (v, field, ref_crc32_mpeg2(prot)))
        r = build("MPEGPacketPMT", {})
        if r.unpack(b2) is not True:
            return "after decoding a legal packet with pointer_field=%d, the decoder rejects the re-encoded packet" % v
    return None

def check_crc_fn(args):
    import AcraNetwork.MPEG.PMT as pmt
    d = bytes.fromhex(args["data"])
    if pmt.crc32mpeg2(d) != ref_crc32_mpeg2(d):
        return "crc32mpeg2(%s) = %#010x, CRC-32/MPEG-2 is %#010x" % (hexb(d)[:80], pmt.crc32mpeg2(d), ref_crc32_mpeg2(d))
    return None

def check_pmt_flip(args):
    """every single-bit corruption of the section (CRC-protected bytes and the CRC itself) is reported:
    unpack returns False or raises"""
    p = build("MPEGPacketPMT", args["fields"])
    if not pmt_wf(p):
        return None
    b = p.pack()
    if len(b) != 188:
        return None
    q = build("MPEGPacketPMT", {})
    if q.unpack(b) is not True:
        return "MPEGPacketPMT.unpack of an intact packet does not return True"
    lo, hi = _pmt_section_range(b)
    for i in range(lo, hi):
        for bit in range(8):
            m = bytearray(b); m[i] ^= 1 << bit
            q = build("MPEGPacketPMT", {})
            try:
                r = q.unpack(bytes(m))
            except Exception:
                continue
            if r is not False:
                return "flipping bit %d of byte %d (section offset %d) of a PMT packet goes unreported (unpack returned %r)" % (bit, i, i - lo, r)
    return None

def forge_pmt_slen(k=3, st2=0x1B, pid2=0x101):
    """A well-formed PMT packet and the position of ONE bit of its section_length whose flip goes unreported.
    Two streams; the second is d = 2**k bytes long (5 + ES descriptors), bit k of section_length L is set, so the flip
    gives L' = L - d: the section then ends after the first stream, and the four bytes the decoder reads as the CRC are the
    first four bytes of the second stream (type, 0xE0|PID, 0xF0|ES_info_length high nibble).  The last four ES-descriptor
    bytes of the FIRST stream are solved (CRC-32 is affine, and a bijection on the last four message bytes) so that the CRC
    of "header with L' || first stream" equals them.  Returns (packet bytes, byte index, bit)."""
    import AcraNetwork.MPEG.PMT as pmt
    d = 1 << k
    assert d >= 8
    m = next(m for m in range(4, 200) if ((13 + 5 + m + d) >> k) & 1)
    def mk(es1):
        p = pmt.MPEGPacketPMT()
        p.adaption_ctrl = 1; p.pid = 0x100; p.tableid = 2; p.program_number = 1; p.pcr_pid = 0x101
        s1 = pmt.PMTStream(); s1.streamtype = 0x1B; s1.elementary_pid = 0x101; s1.elementary_stream_descriptors = bytes(es1)
        s2 = pmt.PMTStream(); s2.streamtype = st2; s2.elementary_pid = pid2
        s2.elementary_stream_descriptors = bytes((0xAA + i) & 0xFF for i in range(d - 5))
        p.streams = [s1, s2]
        return p
    b = mk(bytes(m)).pack()
    sec = 5
    L = ((b[sec + 1] & 0xF) << 8) | b[sec + 2]
    assert L == 13 + 5 + m + d and (L >> k) & 1
    hd = bytearray(b[sec:sec + 12])
    if k < 8:
        hd[2] ^= 1 << k
    else:
        hd[1] ^= 1 << (k - 8)
    s1 = b[sec + 12: sec + 12 + 5 + m]
    target = int.from_bytes(b[sec + 12 + 5 + m: sec + 12 + 5 + m + 4], "big")
    prefix = bytes(hd) + s1[:-4]
    base = ref_crc32_mpeg2(prefix + bytes(4))
    basis = {}
    for i in range(32):
        c, mask = ref_crc32_mpeg2(prefix + (1 << i).to_bytes(4, "big")) ^ base, 1 << i
        while c:
            hb = c.bit_length() - 1
            if hb in basis:
                c ^= basis[hb][0]; mask ^= basis[hb][1]
            else:
                basis[hb] = (c, mask); break
    w, x = target ^ base, 0
    while w:
        hb = w.bit_length() - 1
        w ^= basis[hb][0]; x ^= basis[hb][1]
    es1 = bytes(m - 4) + x.to_bytes(4, "big")
    good = mk(es1).pack()
    return good, (sec + 2 if k < 8 else sec + 1), (k if k < 8 else k - 8)

def check_pmt_slen_forged(args):
    """NOT run by default (see notes/mpegeq.md): a constructed well-formed PMT packet on which ONE flipped bit of
    section_length goes unreported — MPEGPacketPMT.unpack returns True.  Lean: C07.pmtSlenForged (k = 3)."""
    import AcraNetwork.MPEG.PMT as pmt
    good, i, bit = forge_pmt_slen(int(args.get("k", 3)))
    q = pmt.MPEGPacketPMT()
    if q.unpack(good) is not True or len(good) != 188:
        return None
    bad = bytearray(good); bad[i] ^= 1 << bit
    q = pmt.MPEGPacketPMT()
    try:
        r = q.unpack(bytes(bad))
    except Exception:
        return None
    if r is not False:
        return ("flipping bit %d of byte %d (section_length %#x -> %#x) of the PMT packet %s goes unreported: unpack returned %r "
                "with %d stream(s)" % (bit, i, good[i], bad[i], good[:5 + 3 + good[7] + 1].hex(), r, len(q.streams)))
    return None

def check_stanag_sum(args):
    """the checksum bytes inside pack() are the MISB 0601 16-bit sum of the protected bytes actually emitted"""
    import AcraNetwork.MPEG.PES as pes
    p = build("STANAG4609", args["fields"])
    if not pes_wf(p) or not (0 <= p.stanag_counter < 65536 and 0 <= p._unknown < 256 and 0 <= p._unknown2 < 65536 and 0 <= p.time_us < 2 ** 64):
        return None
    b = p.pack()
    d = bytes(p.pesdata)
    i = b.find(d)
    if i < 0 or len(d) != 36:
        return "STANAG metadata not found in the packet"
    prot, field = d[5:-2], int.from_bytes(d[-2:], "big")
    if field != ref_misb(prot):
        return "STANAG checksum field %#06x is not the MISB 0601 sum of the protected bytes (%#06x)" % (field, ref_misb(prot))
    sp = _spec([gen.F("spec.misbChecksum", hexb(prot))])[0]
    if sp != "ok:%d" % field:
        return "STANAG checksum field %#06x differs from the Lean Spec checksum (%s)" % (field, sp)
    return None

def check_sum_fn(args):
    import AcraNetwork.MPEG.PES as pes
    d = bytes.fromhex(args["data"])
    if pes.checksum_stanag(d) != ref_misb(d):
        return "checksum_stanag(%s) = %#06x, MISB 0601 sum is %#06x" % (hexb(d)[:80], pes.checksum_stanag(d), ref_misb(d))
    return None

def check_stanag_flip(args):
    """every single-bit corruption of pesdata[5:] (protected bytes and the checksum) makes unpack raise"""
    p = build("STANAG4609", args["fields"])
    b = p.pack()
    q = build("STANAG4609", {})
    try:
        q.unpack(b)
    except Exception:
        return None                     # not a decodable packet (not exactly filled / K2): nothing to corrupt
    for i in range(len(b) - 31, len(b)):
        for bit in range(8):
            m = bytearray(b); m[i] ^= 1 << bit
            q = build("STANAG4609", {})
            try:
                q.unpack(bytes(m))
            except Exception:
                continue
            return "flipping bit %d of metadata byte %d of a STANAG 4609 packet goes unreported" % (bit, i - (len(b) - 36))
    return None

def _safe(fn, args):
    """an oracle that trips over bytes it cannot even parse has found a failing input too"""
    try:
        return fn(args)
    except Exception as e:
        return "%s: the emitted bytes cannot be analysed (%r)" % (fn.__name__, e)

ORACLES.update({"mpeg_pmt_crc": check_pmt_crc, "mpeg_pmt_crc_redecode": check_pmt_crc_redecode, "mpeg_crc_fn": check_crc_fn, "mpeg_pmt_flip": check_pmt_flip,
                "mpeg_stanag_sum": check_stanag_sum, "mpeg_sum_fn": check_sum_fn, "mpeg_stanag_flip": check_stanag_flip,
                "mpeg_pmt_slen_forged": check_pmt_slen_forged})

def _first(fails, name, cls, check, fn, argss, ctx):
    k = 0
    prefetch(fn, argss)
    for args in argss:
        k += 1
        w = _safe(fn, args)
        if w:
            fails.append(Failure(name, args, w, {"class": cls, "check": check}))
            break
    ctx.count("oracle_evaluations", k)

def oracles_C07(ctx, hints):
    rng = ctx.rng
    fails = []
    mult = 4 if getattr(ctx, "search_mode", False) else 1
    datas = [b"123456789", b"", b"\x00", b"\xff" * 4, b"\x80" + b"\x00" * 7] + [rng.bytes_(rng.randrange(0, 200)) for _ in range(ctx.scale(60, 3000))]
    _first(fails, "mpeg_crc_fn", "MPEGPacketPMT", "crc_std", check_crc_fn, [{"data": d.hex()} for d in datas], ctx)
    sums = [b"", b"\x01", b"\xff\xff", b"\xff\xff\x00\x01", b"\xff" * 513, b"\x80\x00" * 2] + [rng.bytes_(rng.randrange(0, 70)) for _ in range(ctx.scale(60, 3000))]
    _first(fails, "mpeg_sum_fn", "STANAG4609", "checksum_std", check_sum_fn, [{"data": d.hex()} for d in sums], ctx)
    _first(fails, "mpeg_pmt_crc", "MPEGPacketPMT", "crc_std", check_pmt_crc,
           [{"fields": pmt_valid(rng)} for _ in range(ctx.scale(40, 2000) * mult)], ctx)
    _first(fails, "mpeg_pmt_crc_redecode", "MPEGPacketPMT", "crc_std", check_pmt_crc_redecode,
           [{"fields": pmt_valid(rng), "pointer": v} for _ in range(ctx.scale(6, 200) * mult) for v in (0, 1, 3, 17, 60)], ctx)
    _first(fails, "mpeg_stanag_sum", "STANAG4609", "checksum_std", check_stanag_sum,
           [{"fields": stanag_valid(rng)} for _ in range(ctx.scale(40, 2000) * mult)] +
           [{"fields": dict(stanag_valid(rng), time_us=str(t))} for t in (0, 2 ** 64 - 1, 0xFFFF0000FFFF0000, 0x00FF00FF00FF00FF)], ctx)
    _first(fails, "mpeg_pmt_flip", "MPEGPacketPMT", "detects_flip", check_pmt_flip,
           [{"fields": pmt_valid(rng)} for _ in range(ctx.scale(6, 200) * mult)], ctx)
    _first(fails, "mpeg_stanag_flip", "STANAG4609", "detects_flip", check_stanag_flip,
           [{"fields": stanag_valid(rng)} for _ in range(ctx.scale(10, 400) * mult)], ctx)
    # known finding K8: a FORGED packet (second stream's descriptor bytes solved so that the section shortened by one
    # flipped section_length bit ends in its own CRC).  The tags are computed from the input, not asserted: the flipped bit
    # lies in section_length AND the four bytes at the moved end are the reference CRC of the moved range.
    for kbit in (3, 4, 5, 6):
        args = {"k": kbit}
        w = _safe(check_pmt_slen_forged, args)
        ctx.count("oracle_evaluations", 1)
        if w:
            fails.append(Failure("mpeg_pmt_slen_forged", args, w, dict({"class": "MPEGPacketPMT", "check": "detects_flip"}, **pmt_slen_forged_tags(kbit))))
            break
    return fails

def pmt_slen_forged_tags(kbit):
    """what identifies known finding K8, recomputed on the packet: the flip is one of the 12 section_length bits and the
    shortened section carries the (independent reference) CRC-32/MPEG-2 of its own bytes"""
    good, i, bit = forge_pmt_slen(int(kbit))
    bad = bytearray(good); bad[i] ^= 1 << bit
    ptr = bad[4]
    sec = 5 + ptr                                   # table_id
    in_slen = (i == sec + 1 and bit < 4) or i == sec + 2
    L = ((bad[sec + 1] & 0x0F) << 8) | bad[sec + 2]
    body, crc = bytes(bad[sec:sec + 3 + L - 4]), bytes(bad[sec + 3 + L - 4:sec + 3 + L])
    return {"field": "section_length" if in_slen else "other",
            "crc_coincidence": len(crc) == 4 and int.from_bytes(crc, "big") == ref_crc32_mpeg2(body)}

# =================================================================================== C09: sync byte, PES prefix, STANAG key/tags/checksum
def _c09_buffers(ctx):
    rng = ctx.rng
    out = []
    for _ in range(ctx.scale(5, 60)):
        b = _packed("MPEGPacket", pkt_exact(rng)[0])
        if b:
            out.append(("MPEGPacket", b))
            for v in (0x00, 0x46, 0x48, 0xC7, 0xFF):
                out.append(("MPEGPacket", bytes([v]) + b[1:]))
            for n in (0, 1, 3, 4, 5, 6, 187, 189):
                out.append(("MPEGPacket", (b + b"\x00")[:n]))
            for afc in range(4):
                for n in (4, 5, 6):
                    out.append(("MPEGPacket", (b[:3] + bytes([(b[3] & 0xCF) | (afc << 4)]) + b[4:])[:n]))
        for hdr in (False, True):
            b = _packed("PES", pes_valid(rng, hdr, True))
            if b:
                out.append(("PES", b))
                out += [("PES", m) for m in pes_mutants(rng, b)]
                start = 4 if (b[3] >> 4) & 3 == 1 else 5 + b[4]
                for n in range(start, min(len(b), start + 11)):
                    out.append(("PES", b[:n]))
            b = _packed("STANAG4609", stanag_valid(rng, hdr))
            if b:
                out.append(("STANAG4609", b))
                out += [("STANAG4609", m) for m in stanag_mutants(rng, b, every_bit=(ctx.tier == "thorough"))]
                for n in range(len(b) - 37, len(b)):
                    out.append(("STANAG4609", b[:n]))
    return out

def corr_C09(ctx):
    return [gen.H(cls, ["unpack " + hexb(b), "obs"]) for cls, b in _c09_buffers(ctx)]

def ref_pkt_accepts(b):
    if len(b) < 4 or b[0] != 0x47:
        return False, None
    afc = (b[3] >> 4) & 3
    if afc == 3:
        if len(b) < 5:
            return False, None
        return True, (b[5 + b[4]:] if b[4] > 0 else b[5:])
    return True, (b[4:] if afc == 1 else b"")

def ref_pes_accepts(b):
    ok, pl = ref_pkt_accepts(b)
    if not ok or len(pl) < 6 or pl[0:3] != b"\x00\x00\x01":
        return False, None
    ln = int.from_bytes(pl[4:6], "big")
    if len(pl) >= 9 and (pl[6] >> 4) == 8 and len(pl) == ln + 6:   # fewer than 3 bytes after the prefix: no optional header
        return True, pl[9 + pl[8]:]
    return True, pl[6:]

def ref_stanag_accepts(b):
    ok, d = ref_pes_accepts(b)
    if not ok:
        return False
    pid = ((b[1] & 0x1F) << 8) | b[2]
    KEY = bytes.fromhex("060e2b34020b01010e01030101000000")
    return (pid == 0x104 and len(d) >= 36 and d[5:21] == KEY and d[22] == 2 and d[23] == 8
            and ref_misb(d[5:-2]) == int.from_bytes(d[34:36], "big"))

def check_mpeg_accept(args):
    """the decoders accept a buffer exactly when the documented checks hold (sync byte 0x47; PES start-code
    prefix 000001; STANAG PID 0x104, universal key, data tag 2, tag length 8, MISB checksum)"""
    cls, b = args["cls"], bytes.fromhex(args["buf"])
    o = build(cls, {})
    try:
        ADAPTERS[cls].unpack(o, b)
        ok = True
    except Exception:
        ok = False
    if cls == "MPEGPacket":
        should, pl = ref_pkt_accepts(b)
        if ok and should and bytes(o.payload) != pl:
            return "MPEGPacket.unpack accepted the buffer but its payload is not the bytes after the header/adaptation field"
    elif cls == "PES":
        should, d = ref_pes_accepts(b)
        if ok and should and bytes(o.pesdata) != d:
            return "PES.unpack accepted the buffer but pesdata is truncated or padded"
    else:
        should = ref_stanag_accepts(b)
    if ok != should:
        return "%s.unpack %s a buffer that %s its sync/prefix/key/tag/checksum checks (%s…)" % (
            cls, "accepted" if ok else "rejected", "fails" if not should else "passes", hexb(b)[:24])
    return None

ORACLES["mpeg_accept"] = check_mpeg_accept

def oracles_C09(ctx, hints):
    fails, seen, n = [], set(), 0
    for cls, b in _c09_buffers(ctx):
        n += 1
        args = {"cls": cls, "buf": b.hex()}
        w = _safe(check_mpeg_accept, args)
        if w and cls not in seen:
            seen.add(cls)
            fails.append(Failure("mpeg_accept", args, w, {"class": cls, "check": "accept_exact"}))
    ctx.count("oracle_evaluations", n)
    return fails

# =================================================================================== C15: PTS
def _f2b(x):
    return struct.unpack(">Q", struct.pack(">d", x))[0]

def pts_ticks(ctx):
    rng = ctx.rng
    t = [0, 1, 2, 26, 27, 2 ** 15 - 1, 2 ** 15, 2 ** 15 + 1, 2 ** 30 - 1, 2 ** 30, 2 ** 30 + 1, 2 ** 31, 2 ** 32, 2 ** 33 - 2, 2 ** 33 - 1,
         16842600, 90000, 89999, 90001, 45000, 3 * 2 ** 30, 7 * 2 ** 30 + 0x7FFF,
         2 ** 32 - 1, 2 ** 32 + 1, 7 * 2 ** 30, 2 ** 32 | 1, 2 ** 32 | 2 ** 15, 6 * 2 ** 30, 5 * 2 ** 30 + 12345]
    t += [(1 << k) - 1 for k in range(1, 34)] + [1 << k for k in range(0, 33)]
    t += [rng.randrange(2 ** 33) for _ in range(ctx.scale(6000, 200000))]
    return t

def _field(p):
    return 0x2100010001 | ((p & 0x7FFF) << 1) | (((p >> 15) & 0x7FFF) << 17) | (((p >> 30) & 7) << 33)

def corr_C15(ctx):
    rng = ctx.rng
    lines = []
    for p in pts_ticks(ctx):
        v = _field(p)
        lines.append(gen.F("pts_to_ts", str(v)))
        lines.append(gen.F("ts_to_pts", str(_f2b(p / 90e3))))
    for _ in range(ctx.scale(300, 20000)):                     # arbitrary 40-bit fields (marker bits not set) and seconds
        lines.append(gen.F("pts_to_ts", str(rng.getrandbits(rng.choice([40, 40, 48])))))
        x = rng.choice([rng.random() * 95443.7, rng.randrange(0, 95443) + rng.choice([0.0, 0.5, 0.25]), rng.randrange(2 ** 33) / 90e3,
                        (rng.randrange(2 ** 33) + 0.5) / 90e3, rng.random() * 1e6])
        lines.append(gen.F("ts_to_pts", str(_f2b(x))))
        lines.append(gen.F("ts_to_buf", str(_f2b(x))))
    for k in range(0, 40):                                     # ties of round(): x.5 ticks are exactly representable here
        lines.append(gen.F("ts_to_pts", str(_f2b((k + 0.5) / 90e3))))
    for p in [0, 1, 2 ** 33 - 1] + [rng.randrange(2 ** 33) for _ in range(ctx.scale(50, 2000))]:
        lines.append(gen.F("buf_to_ts", hexb(_field(p).to_bytes(5, "big"))))
    for n in (0, 4, 6):
        lines.append(gen.F("buf_to_ts", hexb(rng.bytes_(n))))
    return lines

def check_pts(args):
    """the 33-bit tick count is laid out with the ISO 13818-1 marker bits and survives seconds and back"""
    import AcraNetwork.MPEG.PES as pes
    ticks = args["ticks"]
    sp = _spec([gen.F("spec.PTS.field", str(p)) for p in ticks])
    for p, s in zip(ticks, sp):
        v = int(s[3:])
        ts = pes.pts_to_ts(v)
        if ts != p / 90e3:
            return "pts_to_ts(%#x) = %r, but the field carries %d ticks = %r s" % (v, ts, p, p / 90e3)
        back = pes.ts_to_pts(ts)
        if back != v:
            return "%d ticks: ts_to_pts(pts_to_ts(%#x)) = %#x (ISO 13818-1 layout of %d ticks is %#x)" % (p, v, back, p, v)
        buf = pes.ts_to_buf(ts)
        if buf != v.to_bytes(5, "big") or pes.buf_to_ts(buf) != ts:
            return "%d ticks: ts_to_buf/buf_to_ts do not carry the 40-bit field big-endian" % p
    return None

ORACLES["mpeg_pts"] = check_pts

def oracles_C15(ctx, hints):
    t = pts_ticks(ctx)
    fails = []
    n = 0
    for i in range(0, len(t), 500):
        args = {"ticks": t[i:i + 500]}
        n += len(args["ticks"])
        w = _safe(check_pts, args)
        if w:
            # shrink to the single failing tick for the replay
            for p in args["ticks"]:
                if check_pts({"ticks": [p]}):
                    args = {"ticks": [p]}
                    break
            fails.append(Failure("mpeg_pts", args, check_pts(args) or w, {"class": "PES", "check": "pts_roundtrip"}))
            break
    ctx.count("oracle_evaluations", n)
    return fails
