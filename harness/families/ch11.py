"""Family ch11: IRIG 106 Chapter 11 data-type payload codecs — PCM format 1, UART format 0, MIL-STD-1553
format 1, ARINC-429 format 0, time formats 1 and 2, analog, computer-generated formats 0/1, video format 2.

Contributes to C04 (layout + round trip), C08/C13/C14 (through CLASSGEN), C09 (ARINC-429 word count),
C15 (BCD helpers), C17 (PCM minor-frame size from two sync words)."""
import time as _time, calendar as _calendar
from ..core import hexb, run_line_impl, run_driver, SPECDRIVER, ADAPTERS, FUNCS, guarded
from ..runner import Failure
from .. import gen
from ..gen import ClassGen

import AcraNetwork.IRIG106.Chapter11 as ch11
import AcraNetwork.IRIG106.Chapter11.UART as uart
import AcraNetwork.IRIG106.Chapter11.MILSTD1553 as mil
import AcraNetwork.IRIG106.Chapter11.ARINC429 as arinc
import AcraNetwork.IRIG106.Chapter11.Analog as analog
import AcraNetwork.IRIG106.Chapter11.ComputerData as cgd
import AcraNetwork.IRIG106.Chapter11.PCM as pcm
import AcraNetwork.IRIG106.Chapter11.TimeDataFormat as tdf
import AcraNetwork.IRIG106.Chapter11.Video as video
import AcraNetwork.MPEGTS as mpegts
from datetime import datetime, timezone


def _spec(lines):
    return run_driver(lines, exe=SPECDRIVER)

def B(b):
    return "True" if b else "False"

def L(items):
    return "[" + ";".join(items) + "]"

# ------------------------------------------------------------------------------------------ helper functions (F lines)
def _ntp_frac(ns):
    t = tdf.TimeDataFormat2()
    t.channel_specific_data = 1
    t.ptptime.nanoseconds = ns
    return int.from_bytes(t.pack()[8:12], "little")

def _ntp_ns(fs):
    t = tdf.TimeDataFormat2()
    t.unpack((1).to_bytes(4, "little") + bytes(4) + fs.to_bytes(4, "little"))
    return t.ptptime.nanoseconds

def _fromtimestamp(s):
    dt = datetime.fromtimestamp(s, tz=timezone.utc)
    return [dt.year, dt.month, dt.day, dt.hour, dt.minute, dt.second, int(dt.strftime("%j"))]

def _timestamp(y, mo, d, h, mi, s):
    return int(datetime(y, mo, d, h, mi, s).replace(tzinfo=timezone.utc).timestamp())

FUNCS["ch11.double_digits_to_bcd"] = tdf.double_digits_to_bcd
FUNCS["ch11.bcd_to_int"] = tdf.bcd_to_int
FUNCS["ch11.endian_swap"] = lambda b: bytes(uart.endian_swap(b))
FUNCS["ch11.ntp_frac"] = _ntp_frac
FUNCS["ch11.ntp_ns"] = _ntp_ns
FUNCS["ch11.fromtimestamp"] = _fromtimestamp
FUNCS["ch11.timestamp"] = _timestamp

# ------------------------------------------------------------------------------------------ time stamps
KIND_SRC = {"rtc": "0", "ptp": "1", "none": "None"}

def ipts_text(rng, kind):
    if kind == "rtc":
        return "IptsRTC{count=%d}" % rng.boundary(48)
    if kind == "ptp":
        return "IptsPTP{seconds=%d,nanoseconds=%d}" % (rng.boundary(32), rng.boundary(32))
    return "None"

def ipts_obj(kind, vals):
    if kind == "rtc":
        return ch11.RTCTime(vals[0])
    if kind == "ptp":
        return ch11.PTPTime(vals[0], vals[1])
    return None

def ipts_json(rng, kind):
    if kind == "rtc":
        return [rng.boundary(48)]
    if kind == "ptp":
        return [rng.boundary(32), rng.boundary(32)]
    return []

def ipts_canon(kind, vals):
    if kind == "rtc":
        return "IptsRTC{count=%d}" % vals[0]
    if kind == "ptp":
        return "IptsPTP{seconds=%d,nanoseconds=%d}" % (vals[0], vals[1])
    return "None"

def obj_text(name, fields):
    return name + "{" + ",".join("%s=%s" % kv for kv in fields.items()) + "}"

# =========================================================================================== UART
UART_LENS = [1, 2, 3, 4, 5, 8, 33, 34]

def uart_word_fields(rng, kind, lens=None, sub_bits=13):
    n = rng.choice(lens or ([0] + UART_LENS))
    return {"ipts": ipts_text(rng, kind), "parity_error": B(rng.random() < 0.5),
            "subchannel": str(rng.boundary(sub_bits)), "payload": hexb(rng.bytes_(n))}

def uart_word_text(rng, kind, endian, lens=None):
    f = uart_word_fields(rng, kind, lens)
    f["data_endianness"] = str(endian)
    return obj_text("UARTDataWord", f)

def uart_packet_fields(rng, kind, endian, maxn=4):
    lens = UART_LENS if kind == "none" else [0] + UART_LENS
    n = rng.randrange(1, maxn + 1)
    ws = [uart_word_text(rng, kind, endian, lens if i == n - 1 or kind == "none" else None) for i in range(n)]
    return {"uartwords": L(ws)}

# =========================================================================================== 1553
MIL_LENS = [1, 2, 5, 8, 40, 64]

def mil_msg_fields(rng, kind, lens=None):
    return {"ipts": ipts_text(rng, kind), "blockstatus": str(rng.boundary(16)), "gaptimes": str(rng.boundary(16)),
            "message": hexb(rng.bytes_(rng.choice(lens or ([0] + MIL_LENS))))}

def mil_msg_text(rng, kind, lens=None):
    return obj_text("MILSTD1553Message", mil_msg_fields(rng, kind, lens))

def mil_packet_fields(rng, kind, maxn=4):
    n = rng.randrange(1, maxn + 1)
    ms = [mil_msg_text(rng, kind, MIL_LENS if i == n - 1 else None) for i in range(n)]
    return {"messages": L(ms), "msgcount": str(n), "ttb": str(rng.randrange(4))}

# =========================================================================================== ARINC-429
def arinc_word_fields(rng, n=4):
    return {"gaptime": str(rng.boundary(20)), "format_error": B(rng.random() < 0.5), "parity_error": B(rng.random() < 0.5),
            "bus_speed": str(rng.randrange(2)), "bus": str(rng.boundary(8)), "payload": hexb(rng.bytes_(n))}

def arinc_word_text(rng, n=4):
    return obj_text("ARINC429DataWord", arinc_word_fields(rng, n))

def arinc_packet_fields(rng, maxn=5):
    n = rng.randrange(0, maxn + 1)
    return {"arincwords": L([arinc_word_text(rng) for _ in range(n)]), "msgcount": str(n)}

def _arinc_bit_fields(bit):
    """the word whose packed header has exactly this bit set (bit 20 is reserved: reachable only through an
    out-of-range gap time, which `pack` adds in unmasked)"""
    f = {"gaptime": "0", "format_error": "False", "parity_error": "False", "bus_speed": "0", "bus": "0", "payload": "x01020304"}
    if bit >= 24:
        f["bus"] = str(1 << (bit - 24))
    elif bit == 23:
        f["format_error"] = "True"
    elif bit == 22:
        f["parity_error"] = "True"
    elif bit == 21:
        f["bus_speed"] = "1"
    else:
        f["gaptime"] = str(1 << bit)
    return f

# =========================================================================================== analog / computer data
def analog_fields(rng):
    return {"channel_specific_word": str(rng.boundary(32)), "data": hexb(rng.bytes_(rng.choice([0, 1, 2, 7, 64])))}

def cg0_fields(rng):
    return {"_csdw": str(rng.boundary(32)), "payload": hexb(rng.bytes_(rng.choice([0, 1, 2, 7, 64])))}

def cg1_fields(rng):
    return {"frmt": str(rng.randrange(2)), "srcc": str(rng.randrange(2)), "rccver": str(rng.randrange(7, 15)),
            "payload": hexb(rng.bytes_(rng.choice([0, 1, 2, 7, 64])))}

# =========================================================================================== PCM
def pcm_frame_fields(rng, kind, align, n=None):
    n = rng.choice([0, 1, 2, 3, 4, 9, 32]) if n is None else n
    return {"ipts": ipts_text(rng, kind), "intra_packet_data_header": str(rng.boundary(32 if align else 16)),
            "minor_frame_data": hexb(rng.bytes_(n))}

def pcm_tframe_fields(rng, n=None):
    n = rng.choice([0, 2, 4, 10, 64]) if n is None else n
    return {"minor_frame_data": hexb(rng.bytes_(n))}

def pcm_frame_text(rng, kind, align, n, prefix=b""):
    f = {"ipts": ipts_text(rng, kind), "throughput": "False", "intra_packet_data_header": str(rng.boundary(32 if align else 16)),
         "minor_frame_data": hexb(prefix + rng.bytes_(n - len(prefix))), "alignment": str(align)}
    return obj_text("PCMMinorFrame", f)

def pcm_csw(rng, thr, align):
    w = rng.getrandbits(32) & ~((1 << 20) | (1 << 21))
    return w | (thr << 20) | (align << 21)

def pcm_packet_fields(rng, kind, align, n, maxk=4, prefix=b"", mink=1):
    k = rng.randrange(mink, maxk + 1)
    return {"channel_specific_word": str(pcm_csw(rng, 0, align)),
            "minor_frames": L([pcm_frame_text(rng, kind, align, n, prefix) for _ in range(k)])}

def pcm_tpacket_fields(rng, align):
    f = {"ipts": "None", "throughput": "True", "minor_frame_data": hexb(rng.bytes_(2 * rng.randrange(0, 20))), "alignment": str(align)}
    return {"channel_specific_word": str(pcm_csw(rng, 1, align)), "minor_frames": L([obj_text("PCMMinorFrame", f)])}

SYNC = pcm.DFLT_SYNC_WORD
SYNCB = SYNC.to_bytes(4, "big")

# =========================================================================================== time formats
DOY_CSD = 0x51
DMY_CSD = 0x251

def tdf1_fields(rng):
    """a value the format can carry exactly: 10 ms resolution; day-of-year variant inside 1970"""
    if rng.random() < 0.5:
        csd = (rng.getrandbits(32) | 0x200)
        s = rng.choice([0, 1, 86399, 86400, 951782400, 1709208000, 4102444799, rng.randrange(0, 4102444800)])
    else:
        csd = rng.getrandbits(32) & ~0x200
        s = rng.choice([0, 86399, 365 * 86400 - 1, rng.randrange(0, 365 * 86400)])
    return {"channel_specific_data": str(csd), "seconds": str(s), "nanoseconds": str(10 ** 7 * rng.randrange(100))}

def _ntp_exact(ns):
    return _ntp_ns(_ntp_frac(ns)) == ns

def tdf2_fields(rng):
    code = rng.choice([0, 1, 2])
    csd = (rng.getrandbits(32) & ~0xF0) | (code << 4)
    ns = rng.choice([0, 1, 999999999, rng.randrange(10 ** 9)])
    if code == 0:
        ns = 0          # the NTP fraction truncates: almost every other value comes back 1 ns lower (C04 allows that, equality does not)
    return {"channel_specific_data": str(csd), "seconds": str(rng.boundary(32)), "nanoseconds": str(ns)}

def _ts(y, mo, d, h=0, mi=0, s=0):
    return _calendar.timegm((y, mo, d, h, mi, s))

TDF1_EDGES = [0, 59, 60, 3599, 3600, 86399, 86400, _ts(1999, 12, 31, 23, 59, 59), _ts(2000, 1, 1), _ts(2000, 2, 28, 23, 59, 59),
              _ts(2000, 2, 29), _ts(2000, 2, 29, 23, 59, 59), _ts(2000, 3, 1), _ts(2000, 12, 31, 23, 59, 59), _ts(2024, 2, 29, 12),
              _ts(2023, 2, 28, 23, 59, 59), _ts(2023, 3, 1), _ts(2024, 12, 31, 23, 59, 59), _ts(2038, 1, 19, 3, 14, 7),
              _ts(2038, 1, 19, 3, 14, 8), _ts(2099, 12, 31, 23, 59, 59), _ts(1970, 12, 31, 23, 59, 59), _ts(1971, 1, 1)]

# =========================================================================================== video
def ts_chunk(rng, ctrl=1, n=188):
    hdr = bytes([0x47, rng.getrandbits(8), rng.getrandbits(8), (rng.randrange(4) << 6) | (ctrl << 4) | rng.randrange(16)])
    return hdr + rng.bytes_(n - 4)

def ts_packet(rng, afc=None):
    """188 bytes: the library's own encoding of a transport packet it can express exactly (the MPEG family's
    `pkt_exact`): adaptation control 0/1/2/3, adaptation field with any subset of PCR / OPCR / splice countdown /
    private data / extension and stuffing, the payload filling the packet"""
    from . import mpeg as _mpeg
    for _ in range(8):
        b = _mpeg._packed("MPEGPacket", _mpeg.pkt_exact(rng, afc=afc)[0])
        if b is not None and len(b) == 188:
            return b
    return ts_chunk(rng)

def video_fields(rng):
    csw = rng.getrandbits(32) & ~(1 << 19)
    return {"channel_specific_word": str(csw), "datastream": str((csw >> 12) & 1),
            "mpegts": L([hexb(ts_chunk(rng) if rng.random() < 0.3 else ts_packet(rng)) for _ in range(rng.randrange(0, 4))])}

# =========================================================================================== class registry
CLASSGEN = {}

def _reg(key, cg):
    CLASSGEN[key] = cg

for _kind in ("rtc", "ptp", "none"):
    _sfx = "" if _kind == "rtc" else "#" + _kind
    _src = KIND_SRC[_kind]
    _reg("UARTDataWord" + _sfx, ClassGen("UARTDataWord", (lambda k: lambda rng: uart_word_fields(rng, k))(_kind),
         opts=[(_src, "0"), (_src, "1")], length_fields=[(8 if _kind != "none" else 0, 2, "little")]))
    for _en in (0, 1):
        _reg("UARTDataPacket%s%s" % (_sfx, "" if _en == 0 and _kind == "rtc" else "#e%d" % _en),
             ClassGen("UARTDataPacket", (lambda k, e: lambda rng: uart_packet_fields(rng, k, e))(_kind, _en),
                      opts=[(_src, str(_en))], length_fields=[(0, 4, "little"), (12 if _kind != "none" else 4, 2, "little")]))
    if _kind != "none":
        _reg("MILSTD1553Message" + _sfx, ClassGen("MILSTD1553Message", (lambda k: lambda rng: mil_msg_fields(rng, k))(_kind),
             opts=[(_src,)], length_fields=[(12, 2, "little")]))
        _reg("MILSTD1553DataPacket" + _sfx, ClassGen("MILSTD1553DataPacket", (lambda k: lambda rng: mil_packet_fields(rng, k))(_kind),
             opts=[(_src,)], length_fields=[(0, 4, "little"), (16, 2, "little")]))
        for _al in (0, 1):
            _reg("PCMMinorFrame%s%s" % (_sfx, "" if _al == 0 and _kind == "rtc" else "#a%d" % _al),
                 ClassGen("PCMMinorFrame", (lambda k, a: lambda rng: pcm_frame_fields(rng, k, a))(_kind, _al),
                          opts=[(_src, "False", str(_al))]))
_reg("PCMMinorFrame#thr", ClassGen("PCMMinorFrame", pcm_tframe_fields, opts=[("0", "True", "0"), ("1", "True", "1")]))
_reg("ARINC429DataWord", ClassGen("ARINC429DataWord", arinc_word_fields))
_reg("ARINC429DataPacket", ClassGen("ARINC429DataPacket", arinc_packet_fields, length_fields=[(0, 2, "little")]))
_reg("Analog", ClassGen("Analog", analog_fields))
_reg("ComputerGeneratedFormat0", ClassGen("ComputerGeneratedFormat0", cg0_fields, has_eq=False))
_reg("ComputerGeneratedFormat1", ClassGen("ComputerGeneratedFormat1", cg1_fields, has_eq=False))
_reg("PCMDataPacket", ClassGen("PCMDataPacket", lambda rng: pcm_packet_fields(rng, "rtc", 0, 4), opts=[("0", "None", "4")],
                               length_fields=[(0, 4, "little")]))
_reg("PCMDataPacket#ptp", ClassGen("PCMDataPacket", lambda rng: pcm_packet_fields(rng, "ptp", 1, 3), opts=[("1", "None", "3")],
                                   length_fields=[(0, 4, "little")]))
_reg("PCMDataPacket#odd", ClassGen("PCMDataPacket", lambda rng: pcm_packet_fields(rng, "rtc", 0, 5), opts=[("0", "None", "5")]))
_reg("PCMDataPacket#thr", ClassGen("PCMDataPacket", lambda rng: pcm_tpacket_fields(rng, rng.randrange(2)), opts=[("0", "None", "None")]))
_reg("PCMDataPacket#det", ClassGen("PCMDataPacket", lambda rng: pcm_packet_fields(rng, "rtc", 0, 2 * rng.randrange(0, 9), maxk=1),
                                   opts=[("0", "None", "None")]))
_reg("PCMDataPacket#sync", ClassGen("PCMDataPacket", lambda rng: pcm_packet_fields(rng, "ptp", 0, 8, prefix=SYNCB),
                                    opts=[("1", str(SYNC), "None")]))
_reg("TimeDataFormat1", ClassGen("TimeDataFormat1", tdf1_fields))
_reg("TimeDataFormat2", ClassGen("TimeDataFormat2", tdf2_fields))
_reg("VideoFormat2", ClassGen("VideoFormat2", video_fields, length_fields=[(0, 4, "little")]))

# =========================================================================================== correspondence C04
def _decode_side(lines, extra=""):
    """bytes produced by the implementation, decoded into a fresh object (same options) and re-encoded"""
    out = []
    for l in lines:
        if not l.startswith("H "):
            continue
        a = run_line_impl(l)
        hd = l.split(" :: ")[0]
        for p in a.split("|"):
            if p.startswith("ok:x"):
                out.append("%s :: unpack %s%s|obs|pack|obs" % (hd, p[3:], extra))
    return out

def _variants():
    return sorted(CLASSGEN.items())

def _boundary_sets(cls, opts, base, field, bits):
    out = []
    for v in (0, 1, (1 << bits) - 1, 1 << (bits - 1), 1 << bits, (1 << bits) + 1):
        f = dict(base)
        f[field] = str(v)
        out.append(gen.H(cls, gen.sets(f) + ["pack", "obs"], opts))
    return out

def corr_C04(ctx):
    rng = ctx.rng
    lines = []
    n = ctx.scale(12, 400)
    # 1. valid objects of every class variant: encode, observe; then decode what the code produced
    for key, cg in _variants():
        for _ in range(n):
            opts = rng.choice(cg.opts)
            lines.append(gen.H(cg.cls, gen.sets(cg.valid(rng)) + ["pack", "obs"], opts))
    # 2. every field over its width, including the first values that do not fit
    for kind in ("rtc", "ptp", "none"):
        for en in ("0", "1"):
            base = uart_word_fields(rng, kind, [3])
            lines += _boundary_sets("UARTDataWord", (KIND_SRC[kind], en), base, "subchannel", 13)
            lines += _boundary_sets("UARTDataWord", (KIND_SRC[kind], en), base, "subchannel", 15)
            for ln in list(range(0, 12)) + [65534, 65535, 65536]:
                f = uart_word_fields(rng, kind, [ln], sub_bits=14)
                lines.append(gen.H("UARTDataWord", gen.sets(f) + ["pack", "obs"], (KIND_SRC[kind], en)))
    for v in (0, 1, 2 ** 32 - 1, 2 ** 32, 2 ** 47, 2 ** 48 - 1, 2 ** 48, 2 ** 48 + 5, 2 ** 64 + 7):
        lines.append(gen.H("UARTDataWord", ["set ipts IptsRTC{count=%d}" % v, "set payload x0102", "pack", "obs"], ("0", "0")))
        lines.append(gen.H("MILSTD1553Message", ["set ipts IptsRTC{count=%d}" % v, "set message x0102", "pack", "obs"], ("0",)))
    for s, ns in ((0, 0), (2 ** 32 - 1, 2 ** 32 - 1), (2 ** 32, 0), (0, 2 ** 32), (5, 999999999)):
        t = "IptsPTP{seconds=%d,nanoseconds=%d}" % (s, ns)
        lines.append(gen.H("UARTDataWord", ["set ipts " + t, "set payload x0102", "pack", "obs"], ("1", "1")))
        lines.append(gen.H("MILSTD1553Message", ["set ipts " + t, "set message x0102", "pack", "obs"], ("1",)))
        lines.append(gen.H("PCMMinorFrame", ["set ipts " + t, "set intra_packet_data_header 1", "pack", "obs"], ("1", "False", "0")))
    for kind in ("rtc", "ptp"):
        base = mil_msg_fields(rng, kind, [4])
        for fld in ("blockstatus", "gaptimes"):
            lines += _boundary_sets("MILSTD1553Message", (KIND_SRC[kind],), base, fld, 16)
        for ln in (0, 1, 2, 3, 65535, 65536):
            f = mil_msg_fields(rng, kind, [ln])
            lines.append(gen.H("MILSTD1553Message", gen.sets(f) + ["pack", "obs"], (KIND_SRC[kind],)))
        pf = mil_packet_fields(rng, kind)
        for ttb in (0, 1, 2, 3, 4, 5):
            f = dict(pf); f["ttb"] = str(ttb)
            lines.append(gen.H("MILSTD1553DataPacket", gen.sets(f) + ["pack", "obs"], (KIND_SRC[kind],)))
        # a trailing message without data is not seen by the decoder's loop condition
        f = {"messages": L([mil_msg_text(rng, kind, [2]), mil_msg_text(rng, kind, [0])]), "msgcount": "2", "ttb": "1"}
        lines.append(gen.H("MILSTD1553DataPacket", gen.sets(f) + ["pack", "obs"], (KIND_SRC[kind],)))
        f = {"messages": L([mil_msg_text(rng, kind, [0]), mil_msg_text(rng, kind, [2])]), "msgcount": "2", "ttb": "1"}
        lines.append(gen.H("MILSTD1553DataPacket", gen.sets(f) + ["pack", "obs"], (KIND_SRC[kind],)))
    base = arinc_word_fields(rng)
    for fld, bits in (("gaptime", 20), ("gaptime", 21), ("bus_speed", 1), ("bus", 8)):
        lines += _boundary_sets("ARINC429DataWord", (), base, fld, bits)
    for ln in (0, 1, 3, 4, 5, 8, 12):
        lines.append(gen.H("ARINC429DataWord", gen.sets(arinc_word_fields(rng, ln)) + ["pack", "obs"]))
        f = {"arincwords": L([arinc_word_text(rng, 4), arinc_word_text(rng, ln)])}
        lines.append(gen.H("ARINC429DataPacket", gen.sets(f) + ["pack", "obs"]))
    for bit in range(32):                          # every bit of the 32-bit intra-packet data header on its own
        lines.append(gen.H("ARINC429DataWord", gen.sets(_arinc_bit_fields(bit)) + ["pack", "obs"]))
        lines.append(gen.H("ARINC429DataWord", ["unpack " + hexb((1 << bit).to_bytes(4, "little") + b"\x01\x02\x03\x04"), "obs", "pack"]))
    lines += _boundary_sets("Analog", (), analog_fields(rng), "channel_specific_word", 32)
    lines += _boundary_sets("ComputerGeneratedFormat0", (), cg0_fields(rng), "_csdw", 32)
    for fld, bits in (("frmt", 1), ("srcc", 1), ("rccver", 8), ("rccver", 23)):
        lines += _boundary_sets("ComputerGeneratedFormat1", (), cg1_fields(rng), fld, bits)
    for v in range(0, 20):
        f = cg1_fields(rng); f["rccver"] = str(v)
        lines.append(gen.H("ComputerGeneratedFormat1", gen.sets(f) + ["pack", "obs"]))
    for al in (0, 1):
        base = pcm_frame_fields(rng, "rtc", al, 5)
        lines += _boundary_sets("PCMMinorFrame", ("0", "False", str(al)), base, "intra_packet_data_header", 32 if al else 16)
        for extra in ({"syncword": str(SYNC)}, {"sfid": "7"}, {"syncword": str(2 ** 32), "sfid": "3"}, {"syncword": "5", "sfid": str(2 ** 16)},
                      {"alignment": "2"}, {"ipts": "None"}, {"throughput": "True"}, {"intra_packet_data_header": "None"}):
            f = dict(base); f.update(extra)
            lines.append(gen.H("PCMMinorFrame", gen.sets(f) + ["pack", "obs"], ("0", "False", str(al))))
    lines += _boundary_sets("PCMDataPacket", ("0", "None", "4"), pcm_packet_fields(rng, "rtc", 0, 4), "channel_specific_word", 32)
    # frames of every size residue, with and without a size hint, both alignments
    for al in (0, 1):
        for nbytes in range(0, 10):
            for kind in ("rtc", "ptp"):
                f = pcm_packet_fields(rng, kind, al, nbytes, maxk=3)
                lines.append(gen.H("PCMDataPacket", gen.sets(f) + ["pack", "obs"], (KIND_SRC[kind], "None", str(nbytes))))
                f = pcm_packet_fields(rng, kind, al, nbytes, maxk=1)
                lines.append(gen.H("PCMDataPacket", gen.sets(f) + ["pack", "obs"], (KIND_SRC[kind], "None", "None")))
                f = pcm_packet_fields(rng, kind, al, nbytes, maxk=3, mink=2)      # several frames, no size hint: one big frame
                lines.append(gen.H("PCMDataPacket", gen.sets(f) + ["pack", "obs"], (KIND_SRC[kind], "None", "None")))
    # 3. time formats: calendar days x times of day, both date variants; the three network time codes
    days = [0, 1, 58, 59, 60, 364, 365, 366, 730, 789, 790, 11016, 11017, 11381, 19782, 19783, 47481, 47482, 47540, 49000]
    days += [rng.randrange(0, 47482) for _ in range(ctx.scale(120, 6000))]
    for d in days:
        for tod in (0, 86399, rng.randrange(86400)):
            ns = rng.choice([0, 9999999, 10000000, 999999999, rng.randrange(10 ** 9)])
            for csd in (DMY_CSD, DOY_CSD):
                lines.append(gen.H("TimeDataFormat1", gen.sets({"channel_specific_data": str(csd), "seconds": str(d * 86400 + tod),
                                                                "nanoseconds": str(ns)}) + ["pack", "obs"]))
    for k in range(0, 101):                       # every boundary k*10^7 +- 1 of the 10 ms digit pair, on several days
        for ns in (k * 10 ** 7 - 1, k * 10 ** 7, k * 10 ** 7 + 1):
            if ns >= 0:
                lines.append(gen.H("TimeDataFormat1", ["set nanoseconds %d" % ns, "pack"]))
                s_ = rng.choice(TDF1_EDGES)
                lines.append(gen.H("TimeDataFormat1", ["set channel_specific_data %d" % rng.choice([DMY_CSD, DOY_CSD]),
                                                       "set seconds %d" % s_, "set nanoseconds %d" % ns, "pack", "obs"]))
    for s_ in TDF1_EDGES:                         # 59 -> 0 roll-overs, 29 February, 31 December, 1999/2000, 2099
        for csd in (DMY_CSD, DOY_CSD):
            lines.append(gen.H("TimeDataFormat1", ["set channel_specific_data %d" % csd, "set seconds %d" % s_, "pack", "obs"]))
    for s in (-1, -86400, -62135596800, -62135596801, 253402300799, 253402300800, 4102444800, 2 ** 32, 2 ** 33):
        for csd in (DMY_CSD, DOY_CSD):
            lines.append(gen.H("TimeDataFormat1", ["set channel_specific_data %d" % csd, "set seconds %d" % s, "pack", "obs"]))
    for csd in (0, 2 ** 32 - 1, 2 ** 32):
        lines.append(gen.H("TimeDataFormat1", ["set channel_specific_data %d" % csd, "pack", "obs"]))
    for code in (0, 1, 2):
        for sec in (0, 2 ** 31, 2 ** 32 - 1):
            for ns in (0, 1, 999999999, rng.randrange(10 ** 9)):
                f = {"channel_specific_data": str((code << 4) | 1), "seconds": str(sec), "nanoseconds": str(ns)}
                lines.append(gen.H("TimeDataFormat2", gen.sets(f) + ["pack", "obs"]))
    for code in range(0, 16):
        for ns in (0, 1, 2, 499999999, 500000000, 999999998, 999999999, 10 ** 9, 2 ** 32 - 1, rng.randrange(10 ** 9)):
            f = {"channel_specific_data": str((code << 4) | 1), "seconds": str(rng.boundary(32)), "nanoseconds": str(ns)}
            lines.append(gen.H("TimeDataFormat2", gen.sets(f) + ["pack", "obs"]))
    for _ in range(ctx.scale(300, 20000)):
        lines.append(gen.F("ch11.ntp_frac", str(rng.randrange(10 ** 9))))
        lines.append(gen.F("ch11.ntp_ns", str(rng.getrandbits(32))))
    for ns in [0, 1, 2, 3, 999999997, 999999998, 999999999] + [k * 10 ** 8 + d for k in range(10) for d in (-1, 0, 1) if k * 10 ** 8 + d >= 0]:
        lines.append(gen.F("ch11.ntp_frac", str(ns)))
    for fs in (0, 1, 2, 3, 4, 5, 2 ** 31, 2 ** 32 - 2, 2 ** 32 - 1):
        lines.append(gen.F("ch11.ntp_ns", str(fs)))
    # 4. helpers
    for v in range(0, 130):
        lines.append(gen.F("ch11.double_digits_to_bcd", str(v)))
    for v in list(range(0, 256)) + [0x1970, 0x2024, 0x9999, 0xFFFF, 0x0A00, 0x00A0, 0x1000, 65536, 2 ** 40 + 5, -1, -7]:
        lines.append(gen.F("ch11.bcd_to_int", str(v)))
    for nb in range(0, 12):
        lines.append(gen.F("ch11.endian_swap", hexb(rng.bytes_(nb))))
    for d in days[:200]:
        s = d * 86400 + rng.randrange(86400)
        lines.append(gen.F("ch11.fromtimestamp", str(s)))
    for s in (-62135596800, -62135596801, -1, 253402300799, 253402300800, 951782399, 951782400, 951868800):
        lines.append(gen.F("ch11.fromtimestamp", str(s)))
    for (y, mo, d) in ((1970, 1, 1), (2000, 2, 29), (1900, 2, 29), (2100, 2, 29), (2024, 2, 30), (2023, 2, 29), (2024, 12, 31), (1, 1, 1),
                       (9999, 12, 31), (0, 1, 1), (2024, 13, 1), (2024, 0, 1), (2024, 4, 31), (2024, 4, 30), (2024, 1, 0), (1969, 12, 31), (1600, 3, 1)):
        lines.append(gen.F("ch11.timestamp", str(y), str(mo), str(d), "23", "59", "59"))
    lines.append(gen.F("ch11.timestamp", "2024", "1", "1", "24", "0", "0"))
    lines.append(gen.F("ch11.timestamp", "2024", "1", "1", "0", "60", "0"))
    lines.append(gen.F("ch11.timestamp", "2024", "1", "1", "0", "0", "60"))
    # 5. payloads assembled through append()
    for kind in ("rtc", "ptp", "none"):
        for en in (0, 1):
            ops = ["call append " + uart_word_text(rng, kind, en, UART_LENS) for _ in range(rng.randrange(1, 5))]
            lines.append(gen.H("UARTDataPacket", ops + ["obs", "pack", "obs"], (KIND_SRC[kind], str(en))))
    for kind in ("rtc", "ptp"):
        ops = ["call append " + mil_msg_text(rng, kind, MIL_LENS) for _ in range(rng.randrange(1, 5))]
        lines.append(gen.H("MILSTD1553DataPacket", ops + ["obs", "pack", "obs"], (KIND_SRC[kind],)))
        ops = ["call append " + pcm_frame_text(rng, kind, 0, 6) for _ in range(rng.randrange(1, 5))]
        lines.append(gen.H("PCMDataPacket", ops + ["obs", "pack", "obs"], (KIND_SRC[kind], "None", "6")))
    for cnt in range(0, 6):
        ops = ["call append " + arinc_word_text(rng) for _ in range(cnt)]
        lines.append(gen.H("ARINC429DataPacket", ops + ["obs", "pack", "obs"]))
    dec = _decode_side(lines)
    # 6. decode-only inputs: sync/sfid extraction, hand-made time payloads (valid and invalid BCD), malformed stream
    for al in (0, 1):
        for kind in ("rtc", "ptp"):
            for nbytes in (0, 4, 5, 6, 7, 11):
                b = rng.bytes_(8 + (4 if al else 2) + nbytes)
                lines.append(gen.H("PCMMinorFrame", ["unpack %s True" % hexb(b), "obs", "pack", "obs"], (KIND_SRC[kind], "False", str(al))))
                lines.append(gen.H("PCMMinorFrame", ["unpack %s False" % hexb(b), "obs", "pack"], (KIND_SRC[kind], "False", str(al))))
            f = pcm_packet_fields(rng, kind, al, 8, maxk=2)
            a = run_line_impl(gen.H("PCMDataPacket", gen.sets(f) + ["pack"], (KIND_SRC[kind], "None", "8"))).split("|")[-1]
            if a.startswith("ok:x"):
                lines.append(gen.H("PCMDataPacket", ["unpack %s True" % a[3:], "obs", "pack", "obs"], (KIND_SRC[kind], "None", "8")))
    for _ in range(ctx.scale(150, 5000)):
        digits = [rng.choice([rng.randrange(100), rng.randrange(60), rng.randrange(24), 0, 1, 12, 29, 30, 31, 59, 60, 61, 99]) for _ in range(8)]
        raw = bytes(((d // 10) << 4) | (d % 10) for d in digits)
        if rng.random() < 0.25:
            raw = rng.bytes_(8)
        if rng.random() < 0.15:
            i = rng.randrange(8)
            raw = raw[:i] + bytes([rng.choice([0x0A, 0xA0, 0xFF, 0x9A, 0x3C])]) + raw[i + 1:]
        for csd in (DMY_CSD, DOY_CSD):
            lines.append(gen.H("TimeDataFormat1", ["unpack " + hexb(csd.to_bytes(4, "little") + raw), "obs", "pack", "obs"]))
    for doy in (0, 1, 59, 60, 99, 100, 365, 366, 367, 399, 400, 999):
        raw = bytes([0x50, 0x59, 0x59, 0x23, ((doy % 100 // 10) << 4) | (doy % 10), doy // 100])
        lines.append(gen.H("TimeDataFormat1", ["unpack " + hexb(DOY_CSD.to_bytes(4, "little") + raw), "obs", "pack", "obs"]))
    for key, cg in _variants():
        for opts, f, sets, b in _valid_samples(ctx, cg, 2):
            if b is None or not cg.can_unpack:
                continue
            for m in gen.malformed(rng, b, cg.length_fields, max_trunc=ctx.scale(20, 200))[: ctx.scale(60, 2000)]:
                lines.append(gen.H(cg.cls, [cg.unpack_op(m), "obs"], opts))
    # video: chunks with every adaptation-control value, short and bad chunks (random bytes behind the header: for
    # control 2/3 that is a garbage adaptation field, decoded and re-encoded — twice, pack mutates the field objects)
    for ctrl in range(4):
        for n in (188, 187, 5, 4):
            b = (0).to_bytes(4, "little") + ts_chunk(rng) + ts_chunk(rng, ctrl, n)
            lines.append(gen.H("VideoFormat2", ["unpack " + hexb(b), "obs", "pack", "obs", "pack", "obs"]))
    # video: whole packets WITH adaptation fields (every control value, every subset of adaptation parts)
    for afc in (0, 1, 2, 3, 2, 3, 3, None, None, None) * ctx.scale(3, 60):
        cs = [ts_packet(rng, afc)] + [ts_packet(rng) for _ in range(rng.randrange(0, 3))]
        b = (rng.getrandbits(32) & ~(1 << 19)).to_bytes(4, "little") + b"".join(cs)
        lines.append(gen.H("VideoFormat2", ["unpack " + hexb(b), "obs", "pack", "obs", "pack", "obs"]))
        lines.append(gen.H("VideoFormat2", ["set mpegts " + L([hexb(c) for c in cs]), "obs", "pack", "obs", "unpack " + hexb(b), "obs"]))
        other = list(cs)
        other[rng.randrange(len(other))] = ts_packet(rng)
        ops = "set mpegts " + L([hexb(c) for c in cs])
        lines.append(gen.E("VideoFormat2", [ops], [ops]))
        lines.append(gen.E("VideoFormat2", [ops, "pack"], [ops]))
        lines.append(gen.E("VideoFormat2", [ops], ["set mpegts " + L([hexb(c) for c in other])]))
    for b in (b"", b"\x00\x00\x00", b"\x00\x00\x08\x00" + ts_chunk(rng), b"\x00\x10\x00\x00" + ts_chunk(rng), b"\x00\x00\x00\x00" + b"\x48" + bytes(187),
              b"\x00\x00\x00\x00" + ts_chunk(rng) + b"\x47\x00\x00", b"\x00\x00\x00\x00"):
        lines.append(gen.H("VideoFormat2", ["unpack " + hexb(b), "obs", "pack", "obs"]))
    return lines + dec

def _valid_samples(ctx, cg, n):
    out = []
    for _ in range(n):
        opts = ctx.rng.choice(cg.opts)
        f = cg.valid(ctx.rng)
        sets = gen.sets(f)
        a = run_line_impl(gen.H(cg.cls, sets + [cg.pack_op()], opts)).split("|")[-1]
        out.append((opts, f, sets, bytes.fromhex(a[4:]) if a.startswith("ok:x") else None))
    return out

# =========================================================================================== oracles C04
def _fail(what, **tags):
    return (what, tags)

_SPEC_CACHE = {}
_SPEC_PENDING = None          # a list while the layout lines of a batch of cases are being collected

def _spec1(fn, *args):
    """one layout from the spec driver; results are cached, and in collection mode the request is only recorded
    (a placeholder is returned), so that a whole batch of cases costs two driver runs instead of one per layout"""
    line = gen.F(fn, *args)
    r = _SPEC_CACHE.get(line)
    if r is None:
        if _SPEC_PENDING is not None:
            _SPEC_PENDING.append(line)
            return b""
        r = _spec([line])[0]
        _SPEC_CACHE[line] = r
    if not r.startswith("ok:x"):
        raise RuntimeError("spec driver: %s -> %s" % (fn, r))
    return bytes.fromhex(r[4:])

def _prefetch_specs(cases, rounds=3):
    """run the checks in collection mode until every layout they ask for is cached (layouts of containers are built
    from the layouts of their elements, hence more than one round)"""
    global _SPEC_PENDING
    for _ in range(rounds):
        _SPEC_PENDING = []
        try:
            for name, args in cases:
                try:
                    _CHECKS[name](args)
                except Exception:
                    pass
            todo = sorted(set(_SPEC_PENDING))
        finally:
            _SPEC_PENDING = None
        if not todo:
            break
        for l, r in zip(todo, _spec(todo)):
            _SPEC_CACHE[l] = r

def _mk_uart_word(kind, en, w):
    o = uart.UARTDataWord(ch11.TS_CH4 if kind == "rtc" else ch11.TS_IEEE1558 if kind == "ptp" else None, en)
    if kind != "none":
        o.ipts = ipts_obj(kind, w["ipts"])
    o.parity_error, o.subchannel, o.payload = w["pe"], w["sub"], bytes.fromhex(w["data"])
    return o

def _uart_word_spec(kind, en, w):
    return _spec1("spec.ch11.uartWord", ipts_canon(kind, w["ipts"]), B(w["pe"]), str(w["sub"]), "x" + w["data"], B(en == 1))

def _ipts_vals(t):
    if t is None:
        return []
    if isinstance(t, ch11.RTCTime):
        return [t.count]
    return [t.seconds, t.nanoseconds]

def check_uart_word(args):
    """UART data word: pack() is the Chapter 11 layout; unpack(pack) returns the same time stamp, parity bit,
    sub-channel (14 bits) and data; the byte count returned covers the fill byte"""
    kind, en, w = args["kind"], args["endian"], args["word"]
    o = _mk_uart_word(kind, en, w)
    b = o.pack()
    exp = _uart_word_spec(kind, en, w)
    if b != exp:
        return _fail("UARTDataWord.pack emits %s but the UART format 0 layout is %s" % (b.hex(), exp.hex()), check="layout")
    q = uart.UARTDataWord(ch11.TS_CH4 if kind == "rtc" else ch11.TS_IEEE1558 if kind == "ptp" else None, en)
    n = q.unpack(b + bytes.fromhex(args.get("tail", "")))
    if n != len(b):
        return _fail("UARTDataWord.unpack consumed %d of the %d bytes of the word" % (n, len(b)), check="roundtrip", field="consumed")
    for fld, got, want in (("ipts", _ipts_vals(q.ipts), w["ipts"]), ("parity_error", q.parity_error, w["pe"]),
                           ("subchannel", q.subchannel, w["sub"]), ("payload", bytes(q.payload).hex(), w["data"]),
                           ("datalength", q.datalength, len(w["data"]) // 2)):
        if got != want:
            return _fail("UART data word round trip changes %s: %r -> %r" % (fld, want, got), check="roundtrip", field=fld)
    if q.pack() != b:
        return _fail("UART data word: re-encoding the decoded word gives different bytes", check="roundtrip", field="bytes")
    return None

def check_uart_packet(args):
    """UART packet assembled through append(): layout, accepted by the decoder, same words in order"""
    kind, en, ws = args["kind"], args["endian"], args["words"]
    src = ch11.TS_CH4 if kind == "rtc" else ch11.TS_IEEE1558 if kind == "ptp" else None
    p = uart.UARTDataPacket(src, en)
    for w in ws:
        p.append(_mk_uart_word(kind, en, w))
    b = p.pack()
    exp = _spec1("spec.ch11.uartPacket", B(kind != "none"), L(["x" + _uart_word_spec(kind, en, w).hex() for w in ws]))
    if b != exp:
        return _fail("UARTDataPacket.pack emits %s but the layout is %s" % (b.hex(), exp.hex()), check="layout")
    q = uart.UARTDataPacket(src, en)
    try:
        q.unpack(b)
    except Exception as e:
        return _fail("UARTDataPacket.unpack rejects a packet assembled through append(): %r" % (e,), check="append")
    got = [{"ipts": _ipts_vals(w.ipts), "pe": w.parity_error, "sub": w.subchannel, "data": bytes(w.payload).hex()} for w in q.uartwords]
    if got != ws:
        if kind == "none" and ws and ws[-1]["data"] == "" and got == ws[:-1]:
            return _fail("UART packet without time stamps: a LAST word that carries no data bytes is dropped by the decoder "
                         "(%d words in, %d out)" % (len(ws), len(got)), check="roundtrip", field="uartwords", trailing_empty=True)
        return _fail("UART packet round trip: words %r decoded as %r" % (ws, got), check="roundtrip", field="uartwords")
    if q.pack() != b:
        return _fail("UART packet: re-encoding the decoded packet gives different bytes", check="roundtrip", field="bytes")
    return None

def _mk_mil_msg(kind, m):
    o = mil.MILSTD1553Message(ch11.TS_CH4 if kind == "rtc" else ch11.TS_IEEE1558)
    o.ipts = ipts_obj(kind, m["ipts"])
    o.blockstatus, o.gaptimes, o.message = m["bs"], m["gap"], bytes.fromhex(m["data"])
    return o

def check_mil_packet(args):
    """1553 packet assembled through append(): CSW = ttb<<30 | count, messages in order, accepted and returned unchanged"""
    kind, ttb, ms = args["kind"], args["ttb"], args["msgs"]
    src = ch11.TS_CH4 if kind == "rtc" else ch11.TS_IEEE1558
    p = mil.MILSTD1553DataPacket(src)
    p.ttb = ttb
    for m in ms:
        p.append(_mk_mil_msg(kind, m))
    b = p.pack()
    encs = [_spec1("spec.ch11.milMessage", ipts_canon(kind, m["ipts"]), str(m["bs"]), str(m["gap"]), "x" + m["data"]) for m in ms]
    exp = _spec1("spec.ch11.milPacket", str(ttb), L(["x" + e.hex() for e in encs]))
    if b != exp:
        return _fail("MILSTD1553DataPacket.pack emits %s but the layout is %s" % (b.hex(), exp.hex()), check="layout")
    q = mil.MILSTD1553DataPacket(src)
    try:
        q.unpack(b)
    except Exception as e:
        return _fail("MILSTD1553DataPacket.unpack rejects a packet assembled through append(): %r" % (e,), check="append")
    got = [{"ipts": _ipts_vals(m.ipts), "bs": m.blockstatus, "gap": m.gaptimes, "data": bytes(m.message).hex()} for m in q.messages]
    if got != ms:
        if ms and ms[-1]["data"] == "" and got == ms[:-1]:
            return _fail("1553 packet: a LAST message that carries no data bytes is dropped by the decoder (%d messages in, %d out)" % (
                len(ms), len(got)), check="roundtrip", field="messages", trailing_empty=True)
        return _fail("1553 packet round trip: messages %r decoded as %r" % (ms, got), check="roundtrip", field="messages")
    if q.msgcount != len(ms) or q.ttb != ttb:
        return _fail("1553 packet round trip changes msgcount/ttb: (%d,%d) -> (%d,%d)" % (len(ms), ttb, q.msgcount, q.ttb), check="roundtrip", field="csw")
    if [m.length for m in q.messages] != [len(m["data"]) // 2 for m in ms]:
        return _fail("1553 packet round trip: decoded length fields differ from the data sizes", check="roundtrip", field="length")
    if q != p:
        return _fail("1553: the decoded packet does not compare equal to the packet that was encoded", check="roundtrip", field="eq")
    if q.pack() != b:
        return _fail("1553 packet: re-encoding the decoded packet gives different bytes", check="roundtrip", field="bytes")
    return None

def _mk_arinc_word(w):
    o = arinc.ARINC429DataWord()
    o.gaptime, o.format_error, o.parity_error, o.bus_speed, o.bus, o.payload = w["gap"], w["fe"], w["pe"], w["speed"], w["bus"], bytes.fromhex(w["data"])
    return o

def check_arinc_packet(args):
    """ARINC-429 packet assembled through append(): count word, bit packing of each header, accepted by the decoder"""
    ws = args["words"]
    p = arinc.ARINC429DataPacket()
    for w in ws:
        p.append(_mk_arinc_word(w))
    b = p.pack()
    encs = [_spec1("spec.ch11.arincWord", str(w["bus"]), B(w["fe"]), B(w["pe"]), str(w["speed"]), str(w["gap"]), "x" + w["data"]) for w in ws]
    exp = _spec1("spec.ch11.arincPacket", L(["x" + e.hex() for e in encs]))
    if b != exp:
        return _fail("ARINC429DataPacket.pack emits %s but the layout is %s" % (b.hex(), exp.hex()), check="layout")
    q = arinc.ARINC429DataPacket()
    try:
        q.unpack(b)
    except Exception as e:
        return _fail("ARINC429DataPacket.unpack rejects a packet assembled through append(): %r" % (e,), check="append")
    got = [{"gap": w.gaptime, "fe": w.format_error, "pe": w.parity_error, "speed": w.bus_speed, "bus": w.bus, "data": bytes(w.payload).hex()} for w in q.arincwords]
    if got != ws or q.msgcount != len(ws):
        return _fail("ARINC-429 round trip: words %r decoded as %r (count %d)" % (ws, got, q.msgcount), check="roundtrip", field="arincwords")
    if q.pack() != b:
        return _fail("ARINC-429: re-encoding the decoded packet gives different bytes", check="roundtrip", field="bytes")
    return None

def _mk_pcm_frame(kind, align, f):
    o = pcm.PCMMinorFrame(ch11.TS_CH4 if kind == "rtc" else ch11.TS_IEEE1558, False, align)
    o.ipts = ipts_obj(kind, f["ipts"])
    o.intra_packet_data_header, o.minor_frame_data = f["hdr"], bytes.fromhex(f["data"])
    return o

def check_pcm_packed(args):
    """PCM packed/unpacked mode with a given minor-frame size: layout (fill byte after odd frames), same frames back"""
    kind, align, size, csw, fs = args["kind"], args["align"], args["size"], args["csw"], args["frames"]
    src = ch11.TS_CH4 if kind == "rtc" else ch11.TS_IEEE1558
    p = pcm.PCMDataPacket(src, None, size)
    p.channel_specific_word = csw
    for f in fs:
        p.append(_mk_pcm_frame(kind, align, f))
    b = p.pack()
    encs = [_spec1("spec.ch11.pcmFrame", ipts_canon(kind, f["ipts"]), B(align == 1), str(f["hdr"]), "x" + f["data"]) for f in fs]
    exp = _spec1("spec.ch11.pcmPacket", str(csw), L(["x" + e.hex() for e in encs]))
    if b != exp:
        return _fail("PCMDataPacket.pack emits %s but the layout is %s" % (b.hex(), exp.hex()), check="layout")
    q = pcm.PCMDataPacket(src, None, size)
    try:
        q.unpack(b)
    except Exception as e:
        return _fail("PCMDataPacket.unpack rejects a packet assembled through append(): %r" % (e,), check="append")
    got = [{"ipts": _ipts_vals(f.ipts), "hdr": f.intra_packet_data_header, "data": bytes(f.minor_frame_data).hex()} for f in q.minor_frames]
    if got != fs or q.channel_specific_word != csw:
        return _fail("PCM round trip: frames %r decoded as %r" % (fs, got), check="roundtrip", field="minor_frames")
    if q != p:
        return _fail("PCM: the decoded packet does not compare equal to the packet that was encoded", check="roundtrip", field="eq")
    if q.pack() != b:
        return _fail("PCM: re-encoding the decoded packet gives different bytes", check="roundtrip", field="bytes")
    return None

def check_pcm_throughput(args):
    """PCM throughput mode: CSW then the raw data; decoded as one frame holding exactly the data"""
    csw, data = args["csw"], bytes.fromhex(args["data"])
    p = pcm.PCMDataPacket()
    p.channel_specific_word = csw
    f = pcm.PCMMinorFrame(throughput=True, alignment=(csw >> 21) & 1)
    f.minor_frame_data = data
    p.append(f)
    b = p.pack()
    exp = _spec1("spec.ch11.pcmPacket", str(csw), L([hexb(data)]))
    if b != exp:
        return _fail("PCMDataPacket.pack (throughput) emits %s but the layout is %s" % (b.hex(), exp.hex()), check="layout")
    q = pcm.PCMDataPacket()
    q.unpack(b)
    if len(q.minor_frames) != 1 or bytes(q.minor_frames[0].minor_frame_data) != data or not q.minor_frames[0].throughput:
        return _fail("PCM throughput round trip changes the data", check="roundtrip", field="minor_frames")
    if q != p or q.pack() != b:
        return _fail("PCM throughput: decoded packet differs from the encoded one", check="roundtrip", field="eq")
    return None

def check_pcm_detect(args):
    """PCM packed mode without a size hint or sync word: a single minor frame of even total size is recovered"""
    kind, align, csw, f = args["kind"], args["align"], args["csw"], args["frame"]
    src = ch11.TS_CH4 if kind == "rtc" else ch11.TS_IEEE1558
    p = pcm.PCMDataPacket(src)
    p.channel_specific_word = csw
    p.append(_mk_pcm_frame(kind, align, f))
    b = p.pack()
    q = pcm.PCMDataPacket(src)
    q.unpack(b)
    got = [{"ipts": _ipts_vals(x.ipts), "hdr": x.intra_packet_data_header, "data": bytes(x.minor_frame_data).hex()} for x in q.minor_frames]
    if got != [f]:
        return _fail("PCM decode without size hint: frame %r decoded as %r" % (f, got), check="roundtrip", field="minor_frames")
    if q.minor_frame_size_bytes != len(f["data"]) // 2:
        return _fail("PCM decode without size hint: derived size %r for %d data bytes" % (q.minor_frame_size_bytes, len(f["data"]) // 2),
                     check="roundtrip", field="minor_frame_size_bytes")
    return None

def check_pcm_sync_fields(args):
    """a minor frame whose `syncword` / `sfid` attributes are set: what pack() writes is what
    unpack(extract_sync_sfid=True) reads, and the decoded frame re-encodes to the same bytes"""
    kind, align, f, sw, sfid = args["kind"], args["align"], args["frame"], args["syncword"], args["sfid"]
    o = _mk_pcm_frame(kind, align, f)
    o.syncword, o.sfid = sw, sfid
    b = o.pack()
    q = pcm.PCMMinorFrame(ch11.TS_CH4 if kind == "rtc" else ch11.TS_IEEE1558, False, align)
    q.unpack(b, extract_sync_sfid=True)
    if (q.syncword, q.sfid) != (sw, sfid):
        return _fail("PCMMinorFrame: packed with syncword=%#x sfid=%d, unpack(extract_sync_sfid=True) reads syncword=%#x sfid=%d" % (
            sw, sfid, q.syncword, q.sfid), check="roundtrip", field="syncword")
    if q.pack() != b:
        return _fail("PCMMinorFrame: re-encoding a frame decoded with extract_sync_sfid=True gives %d bytes instead of %d" % (len(q.pack()), len(b)),
                     check="roundtrip", field="syncword")
    return None

def _civil(s):
    t = _time.gmtime(s)
    return t.tm_year, t.tm_mon, t.tm_mday, t.tm_hour, t.tm_min, t.tm_sec, t.tm_yday

def check_tdf1(args):
    """time format 1: BCD layout of the civil time (independent calendar: time.gmtime); round trip to 10 ms
    (day-of-year variant: relative to the start of the year, the format carries no year)"""
    csd, s, ns = args["csd"], args["seconds"], args["nanoseconds"]
    t = tdf.TimeDataFormat1()
    t.channel_specific_data = csd
    t.ptptime = ch11.PTPTime(s, ns)
    b = t.pack()
    y, mo, d, h, mi, sec, yday = _civil(s)
    dmy = (csd >> 9) & 1 == 1
    if dmy:
        exp = _spec1("spec.ch11.time1DMY", *[str(x) for x in (csd, ns // 10 ** 7, sec, mi, h, d, mo, y)])
    else:
        exp = _spec1("spec.ch11.time1DOY", *[str(x) for x in (csd, ns // 10 ** 7, sec, mi, h, yday)])
    if b != exp:
        return _fail("TimeDataFormat1.pack emits %s but the layout is %s" % (b.hex(), exp.hex()), check="layout", variant="dmy" if dmy else "doy")
    q = tdf.TimeDataFormat1()
    try:
        q.unpack(b)
    except Exception as e:
        return _fail("TimeDataFormat1.unpack rejects what pack produced for %d s: %r" % (s, e), check="roundtrip", variant="dmy" if dmy else "doy")
    want_s = s if dmy else s - _calendar.timegm((y, 1, 1, 0, 0, 0))
    want = (csd, want_s, ns - ns % 10 ** 7)
    got = (q.channel_specific_data, q.ptptime.seconds, q.ptptime.nanoseconds)
    if got != want:
        return _fail("time format 1 round trip: %r -> %r (expected %r)" % ((csd, s, ns), got, want), check="roundtrip", variant="dmy" if dmy else "doy")
    return None

def check_tdf2(args):
    """time format 2: layout; PTP codes exact; NTP fraction back to within 1 ns (never above)"""
    csd, s, ns = args["csd"], args["seconds"], args["nanoseconds"]
    t = tdf.TimeDataFormat2()
    t.channel_specific_data = csd
    t.ptptime = ch11.PTPTime(s, ns)
    b = t.pack()
    ptp = (csd >> 4) & 0xF != 0
    frac = ns if ptp else (ns * 2 ** 32) // 10 ** 9
    got_frac = int.from_bytes(b[8:12], "little")
    exp = _spec1("spec.ch11.time2", str(csd), str(s), str(got_frac))
    if b != exp:
        return _fail("TimeDataFormat2.pack emits %s but the layout is %s" % (b.hex(), exp.hex()), check="layout")
    if abs(got_frac - frac) > (0 if ptp else 1):
        return _fail("time format 2 fraction field is %d, expected %d for %d ns" % (got_frac, frac, ns), check="layout", field="fraction")
    q = tdf.TimeDataFormat2()
    q.unpack(b)
    if q.channel_specific_data != csd or q.ptptime.seconds != s:
        return _fail("time format 2 round trip changes csd/seconds", check="roundtrip", field="seconds")
    back = q.ptptime.nanoseconds
    if ptp and back != ns:
        return _fail("time format 2 (PTP code %d) round trip: %d ns -> %d ns" % ((csd >> 4) & 0xF, ns, back), check="roundtrip", field="nanoseconds", code=(csd >> 4) & 0xF)
    if not ptp and not (ns - 1 <= back <= ns):
        return _fail("time format 2 (NTP) round trip: %d ns -> %d ns, more than 1 ns off" % (ns, back), check="roundtrip", field="nanoseconds", code=0)
    return None

def check_csw_data(args):
    """analog / computer-generated formats 0 and 1: CSW then data; round trip"""
    cls, data = args["cls"], bytes.fromhex(args["data"])
    if cls == "Analog":
        o, q = analog.Analog(), analog.Analog()
        o.channel_specific_word, o.data = args["csw"], data
        exp = _spec1("spec.ch11.cswData", str(args["csw"]), hexb(data))
    elif cls == "ComputerGeneratedFormat0":
        o, q = cgd.ComputerGeneratedFormat0(), cgd.ComputerGeneratedFormat0()
        o._csdw, o.payload = args["csw"], data
        exp = _spec1("spec.ch11.cswData", str(args["csw"]), hexb(data))
    else:
        o, q = cgd.ComputerGeneratedFormat1(), cgd.ComputerGeneratedFormat1()
        o.frmt, o.srcc, o.rccver, o.payload = args["frmt"], args["srcc"], cgd.RCCVER(args["rccver"]), data
        exp = _spec1("spec.ch11.setupRecord", str(args["frmt"]), str(args["srcc"]), str(args["rccver"]), hexb(data))
    b = o.pack()
    if b != exp:
        return _fail("%s.pack emits %s but the layout is %s" % (cls, b.hex(), exp.hex()), check="layout")
    q.unpack(b)
    if cls == "Analog":
        ok = q.channel_specific_word == args["csw"] and q.data == data and q == o
    elif cls == "ComputerGeneratedFormat0":
        ok = q._csdw == args["csw"] and q.payload == data
    else:
        ok = (q.frmt, q.srcc, int(q.rccver), q.payload) == (args["frmt"], args["srcc"], args["rccver"], data)
    if not ok:
        return _fail("%s round trip changes a field" % cls, check="roundtrip")
    if q.pack() != b:
        return _fail("%s: re-encoding the decoded object gives different bytes" % cls, check="roundtrip", field="bytes")
    return None

def check_video(args):
    """video format 2: CSW then N whole transport-stream packets, in order"""
    csw, chunks = args["csw"], [bytes.fromhex(c) for c in args["chunks"]]
    v = video.VideoFormat2()
    v.channel_specific_word = csw
    for c in chunks:
        p = mpegts.MPEGPacket()
        p.unpack(c)
        v.mpegts.append(p)
    b = v.pack()
    exp = _spec1("spec.ch11.video2", str(csw), L([hexb(c) for c in chunks]))
    if b != exp:
        return _fail("VideoFormat2.pack emits %d bytes that differ from CSW + the %d TS packets" % (len(b), len(chunks)), check="layout")
    q = video.VideoFormat2()
    q.unpack(b)
    if q.channel_specific_word != csw or int(q.datastream) != (csw >> 12) & 1:
        return _fail("video format 2 round trip changes the channel-specific word / data stream bit", check="roundtrip", field="csw")
    if len(q.mpegts) != len(chunks) or [x.pack() for x in q.mpegts.blocks] != chunks:
        return _fail("video format 2 round trip: %d packets in, %d out or order/content changed" % (len(chunks), len(q.mpegts)), check="roundtrip", field="mpegts")
    if q != v:
        return _fail("video format 2: decoded object does not compare equal to the encoded one", check="roundtrip", field="eq")
    return None

_CHECKS = {"uart_word": check_uart_word, "uart_packet": check_uart_packet, "mil_packet": check_mil_packet,
           "arinc_packet": check_arinc_packet, "pcm_packed": check_pcm_packed, "pcm_throughput": check_pcm_throughput,
           "pcm_detect": check_pcm_detect, "pcm_sync_fields": check_pcm_sync_fields,
           "tdf1": check_tdf1, "tdf2": check_tdf2, "csw_data": check_csw_data, "video": check_video}
_CLASS_OF = {"uart_word": "UARTDataWord", "uart_packet": "UARTDataPacket", "mil_packet": "MILSTD1553DataPacket",
             "arinc_packet": "ARINC429DataPacket", "pcm_packed": "PCMDataPacket", "pcm_throughput": "PCMDataPacket",
             "pcm_detect": "PCMDataPacket", "pcm_sync_fields": "PCMMinorFrame",
             "tdf1": "TimeDataFormat1", "tdf2": "TimeDataFormat2", "video": "VideoFormat2"}

def _guard(fn):
    def run(args):
        try:
            return fn(args)
        except Exception as e:
            return _fail("%s raised %r on a well-formed object" % (fn.__name__, e), check="exception")
    return run

ORACLES = {}
for _n, _f in _CHECKS.items():
    ORACLES["ch11_" + _n] = (lambda f: lambda args: (lambda r: r[0] if r else None)(_guard(f)(args)))(_f)

def _uart_word_json(rng, kind, lens, sub_bits=14):
    return {"ipts": ipts_json(rng, kind), "pe": rng.random() < 0.5, "sub": rng.boundary(sub_bits), "data": rng.bytes_(rng.choice(lens)).hex()}

def _c04_cases(ctx):
    """(check name, args) — the quantifier of C04 sampled: message counts 1..12, odd/even data lengths, every status
    bit, sub-channel and bus over their widths, both time-stamp kinds at boundaries, three network time codes,
    calendar days x times of day"""
    rng = ctx.rng
    m = ctx.scale(3, 25) * (3 if getattr(ctx, "search_mode", False) else 1)
    cases = []
    for kind in ("rtc", "ptp", "none"):
        for en in (0, 1):
            for sub in (0, 1, 0x1FFF, 0x2000, 0x3FFF):
                for pe in (False, True):
                    w = _uart_word_json(rng, kind, [3]); w["sub"], w["pe"] = sub, pe
                    cases.append(("uart_word", {"kind": kind, "endian": en, "word": w, "tail": rng.bytes_(rng.randrange(3)).hex()}))
            for ln in list(range(0, 10)) + [33, 34, 255, 256]:
                cases.append(("uart_word", {"kind": kind, "endian": en, "word": _uart_word_json(rng, kind, [ln], 13), "tail": ""}))
            for cnt in list(range(1, 13)) * m:
                lens = [1, 2, 3, 4, 5, 8, 33] if kind == "none" else [0, 1, 2, 3, 4, 5, 8, 33]
                ws = [_uart_word_json(rng, kind, lens, 13) for _ in range(cnt)]
                if kind != "none" and rng.random() < 0.5:
                    ws[-1]["data"] = ""          # with time stamps an empty last word is decodable
                cases.append(("uart_packet", {"kind": kind, "endian": en, "words": ws}))
            if kind == "none":                     # known finding K7: a last word without data (and without time stamp) is dropped
                ws = [_uart_word_json(rng, kind, [2, 3], 13) for _ in range(rng.randrange(0, 3))] + [_uart_word_json(rng, kind, [0], 13)]
                cases.append(("uart_packet", {"kind": kind, "endian": en, "words": ws}))
                ws = [_uart_word_json(rng, kind, [0, 1], 13), _uart_word_json(rng, kind, [0, 3], 13), _uart_word_json(rng, kind, [2], 13)]
                cases.append(("uart_packet", {"kind": kind, "endian": en, "words": ws}))     # empty words that are NOT last survive
    for kind in ("rtc", "ptp"):
        ms = [{"ipts": ipts_json(rng, kind), "bs": rng.boundary(16), "gap": rng.boundary(16), "data": d} for d in (rng.bytes_(4).hex(), "")]
        cases.append(("mil_packet", {"kind": kind, "ttb": 1, "msgs": ms}))                   # K7: a last message without data
        # the 16-bit length field at its limit: the largest messages the format can carry, followed by a small one
        for big in (65520, 65521, 65522, 65534, 65535):
            ms = [{"ipts": ipts_json(rng, kind), "bs": rng.boundary(16), "gap": rng.boundary(16), "data": rng._raw(big).hex()},
                  {"ipts": ipts_json(rng, kind), "bs": 1, "gap": 2, "data": rng._raw(6).hex()}]
            cases.append(("mil_packet", {"kind": kind, "ttb": 2, "msgs": ms}))
        for cnt in list(range(1, 13)) * m:
            ms = [{"ipts": ipts_json(rng, kind), "bs": rng.boundary(16), "gap": rng.boundary(16),
                   "data": rng.bytes_(rng.choice([0, 1, 2, 3, 8, 64] if i < cnt - 1 else [1, 2, 3, 8, 64])).hex()} for i in range(cnt)]
            cases.append(("mil_packet", {"kind": kind, "ttb": (cnt + len(cases)) % 4, "msgs": ms}))
    for cnt in list(range(0, 13)) * m:
        ws = [{"gap": rng.boundary(20), "fe": rng.random() < 0.5, "pe": rng.random() < 0.5, "speed": rng.randrange(2),
               "bus": rng.boundary(8), "data": rng.bytes_(4).hex()} for _ in range(cnt)]
        cases.append(("arinc_packet", {"words": ws}))
    for fe in (False, True):
        for pe in (False, True):
            for sp in (0, 1):
                for bus in (0, 1, 0x80, 0xFF):
                    for gap in (0, 1, 0xFFFFF, 0x80000):
                        cases.append(("arinc_packet", {"words": [{"gap": gap, "fe": fe, "pe": pe, "speed": sp, "bus": bus, "data": "01020304"}]}))
    for kind in ("rtc", "ptp"):
        for align in (0, 1):
            for size in list(range(0, 9)) + [64]:
                for cnt in (1, 2, 5):
                    fs = [{"ipts": ipts_json(rng, kind), "hdr": rng.boundary(32 if align else 16), "data": rng.bytes_(size).hex()} for _ in range(cnt)]
                    cases.append(("pcm_packed", {"kind": kind, "align": align, "size": size, "csw": pcm_csw(rng, 0, align), "frames": fs}))
    for bit in list(range(0, 20)) + list(range(21, 32)):       # every (non-reserved) bit of the ARINC header on its own
        f = _arinc_bit_fields(bit)
        cases.append(("arinc_packet", {"words": [{"gap": int(f["gaptime"]), "fe": f["format_error"] == "True", "pe": f["parity_error"] == "True",
                                                  "speed": int(f["bus_speed"]), "bus": int(f["bus"]), "data": "01020304"}]}))
    for kind in ("rtc", "ptp"):
        for align in (0, 1):
            for size in (0, 2, 4, 10):
                fr = {"ipts": ipts_json(rng, kind), "hdr": rng.boundary(32 if align else 16), "data": rng.bytes_(size).hex()}
                cases.append(("pcm_detect", {"kind": kind, "align": align, "csw": pcm_csw(rng, 0, align), "frame": fr}))
            fr = {"ipts": ipts_json(rng, kind), "hdr": 1, "data": rng.bytes_(4).hex()}
            cases.append(("pcm_sync_fields", {"kind": kind, "align": align, "frame": fr, "syncword": SYNC, "sfid": 1}))
    for n in (0, 2, 4, 6, 100):
        for align in (0, 1):
            cases.append(("pcm_throughput", {"csw": pcm_csw(rng, 1, align), "data": rng.bytes_(n).hex()}))
    for s_ in TDF1_EDGES:
        for csd in (DMY_CSD, DOY_CSD):
            cases.append(("tdf1", {"csd": csd, "seconds": s_, "nanoseconds": rng.choice([0, 999999999])}))
    for k in range(100):                              # the hundredths byte for every k, at and around k*10^7
        for ns in (k * 10 ** 7, k * 10 ** 7 + 1, (k + 1) * 10 ** 7 - 1):
            cases.append(("tdf1", {"csd": rng.choice([DMY_CSD, DOY_CSD]), "seconds": rng.choice(TDF1_EDGES), "nanoseconds": ns}))
    days = [0, 58, 59, 60, 364, 365, 789, 790, 11016, 11017, 19782, 47481] + [rng.randrange(47482) for _ in range(ctx.scale(400, 47482))]
    if ctx.tier == "thorough":
        days = list(range(47482))
    for d in days:
        tod = rng.choice([0, 86399, 43200, rng.randrange(86400)])
        ns = rng.choice([0, 9999999, 10000000, 999999999, rng.randrange(10 ** 9)])
        for csd in (DMY_CSD, DOY_CSD, rng.getrandbits(32)):
            cases.append(("tdf1", {"csd": csd, "seconds": d * 86400 + tod, "nanoseconds": ns}))
    nss = [0, 1, 2, 3, 4, 5, 499999999, 500000000, 999999990, 999999997, 999999998, 999999999]
    nss += [k * 10 ** 8 + e for k in range(1, 10) for e in (-1, 0, 1)] + [rng.randrange(10 ** 9) for _ in range(ctx.scale(600, 20000))]
    for code in (0, 1, 2):
        for sec in (0, 2 ** 31, 2 ** 32 - 1):
            for ns in (0, 1, 999999999, rng.randrange(10 ** 9)):
                cases.append(("tdf2", {"csd": (code << 4) | 1, "seconds": sec, "nanoseconds": ns}))
    for ns in nss:
        for code in (0, 1, 2):
            cases.append(("tdf2", {"csd": (code << 4) | rng.choice([0, 1]) | (rng.getrandbits(24) << 8), "seconds": rng.boundary(32), "nanoseconds": ns}))
    for _ in range(ctx.scale(12, 300)):
        d = rng.bytes_(rng.choice([0, 1, 2, 7, 64])).hex()
        cases.append(("csw_data", {"cls": "Analog", "csw": rng.boundary(32), "data": d}))
        cases.append(("csw_data", {"cls": "ComputerGeneratedFormat0", "csw": rng.boundary(32), "data": d}))
    for frmt in (0, 1):
        for srcc in (0, 1):
            for rv in range(7, 15):
                cases.append(("csw_data", {"cls": "ComputerGeneratedFormat1", "frmt": frmt, "srcc": srcc, "rccver": rv, "data": rng.bytes_(5).hex()}))
    for cnt in list(range(0, 6)) * m:
        cases.append(("video", {"csw": rng.getrandbits(32) & ~(1 << 19), "chunks": [ts_chunk(rng).hex() for _ in range(cnt)]}))
        cases.append(("video", {"csw": rng.getrandbits(32) & ~(1 << 19),               # packets with adaptation fields
                                "chunks": [(ts_packet(rng) if k else ts_packet(rng, rng.choice([2, 3]))).hex() for k in range(cnt)]}))
    return cases

def oracles_C04(ctx, hints):
    return _oracles_C04_main(ctx, hints) + oracles_C04_pcm_sync(ctx)

def _oracles_C04_main(ctx, hints):
    fails, seen, n = [], set(), 0
    cases = _c04_cases(ctx)
    _prefetch_specs(cases)
    for name, args in cases:
        n += 1
        r = _guard(_CHECKS[name])(args)
        if r:
            what, tags = r
            t = {"class": args.get("cls") or _CLASS_OF[name]}
            t.update(tags)
            key = tuple(sorted(t.items()))
            if key not in seen:
                seen.add(key)
                fails.append(Failure("ch11_" + name, args, what, t))
    ctx.count("oracle_evaluations", n)
    return fails

# =========================================================================================== C13: attributes unpack() leaves alone
def _mf_history_cases(ctx):
    rng = ctx.rng
    out = []
    for kind in ("rtc", "ptp"):
        for al in (0, 1):
            opts = (KIND_SRC[kind], "False", str(al))
            b1 = rng.bytes_(8 + (4 if al else 2) + 6 + rng.randrange(0, 5))
            b2 = rng.bytes_(8 + (4 if al else 2) + rng.randrange(0, 9))
            out.append((opts, ["unpack %s True" % hexb(b1)], "unpack %s False" % hexb(b2)))
            out.append((opts, ["set syncword %d" % rng.getrandbits(32)], "unpack %s" % hexb(b2)))
            out.append((opts, ["set sfid %d" % rng.getrandbits(16)], "unpack %s" % hexb(b2)))
            out.append((opts, ["unpack %s False" % hexb(b1)], "unpack %s True" % hexb(b1)))
    for al in (0, 1):
        out.append((("0", "True", str(al)), ["set intra_packet_data_header 7"], "unpack " + hexb(rng.bytes_(6))))
    return out

def corr_C13(ctx):
    lines = []
    for opts, ops, final in _mf_history_cases(ctx):
        lines.append(gen.H("PCMMinorFrame", ops + [final, "obs", "pack", "obs"], opts))
        lines.append(gen.H("PCMMinorFrame", [final, "obs", "pack", "obs"], opts))
    return lines

def check_mf_history(args):
    """PCMMinorFrame: after any history, unpack(buf) leaves the object as it leaves a new one"""
    a = ADAPTERS["PCMMinorFrame"]
    from ..core import run_ops_impl, pyval, parse_val
    po = [pyval(parse_val(x)) for x in args["opts"]]
    tail = [args["final"], "obs", "pack"]
    _, _, out1 = run_ops_impl(a, po, list(args["ops"]) + tail)
    _, _, out2 = run_ops_impl(a, po, tail)
    t1 = out1[len(args["ops"]):]
    if t1 != out2:
        return "PCMMinorFrame: after %s, %s leaves %s but a new object is left as %s" % (args["ops"], args["final"], t1[1:], out2[1:])
    return None

ORACLES["ch11_mf_history"] = check_mf_history

def oracles_C13(ctx, hints):
    fails, n, seen = [], 0, set()
    for opts, ops, final in _mf_history_cases(ctx):
        n += 1
        args = {"opts": list(opts), "ops": ops, "final": final}
        w = check_mf_history(args)
        if w:
            fld = "intra_packet_data_header" if opts[1] == "True" else "syncword"
            if fld not in seen:
                seen.add(fld)
                fails.append(Failure("ch11_mf_history", args, w, {"class": "PCMMinorFrame", "check": "history", "field": fld}))
    ctx.count("oracle_evaluations", n)
    return fails

# =========================================================================================== C09: ARINC-429 word count
def _arinc_mutants(rng, b):
    out = [b]
    real = int.from_bytes(b[0:2], "little")
    for v in (0, real - 1, real + 1, real + 2, 0xFFFF, real ^ 0x100):
        if 0 <= v <= 0xFFFF:
            out.append(v.to_bytes(2, "little") + b[2:])
    for d in range(1, 10):
        out.append(b + rng.bytes_(d))
        if len(b) - d >= 0:
            out.append(b[:len(b) - d])
    out.append(b[:2] + b"\xff\xff" + b[4:])
    return out

def _arinc_valid(ctx):
    rng = ctx.rng
    out = []
    for cnt in list(range(0, 9)) * ctx.scale(1, 10):
        a = run_line_impl(gen.H("ARINC429DataPacket", gen.sets({"arincwords": L([arinc_word_text(rng) for _ in range(cnt)])}) + ["pack"])).split("|")[-1]
        out.append(bytes.fromhex(a[4:]))
    return out

def corr_C09_video(ctx):
    return [gen.H("VideoFormat2", ["unpack " + hexb(b), "obs"]) for b in _video_accept_cases(ctx)]

def corr_C09(ctx):
    lines = []
    for b in _arinc_valid(ctx):
        for m in _arinc_mutants(ctx.rng, b):
            lines.append(gen.H("ARINC429DataPacket", ["unpack " + hexb(m), "obs"]))
    return lines + corr_C09_video(ctx)

def check_arinc_accept(args):
    """ARINC-429: a buffer is accepted exactly when it holds the 4-byte CSW and the declared word count equals
    the number of whole 8-byte words that follow; every returned word is exactly its 8 bytes"""
    b = bytes.fromhex(args["buf"])
    p = arinc.ARINC429DataPacket()
    try:
        p.unpack(b)
        ok = True
    except Exception:
        ok = False
    should = len(b) >= 4 and int.from_bytes(b[0:2], "little") == (len(b) - 4) // 8
    if ok != should:
        return "ARINC429DataPacket.unpack %s a %d-byte buffer declaring %s words" % (
            "accepted" if ok else "rejected", len(b), int.from_bytes(b[0:2], "little") if len(b) >= 2 else None)
    if ok:
        for i, w in enumerate(p.arincwords):
            if bytes(w.payload) != b[8 + 8 * i: 12 + 8 * i]:
                return "ARINC429DataPacket.unpack returned word %d with data that is not bytes %d..%d" % (i, 8 + 8 * i, 12 + 8 * i)
        if len(p.arincwords) != p.msgcount:
            return "ARINC429DataPacket.unpack returned %d words for a declared count of %d" % (len(p.arincwords), p.msgcount)
    return None

ORACLES["ch11_arinc_accept"] = check_arinc_accept

def check_video_accept(args):
    """video format 2 hands `buffer[4:]` to the transport-stream decoder: the MPEG-TS checks (sync byte, whole 188-byte
    packets, a chunk long enough for its header) are enforced THROUGH the container exactly as by `MPEGTS.unpack` itself —
    a body that MPEGTS refuses is refused, never accepted with the tail dropped; an accepted body gives the same packets"""
    b = bytes.fromhex(args["buf"])
    body = b[4:]
    t = mpegts.MPEGTS()
    st_t = guarded(lambda: t.unpack(body))
    v = video.VideoFormat2()
    st_v = guarded(lambda: v.unpack(b))
    if (st_t[0] == "ok") != (st_v[0] == "ok"):
        return "VideoFormat2.unpack %s a %d-byte body (%d whole packets + %d bytes) that MPEGTS.unpack %s" % (
            "accepts" if st_v[0] == "ok" else "rejects", len(body), len(body) // 188, len(body) % 188,
            "rejects (%s)" % st_t[1] if st_t[0] != "ok" else "accepts")
    if st_v[0] == "ok" and [x.pack() for x in v.mpegts.blocks] != [x.pack() for x in t.blocks]:
        return "VideoFormat2.unpack returns other transport packets than MPEGTS.unpack for the same %d-byte body" % len(body)
    return None

ORACLES["ch11_video_accept"] = check_video_accept

def _video_accept_cases(ctx):
    rng = ctx.rng
    out = []
    for k in (0, 1, 2, 3):
        pk = [ts_packet(rng) if rng.random() < 0.7 else ts_chunk(rng) for _ in range(k)]
        body = b"".join(pk)
        csw = (rng.getrandbits(32) & ~(1 << 19)).to_bytes(4, "little")
        out.append(csw + body)
        for tail in (1, 2, 3, 4, 5, 100, 187):
            out.append(csw + body + rng._raw(tail))                        # trailing bytes that are no packet
            out.append(csw + body + ts_packet(rng)[:tail])                 # a transport packet cut short
        if k:
            bad = bytearray(body); bad[188 * (k - 1)] = rng.choice([0x46, 0x00, 0xFF, 0x48])
            out.append(csw + bytes(bad))                                   # last packet without the sync byte
            out.append(csw + body[:-1])                                    # last packet one byte short
    return out

def oracles_C09(ctx, hints):
    fails, n = [], 0
    for b in _video_accept_cases(ctx):
        n += 1
        args = {"buf": b.hex()}
        w = check_video_accept(args)
        if w:
            fails.append(Failure("ch11_video_accept", args, w, {"class": "VideoFormat2", "check": "accept_exact"}))
            break
    for b in _arinc_valid(ctx):
        for m in _arinc_mutants(ctx.rng, b):
            n += 1
            args = {"buf": m.hex()}
            w = check_arinc_accept(args)
            if w:
                fails.append(Failure("ch11_arinc_accept", args, w, {"class": "ARINC429DataPacket", "check": "accept_exact"}))
                ctx.count("oracle_evaluations", n)
                return fails
    ctx.count("oracle_evaluations", n)
    return fails

# =========================================================================================== C15: BCD helpers
def _tdf2_time_cases(ctx):
    """PTP time stamps carried by time data format 2, every time-format code 0..15 (0 = NTP fraction, the others
    carry the nanoseconds as they are), boundary seconds and nanoseconds"""
    rng = ctx.rng
    out = []
    for code in range(16):
        for sec in (0, 1, 2 ** 31, 2 ** 32 - 1, rng.boundary(32)):
            for ns in (0, 1, 2, 499999999, 999999998, 999999999, rng.randrange(10 ** 9)):
                out.append({"csd": (code << 4) | rng.choice([0, 1, 0xF]) | (rng.getrandbits(24) << 8), "seconds": sec, "nanoseconds": ns})
    return out

def corr_C15(ctx):
    lines = [gen.F("ch11.double_digits_to_bcd", str(v)) for v in range(0, 130)]
    lines += [gen.F("ch11.bcd_to_int", str(v)) for v in list(range(0, 256)) + [0x1970, 0x2099, 0x9999, 0xFFFF, -1]]
    for c in _tdf2_time_cases(ctx)[:: 1 if ctx.tier == "thorough" else 3]:
        f = {"channel_specific_data": str(c["csd"]), "seconds": str(c["seconds"]), "nanoseconds": str(c["nanoseconds"])}
        lines.append(gen.H("TimeDataFormat2", gen.sets(f) + ["pack", "obs"]))
    return lines

def check_bcd(args):
    v = args["v"]
    b = tdf.double_digits_to_bcd(v)
    if b != ((v // 10) << 4 | (v % 10)):
        return "double_digits_to_bcd(%d) = %#x, not the two BCD digits" % (v, b)
    if tdf.bcd_to_int(b) != v:
        return "bcd_to_int(double_digits_to_bcd(%d)) = %d" % (v, tdf.bcd_to_int(b))
    return None

ORACLES["ch11_bcd"] = check_bcd

def oracles_C15(ctx, hints):
    fails = []
    for v in range(100):
        w = check_bcd({"v": v})
        if w:
            fails.append(Failure("ch11_bcd", {"v": v}, w, {"class": "TimeDataFormat", "check": "bcd_inverse"}))
            break
    cases = [("tdf2", c) for c in _tdf2_time_cases(ctx)]
    _prefetch_specs(cases)
    for name, args in cases:                                  # PTP time stamps survive pack/unpack in format 2
        r = _guard(check_tdf2)(args)
        if r:
            what, tags = r
            t = {"class": "TimeDataFormat2"}
            t.update(tags)
            fails.append(Failure("ch11_tdf2", args, what, t))
            break
    ctx.count("oracle_evaluations", 100 + len(cases))
    return fails

# =========================================================================================== C17: PCM size from two sync words
def _pcm_sync_packet(rng, kind, align, size, cnt, sync=SYNC):
    src = ch11.TS_CH4 if kind == "rtc" else ch11.TS_IEEE1558
    p = pcm.PCMDataPacket(src, None, size)
    p.channel_specific_word = pcm_csw(rng, 0, align) & 0x00FFFFFF
    frames = []
    for _ in range(cnt):
        body = rng.bytes_(size - 4)
        body = body.replace(sync.to_bytes(4, "big")[:1], b"\x00")          # the sync word occurs only at frame starts
        f = {"ipts": [v & 0x00FFFFFF for v in ipts_json(rng, kind)], "hdr": rng.getrandbits(8), "data": (sync.to_bytes(4, "big") + body).hex()}
        frames.append(f)
        p.append(_mk_pcm_frame(kind, align, f))
    return p.pack(), frames

def check_pcm_sync(args):
    """a packet of >= 2 equal, word-aligned minor frames each starting with the sync word, decoded with only
    the sync word given: minor_frame_size_bytes = distance of the first two sync words - 8 - header; same frames back"""
    kind, align, size, b, fs = args["kind"], args["align"], args["size"], bytes.fromhex(args["buf"]), args["frames"]
    src = ch11.TS_CH4 if kind == "rtc" else ch11.TS_IEEE1558
    if args.get("late_sync"):                  # sync word assigned (or changed) after construction: a plain attribute
        q = pcm.PCMDataPacket(src) if args["late_sync"] == "default" else pcm.PCMDataPacket(src, args["late_sync"], None)
        q.syncword = args["sync"]
    else:
        q = pcm.PCMDataPacket(src, args["sync"], None)
    if args.get("prior"):                      # the same decoder object used before on frames of another size
        q.unpack(bytes.fromhex(args["prior"]))
    q.unpack(b)
    if q.minor_frame_size_bytes != size:
        return "PCM size from sync words: frames of %d bytes, decoder derived %r" % (size, q.minor_frame_size_bytes)
    got = [{"ipts": _ipts_vals(f.ipts), "hdr": f.intra_packet_data_header, "data": bytes(f.minor_frame_data).hex()} for f in q.minor_frames]
    if got != fs:
        return "PCM decode by sync word: %d frames in, decoded %r" % (len(fs), got)[:400]
    return None

ORACLES["ch11_pcm_sync"] = check_pcm_sync

def _pcm_sync_cases(ctx):
    rng = ctx.rng
    out = []
    for kind in ("rtc", "ptp"):
        for align in (0, 1):
            for size in (4, 6, 8, 10, 16, 64, 128):
                for cnt in (2, 3, 5):
                    for _ in range(ctx.scale(1, 20)):
                        b, fs = _pcm_sync_packet(rng, kind, align, size, cnt)
                        out.append({"kind": kind, "align": align, "size": size, "sync": SYNC, "buf": b.hex(), "frames": fs})
                        other = rng.choice([x for x in (4, 6, 8, 10, 16, 64, 128) if x != size])
                        pb, _ = _pcm_sync_packet(rng, kind, align, other, rng.choice((2, 3)))
                        out.append({"kind": kind, "align": align, "size": size, "sync": SYNC, "buf": b.hex(), "frames": fs,
                                    "prior": pb.hex()})
                        out.append({"kind": kind, "align": align, "size": size, "sync": SYNC, "buf": b.hex(), "frames": fs,
                                    "late_sync": rng.choice(["default", 0xABABABAB, 0xFE6B2840 ^ 0xFFFFFFFF])})
    return out

def corr_C17(ctx):
    rng = ctx.rng
    lines = []
    for c in _pcm_sync_cases(ctx):
        lines.append(gen.H("PCMDataPacket", ["unpack x" + c["buf"], "obs"], (KIND_SRC[c["kind"]], str(c["sync"]), "None")))
    # sync words at arbitrary distances (overlapping, adjacent, single, none), odd sizes, sync word inside the CSW
    for _ in range(ctx.scale(150, 5000)):
        n = rng.randrange(4, 80)
        b = bytearray(rng.bytes_(n))
        pat = rng.choice([SYNCB, b"\xaa\xaa\xaa\xaa", b"\x00\x00\x00\x00", b"\xab\xab\xab\xab"])
        for _ in range(rng.randrange(0, 4)):
            i = rng.randrange(0, n)
            b[i:i + 4] = pat
        b = bytes(b[:n])
        b = bytes([b[0], b[1], b[2] & ~0x10, b[3]]) + b[4:]
        lines.append(gen.H("PCMDataPacket", ["unpack " + hexb(b), "obs"], (rng.choice(["0", "1"]), str(int.from_bytes(pat, "big")), "None")))
    lines.append(gen.H("PCMDataPacket", ["unpack x00000000" + "00" * 40, "obs"], ("0", str(2 ** 32), "None")))
    return lines

def oracles_C04_pcm_sync(ctx):
    """C04 also covers decoding packed PCM when only the sync word is given (2, 3, 5 frames; new and re-used decoder)"""
    fails, n = [], 0
    for c in _pcm_sync_cases(ctx):
        n += 1
        w = check_pcm_sync(c)
        if w:
            fails.append(Failure("ch11_pcm_sync", c, w, {"class": "PCMDataPacket", "check": "roundtrip", "by": "syncword"}))
            break
    ctx.count("oracle_evaluations", n)
    return fails

def oracles_C17(ctx, hints):
    fails, n = [], 0
    for c in _pcm_sync_cases(ctx):
        n += 1
        try:
            w = check_pcm_sync(c)
        except Exception as e:
            w = "PCM decode by sync word raised %r" % (e,)
        if w:
            fails.append(Failure("ch11_pcm_sync", c, w, {"class": "PCMDataPacket", "check": "size_from_sync"}))
            break
    ctx.count("oracle_evaluations", n)
    return fails
