"""Family: afdx — the class `AFDX` of AcraNetwork/SimpleEthernet.py.

The class is dead code as it stands: `AFDX.__init__` starts with `raise Exception("No working")`, and `AFDX.unpack`
ends with `struct.unpack("B", buf[-1])` (TypeError on every buffer of 14 bytes or more; struct.error below that).
The model (lean/Acra/Model/AFDX.lean) says exactly that, and the correspondence compares it with the real class:
the fresh object of the line protocol is `AFDX.__new__(AFDX)` (see harness/adapters/afdx.py), attributes are
assigned, `pack` / `unpack` / `==` / the constructor itself (`call init`, `F afdx.new`) are run on both sides.

Properties served: C02 (pack layout against the ARINC 664 layout of lean/Acra/Spec/AFDX.lean; the missing decode is
an OBSERVATION — C02's statement does not name AFDX), and through CLASSGEN the generic C08 / C13 / C14 checks."""
from ..core import hexb, run_driver, SPECDRIVER
from ..runner import Failure
from .. import gen
from ..gen import ClassGen

AFDX_W = [("type", 16), ("networkID", 8), ("equipmentID", 8), ("interfaceID", 3), ("vlink", 16), ("sequencenum", 8)]
MIN_PAYLOAD = 42
PAYLOAD_LENS = [42, 42, 43, 46, 64, 100, 1471]

def afdx_fields(rng, plen=None):
    f = {k: rng.boundary(b) for k, b in AFDX_W}
    f["payload"] = rng.bytes_(rng.choice(PAYLOAD_LENS) if plen is None else plen)
    return f

def canon_fields(f):
    return {k: (hexb(v) if isinstance(v, (bytes, bytearray)) else str(v)) for k, v in f.items()}

def afdx_valid(rng):
    f = canon_fields(afdx_fields(rng))
    # the order of the assignments is the order of the adapter's field list
    return {k: f[k] for k in ("type", "networkID", "equipmentID", "interfaceID", "vlink", "payload", "sequencenum")}

def afdx_alt(rng, k, cur):
    for _ in range(8):
        if k == "payload":
            b = bytes.fromhex(cur[1:])
            c = rng.random()
            if c < 0.4:                       # one byte changed (first, last or random position)
                i = rng.choice([0, len(b) - 1, rng.randrange(len(b))])
                v = hexb(b[:i] + bytes([b[i] ^ (1 << rng.randrange(8))]) + b[i + 1:])
            elif c < 0.7:                     # one byte longer / the last byte moved to the front
                v = hexb(b + b"\x00") if rng.random() < 0.5 else hexb(b[-1:] + b[:-1])
            else:
                v = hexb(rng.bytes_(rng.choice(PAYLOAD_LENS)))
        else:
            bits = dict(AFDX_W)[k]
            v = str(rng.choice([int(cur) ^ (1 << rng.randrange(bits)), rng.boundary(bits)]))
        if v != cur:
            return v
    return None

CLASSGEN = {
    "AFDX": ClassGen("AFDX", afdx_valid, alt=afdx_alt),
}

# =================================================================================== C02
def corr_C02(ctx):
    rng = ctx.rng
    lines = []
    # the constructor
    lines += [gen.F("afdx.new"), gen.F("afdx.new", "x"), gen.F("afdx.new", hexb(rng.bytes_(60))), gen.F("afdx.new", "None"),
              gen.H("AFDX", ["obs", "call init", "obs"]), gen.H("AFDX", ["call init " + hexb(rng.bytes_(20)), "obs"]),
              gen.H("AFDX", ["obs", "pack"]), gen.H("AFDX", ["obs", "unpack x", "obs"])]
    for _ in range(ctx.scale(60, 3000)):
        f = afdx_valid(rng)
        lines.append(gen.H("AFDX", gen.sets(f) + ["pack", "obs", "call init", "obs"]))
    # each attribute missing in turn; each attribute out of range / at its limit in turn; payload around 42 bytes
    for _ in range(ctx.scale(4, 60)):
        f = afdx_valid(rng)
        for k in f:
            g = dict(f)
            del g[k]
            lines.append(gen.H("AFDX", gen.sets(g) + ["pack", "obs"]))
        for k, b in AFDX_W:
            for v in ((1 << b) - 1, 1 << b, (1 << b) + 1, 255, 256, 65535, 65536, 2 ** 32, 2 ** 70):
                lines.append(gen.H("AFDX", gen.sets(dict(f, **{k: str(v)})) + ["pack", "obs"]))
        for n in (0, 1, 40, 41, 42, 43):
            lines.append(gen.H("AFDX", gen.sets(dict(f, payload=hexb(rng.bytes_(n)))) + ["pack", "obs"]))
        # a missing attribute together with an out-of-range one: which exception wins
        for k in f:
            g = dict(f, interfaceID="8", sequencenum="256")
            del g[k]
            lines.append(gen.H("AFDX", gen.sets(g) + ["pack"]))
    # the decoder on what the encoder emits, into a bare and into a used object; the two helper methods
    for _ in range(ctx.scale(40, 2000)):
        f, g = afdx_valid(rng), afdx_valid(rng)
        b = _pack_real(f)
        if b is None:
            continue
        lines.append(gen.H("AFDX", ["unpack " + hexb(b), "obs", "pack"]))
        lines.append(gen.H("AFDX", gen.sets(g) + ["unpack " + hexb(b), "obs", "pack"]))
        t = rng.randrange(0, len(b))
        lines.append(gen.H("AFDX", gen.sets(g) + ["unpack " + hexb(b[:t]), "obs"]))
        lines.append(gen.H("AFDX", ["call set_dstmac " + hexb(b[:rng.choice([0, 5, 6, 7, 14])]), "obs",
                                    "call unpacksrcmac %d" % rng.boundary(48), "obs"]))
    return lines

def corr_C08(ctx):
    rng = ctx.rng
    lines = []
    for n in list(range(0, 20)) + [41, 42, 56, 57, 60, 1500]:
        for _ in range(ctx.scale(2, 30)):
            lines.append(gen.H("AFDX", ["unpack " + hexb(rng.bytes_(n)), "obs"]))
            lines.append(gen.H("AFDX", gen.sets(afdx_valid(rng)) + ["unpack " + hexb(rng.bytes_(n)), "obs"]))
    return lines

def _bare(fields=None):
    import AcraNetwork.SimpleEthernet as se
    o = se.AFDX.__new__(se.AFDX)
    for k, v in (fields or {}).items():
        setattr(o, k, v)
    return o

def _pack_real(canon):
    from ..core import pyval, parse_val
    try:
        return _bare({k: pyval(parse_val(v)) for k, v in canon.items()}).pack()
    except Exception:
        return None

def check_afdx_layout(args):
    """`pack` of an object whose seven attributes were assigned emits the ARINC 664 part 7 layout (Spec.AFDX.encode)"""
    f = dict(args["fields"])
    f["payload"] = bytes.fromhex(f["payload"])
    o = _bare(f)
    b = o.pack()
    r = run_driver([gen.F("spec.AFDX.encode", str(f["vlink"]), str(f["networkID"]), str(f["equipmentID"]),
                          str(f["interfaceID"]), str(f["type"]), hexb(f["payload"]), str(f["sequencenum"]))],
                   exe=SPECDRIVER)[0]
    if not r.startswith("ok:x"):
        raise RuntimeError("spec driver: " + r)
    exp = bytes.fromhex(r[4:])
    if bytes(b) != exp:
        return "AFDX.pack emits %s… but the AFDX layout is %s…" % (bytes(b)[:16].hex(), exp[:16].hex())
    if {k: getattr(o, k) for k in f} != f:
        return "AFDX.pack changed the object's fields"
    if bytes(o.pack()) != exp:
        return "AFDX.pack twice gives different bytes"
    return None

def observe_afdx(args):
    """what the class cannot do (observations, not failures): construct, decode.  Returns a list of strings."""
    import AcraNetwork.SimpleEthernet as se
    out = []
    try:
        se.AFDX()
        out.append("AFDX() now returns an object: the model (constructor raises) no longer matches")
    except Exception as e:
        out.append("AFDX() raises %s(%r): no object can be made through the constructor" % (type(e).__name__, str(e)))
    f = dict(args["fields"])
    f["payload"] = bytes.fromhex(f["payload"])
    b = _bare(f).pack()
    q = _bare()
    try:
        q.unpack(b)
        out.append("AFDX.unpack now returns on an encoded frame: the model (TypeError) no longer matches")
    except Exception as e:
        out.append("AFDX.unpack(AFDX.pack()) raises %s: nothing decodes; left behind: %s" % (
            type(e).__name__, sorted(vars(q))))
    return out

def oracles_C02(ctx, hints):
    rng = ctx.rng
    fails, n = [], 0
    for j in range(ctx.scale(150, 4000)):
        f = afdx_fields(rng, plen=None if j % 5 else rng.choice([42, 43, 1471, 9000]))
        args = {"fields": dict(f, payload=f["payload"].hex())}
        n += 1
        try:
            w = check_afdx_layout(args)
        except Exception as e:
            w = "afdx_layout raised %r on a well-formed input" % (e,)
        if w:
            fails.append(Failure("afdx_layout", args, w, {"class": "AFDX", "check": "layout"}))
            break
    f = afdx_fields(rng)
    for s in observe_afdx({"fields": dict(f, payload=f["payload"].hex())}):
        ctx.notes.append("observation (afdx): " + s)
    ctx.count("oracle_evaluations", n)
    return fails

ORACLES = {"afdx_layout": check_afdx_layout}
