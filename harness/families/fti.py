"""Family: FTI payload codecs — iNetX, IENA (positional, M, Q, D, N), iNET, NPD, ParserAligned."""
from ..core import hexb, run_line_impl, run_driver, SPECDRIVER, ADAPTERS
from ..runner import Failure
from .. import gen
from ..gen import ClassGen

def _spec(lines):
    return run_driver(lines, exe=SPECDRIVER)

# =================================================================================== iNetX
INETX_FIELDS = [("inetxcontrol", 32), ("streamid", 32), ("sequence", 32), ("ptptimeseconds", 32),
                ("ptptimenanoseconds", 32), ("pif", 32)]

def inetx_valid(rng):
    f = {k: str(rng.boundary(b)) for k, b in INETX_FIELDS}
    f["payload"] = hexb(rng.bytes_(rng.choice([0, 1, 2, 3, 4, 5, 8, 17, 64])))
    return f

def inetx_cases(ctx):
    rng = ctx.rng
    cases = []
    for n in gen.payload_lengths(rng, n_random=ctx.scale(6, 200)):
        f = {k: rng.boundary(b) for k, b in INETX_FIELDS}
        cases.append((f, rng.bytes_(n)))
    for k, b in INETX_FIELDS:                       # each field over its boundaries, others fixed
        for v in (0, 1, (1 << b) - 1, 1 << (b - 1), (1 << b)):      # the last one does not fit
            f = {kk: 7 for kk, _ in INETX_FIELDS}
            f[k] = v
            cases.append((f, b"\x01\x02\x03"))
    return cases

def check_inetx_layout(args):
    """pack() == Spec layout; unpack(pack) returns the same fields; re-pack reproduces the bytes"""
    import AcraNetwork.iNetX as inetx
    f, p = args["fields"], bytes.fromhex(args["payload"])
    o = inetx.iNetX()
    for k, v in f.items():
        setattr(o, k, v)
    o.payload = p
    fits = all(0 <= v < 2**32 for v in f.values())
    try:
        b = o.pack()
    except Exception as e:
        return ("iNetX.pack raised %r on fields that fit their widths" % (e,)) if fits else None
    if not fits:
        return "iNetX.pack accepted a field that does not fit 32 bits"
    exp = _spec([gen.F("spec.iNetX.encode", str(f["inetxcontrol"]), str(f["streamid"]), str(f["sequence"]),
                       str(f["ptptimeseconds"]), str(f["ptptimenanoseconds"]), str(f["pif"]), hexb(p))])[0]
    if exp != "ok:" + hexb(b):
        return "iNetX.pack emits %s but the iNET-X layout is %s" % (hexb(b), exp)
    q = inetx.iNetX()
    q.unpack(b)
    for k, v in f.items():
        if getattr(q, k) != v:
            return "iNetX round trip changes %s: %r -> %r" % (k, v, getattr(q, k))
    if q.payload != p or q.packetlen != len(b):
        return "iNetX round trip changes payload/packetlen"
    if q.pack() != b:
        return "iNetX re-encode of decoded packet differs"
    return None

# =================================================================================== IENA
IENA_HDR = [("key", 16), ("timeusec", 48), ("keystatus", 8), ("status", 8), ("sequence", 16), ("endfield", 16)]

def iena_valid(rng):
    f = {k: str(rng.boundary(b)) for k, b in IENA_HDR}
    f["payload"] = hexb(rng.bytes_(2 * rng.choice([0, 1, 2, 3, 8, 33])))
    return f

def mparam(rng, n=None):
    n = rng.choice([0, 1, 2, 3, 4, 5, 9, 16, 31]) if n is None else n
    return "MParameter{paramid=%d,delay=%d,dataset=%s}" % (rng.boundary(16), rng.boundary(16), hexb(rng.bytes_(n)))

def ienam_valid(rng):
    f = {k: str(rng.boundary(b)) for k, b in IENA_HDR}
    f["parameters"] = "[" + ";".join(mparam(rng) for _ in range(rng.randrange(0, 5))) + "]"
    return f

def iena_lines(ctx):
    rng = ctx.rng
    lines = []
    for n in range(0, 40):                                   # even and odd payloads (odd: pack works, decode refuses)
        f = {k: str(rng.boundary(b)) for k, b in IENA_HDR}
        f["payload"] = hexb(rng.bytes_(n))
        lines.append(gen.H("IENA", gen.sets(f) + ["pack", "obs"]))
    for k, b in IENA_HDR:
        for v in (0, 1, (1 << b) - 1, 1 << (b - 1), 1 << b):
            f = {kk: "3" for kk, _ in IENA_HDR}
            f[k] = str(v)
            f["payload"] = "x0102"
            lines.append(gen.H("IENA", gen.sets(f) + ["pack", "obs"]))
    for cnt in range(0, 9):                                  # element counts 0..8, dataset lengths in both residues
        for _ in range(ctx.scale(4, 60)):
            f = {k: str(rng.boundary(b)) for k, b in IENA_HDR}
            f["parameters"] = "[" + ";".join(mparam(rng) for _ in range(cnt)) + "]"
            lines.append(gen.H("IENAM", gen.sets(f) + ["pack", "obs"]))
    for n in list(range(0, 24)) + [1400, 1401]:
        f = {k: "5" for k, _ in IENA_HDR}
        f["parameters"] = "[" + mparam(rng, n) + ";" + mparam(rng, 3) + "]"
        lines.append(gen.H("IENAM", gen.sets(f) + ["pack", "obs"]))
    # directed: an EMPTY dataset in the first / a middle / the last position, and only empty datasets
    for shape in ([0], [0, 0], [3, 0], [0, 3], [2, 0, 5], [1, 4, 0], [0, 0, 0], [5, 0, 0]):
        f = {k: str(rng.boundary(b)) for k, b in IENA_HDR}
        f["parameters"] = "[" + ";".join(mparam(rng, n) for n in shape) + "]"
        lines.append(gen.H("IENAM", gen.sets(f) + ["pack", "obs"]))
    return lines

def check_iena_layout(args):
    import AcraNetwork.IENA as iena
    f, p = args["fields"], bytes.fromhex(args["payload"])
    o = iena.IENA()
    for k, v in f.items():
        setattr(o, k, v)
    o.payload = p
    b = o.pack()
    exp = _spec([gen.F("spec.IENA.encode", *[str(f[k]) for k, _ in IENA_HDR], hexb(p))])[0]
    if exp != "ok:" + hexb(b):
        return "IENA.pack emits %s but the IENA layout is %s" % (hexb(b), exp)
    if o.size * 2 != len(b):
        return "IENA size field %d does not count the %d bytes emitted in 16-bit words" % (o.size, len(b))
    q = iena.IENA()
    q.unpack(b)
    for k, v in f.items():
        if getattr(q, k) != v:
            return "IENA round trip changes %s: %r -> %r" % (k, v, getattr(q, k))
    if q.payload != p or q.pack() != b:
        return "IENA round trip changes payload or re-encodes differently"
    return None

def check_ienam_layout(args):
    import AcraNetwork.IENA as iena
    f, params = args["fields"], [(a, d, bytes.fromhex(h)) for a, d, h in args["params"]]
    o = iena.IENAM()
    for k, v in f.items():
        setattr(o, k, v)
    o.parameters = [iena.MParameter(paramid=a, delay=d, dataset=ds) for a, d, ds in params]
    b = o.pack()
    lines = [gen.F("spec.IENAM.encodeParam", str(a), str(d), hexb(ds)) for a, d, ds in params]
    enc = _spec(lines) if lines else []
    body = b""
    for e in enc:
        if not e.startswith("ok:x"):
            return "spec failure " + e
        piece = bytes.fromhex(e[4:])
        if len(piece) % 2:
            return "IENA-M parameter occupies an odd number of bytes"
        body += piece
    exp = _spec([gen.F("spec.IENA.encode", *[str(f[k]) for k, _ in IENA_HDR], hexb(body))])[0]
    if exp != "ok:" + hexb(b):
        return "IENAM.pack emits %s but the IENA-M layout is %s" % (hexb(b), exp)
    q = iena.IENAM()
    q.unpack(b)
    got = [(p.paramid, p.delay, bytes(p.dataset)) for p in q.parameters]
    if got != params:
        return "IENA-M round trip changes the parameters: %r -> %r" % (params, got)
    for k, v in f.items():
        if getattr(q, k) != v:
            return "IENA-M round trip changes %s" % k
    if q.pack() != b:
        return "IENA-M re-encode of decoded packet differs"
    return None

# =================================================================================== contributions
def _decode_side(lines):
    """bytes produced by the implementation, decoded into a fresh object and re-encoded"""
    out = []
    for l in lines:
        a = run_line_impl(l)
        for p in a.split("|"):
            if p.startswith("ok:x"):
                out.append(gen.H(l.split()[1], ["unpack " + p[3:], "obs", "pack", "obs"]))
    return out

def corr_C01(ctx):
    lines = []
    for f, p in inetx_cases(ctx):
        ops = gen.sets({k: str(v) for k, v in f.items()}) + ["set payload " + hexb(p), "pack", "obs"]
        lines.append(gen.H("iNetX", ops))
    lines += iena_lines(ctx)
    return lines + _decode_side(lines)

def oracles_C01(ctx, hints):
    fails = []
    n = 0
    rng = ctx.rng
    for f, p in inetx_cases(ctx)[: ctx.scale(80, 2000)]:
        args = {"fields": f, "payload": p.hex()}
        n += 1
        w = check_inetx_layout(args)
        if w:
            fails.append(Failure("inetx_layout", args, w, {"class": "iNetX", "check": "layout"}))
            break
    for i in range(ctx.scale(60, 2000)):
        f = {k: rng.boundary(b) for k, b in IENA_HDR}
        args = {"fields": f, "payload": rng.bytes_(2 * (i % 30)).hex()}
        n += 1
        w = check_iena_layout(args)
        if w:
            fails.append(Failure("iena_layout", args, w, {"class": "IENA", "check": "layout"}))
            break
    for i in range(ctx.scale(60, 2000)):
        f = {k: rng.boundary(b) for k, b in IENA_HDR}
        params = [[rng.boundary(16), rng.boundary(16), rng.bytes_(rng.choice([0, 1, 2, 3, 4, 5, 7, 30])).hex()]
                  for _ in range(i % 6)]
        args = {"fields": f, "params": params}
        n += 1
        w = check_ienam_layout(args)
        if w:
            fails.append(Failure("ienam_layout", args, w, {"class": "IENAM", "check": "layout"}))
            break
    else:
        for shape in ([0], [0, 0], [3, 0], [0, 3], [2, 0, 5], [1, 4, 0], [0, 0, 0], [5, 0, 0]):
            f = {k: rng.boundary(b) for k, b in IENA_HDR}
            args = {"fields": f, "params": [[rng.boundary(16), rng.boundary(16), rng.bytes_(m).hex()] for m in shape]}
            n += 1
            w = check_ienam_layout(args)
            if w:
                fails.append(Failure("ienam_layout", args, w, {"class": "IENAM", "check": "layout"}))
                break
    ctx.count("oracle_evaluations", n)
    return fails

ORACLES = {"inetx_layout": check_inetx_layout, "iena_layout": check_iena_layout, "ienam_layout": check_ienam_layout}

CLASSGEN = {
    "iNetX": ClassGen("iNetX", inetx_valid, length_fields=[(12, 4, "big")]),
    "IENA": ClassGen("IENA", iena_valid, length_fields=[(2, 2, "big")]),
    "IENAM": ClassGen("IENAM", ienam_valid, length_fields=[(2, 2, "big"), (18, 2, "big")]),
}

# =================================================================================== C09
def _valid_packets(ctx):
    """(class, bytes) of valid packets built on the implementation"""
    rng = ctx.rng
    out = []
    for cls, valid in (("iNetX", inetx_valid), ("IENA", iena_valid), ("IENAM", ienam_valid)):
        for _ in range(ctx.scale(6, 60)):
            a = run_line_impl(gen.H(cls, gen.sets(valid(rng)) + ["pack"]))
            r = a.split("|")[-1]
            if r.startswith("ok:x"):
                out.append((cls, bytes.fromhex(r[4:])))
    return out

LENGTH_FIELDS = {"iNetX": [(12, 4, "big")], "IENA": [(2, 2, "big")], "IENAM": [(2, 2, "big")]}

def _c09_mutants(ctx, cls, b):
    """each length/count field at 0, real-1, real, real+1, max; buffer lengths declared-2..declared+2;
       for IENA-M additionally the dataset length of the parameter at every position"""
    out = [b]
    for (off, size, order) in LENGTH_FIELDS[cls]:
        real = int.from_bytes(b[off:off + size], order)
        mx = (1 << (8 * size)) - 1
        for v in (0, real - 1, real + 1, mx):
            if 0 <= v <= mx:
                out.append(b[:off] + v.to_bytes(size, order) + b[off + size:])
    for d in (-2, -1, 1, 2):
        out.append(b[:len(b) + d] if d < 0 else b + b"\x00" * d)
    if cls == "IENAM":
        # walk the parameters and force each declared length in turn, keeping the outer size right
        pos = 14
        end = len(b) - 2
        while pos + 6 <= end:
            n = int.from_bytes(b[pos + 4:pos + 6], "big")
            for v in (0, n - 1, n + 1, n + 2, end - pos - 6, end - pos - 5, 0xFFFF):
                if 0 <= v <= 0xFFFF and v != n:
                    out.append(b[:pos + 4] + v.to_bytes(2, "big") + b[pos + 6:])
            pos += 6 + n + (n % 2)
    return out

def corr_C09(ctx):
    lines = []
    for cls, b in _valid_packets(ctx):
        for m in _c09_mutants(ctx, cls, b):
            lines.append(gen.H(cls, ["unpack " + hexb(m), "obs"]))
    return lines

def check_accept_exact(args):
    """an accepted buffer's declared lengths equal the real ones and nothing is truncated or padded"""
    cls, b = args["cls"], bytes.fromhex(args["buf"])
    a = ADAPTERS[cls]
    o = a.ctor()
    try:
        a.unpack(o, b)
    except Exception:
        ok = False
    else:
        ok = True
    if cls == "iNetX":
        should = len(b) >= 28 and int.from_bytes(b[12:16], "big") == len(b)
        if ok != should:
            return "iNetX.unpack %s a %d-byte buffer whose length field says %s" % (
                "accepted" if ok else "rejected", len(b), int.from_bytes(b[12:16], "big") if len(b) >= 16 else None)
        if ok and o.payload != b[28:]:
            return "iNetX.unpack returned a payload that is not the bytes after the header"
    elif cls in ("IENA", "IENAM"):
        should = len(b) >= 14 and 2 * int.from_bytes(b[2:4], "big") == len(b)
        if ok and not should:
            return "%s.unpack accepted a %d-byte buffer whose size field says %d words" % (cls, len(b), int.from_bytes(b[2:4], "big"))
        if cls == "IENA" and should and not ok:
            return "IENA.unpack rejected a buffer whose size field matches"
        if cls == "IENAM" and should:
            # reference walk of the parameter area
            pos, end, exp, good = 14, len(b) - 2, [], True
            while pos < end:
                if pos + 6 > end:
                    good = False; break
                n = int.from_bytes(b[pos + 4:pos + 6], "big")
                if pos + 6 + n > end:
                    good = False; break
                exp.append(b[pos + 6:pos + 6 + n])
                pos += 6 + n + (n % 2)
            if ok != good:
                return "IENAM.unpack %s a packet in which a declared dataset %s inside the packet" % (
                    "accepted" if ok else "rejected", "does not lie" if not good else "lies")
            if ok and [bytes(p.dataset) for p in o.parameters] != exp:
                return "IENAM.unpack returned datasets that are not exactly the declared bytes"
    return None

def oracles_C09(ctx, hints):
    fails = []
    n = 0
    seen = set()
    for cls, b in _valid_packets(ctx):
        for m in _c09_mutants(ctx, cls, b):
            args = {"cls": cls, "buf": m.hex()}
            n += 1
            w = check_accept_exact(args)
            if w and cls not in seen:
                seen.add(cls)
                fails.append(Failure("accept_exact", args, w, {"class": cls, "check": "accept_exact"}))
    ctx.count("oracle_evaluations", n)
    return fails

ORACLES["accept_exact"] = check_accept_exact


# =================================================================================== C15 (IENA time of year)
def _soy():
    import time, AcraNetwork.IENA as iena
    return int(time.mktime(iena.IENA()._startOfYear.timetuple()))

def iena_time_cases(ctx):
    rng = ctx.rng
    soy = _soy()
    year = 366 * 86400
    secs = [0, 1, 59, 86399, 86400, year - 1] + [rng.randrange(0, year) for _ in range(ctx.scale(3000, 200000))]
    if ctx.tier == "thorough":
        secs += list(range(0, year, 97))
    out = []
    for d in secs:
        for us in (0, 1, 499999, 500000, 999999, rng.randrange(0, 1000000)):
            out.append((soy + d, us, soy))
    return out

def corr_C15(ctx):
    return [gen.F("iena.time", str(ts), str(us), str(soy)) for ts, us, soy in iena_time_cases(ctx)]

def check_iena_time(args):
    import AcraNetwork.IENA as iena
    o = iena.IENA()
    o.setPacketTime(args["ts"], args["us"])
    g = o._getPacketTime()
    if g != args["ts"]:
        return "IENA setPacketTime(%d, %d) then _getPacketTime() gives %d" % (args["ts"], args["us"], g)
    return None

def oracles_C15(ctx, hints):
    fails, n = [], 0
    for ts, us, soy in iena_time_cases(ctx):
        n += 1
        w = check_iena_time({"ts": ts, "us": us})
        if w:
            fails.append(Failure("iena_time", {"ts": ts, "us": us}, w, {"class": "IENA", "check": "time_inverse"}))
            break
    ctx.count("oracle_evaluations", n)
    return fails

ORACLES["iena_time"] = check_iena_time
