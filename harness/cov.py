"""Line coverage of the implementation (AcraNetwork/*.py under the tree being checked) while the
correspondence stream and the oracles run — a measurement of what the tie between model and code actually
exercised, written into the evidence (`impl_coverage`).  Uses `sys.monitoring` (Python 3.12): a LINE event is
disabled after its first delivery, so the overhead is negligible.  Nothing here decides a property."""
import os, sys

TOOL = 3          # sys.monitoring tool id (0-5); 3 is free for applications

class LineCov:
    def __init__(self, root):
        self.root = os.path.realpath(root) + os.sep
        self.hit = {}                # filename -> set of line numbers
        self.on = False
        self._skip = {}              # co_filename -> bool (cached decision)

    def _mine(self, fn):
        r = self._skip.get(fn)
        if r is None:
            r = self._skip[fn] = os.path.realpath(fn).startswith(self.root) if fn and not fn.startswith("<") else False
        return r

    def start(self):
        mon = getattr(sys, "monitoring", None)
        if mon is None:
            return self
        try:
            mon.use_tool_id(TOOL, "acra-verif-cov")
        except ValueError:
            return self
        def on_line(code, line):
            if self._mine(code.co_filename):
                self.hit.setdefault(code.co_filename, set()).add(line)
            return mon.DISABLE
        mon.register_callback(TOOL, mon.events.LINE, on_line)
        mon.set_events(TOOL, mon.events.LINE)
        self.on = True
        return self

    def stop(self):
        if not self.on:
            return
        mon = sys.monitoring
        mon.set_events(TOOL, 0)
        mon.register_callback(TOOL, mon.events.LINE, None)
        mon.free_tool_id(TOOL)
        self.on = False

    def report(self, max_funcs=400):
        """per file: executable lines hit / total; functions of which no line ran (import-time lines such as
        `def` and class bodies run at import, before monitoring started, and are not counted either way)"""
        files = {}
        unhit = []
        hitf = []
        ranges = {}
        hit_funcs = 0
        tot_funcs = 0
        pkg = self.root
        for dirpath, _, names in os.walk(pkg):
            for n in sorted(names):
                if not n.endswith(".py"):
                    continue
                path = os.path.join(dirpath, n)
                try:
                    src = open(path, "rb").read()
                    top = compile(src, path, "exec")
                except Exception:
                    continue
                got = set()
                for k, v in self.hit.items():
                    if os.path.realpath(k) == os.path.realpath(path):
                        got |= v
                total = set()
                stack = [(top, "")]
                while stack:
                    co, qual = stack.pop()
                    lines = {l for (_, _, l) in co.co_lines() if l is not None}
                    is_func = co.co_name not in ("<module>", "<lambda>", "<listcomp>", "<genexpr>", "<dictcomp>", "<setcomp>")
                    body = lines - {co.co_firstlineno}
                    name = (qual + "." if qual else "") + co.co_name
                    kind = "module" if co.co_name == "<module>" else "code"
                    inner = [c for c in co.co_consts if hasattr(c, "co_code")]
                    # a class body's code object stores __qualname__ first
                    if kind == "code" and "__qualname__" in co.co_names and "__module__" in co.co_names:
                        kind = "class"
                    if kind == "code":
                        total |= body
                        if is_func:
                            tot_funcs += 1
                            if body & got:
                                hit_funcs += 1
                                hitf.append("%s:%s" % (os.path.relpath(path, pkg), name))
                            else:
                                unhit.append("%s:%s" % (os.path.relpath(path, pkg), name))
                    for c in inner:
                        stack.append((c, name if kind != "module" else ""))
                if total:
                    files[os.path.relpath(path, pkg)] = [len(total & got), len(total)]
                    if total & got:
                        ranges[os.path.relpath(path, pkg)] = _ranges(sorted(total & got))
        th = sum(a for a, _ in files.values())
        tt = sum(b for _, b in files.values())
        return {"tool": "sys.monitoring LINE events" if hasattr(sys, "monitoring") else "unavailable",
                "function_body_lines_hit": th, "function_body_lines_total": tt,
                "functions_hit": hit_funcs, "functions_total": tot_funcs,
                "per_file": {k: v for k, v in files.items() if v[0]},
                "lines_hit": ranges,
                "functions_executed": sorted(set(hitf)),
                "note": "the whole library is the denominator; tools/coverage_report.py unites the checks"}

def _ranges(xs):
    out, i = [], 0
    while i < len(xs):
        j = i
        while j + 1 < len(xs) and xs[j + 1] == xs[j] + 1:
            j += 1
        out.append(str(xs[i]) if i == j else "%d-%d" % (xs[i], xs[j]))
        i = j + 1
    return ",".join(out)

def all_functions(root):
    """{file: {qualified function name: sorted body lines}} for every .py under root"""
    res = {}
    root = os.path.realpath(root) + os.sep
    for dirpath, _, names in os.walk(root):
        for n in sorted(names):
            if not n.endswith(".py"):
                continue
            path = os.path.join(dirpath, n)
            try:
                top = compile(open(path, "rb").read(), path, "exec")
            except Exception:
                continue
            stack = [(top, "")]
            d = res.setdefault(os.path.relpath(path, root), {})
            while stack:
                co, qual = stack.pop()
                name = (qual + "." if qual else "") + co.co_name
                kind = "module" if co.co_name == "<module>" else "code"
                if kind == "code" and "__qualname__" in co.co_names and "__module__" in co.co_names:
                    kind = "class"
                if kind == "code":
                    body = {l for (_, _, l) in co.co_lines() if l is not None} - {co.co_firstlineno}
                    if co.co_name not in ("<lambda>", "<listcomp>", "<genexpr>", "<dictcomp>", "<setcomp>"):
                        d.setdefault(name, set()).update(body)
                    else:
                        d.setdefault(qual or name, set()).update(body)
                for c in co.co_consts:
                    if hasattr(c, "co_code"):
                        stack.append((c, name if kind != "module" else ""))
    return {f: {k: sorted(v) for k, v in d.items()} for f, d in res.items()}
