"""Generator helpers shared by the property modules: structured mostly-valid inputs plus a
separate malformed stream, all derived from the context's PRNG."""
from .core import hexb

def payload_lengths(rng, residues=4, small=40, big=(1400, 1500), n_random=6):
    """every residue class near 0, a band of small lengths, MTU-size samples"""
    ls = list(range(0, small))
    ls += [big[0] + i for i in range(residues * 2)]
    ls += [rng.randrange(small, big[1]) for _ in range(n_random)]
    return ls

def malformed(rng, valid, length_fields=(), max_trunc=64):
    """mutations of one valid packet (bytes):
       truncation at each offset (up to max_trunc from the start and from the end), extension with
       zero/random bytes, each of the first header bytes set to boundary values, and every listed
       length/count field (offset, size, byteorder) forced to 0, 1, real-1, real+1, max."""
    out = []
    n = len(valid)
    offs = set(range(0, min(n, max_trunc))) | set(range(max(0, n - max_trunc), n))
    for t in sorted(offs):
        out.append(valid[:t])
    out.append(valid + b"\x00")
    out.append(valid + b"\x00" * 4)
    out.append(valid + rng.bytes_(rng.randrange(1, 9)))
    for i in range(min(n, 32)):
        for v in (0x00, 0x01, 0x7F, 0x80, 0xFF):
            if valid[i] != v:
                out.append(valid[:i] + bytes([v]) + valid[i + 1:])
    for (off, size, order) in length_fields:
        if off + size > n:
            continue
        real = int.from_bytes(valid[off:off + size], order)
        mx = (1 << (8 * size)) - 1
        for v in (0, 1, real - 1, real + 1, mx, real // 2, real * 2):
            if 0 <= v <= mx and v != real:
                out.append(valid[:off] + v.to_bytes(size, order) + valid[off + size:])
    return out

def H(cls, ops, opts=()):
    return "H %s %s:: %s" % (cls, "".join(str(o) + " " for o in opts), "|".join(ops))

def E(cls, ops_a, ops_b, opts=()):
    return "E %s %s:: %s ## %s" % (cls, "".join(str(o) + " " for o in opts), "|".join(ops_a), "|".join(ops_b))

def F(fn, *args):
    return "F %s %s" % (fn, " ".join(args))

def sets(d):
    """dict of field -> canonical text  =>  list of `set` ops"""
    return ["set %s %s" % (k, v) for k, v in d.items()]

class ClassGen:
    """What the generic properties need to know about one codec class.

    cls            adapter / wire name
    valid          callable(rng) -> dict  field -> canonical value text   (a random *valid* object)
    opts           list of option tuples (canonical texts) to construct the object with
    length_fields  [(offset, size, 'big'|'little')] of length/count fields inside the packed bytes
    alt            callable(rng, field, current_text) -> another canonical text for that field, or None
                   (used to build twins that differ in exactly one public field; default: redraw valid())
    eq_fields      public fields that take part in equality tests (default: all keys of valid())
    has_eq         the class defines __eq__
    pack_args / unpack_args   extra canonical arguments for pack / unpack
    """
    def __init__(self, cls, valid, opts=((),), length_fields=(), alt=None, eq_fields=None, has_eq=True,
                 pack_args=(), unpack_args=(), can_pack=True, can_unpack=True, groups=(), extra_twins=None):
        self.cls, self.valid, self.opts = cls, valid, [tuple(o) for o in opts]
        self.length_fields, self.alt, self.eq_fields, self.has_eq = list(length_fields), alt, eq_fields, has_eq
        self.pack_args, self.unpack_args = tuple(pack_args), tuple(unpack_args)
        self.can_pack, self.can_unpack = can_pack, can_unpack
        # groups of fields that only mean something together (e.g. the three optional-header fields of a PES
        # packet): twins are also built that differ in a whole group at once, both ways round
        self.groups = [tuple(g) for g in groups]
        # extra_twins(rng) -> [(fields_a, fields_b, label)]: directed pairs that differ in several fields at once
        self.extra_twins = extra_twins

    def pack_op(self):
        return " ".join(("pack",) + self.pack_args)
    def unpack_op(self, b):
        return " ".join(("unpack", hexb(b)) + self.unpack_args)

# Container protocol (ops `len`, `getitem <int>` of the line protocol): the classes whose model has them.
#   class -> (has __len__, has __getitem__, name of the list-valued field whose elements `getitem` returns)
# `len` of iNetX / IENA / iNET packs the object (and raises what pack raises); PCMDataPacket has no __len__
# (a TypeError, exercised by directed lines of families/container.py only, because an error ends a history).
CONTAINER = {
    "iNetX": (True, False, None), "IENA": (True, False, None), "iNET": (True, False, None),
    "IENAM": (True, True, "parameters"), "IENAQ": (True, True, "parameters"),
    "IENAD": (True, True, "parameters"), "IENAN": (True, True, "parameters"),
    "NPD": (True, True, "segments"),
    "ParserAlignedBlock": (True, False, None), "ParserAlignedPacket": (True, True, "parserblocks"),
    "PcapRecord": (True, False, None),
    "ARINC429DataPacket": (True, True, "arincwords"), "MILSTD1553DataPacket": (True, True, "messages"),
    "UARTDataPacket": (True, True, "uartwords"), "PCMDataPacket": (False, True, "minor_frames"),
    "TimeDataFormat1": (True, False, None), "TimeDataFormat2": (True, False, None),
    "NAL": (True, False, None), "MPEGTS": (True, True, "blocks"),
}

def list_count(text):
    """number of top-level elements of a canonical list text `[a;b;…]`"""
    if not (text.startswith("[") and text.endswith("]")) or len(text) == 2:
        return 0
    depth, n = 0, 1
    for ch in text[1:-1]:
        if ch in "[{":
            depth += 1
        elif ch in "]}":
            depth -= 1
        elif ch == ";" and depth == 0:
            n += 1
    return n

def index_candidates(n):
    """the indices the container checks use for a container believed to hold n elements"""
    return [0, 1, -1, n - 1, n, n + 1, -n - 1]

def container_op(rng, cls, fields, p_out=0.25):
    """one `len` / `getitem i` op for a class of CONTAINER (None for other classes).  `fields` is the sample the
    history is built around: its element count steers the indices; out-of-range candidates (which end the
    specified part of a history: IndexError) are drawn with probability p_out."""
    ent = CONTAINER.get(cls)
    if ent is None:
        return None
    has_len, has_get, fld = ent
    if has_get and (not has_len or rng.random() < 0.6):
        n = list_count(fields.get(fld, "[]")) if fld else 0
        cands = index_candidates(n)
        inside = [i for i in cands if -n <= i < n]
        if inside and rng.random() >= p_out:
            return "getitem %d" % rng.choice(inside)
        return "getitem %d" % rng.choice(cands)
    return "len" if has_len else None
