#!/usr/bin/env python3
"""
Translator part of the tie: regenerate lean/Acra/Gen/*.lean from what /repo's source says now.

  * class / module constants are read by importing the module and evaluating an expression;
  * inline `struct` format literals are read from the AST of the named function, in source order,
    so a one-character edit to a literal such as ">HIHIHHH" changes the generated model constant;
  * the binding structure of the deprecated Chapter10 package is read with `ast` (see TABLE_NS);
  * the pure integer / bytes helper functions listed in the `SRC` tables are translated from their
    current source to Lean definitions (harness/translate.py -> lean/Acra/Gen/Src/*.lean).

Each generated file is rewritten only when its text changes, so an unchanged source is a no-op
for `lake build`.  Exit status 0 = everything regenerated; 1 = some item could not be extracted
(the message names it; the stale generated file is left in place and check.py treats this as a
broken tie).
"""
import os, sys, ast, json, importlib, re, inspect

VERIF = os.path.dirname(os.path.dirname(os.path.abspath(__file__)))
REPO = os.environ.get("ACRA_REPO", "/repo")
GEN = os.path.join(VERIF, "lean", "Acra", "Gen")
if REPO not in sys.path:
    sys.path.insert(0, REPO)
import warnings
warnings.simplefilter("ignore")

CODES = {"B": ".u8", "H": ".u16", "I": ".u32", "L": ".u32", "Q": ".u64",
         "b": ".i8", "h": ".i16", "i": ".i32", "l": ".i32", "q": ".i64"}

def parse_fmt(fmt):
    """struct format string -> (big: bool, [lean code,…]); native order ('' / '@' / '=') is
    little-endian on every supported platform (trusted base)."""
    big = False
    s = fmt
    if s and s[0] in "<>!=@":
        big = s[0] in ">!"
        s = s[1:]
    codes = []
    num = ""
    for ch in s:
        if ch.isdigit():
            num += ch
            continue
        if ch == " ":
            continue
        if ch not in CODES:
            raise ValueError("unsupported struct code %r in %r" % (ch, fmt))
        codes += [CODES[ch]] * (int(num) if num else 1)
        num = ""
    if num:
        raise ValueError("dangling count in %r" % fmt)
    return big, codes

def lean_fmt(fmt):
    big, codes = parse_fmt(fmt)
    return "⟨%s, [%s]⟩" % ("true" if big else "false", ", ".join(codes))

def lean_fmt_template(fmt):
    """'>{}H' -> fun n => ⟨true, List.replicate n .u16⟩ ; supports one '{}' directly before a code,
    with optional fixed codes around it."""
    m = re.fullmatch(r"([<>!=@]?)([A-Za-z0-9]*)\{\}([A-Za-z])([A-Za-z0-9]*)", fmt)
    if not m:
        raise ValueError("unsupported format template %r" % fmt)
    order, pre, code, post = m.groups()
    big = order in (">", "!")
    _, precodes = parse_fmt(pre)
    _, postcodes = parse_fmt(post)
    parts = []
    if precodes:
        parts.append("[%s]" % ", ".join(precodes))
    parts.append("List.replicate n %s" % CODES[code])
    if postcodes:
        parts.append("[%s]" % ", ".join(postcodes))
    return "fun n => ⟨%s, %s⟩" % ("true" if big else "false", " ++ ".join(parts))

def lean_bytes(b):
    return "[" + ", ".join(str(x) for x in b) + "]"

def ident(s):
    return re.sub(r"[^A-Za-z0-9_]", "_", s)

def inline_formats(modname, qualname):
    """format literals used as the first argument of struct.* calls (and of X.format(...) that
    feed them) inside the function `qualname` ('Class.method' or 'function'), in source order."""
    mod = importlib.import_module(modname)
    src = inspect.getsource(mod)
    tree = ast.parse(src)
    target = None
    parts = qualname.split(".")
    body = tree.body
    node = None
    for p in parts:
        node = None
        for n in body:
            if isinstance(n, (ast.FunctionDef, ast.ClassDef)) and n.name == p:
                node = n
                break
        if node is None:
            raise LookupError("%s: no %s" % (modname, qualname))
        body = node.body
    out = []
    cls_node = None
    if len(parts) == 2:
        cls_node = next((n for n in tree.body if isinstance(n, ast.ClassDef) and n.name == parts[0]), None)
    import struct as _struct
    def resolve_struct(expr):
        """format of a precompiled `struct.Struct` that `expr` names statically: a module-level constant, or a class
        attribute reached as self.X / cls.X / ClassName.X (a maintainer's "hoist the format into a Struct constant" keeps
        the regenerated model constant the same).  Instance attributes set in __init__ are not resolved."""
        try:
            if isinstance(expr, ast.Name):
                v = getattr(mod, expr.id, None)
            elif isinstance(expr, ast.Attribute) and isinstance(expr.value, ast.Name):
                base = expr.value.id
                owner = getattr(mod, parts[0], None) if base in ("self", "cls") and len(parts) == 2 else getattr(mod, base, None)
                v = owner.__dict__.get(expr.attr) if isinstance(owner, type) else getattr(owner, expr.attr, None) if owner is not None and not isinstance(owner, type) else None
                if isinstance(owner, type) and v is None:
                    v = next((k.__dict__[expr.attr] for k in owner.__mro__ if expr.attr in k.__dict__), None)
            else:
                return None
            return v.format if isinstance(v, _struct.Struct) else None
        except Exception:
            return None
    def helper_node(f):
        """a PRIVATE helper (name starts with '_', not a dunder) of the same module / class called as _h(...), self._h(...),
        cls._h(...) or ClassName._h(...): its formats count as written at the call site ("extract a helper function")"""
        name, scope = None, None
        if isinstance(f, ast.Name):
            name, scope = f.id, tree.body
        elif isinstance(f, ast.Attribute) and isinstance(f.value, ast.Name):
            name = f.attr
            if f.value.id in ("self", "cls") and cls_node is not None:
                scope = cls_node.body
            else:
                k = next((n for n in tree.body if isinstance(n, ast.ClassDef) and n.name == f.value.id), None)
                scope = k.body if k is not None else None
        if not name or scope is None or not name.startswith("_") or name.startswith("__"):
            return None
        return next((n for n in scope if isinstance(n, ast.FunctionDef) and n.name == name), None)
    def collect(fn_node, depth, key):
        class V(ast.NodeVisitor):
            def visit_Call(self, c):
                f = c.func
                pos = key + (c.lineno, c.col_offset)
                if isinstance(f, ast.Attribute) and isinstance(f.value, ast.Name) and f.value.id == "struct" \
                   and f.attr in ("pack", "unpack", "unpack_from", "calcsize", "Struct", "pack_into") and c.args:
                    a = c.args[0]
                    lit = None
                    if isinstance(a, ast.Constant) and isinstance(a.value, str):
                        lit = a.value
                    elif isinstance(a, ast.Call) and isinstance(a.func, ast.Attribute) and a.func.attr == "format" \
                            and isinstance(a.func.value, ast.Constant):
                        lit = a.func.value.value
                    elif isinstance(a, ast.JoinedStr):
                        lit = "".join(v.value if isinstance(v, ast.Constant) else "{}" for v in a.values)
                    if lit is not None:
                        out.append((pos, lit))
                elif isinstance(f, ast.Attribute) and f.attr in ("pack", "unpack", "unpack_from", "pack_into", "iter_unpack"):
                    fmt = resolve_struct(f.value)
                    if fmt is not None:
                        out.append((pos, fmt))
                    elif depth < 2:
                        h = helper_node(f)
                        if h is not None and h is not fn_node:
                            collect(h, depth + 1, pos)
                elif depth < 2:
                    h = helper_node(f)
                    if h is not None and h is not fn_node:
                        collect(h, depth + 1, pos)
                self.generic_visit(c)
        V().visit(fn_node)
    collect(node, 0, ())
    out.sort(key=lambda t: t[0])
    return [l for _, l in out]

# ---------------------------------------------------------------------------------------------
# TABLE: lean module name -> (python module, [ (lean name, kind, python expression) ])
# kinds: fmt | nat | bytes | nats | str | bool
# INLINE: lean module name -> [ (python module, qualname, lean prefix) ]
# Families add their entries in harness/extract_tables/*.py (merged below).
TABLE = {}
INLINE = {}
EXTRA = []

def load_tables():
    d = os.path.join(os.path.dirname(os.path.abspath(__file__)), "extract_tables")
    for fn in sorted(os.listdir(d)):
        if fn.endswith(".py") and not fn.startswith("_"):
            ns = {}
            exec(compile(open(os.path.join(d, fn)).read(), fn, "exec"), ns)
            for k, v in ns.get("TABLE", {}).items():
                if k in TABLE:
                    TABLE[k] = (TABLE[k][0], TABLE[k][1] + v[1])
                else:
                    TABLE[k] = v
            for k, v in ns.get("INLINE", {}).items():
                INLINE.setdefault(k, []).extend(v)
            EXTRA.extend(ns.get("EXTRA", []))

def emit_value(kind, val):
    if kind == "fmt":
        return "Fmt", lean_fmt(val)
    if kind == "fmtn":
        return "Nat → Fmt", lean_fmt_template(val)
    if kind == "nat":
        v = int(val)
        if v < 0:
            raise ValueError("negative constant")
        return "Nat", str(v)
    if kind == "bytes":
        return "Bytes", lean_bytes(bytes(val))
    if kind == "nats":
        return "List Nat", "[" + ", ".join(str(int(x)) for x in val) + "]"
    if kind == "natpairs":
        return "List (Nat × Nat)", "[" + ", ".join("(%d, %d)" % (int(a), int(b)) for a, b in val) + "]"
    if kind == "str":
        return "String", json.dumps(str(val), ensure_ascii=False)
    if kind == "strs":
        return "List String", "[" + ", ".join(json.dumps(str(x)) for x in val) + "]"
    if kind == "bool":
        return "Bool", "true" if val else "false"
    raise ValueError("unknown kind " + kind)

def generate():
    TABLE.clear(); INLINE.clear(); del EXTRA[:]
    load_tables()
    errors = []
    changed = []
    os.makedirs(GEN, exist_ok=True)
    for lean_mod in sorted(set(TABLE) | set(INLINE)):
        lines = []
        pymod = TABLE[lean_mod][0] if lean_mod in TABLE else INLINE[lean_mod][0][0]
        lines.append("-- GENERATED by harness/extract.py from %s — do not edit" % pymod)
        lines.append("import Acra.Py.Struct")
        lines.append("namespace Acra.Gen.%s" % lean_mod)
        lines.append("open Acra.Py")
        ok = True
        if lean_mod in TABLE:
            try:
                mod = importlib.import_module(pymod)
            except Exception as e:
                errors.append("%s: cannot import %s: %r" % (lean_mod, pymod, e))
                continue
            for name, kind, expr in TABLE[lean_mod][1]:
                try:
                    val = eval(expr, dict(mod.__dict__))
                    ty, txt = emit_value(kind, val)
                    lines.append("def %s : %s := %s" % (name, ty, txt))
                except Exception as e:
                    errors.append("%s.%s: %s -> %r" % (lean_mod, name, expr, e))
                    ok = False
        for (pm, qual, prefix) in INLINE.get(lean_mod, []):
            try:
                fmts = inline_formats(pm, qual)
                for i, f in enumerate(fmts):
                    if "{}" in f:
                        ty, txt = emit_value("fmtn", f)
                    else:
                        ty, txt = emit_value("fmt", f)
                    lines.append("def %s_fmt%d : %s := %s" % (prefix, i, ty, txt))
                lines.append("def %s_fmtCount : Nat := %d" % (prefix, len(fmts)))
            except Exception as e:
                errors.append("%s: inline formats of %s.%s: %r" % (lean_mod, pm, qual, e))
                ok = False
        lines.append("end Acra.Gen.%s" % lean_mod)
        text = "\n".join(lines) + "\n"
        path = os.path.join(GEN, lean_mod + ".lean")
        if not ok:
            continue            # leave the stale file; the error is reported
        old = open(path).read() if os.path.exists(path) else None
        if old != text:
            with open(path, "w") as f:
                f.write(text)
            changed.append(lean_mod)
    # extra generators (Golay tables, namespace bindings, …) registered by the tables
    for fn in EXTRA:
        try:
            c = fn(GEN)
            changed += c or []
        except Exception as e:
            errors.append("%s: %r" % (getattr(fn, "__name__", "extra"), e))
    # source translator: pure helper functions -> lean/Acra/Gen/Src/*.lean (harness/translate.py)
    try:
        try:
            from . import translate
        except ImportError:          # run as a script
            import translate
        e2, c2, _ = translate.generate()
        errors += e2
        changed += c2
        # whole codec methods, state-passing -> lean/Acra/Gen/Src/Cls/*.lean (harness/translate_methods.py)
        try:
            from . import translate_methods
        except ImportError:
            import translate_methods
        e3, c3, _ = translate_methods.generate()
        errors += e3
        changed += c3
    except Exception as e:
        errors.append("source translator: %r" % (e,))
    return errors, changed

def main():
    errors, changed = generate()
    print(json.dumps({"errors": errors, "changed": changed}))
    return 1 if errors else 0

if __name__ == "__main__":
    sys.exit(main())
