"""Adapter for `SimpleEthernet.AFDX` (family `afdx`).

`AFDX.__init__` starts with `raise Exception("No working")`, so NO object can be made through the constructor.
The line protocol's fresh object is therefore `AFDX.__new__(AFDX)` — an instance without any attribute, the only
kind of instance that can exist — and the constructor itself is reached through `call init [buf]` (on such an
instance) and through the function `afdx.new [buf]` (the plain call `AFDX(buf)`).  An attribute that does not
exist is printed `q<absent>`."""
from ..core import Adapter, register, FUNCS, Str
import AcraNetwork.SimpleEthernet as se

AFDX_FIELDS = ["type", "networkID", "equipmentID", "interfaceID", "vlink", "payload", "sequencenum"]
ABSENT = Str("<absent>")

def _bare():
    return se.AFDX.__new__(se.AFDX)

def _getter(f):
    return lambda o: getattr(o, f, ABSENT)

register(Adapter("AFDX", _bare, AFDX_FIELDS, types=[se.AFDX],
                 getters={f: _getter(f) for f in AFDX_FIELDS},
                 calls={"init": lambda o, *a: se.AFDX.__init__(o, *a),
                        "set_dstmac": lambda o, mac: o.set_dstmac(mac),
                        "unpacksrcmac": lambda o, mac: o.unpacksrcmac(mac)}))

FUNCS["afdx.new"] = lambda *a: se.AFDX(*a)
