"""Adapters for the MPEG family: MPEGTS.py, MPEG/PMT.py, MPEG/PES.py.

Floats cross the line protocol as their 64-bit IEEE-754 image (an int), so the Lean model of the
PTS helpers is compared with CPython bit for bit."""
import struct
from ..core import Adapter, register, FUNCS
import AcraNetwork.MPEGTS as mpegts
import AcraNetwork.MPEG.PMT as pmt
import AcraNetwork.MPEG.PES as pes

EXT_FIELDS = ["ltw_flag", "piecewise_rate_flag", "seamless_splice_flag", "ltw", "piecewise", "seamless_splice"]
AF_FIELDS = ["length", "discontinutiy", "random_access", "es_priority", "pcr_flag", "opcr_flag", "splicing_flag",
             "transpart_flag", "extension_flag", "pcr", "opcr", "splice_countdown", "private_data",
             "adaption_extension"]
PKT_FIELDS = ["sync", "pid", "tei", "pusi", "transport_priority", "tsc", "adaption_ctrl", "continuitycounter",
              "payload", "adaption_field"]
PMT_FIELDS = PKT_FIELDS + ["tableid", "syntax_indicator", "program_number", "version", "current_next_indicator",
                           "section", "last_section", "pcr_pid", "program_info_len", "streams", "descriptor_tags",
                           "_crc"]
PES_FIELDS = PKT_FIELDS + ["streamid", "pesdata", "extension_w1", "extension_w2", "header_data"]
STANAG_FIELDS = PES_FIELDS + ["stanag_counter", "_unknown", "_unknown2", "time_us"]

register(Adapter("MPEGAdaptionExtension", lambda: mpegts.MPEGAdaptionExtension(), EXT_FIELDS,
                 types=[mpegts.MPEGAdaptionExtension]))
register(Adapter("MPEGAdaption", lambda: mpegts.MPEGAdaption(), AF_FIELDS, types=[mpegts.MPEGAdaption]))
register(Adapter("MPEGPacket", lambda: mpegts.MPEGPacket(), PKT_FIELDS, types=[mpegts.MPEGPacket]))
register(Adapter("MPEGTS", lambda: mpegts.MPEGTS(), ["blocks"], types=[mpegts.MPEGTS]))
register(Adapter("DescriptorTag", lambda: pmt.DescriptorTag(), ["tag", "data"], types=[pmt.DescriptorTag]))
register(Adapter("PMTStream", lambda: pmt.PMTStream(), ["streamtype", "elementary_pid", "elementary_stream_descriptors"],
                 types=[pmt.PMTStream]))
register(Adapter("MPEGPacketPMT", lambda: pmt.MPEGPacketPMT(), PMT_FIELDS, types=[pmt.MPEGPacketPMT]))
register(Adapter("PES", lambda: pes.PES(), PES_FIELDS, types=[pes.PES]))
register(Adapter("STANAG4609", lambda: pes.STANAG4609(), STANAG_FIELDS, types=[pes.STANAG4609]))

# ----------------------------------------------------------------------------- floats as bit images
def f2b(x):
    return struct.unpack(">Q", struct.pack(">d", x))[0]

def b2f(n):
    return struct.unpack(">d", struct.pack(">Q", n))[0]

FUNCS["crc32mpeg2"] = lambda b: pmt.crc32mpeg2(b)
FUNCS["checksum_stanag"] = lambda b: pes.checksum_stanag(b)
FUNCS["pts_to_ts"] = lambda v: f2b(pes.pts_to_ts(v))
FUNCS["ts_to_pts"] = lambda bits: pes.ts_to_pts(b2f(bits))
FUNCS["ts_to_buf"] = lambda bits: pes.ts_to_buf(b2f(bits))
FUNCS["buf_to_ts"] = lambda b: f2b(pes.buf_to_ts(b))
