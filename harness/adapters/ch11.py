"""Adapters for the IRIG 106 Chapter 11 data-type payload classes (family ch11).

The intra-packet time stamps (`RTCTime` / `PTPTime`, owned by the ch10 family) are shown through
small view classes of this family (`IptsRTC`, `IptsPTP`) so that the canonical text of a payload
object does not depend on how another family prints those classes."""
from ..core import Adapter, register
import AcraNetwork.IRIG106.Chapter11 as ch11
import AcraNetwork.IRIG106.Chapter11.UART as uart
import AcraNetwork.IRIG106.Chapter11.MILSTD1553 as mil
import AcraNetwork.IRIG106.Chapter11.ARINC429 as arinc
import AcraNetwork.IRIG106.Chapter11.Analog as analog
import AcraNetwork.IRIG106.Chapter11.ComputerData as cgd
import AcraNetwork.IRIG106.Chapter11.PCM as pcm
import AcraNetwork.IRIG106.Chapter11.TimeDataFormat as tdf
import AcraNetwork.IRIG106.Chapter11.Video as video
import AcraNetwork.MPEGTS as mpegts


class RtcView(object):
    def __init__(self, t):
        self.count = t.count

class PtpView(object):
    def __init__(self, t):
        self.seconds, self.nanoseconds = t.seconds, t.nanoseconds

def ipts_view(o):
    t = o.ipts
    if t is None:
        return None
    if isinstance(t, ch11.RTCTime):
        return RtcView(t)
    if isinstance(t, ch11.PTPTime):
        return PtpView(t)
    return t

register(Adapter("IptsRTC", None, ["count"], types=[RtcView], build=lambda d: ch11.RTCTime(d["count"])))
register(Adapter("IptsPTP", None, ["seconds", "nanoseconds"], types=[PtpView],
                 build=lambda d: ch11.PTPTime(d["seconds"], d["nanoseconds"])))

IPTS = {"ipts": ipts_view}

# ------------------------------------------------------------------------------------------ UART
register(Adapter("UARTDataWord", lambda src=0, en=0: uart.UARTDataWord(src, en),
                 ["ipts", "parity_error", "subchannel", "datalength", "payload", "data_endianness"],
                 types=[uart.UARTDataWord], getters=IPTS))
register(Adapter("UARTDataPacket", lambda src=0, en=0: uart.UARTDataPacket(src, en),
                 ["uartwords", "data_endianness", "ipts_source"], types=[uart.UARTDataPacket],
                 getters={"ipts_source": lambda o: o._ipts_source},
                 calls={"append": lambda o, w: o.append(w)}))

# ------------------------------------------------------------------------------------------ 1553
register(Adapter("MILSTD1553Message", lambda src=0: mil.MILSTD1553Message(src),
                 ["ipts", "blockstatus", "gaptimes", "length", "message"], types=[mil.MILSTD1553Message], getters=IPTS))
register(Adapter("MILSTD1553DataPacket", lambda src=0: mil.MILSTD1553DataPacket(src),
                 ["messages", "msgcount", "ttb", "ipts_source"], types=[mil.MILSTD1553DataPacket],
                 getters={"ipts_source": lambda o: o._ipts_source},
                 calls={"append": lambda o, w: o.append(w)}))

# ------------------------------------------------------------------------------------------ ARINC-429
register(Adapter("ARINC429DataWord", lambda: arinc.ARINC429DataWord(),
                 ["gaptime", "format_error", "parity_error", "bus_speed", "bus", "payload"],
                 types=[arinc.ARINC429DataWord]))
register(Adapter("ARINC429DataPacket", lambda: arinc.ARINC429DataPacket(), ["msgcount", "arincwords"],
                 types=[arinc.ARINC429DataPacket], calls={"append": lambda o, w: o.append(w)}))

# ------------------------------------------------------------------------------------------ analog, computer data
register(Adapter("Analog", lambda: analog.Analog(), ["channel_specific_word", "data"], types=[analog.Analog]))
register(Adapter("ComputerGeneratedFormat0", lambda: cgd.ComputerGeneratedFormat0(), ["_csdw", "payload"],
                 types=[cgd.ComputerGeneratedFormat0]))
register(Adapter("ComputerGeneratedFormat1", lambda: cgd.ComputerGeneratedFormat1(),
                 ["_csdw", "payload", "frmt", "srcc", "rccver"], types=[cgd.ComputerGeneratedFormat1]))

# ------------------------------------------------------------------------------------------ PCM
register(Adapter("PCMMinorFrame", lambda src=0, thr=False, al=0: pcm.PCMMinorFrame(src, thr, al),
                 ["ipts", "throughput", "intra_packet_data_header", "minor_frame_data", "alignment", "syncword", "sfid"],
                 types=[pcm.PCMMinorFrame], getters=IPTS))
register(Adapter("PCMDataPacket", lambda src=0, sw=None, sz=None: pcm.PCMDataPacket(src, sw, sz),
                 ["channel_specific_word", "minor_frame_size_bytes", "syncword", "minor_frames", "ipts_source"],
                 types=[pcm.PCMDataPacket], getters={"ipts_source": lambda o: o._ipts_source},
                 calls={"append": lambda o, w: o.append(w)}))

# ------------------------------------------------------------------------------------------ time formats
def _set_sec(o, v):
    o.ptptime.seconds = v
def _set_ns(o, v):
    o.ptptime.nanoseconds = v
_TIME = dict(getters={"seconds": lambda o: o.ptptime.seconds, "nanoseconds": lambda o: o.ptptime.nanoseconds},
             setters={"seconds": _set_sec, "nanoseconds": _set_ns})
register(Adapter("TimeDataFormat1", lambda: tdf.TimeDataFormat1(), ["channel_specific_data", "seconds", "nanoseconds"],
                 types=[tdf.TimeDataFormat1], **_TIME))
register(Adapter("TimeDataFormat2", lambda: tdf.TimeDataFormat2(), ["channel_specific_data", "seconds", "nanoseconds"],
                 types=[tdf.TimeDataFormat2], **_TIME))

# ------------------------------------------------------------------------------------------ video format 2
# The nested MPEGTS object is printed as the list of its MPEGPacket blocks, each through the MPEG family's adapter
# (all header fields, payload, adaptation field with extension); `set mpegts [x<chunk>;…]` decodes every chunk with a
# new MPEGPacket() and installs a new MPEGTS holding them.  pack / == are the library's own (since the C04 extension
# the Lean model covers adaptation fields; there is no NotImplemented escape any more).
from . import mpeg as _mpeg_adapters          # registers the MPEGPacket / MPEGAdaption adapters used for the blocks

def _video_set_ts(o, chunks):
    ts = mpegts.MPEGTS()
    for c in chunks:
        p = mpegts.MPEGPacket()
        try:
            p.unpack(c)
        except Exception as e:
            raise Exception("bad chunk: %r" % (e,))
        ts.append(p)
    o.mpegts = ts

register(Adapter("VideoFormat2", lambda: video.VideoFormat2(), ["channel_specific_word", "datastream", "mpegts"],
                 types=[video.VideoFormat2],
                 getters={"mpegts": lambda o: list(o.mpegts.blocks)},
                 setters={"mpegts": _video_set_ts}))
