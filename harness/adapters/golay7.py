"""Adapters for the golay7 family: Golay, Chapter7.PTDP, Chapter7.PTFR and the Chapter 7 generators /
consumer loop (`F ch7.*`).  Value conventions: see lean/Acra/Drv/Golay7.lean."""
import itertools
from ..core import Adapter, register, FUNCS, Str, err_kind
import AcraNetwork.Golay as golay
import AcraNetwork.Chapter7 as ch7


class Fuel(Exception):
    """the generator produced more frames than any terminating run can (model: Err.fuel)"""


def _ek(e):
    return "fuel" if isinstance(e, Fuel) else err_kind(e)


# ---------------------------------------------------------------------------------------- Golay
def _tsum(t):
    return sum((i + 1) * x for i, x in enumerate(t))

register(Adapter(
    "Golay", lambda: golay.Golay(), ["SyndromeTable", "CorrectTable", "ErrorTable"], types=[golay.Golay],
    getters={"SyndromeTable": lambda o: _tsum(o.SyndromeTable), "CorrectTable": lambda o: _tsum(o.CorrectTable),
             "ErrorTable": lambda o: _tsum(o.ErrorTable)},
    calls={"encode": lambda o, v: o.encode(v),
           "encode_s": lambda o, v: o.encode(v, as_string=True),
           "decode": lambda o, v: o.decode(v),
           "errors": lambda o, v: o._errors(v),
           "onesincode": lambda o, c, n: golay.Golay._onesincode(c, n)}))

_G = golay.Golay()

def _g_errors(v):
    _G._initgolaydecode()
    return _G._errors(v)

def _g_tables():
    _G._initgolaydecode()
    return [list(_G.SyndromeTable), list(_G.CorrectTable), list(_G.ErrorTable)]

FUNCS["golay.encode"] = lambda v: golay.Golay().encode(v)
FUNCS["golay.encode_s"] = lambda v: golay.Golay().encode(v, as_string=True)
FUNCS["golay.decode"] = lambda v: _G.decode(v)
FUNCS["golay.errors"] = _g_errors
FUNCS["golay.tables"] = _g_tables

# ---------------------------------------------------------------------------------------- PTDP
PTDP_FIELDS = ["payload", "low_latency", "length", "content", "fragment"]
register(Adapter("PTDP", lambda: ch7.PTDP(), PTDP_FIELDS, types=[ch7.PTDP],
                 calls={"len": lambda o: len(o)}))

# ---------------------------------------------------------------------------------------- PTFR
PTFR_FIELDS = ["version", "streamid", "llp", "ptdp_offset", "length", "payload"]

def _new_ptfr(length=None):
    p = ch7.PTFR()
    if length is not None:
        p.length = length
    return p

def item_val(t):
    p, buf, e = t
    if p is not None:
        return p
    if buf is None:
        return [Str("len")]
    return [Str("rem"), bytes(buf)]

def run_gap(o, first, rem):
    """[items, arguments of the check_offsets calls, exception raised by the generator or None]"""
    checks = []
    orig = o.check_offsets
    def spy(act):
        checks.append(act)
        return orig(act)
    o.check_offsets = spy
    items, raised = [], None
    try:
        try:
            for t in o.get_aligned_payload(first, rem):
                items.append(item_val(t))
        except Exception as e:
            raised = Str(_ek(e))
    finally:
        del o.check_offsets
    return [items, checks, raised]

register(Adapter("PTFR", _new_ptfr, PTFR_FIELDS, types=[ch7.PTFR],
                 calls={"add_payload": lambda o, b, l=False: o.add_payload(b, l),
                        "check_offsets": lambda o, n: o.check_offsets(n),
                        "get_aligned_payload": run_gap}))

# ---------------------------------------------------------------------------------------- functions
def pkts_of(v):
    return [(bytes(b), l) for b, l in v]

def ptdps(pkts):
    return list(ch7.datapkts_to_ptdp(iter(pkts_of(pkts))))

def frames_of(L, sid, pkts):
    """the PTFR objects `datapkts_to_ptfr` yields; Fuel if it yields more frames than a
    terminating run can (every frame but the first of a spill consumes >= 1 byte of PTDP data)"""
    pk = pkts_of(pkts)
    bound = sum(len(b) + 7 * (len(b) // 2048 + 1) + 1 for b, _ in pk) + len(pk) + 4
    out = []
    for fr in ch7.datapkts_to_ptfr(iter(pk), L, sid):
        out.append(fr)
        if len(out) > bound:
            raise Fuel()
    return out

def encap(L, sid, pkts):
    frames = frames_of(L, sid, pkts)
    packed = []
    for f in frames:
        try:
            packed.append(f.pack())
        except Exception as e:
            packed.append(Str("err:" + _ek(e)))
    return [frames, packed]

def nollp(L, sid, pkts):
    """NoLLPOverflow observed on the REAL generator: every `add_payload(buffer, is_llp=True)` call that
    `datapkts_to_ptfr` makes finds room for len(buffer) + 1 bytes (the PTDP and its continuation byte) in
    the frame under construction; False as well when the generator fails (model: noLLPOverflowFrom)"""
    ok = [True]
    orig = ch7.PTFR.add_payload
    def spy(self, buffer, is_llp=False):
        if is_llp and len(buffer) + 1 + len(self._payload) > self.length:
            ok[0] = False
        return orig(self, buffer, is_llp)
    ch7.PTFR.add_payload = spy
    try:
        try:
            frames_of(L, sid, pkts)
        except Exception:
            ok[0] = False
    finally:
        ch7.PTFR.add_payload = orig
    return ok[0]

def consumer(L, frames):
    """the documented consumer loop: first frame get_aligned_payload(True, b""), then
    get_aligned_payload(False, leftover) with leftover = second component of the last (None, buf, e)."""
    out, rem, first, raised = [], b"", True, None
    for fb in frames:
        p = ch7.PTFR()
        p.length = L
        try:
            p.unpack(fb)
        except Exception as e:
            raised = Str(_ek(e))
            break
        try:
            for (pk, buf, e) in p.get_aligned_payload(first, rem):
                if pk is not None:
                    out.append(pk)
                else:
                    rem = buf
        except Exception as e:
            first = False
            raised = Str(_ek(e))
            break
        first = False
    return out, rem, raised

def decap(L, frames):
    out, rem, raised = consumer(L, [bytes(f) for f in frames])
    return [out, rem, raised]

def reassemble(ptdp_list):
    """FIRST / MIDDLE… / LAST per low-latency flag (the same definition as Model.Chapter7.reassemble)"""
    acc = {False: None, True: None}
    done = []
    for p in ptdp_list:
        ll = bool(p.low_latency)
        if p.fragment == ch7.PTDP_FRAGMENT_COMPLETE:
            done.append([bytes(p.payload), ll])
        elif p.fragment == ch7.PTDP_FRAGMENT_FIRST:
            acc[ll] = bytes(p.payload)
        elif p.fragment == ch7.PTDP_FRAGMENT_MIDDLE:
            if acc[ll] is not None:
                acc[ll] = acc[ll] + bytes(p.payload)
        else:
            if acc[ll] is not None:
                done.append([acc[ll] + bytes(p.payload), ll])
                acc[ll] = None
    return done

FUNCS["ch7.ptdps"] = ptdps
FUNCS["ch7.encap"] = encap
FUNCS["ch7.decap"] = decap
FUNCS["ch7.nollp"] = nollp
FUNCS["ch7.reassemble"] = reassemble
