"""Adapters for the ch10 family: Chapter10UDP, Chapter11 / Chapter10 (deprecated subclass), PTPTime,
RTCTime, FileParser on a temporary file (`Ch10File`), the PTPTime operators, the checksum helpers and
the C19 namespace probes (each probe runs in a fresh interpreter)."""
import os, sys, json, tempfile, subprocess, warnings
from ..core import Adapter, register, FUNCS, REPO, Str
import AcraNetwork.IRIG106.Chapter10.Chapter10UDP as udp
import AcraNetwork.IRIG106.Chapter11 as ch11
import AcraNetwork.IRIG106.Chapter10.FileParser as fileparser
with warnings.catch_warnings():
    warnings.simplefilter("ignore")
    import AcraNetwork.Chapter10.Chapter10 as legacy10

UDP_FIELDS = ["version", "format", "type", "channelID", "channelsequence", "sequence", "segmentoffset",
              "packetsize", "sourceid_len", "sourceid", "offset_pkt_start", "payload"]
register(Adapter("Chapter10UDP", lambda: udp.Chapter10UDP(), UDP_FIELDS, types=[udp.Chapter10UDP]))

register(Adapter("PTPTime", lambda: ch11.PTPTime(), ["seconds", "nanoseconds"], types=[ch11.PTPTime],
                 calls={"to_pinksheet_rtc": lambda o: o.to_pinksheet_rtc()}))
register(Adapter("RTCTime", lambda: ch11.RTCTime(), ["count"], types=[ch11.RTCTime],
                 calls={"to_rtc": lambda o: o.to_rtc(), "to_pinksheet_rtc": lambda o: o.to_pinksheet_rtc()}))

CH11_FIELDS = ["syncpattern", "channelID", "packetlen", "datalen", "datatypeversion", "sequence", "packetflag",
               "datatype", "relativetimecounter", "ptptime", "ts_source", "payload", "data_checksum_size",
               "filler", "has_secondary_header"]
register(Adapter("Chapter11", lambda: ch11.Chapter11(), CH11_FIELDS, types=[ch11.Chapter11]))
register(Adapter("Chapter10", lambda: legacy10.Chapter10(), CH11_FIELDS, types=[legacy10.Chapter10]))

# ------------------------------------------------------------------------------------------ files
class Ch10File:
    """one temporary Chapter 10 file and one FileParser opened on it for reading"""
    def __init__(self):
        fd, self.path = tempfile.mkstemp(prefix="acra_ch10_", suffix=".ch10")
        os.close(fd)
        self.fp = None
        self._open_reader(new=True)

    def _open_reader(self, new=False):
        if self.fp is not None:
            self.fp.close()
        if new or self.fp is None:
            self.fp = fileparser.FileParser(self.path, mode="rb")
        self.fp.__enter__()                      # a new fd; `_offset` is the FileParser's own

    def set_contents(self, b):
        self.fp.close()
        with open(self.path, "wb") as f:
            f.write(b)
        self._open_reader(new=True)
        return True

    def contents(self):
        with open(self.path, "rb") as f:
            return f.read()

    def write(self, mode, items):
        self.fp.close()
        try:
            w = fileparser.FileParser(self.path, mode=str(mode))
            with w as f:
                for x in items:
                    f.write(x)
        finally:
            self._open_reader()
        return None

    def truncate(self, n):
        self.fp.close()
        if n < os.path.getsize(self.path):
            os.truncate(self.path, n)
        self._open_reader()
        return None

    def next(self):
        try:
            return self.fp.next()
        except StopIteration:
            return None

    def iter(self):
        return list(self.fp)

    def reopen(self):
        self._open_reader(new=True)
        return None

    def __del__(self):
        try:
            if self.fp is not None:
                self.fp.close()
            os.unlink(self.path)
        except Exception:
            pass

register(Adapter("Ch10File", lambda: Ch10File(), ["data", "offset"], types=[Ch10File],
                 pack=lambda o: o.contents(), unpack=lambda o, b: o.set_contents(b),
                 getters={"data": lambda o: o.contents(), "offset": lambda o: o.fp._offset},
                 calls={"next": lambda o: o.next(), "iter": lambda o: o.iter(), "offset": lambda o: o.fp._offset,
                        "reopen": lambda o: o.reopen(), "truncate": lambda o, n: o.truncate(n),
                        "write": lambda o, mode, items: o.write(mode, items)}))

# ------------------------------------------------------------------------------------------ functions
def _p(s, n):
    return ch11.PTPTime(s, n)

FUNCS["ptp.add"] = lambda a, b, c, d: _p(a, b) + _p(c, d)
FUNCS["ptp.sub"] = lambda a, b, c, d: _p(a, b) - _p(c, d)
FUNCS["ptp.lt"] = lambda a, b, c, d: _p(a, b) < _p(c, d)
FUNCS["ptp.le"] = lambda a, b, c, d: _p(a, b) <= _p(c, d)
FUNCS["ptp.gt"] = lambda a, b, c, d: _p(a, b) > _p(c, d)
FUNCS["ptp.ge"] = lambda a, b, c, d: _p(a, b) >= _p(c, d)
FUNCS["ptp.eq"] = lambda a, b, c, d: _p(a, b) == _p(c, d)
FUNCS["ptp.ne"] = lambda a, b, c, d: _p(a, b) != _p(c, d)
FUNCS["ptp.pinksheet"] = lambda s, n: _p(s, n).to_pinksheet_rtc()
FUNCS["get_checksum_buf"] = lambda b: ch11.get_checksum_buf(b)
FUNCS["get_checksum_byte_buf"] = lambda b: ch11.get_checksum_byte_buf(b)

# ------------------------------------------------------------------------------------------ C19 probes
PROBE = r"""
import sys, json, warnings, importlib, types
sys.path.insert(0, sys.argv[1])
legacy_name, target_names = sys.argv[2], json.loads(sys.argv[3])
out = {"error": None}
try:
    with warnings.catch_warnings(record=True) as rec:
        warnings.simplefilter("always")
        L = importlib.import_module(legacy_name)
    out["warnings"] = sorted(set(w.category.__name__ for w in rec))
    pub = [n for n in vars(L) if not n.startswith("_")]
    same, other = [], []
    targets = [importlib.import_module(t) for t in target_names]
    for n in pub:
        v = getattr(L, n)
        if isinstance(v, types.ModuleType) and (v.__name__.startswith(legacy_name + ".")):
            continue                      # a legacy submodule bound on the legacy package by an earlier import
        if any(hasattr(T, n) and getattr(T, n) is v for T in targets):
            same.append(n)
        else:
            other.append(n)
    out["same"], out["other"] = sorted(same), sorted(other)
except BaseException as e:
    out["error"] = "%s: %s" % (type(e).__name__, e)
print(json.dumps(out))
"""

PROBE_STABLE = r"""
import sys, json, warnings, importlib, types
sys.path.insert(0, sys.argv[1])
mods = json.loads(sys.argv[2])
out = {"error": None, "changed": []}
try:
    with warnings.catch_warnings(record=True):
        warnings.simplefilter("always")
        first = {}
        for m in mods:                         # each legacy module as it is right after its own import ...
            L = importlib.import_module(m)
            first[m] = {n: v for n, v in vars(L).items() if not n.startswith("_") and not isinstance(v, types.ModuleType)}
        for m in mods:                         # ... and after every other legacy path has been imported too
            L = sys.modules[m]
            for n, v in sorted(first[m].items()):
                if not hasattr(L, n):
                    out["changed"].append([m, n, "gone"])
                elif getattr(L, n) is not v:
                    out["changed"].append([m, n, type(getattr(L, n)).__name__])
        # ... and after the library has been USED (a name that the new module re-binds lazily, on first use, leaves the
        # legacy module holding the stale object): where each legacy name lives in the new package now
        home = {}
        news = [M for k, M in sorted(sys.modules.items()) if k.startswith("AcraNetwork.IRIG106") and M is not None]
        for m in mods:
            for n, v in first[m].items():
                for T in news:
                    if n in vars(T) and vars(T)[n] is v:
                        home[(m, n)] = T
                        break
        for T in news:                         # exercise: build every class, call its argument-less public methods
            for n, C in sorted(vars(T).items()):
                if isinstance(C, type) and C.__module__ == T.__name__ and not n.startswith("_"):
                    try:
                        o = C()
                    except BaseException:
                        continue
                    for meth in ("pack", "to_rtc", "to_pinksheet_rtc", "__len__", "__repr__"):
                        f = getattr(o, meth, None)
                        if callable(f):
                            try:
                                f()
                            except BaseException:
                                pass
        for (m, n), T in sorted(home.items(), key=lambda t: (t[0][0], t[0][1])):
            if getattr(sys.modules[m], n, None) is not vars(T).get(n):
                out["changed"].append([m, n, "no longer %s.%s after the library was used" % (T.__name__, n)])
except BaseException as e:
    out["error"] = "%s: %s" % (type(e).__name__, e)
print(json.dumps(out))
"""

def ns_stable(order):
    """import the legacy modules in the given order in ONE fresh interpreter; a public name bound by a legacy module
    must still be the same object once all the other legacy paths have been imported (a sub-module import rebinds a
    package attribute of the same name)"""
    p = subprocess.run([sys.executable, "-c", PROBE_STABLE, REPO, json.dumps([str(x) for x in order])],
                       stdout=subprocess.PIPE, stderr=subprocess.PIPE, timeout=120,
                       env={k: v for k, v in os.environ.items() if k != "PYTHONWARNINGS"})
    try:
        return json.loads(p.stdout.decode().strip().split("\n")[-1])
    except Exception:
        return {"error": "probe failed: " + p.stderr.decode()[-300:], "changed": []}

_probe_cache = {}

def ns_targets(legacy_name):
    """target modules of the legacy module, read from the source with the translator's own parser"""
    from .. import extract
    ns = {}
    p = os.path.join(os.path.dirname(os.path.abspath(extract.__file__)), "extract_tables", "ch10.py")
    exec(compile(open(p).read(), p, "exec"), ns)
    legacy, targets, _, _ = ns["namespace_tables"]()
    for name, stmts in legacy:
        if name == legacy_name:
            return sorted(set(m for k, m, _ in stmts if k in ("star", "names")))
    return []

def ns_probe(legacy_name):
    """import the legacy module in a fresh interpreter; DeprecationWarning is allowed, anything else is
    reported; every public name is compared by identity with the target module's attribute"""
    legacy_name = str(legacy_name)
    if legacy_name in _probe_cache:
        return _probe_cache[legacy_name]
    tg = ns_targets(legacy_name)
    p = subprocess.run([sys.executable, "-c", PROBE, REPO, legacy_name, json.dumps(tg)],
                       stdout=subprocess.PIPE, stderr=subprocess.PIPE, timeout=120,
                       env={k: v for k, v in os.environ.items() if k != "PYTHONWARNINGS"})
    try:
        out = json.loads(p.stdout.decode().strip().split("\n")[-1])
    except Exception:
        out = {"error": "probe failed: " + p.stderr.decode()[-300:]}
    _probe_cache[legacy_name] = out
    return out

def _ns(field):
    def f(L):
        r = ns_probe(L)
        if r.get("error"):
            raise RuntimeError(r["error"])
        return [Str(x) for x in r[field]]
    return f

FUNCS["ns.same"] = _ns("same")
FUNCS["ns.other"] = _ns("other")
FUNCS["ns.warnings"] = _ns("warnings")

def _ns_modules():
    d = os.path.join(REPO, "AcraNetwork", "Chapter10")
    out = []
    for fn in sorted(os.listdir(d)):
        if fn.endswith(".py"):
            out.append("AcraNetwork.Chapter10" if fn == "__init__.py" else "AcraNetwork.Chapter10." + fn[:-3])
    return [Str(x) for x in sorted(out)]
FUNCS["ns.modules"] = _ns_modules
