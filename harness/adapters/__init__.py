"""Importing this package registers every class adapter with harness.core."""
import importlib, pkgutil, os
for m in sorted(pkgutil.iter_modules([os.path.dirname(__file__)]), key=lambda m: m.name):
    if not m.name.startswith("_"):
        importlib.import_module(__name__ + "." + m.name)
