"""Adapters for the FTI payload codecs: iNetX, IENA*, iNET, NPD, ParserAligned."""
from ..core import Adapter, register
import AcraNetwork.iNetX as inetx

register(Adapter(
    "iNetX", lambda: inetx.iNetX(),
    ["inetxcontrol", "streamid", "sequence", "packetlen", "ptptimeseconds", "ptptimenanoseconds", "pif", "payload"],
    types=[inetx.iNetX]))

import AcraNetwork.IENA as iena
IENA_FIELDS = ["key", "size", "timeusec", "keystatus", "status", "sequence", "endfield", "payload", "lengthError"]
register(Adapter("IENA", lambda: iena.IENA(), IENA_FIELDS, types=[iena.IENA]))
register(Adapter("MParameter", None, ["paramid", "delay", "dataset"], types=[iena.MParameter],
                 build=lambda d: iena.MParameter(**d)))
register(Adapter("IENAM", lambda: iena.IENAM(), IENA_FIELDS + ["parameters"], types=[iena.IENAM]))

import time as _time
from ..core import FUNCS
def _iena_time(ts, us, soy):
    o = iena.IENA()
    real_soy = int(_time.mktime(o._startOfYear.timetuple()))
    if real_soy != soy:
        raise RuntimeError("start of year changed between generation and execution")
    o.setPacketTime(ts, us)
    return [o.timeusec, o._getPacketTime()]
FUNCS["iena.time"] = _iena_time
