"""Adapters for the FTI payload codecs: iNetX, IENA*, iNET, NPD, ParserAligned."""
from ..core import Adapter, register
import AcraNetwork.iNetX as inetx

register(Adapter(
    "iNetX", lambda: inetx.iNetX(),
    ["inetxcontrol", "streamid", "sequence", "packetlen", "ptptimeseconds", "ptptimenanoseconds", "pif", "payload"],
    types=[inetx.iNetX]))
