"""Adapters for the `search` family: pure helper functions exposed as `F` lines.

    kmp.partial p            KMP().partial(p)
    kmp.search t p           KMP().search(t, p)
    bmh.search t p           string_matching_boyer_moore_horspool(t, p)
    swap b n                 endianness_swap(b, n)                      (bytearray -> bytes)
    samdec.udp file          list(SamDecPcap(<temp file holding the bytes>)._get_data())
    samdec.frames file       the frames SamDecPcap(<temp file>).frames() yields, and the exception kind
                             that ended the iteration (None when it ended normally)

The SAM/DEC functions write the capture to a private temporary directory that is removed again; the
library prints a line on stdout when it falls out of alignment, which is swallowed here.
"""
import os, io, tempfile, shutil, contextlib
from ..core import Adapter, register, FUNCS, err_kind
import AcraNetwork
import AcraNetwork.SamDec008 as samdec


class Frames:
    """result of draining SamDecPcap.frames(): what was yielded and how the iteration ended"""
    def __init__(self, frames, err):
        self.frames, self.err = frames, err

register(Adapter("Frames", None, ["frames", "err"], types=[Frames]))


def _kmp_partial(p):
    return AcraNetwork.KMP().partial(p)

def _kmp_search(t, p):
    return AcraNetwork.KMP().search(t, p)

def _bmh(t, p):
    if len(p) == 0 and len(t) > 0:
        # the real function never returns on an empty pattern (DESIGN §8); do not call it
        raise RuntimeError("refusing to call Horspool with an empty pattern")
    return samdec.string_matching_boyer_moore_horspool(t, p)

def _swap(b, n):
    return bytes(AcraNetwork.endianness_swap(b, n))

@contextlib.contextmanager
def capture_file(data):
    d = tempfile.mkdtemp(prefix="acra-samdec-")
    try:
        p = os.path.join(d, "capture.pcap")
        with open(p, "wb") as f:
            f.write(data)
        yield p
    finally:
        shutil.rmtree(d, ignore_errors=True)

def drain_frames(data):
    """-> (frames, error kind or None)"""
    out = []
    with capture_file(data) as p, contextlib.redirect_stdout(io.StringIO()):
        s = None
        try:
            s = samdec.SamDecPcap(p)
            for fr in s.frames():
                out.append(bytes(fr))
        except Exception as e:
            return out, err_kind(e)
        finally:
            if s is not None:
                s.close()
    return out, None

def _samdec_frames(data):
    fs, e = drain_frames(data)
    return Frames(fs, e)

def _samdec_udp(data):
    with capture_file(data) as p:
        s = samdec.SamDecPcap(p)
        try:
            return [bytes(x) for x in s._get_data()]
        finally:
            s.close()

FUNCS["kmp.partial"] = _kmp_partial
FUNCS["kmp.search"] = _kmp_search
FUNCS["bmh.search"] = _bmh
FUNCS["swap"] = _swap
FUNCS["samdec.udp"] = _samdec_udp
FUNCS["samdec.frames"] = _samdec_frames
