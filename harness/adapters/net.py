"""Adapters for the `net` family: SimpleEthernet (Ethernet, IP, UDP, ICMP, ARP, helper functions,
IGMPv3, combine_ip_fragments) and Pcap (PcapRecord, Pcap files).

IP addresses are the library's own dotted-quad strings (`q1.2.3.4`); nothing is converted here.

`PcapFile` drives a real file under a private `tempfile.mkdtemp()` directory (removed at exit).  Its
calls return an exception of the library as the *value* "err:<kind>", because the model specifies
the state after every call (see lean/Acra/Drv/Net.lean)."""
import os, atexit, shutil, tempfile, itertools, zlib
from ..core import Adapter, register, FUNCS, err_kind, Timeout
import AcraNetwork.SimpleEthernet as se
import AcraNetwork.Pcap as pcap

# ------------------------------------------------------------------------------------------ Ethernet
ETH_FIELDS = ["type", "srcmac", "dstmac", "payload", "vlan", "vlantag"]

def _eth_get_type(o):
    return int(o.type)          # the default is an IntEnum member

register(Adapter("Ethernet", lambda: se.Ethernet(), ETH_FIELDS, types=[se.Ethernet],
                 getters={"type": _eth_get_type}))
register(Adapter("EthernetFCS", lambda: se.Ethernet(), ETH_FIELDS,
                 pack=lambda o, *a: o.pack(*(a or (True,))),
                 unpack=lambda o, b, *a: o.unpack(b, *(a or (True,))),
                 getters={"type": _eth_get_type}))

# ------------------------------------------------------------------------------------------ IP / UDP / ICMP / ARP
IP_FIELDS = ["srcip", "dstip", "len", "flags", "fragment_offset", "protocol", "payload", "version", "ihl",
             "dscp", "id", "ttl"]
register(Adapter("IP", lambda: se.IP(), IP_FIELDS, types=[se.IP, se.IPv4]))
register(Adapter("UDP", lambda: se.UDP(), ["srcport", "dstport", "len", "payload"], types=[se.UDP]))
register(Adapter("ICMP", lambda: se.ICMP(), ["type", "code", "request_id", "request_sequence", "payload"],
                 types=[se.ICMP]))
ARP_FIELDS = ["hardware_type", "protocol_type", "hardware_length", "protocol_length", "operation", "srcmac",
              "dstmac", "srcip", "dstip"]
register(Adapter("ARP", lambda: se.ARP(), ARP_FIELDS, types=[se.ARP],
                 getters={"protocol_type": lambda o: int(o.protocol_type)}))

# ------------------------------------------------------------------------------------------ functions
FUNCS["pack48"] = se.pack48
FUNCS["unpack48"] = se.unpack48
FUNCS["ip_calc_checksum"] = se.ip_calc_checksum
FUNCS["crc32"] = lambda b: zlib.crc32(b) & 0xFFFFFFFF
FUNCS["ones_comp_add16"] = se.ones_comp_add16
FUNCS["igmp.membership_query"] = lambda: se.IGMPv3.membership_query()
FUNCS["igmp.join_groups"] = lambda groups: se.IGMPv3.join_groups(groups)
FUNCS["combine_ip_fragments"] = lambda packets: se.combine_ip_fragments(packets)

# ------------------------------------------------------------------------------------------ pcap
REC_FIELDS = ["sec", "usec", "incl_len", "orig_len", "payload"]
# `packet` is an alias property of `payload`: accepted by `set`, not printed twice
register(Adapter("PcapRecord", lambda: pcap.PcapRecord(), REC_FIELDS, types=[pcap.PcapRecord],
                 setters={"packet": lambda o, v: setattr(o, "packet", v)}))

register(Adapter("Pcap", None,
                 ["mode", "magic", "versionmaj", "versionmin", "zone", "sigfigs", "snaplen", "network", "filesize",
                  "closed"], types=[pcap.Pcap], getters={"closed": lambda o: o.fopen.closed}))

_BASE = [None]
_COUNTER = itertools.count()

def _base_dir():
    if _BASE[0] is None or not os.path.isdir(_BASE[0]):
        _BASE[0] = tempfile.mkdtemp(prefix="acra-verif-pcap-")
        atexit.register(shutil.rmtree, _BASE[0], True)
    return _BASE[0]

def cleanup():
    if _BASE[0] is not None:
        shutil.rmtree(_BASE[0], True)
        _BASE[0] = None

class PcapFS(object):
    """one path (initially absent) and at most one Pcap object on it"""
    def __init__(self):
        self.path = os.path.join(_base_dir(), "f%d.pcap" % next(_COUNTER))
        self.p = None

    def __del__(self):
        try:
            self._shut()
            if os.path.exists(self.path):
                os.unlink(self.path)
        except Exception:
            pass

    def _shut(self):
        if self.p is not None:
            try:
                self._obj().close()
            except Exception:
                pass

    # -- observation
    @property
    def file(self):
        if self.p is not None and not self.p.fopen.closed and self.p.mode != "r":
            self._obj().flush()
        if not os.path.exists(self.path):
            return None
        with open(self.path, "rb") as f:
            return f.read()

    @property
    def pcap(self):
        return self.p

    def _obj(self):
        if self.p is None:
            raise AttributeError("no Pcap object")
        return self.p

    # -- library operations
    def open(self, mode):
        self._shut()
        self.p = None
        self.p = pcap.Pcap(self.path, mode=mode)

    def write(self, rec):
        self._obj().write(rec)

    def close(self):
        self._obj().close()

    def flush(self):
        self._obj().flush()

    def next(self):
        return next(self._obj())

    def readall(self):
        return list(self._obj())

    def getitem(self, i):
        return self._obj()[i]

    # -- harness-level operations on the file (the crash model); they close the object first
    def truncate(self, t):
        self._shut()
        os.truncate(self.path, t)

    def setfile(self, b):
        self._shut()
        with open(self.path, "wb") as f:
            f.write(b)

    def delete(self):
        self._shut()
        if os.path.exists(self.path):
            os.unlink(self.path)

def _soft(fn):
    def run(o, *a):
        try:
            return fn(o, *a)
        except Timeout:
            raise
        except StopIteration:
            return "err:stopiteration"
        except Exception as e:
            return "err:" + err_kind(e)
    return run

register(Adapter("PcapFile", lambda: PcapFS(), ["file", "pcap"], types=[PcapFS],
                 calls={m: _soft(getattr(PcapFS, m)) for m in
                        ("open", "write", "close", "flush", "next", "readall", "getitem", "truncate", "setfile",
                         "delete")}))
