"""Adapters for the `extra` family: MPEG/H264.py (H264, NAL), MPEG/ADTS.py, MPEG/STANAG4609.py (STANAG4609_SEI),
ParserAligned.ARINC429, SimpleEthernet.IPv6, and the pure functions of ptptime.py / nanotime.py.

Floats cross the line protocol as `F64{bits=<IEEE-754 image>}`, datetimes as `DT{year=…,…,microsecond=…}`,
ptptime/nanotime objects as `PT{…,nanosecond=…,leapyear=…}`, nanotime.timedelta as `TD{…}`.  The wrappers below
exist so that no global rule for `float` / `datetime` is added to the shared canonicaliser."""
import struct, datetime
from ..core import Adapter, register, FUNCS
import AcraNetwork.MPEG.H264 as h264
import AcraNetwork.MPEG.ADTS as adts
import AcraNetwork.MPEG.STANAG4609 as sei
import AcraNetwork.ParserAligned as pa
import AcraNetwork.SimpleEthernet as se
import AcraNetwork.ptptime as ptp
import AcraNetwork.nanotime as nano

def f2b(x):
    return struct.unpack(">Q", struct.pack(">d", x))[0]

def b2f(n):
    return struct.unpack(">d", struct.pack(">Q", n))[0]

class F64:
    """a float on its way to the canonical text"""
    def __init__(self, x):
        self.bits = f2b(x)

class DTBox:
    def __init__(self, d):
        self.d = d

class PTBox:
    def __init__(self, t):
        self.t = t

class TDBox:
    def __init__(self, d):
        self.d = d

register(Adapter("F64", None, ["bits"], types=[F64], build=lambda d: b2f(d["bits"])))
_DT = ["year", "month", "day", "hour", "minute", "second", "microsecond"]
register(Adapter("DT", None, _DT, types=[DTBox], getters={k: (lambda o, k=k: getattr(o.d, k)) for k in _DT},
                 build=lambda d: datetime.datetime(*[d[k] for k in _DT])))
_PT = _DT + ["nanosecond", "leapyear"]
register(Adapter("PT", None, _PT, types=[PTBox],
                 getters={k: (lambda o, k=k: getattr(o.t, k, False if k == "leapyear" else 0)) for k in _PT}))
_TD = ["days", "seconds", "microseconds", "nanoseconds"]
register(Adapter("TD", None, _TD, types=[TDBox], getters={k: (lambda o, k=k: getattr(o.d, k)) for k in _TD}))

def _num(x):
    """attribute value -> something the canonicaliser prints: floats and datetimes are boxed"""
    if isinstance(x, float):
        return F64(x)
    if isinstance(x, datetime.datetime):
        return DTBox(x)
    return x

def _boxed(fields):
    return {k: (lambda o, k=k: _num(getattr(o, k))) for k in fields}

# ------------------------------------------------------------------------------------------ decoders
SEI_FIELDS = ["payloadtype", "payloadsize", "unregdata", "status", "seconds", "microseconds", "nanoseconds",
              "time", "stanag"]
register(Adapter("STANAG4609_SEI", lambda: sei.STANAG4609_SEI(), SEI_FIELDS, types=[sei.STANAG4609_SEI],
                 getters=_boxed(["seconds", "time"])))

ADTS_FIELDS = ["aac", "version", "sampling_freq", "_length", "no_crc"]
register(Adapter("ADTS", lambda: adts.ADTS(), ADTS_FIELDS, types=[adts.ADTS]))

register(Adapter("NAL", lambda: h264.NAL(), ["type", "size", "sei", "offset"], types=[h264.NAL]))
register(Adapter("H264", lambda: h264.H264(), ["nals"], types=[h264.H264]))

A429_FIELDS = ["parity", "ssm", "data", "sdi", "label"]
register(Adapter("ParserAlignedARINC429", lambda: pa.ARINC429(), A429_FIELDS, types=[pa.ARINC429],
                 getters=_boxed(A429_FIELDS)))

IPV6_FIELDS = ["version", "traffic_class", "flow_label", "len", "next_header", "hop_limit", "srcip", "dstip", "payload"]
register(Adapter("IPv6", lambda: se.IPv6(), IPV6_FIELDS, types=[se.IPv6]))

# ------------------------------------------------------------------------------------------ time helpers
def _pt(y, mo, d, h, mi, s, us, ns, leap):
    return ptp.ptptime(y, mo, d, h, mi, s, us, ns, leapyear=leap)

class _Year:
    def __init__(self, y):
        self.year = y

FUNCS["xt.leap"] = lambda y: ptp.getLeapYear(_Year(y))
FUNCS["xt.bcd2int"] = lambda a: ptp.bcdTointConvert(a)
FUNCS["xt.digitsplit"] = lambda a, n: [F64(x) for x in ptp.digitSplit(a, n)]
def _bcd4(x):
    a = ptp.digitSplit(x, 4)
    return ptp.intTobcdConvert({12: a[3], 8: a[2], 4: a[1], 0: a[0]})
FUNCS["xt.bcd4"] = _bcd4
FUNCS["xt.timedelta"] = lambda d, s, us, ns: TDBox(nano.timedelta(days=d, seconds=s, microseconds=us, nanoseconds=ns))
FUNCS["xt.total_seconds"] = lambda *a: _pt(*a).total_seconds
FUNCS["xt.ptp"] = lambda *a: _pt(*a).ptp
FUNCS["xt.iena"] = lambda *a: _pt(*a).iena
FUNCS["xt.sbi"] = lambda *a: _pt(*a).sbi
FUNCS["xt.irigtime"] = lambda *a: list(_pt(*a).irigtime())
FUNCS["xt.fromptp"] = lambda p, leap: PTBox(ptp.timefromptp(p, leap))
FUNCS["xt.fromsbi"] = lambda s: PTBox(ptp.timefromsbi(s))
FUNCS["xt.fromiena"] = lambda i, y: PTBox(ptp.timefromiena(i, y))
def _add(y, mo, d, h, mi, s, us, ns, leap, dd, ds, dus, dns):
    t = nano.nanotime(y, mo, d, h, mi, s, us, ns)
    return PTBox(t + nano.timedelta(days=dd, seconds=ds, microseconds=dus, nanoseconds=dns))
FUNCS["xt.add"] = _add
