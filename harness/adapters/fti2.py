"""Adapters for the remaining FTI payload codecs: IENAQ/D/N, iNETPackage/iNET, the NPD segment classes,
NPD, ParserAlignedBlock/Packet."""
import struct, socket
from ..core import Adapter, register
from .fti import IENA_FIELDS
import AcraNetwork.IENA as iena
import AcraNetwork.iNET as inet
import AcraNetwork.NPD as npd
import AcraNetwork.ParserAligned as pa

# ----------------------------------------------------------------------------------- IENA-Q/D/N
register(Adapter("QParameter", None, ["paramid", "dataset"], types=[iena.QParameter],
                 build=lambda d: iena.QParameter(**d)))
register(Adapter("DParameter", None, ["paramid", "delay", "dwords"], types=[iena.DParameter],
                 build=lambda d: iena.DParameter(**d)))
register(Adapter("NParameter", None, ["paramid", "dwords"], types=[iena.NParameter],
                 build=lambda d: iena.NParameter(**d)))
register(Adapter("IENAQ", lambda: iena.IENAQ(), IENA_FIELDS + ["parameters"], types=[iena.IENAQ]))
register(Adapter("IENAD", lambda: iena.IENAD(), IENA_FIELDS + ["parameters"], types=[iena.IENAD]))
register(Adapter("IENAN", lambda: iena.IENAN(), IENA_FIELDS + ["parameters"], types=[iena.IENAN]))

# ----------------------------------------------------------------------------------- iNET
# private attributes that pack/unpack write are observed too (prefixed with '_' on the wire)
register(Adapter("iNETPackage", lambda: inet.iNETPackage(),
                 ["definitionID", "flags", "_length", "timedelta", "payload"], types=[inet.iNETPackage]))
register(Adapter("iNET", lambda: inet.iNET(),
                 ["flags", "type", "_option_wc", "version", "definition_ID", "sequence", "_length", "ptptimeseconds",
                  "ptptimenanoseconds", "app_fields", "_payload", "packages"], types=[inet.iNET]))

# ----------------------------------------------------------------------------------- NPD
SEG_BASE = ["timedelta", "segmentlen", "errorcode", "flags", "payload"]
register(Adapter("NPDSegment", lambda: npd.NPDSegment(), SEG_BASE, types=[npd.NPDSegment]))
register(Adapter("PCMPacketizer", lambda: npd.PCMPacketizer(), SEG_BASE, types=[npd.PCMPacketizer]))
register(Adapter("A429Segment", lambda: npd.A429Segment(), SEG_BASE, types=[npd.A429Segment]))
register(Adapter("ACQSegment", lambda: npd.ACQSegment(), SEG_BASE + ["sfid", "cal", "words"], types=[npd.ACQSegment]))
register(Adapter("RS232Segment", lambda: npd.RS232Segment(), SEG_BASE + ["block_status", "sync_bytes", "data"],
                 types=[npd.RS232Segment]))
register(Adapter("MIL1553Segment", lambda: npd.MIL1553Segment(), SEG_BASE + ["blockstatus", "gap1", "gap2", "data"],
                 types=[npd.MIL1553Segment]))

def _mcast_get(o):
    """the dotted-quad string as the 32-bit value; None for a string inet_aton rejects"""
    try:
        return int.from_bytes(socket.inet_aton(o.mcastaddr), "big")
    except (OSError, TypeError):
        return None

def _mcast_set(o, v):
    o.mcastaddr = "" if v is None else socket.inet_ntoa(struct.pack(">I", v))

register(Adapter("NPD", lambda: npd.NPD(),
                 ["version", "hdrlen", "datatype", "packetlen", "cfgcnt", "flags", "sequence", "datasrcid", "mcastaddr",
                  "timestamp", "segments"], types=[npd.NPD],
                 getters={"mcastaddr": _mcast_get}, setters={"mcastaddr": _mcast_set}))

# ----------------------------------------------------------------------------------- ParserAligned
register(Adapter("ParserAlignedBlock", lambda: pa.ParserAlignedBlock(),
                 ["error", "errorcode", "quadbytes", "messagecount", "busid", "elapsedtime", "payload"],
                 types=[pa.ParserAlignedBlock]))
register(Adapter("ParserAlignedPacket", lambda: pa.ParserAlignedPacket(), ["parserblocks", "numberofblocks"],
                 types=[pa.ParserAlignedPacket]))
