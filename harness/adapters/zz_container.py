"""The small methods that ride on the `call` / `set` ops of classes whose adapters are registered elsewhere
(this module sorts last, so every adapter exists when it is imported), and three free functions.
`len` / `getitem <int>` need nothing here: harness.core runs `len(obj)` / `obj[i]` on the real object.

  iNetX.setPacketTime(ts[, ns])                     call setPacketTime
  IENA*.n2 / .streamid  (properties, both ways)      call n2 · call streamid · set n2 v · set streamid v
  PcapRecord.set_current_time / setCurrentTime       call set_current_time <bits>   — `time.time` as seen by
        AcraNetwork.Pcap is replaced for the duration of the call by a clock that returns the binary64 whose bit
        image is the argument (the method has no other input)
  PCMMinorFrame.payload (property)                   call payload
  MPEGTS.NumberOfBlocks / FirstCount / LastCount     call …   — they raise DeprecationWarning, which has no kind in
        the models' error enumeration: that outcome (and only that) is printed as the value qDeprecationWarning
  Golay._onesincode_old                              call onesincode_old code size
  F mactoreadable <int> · F buf_to_printable <bytes> · F bytes_to_ascii <bytes>    (the last two answer the
        string's code points as bytes, Latin-1: the strings contain spaces and newlines)
"""
import struct
from ..core import ADAPTERS, FUNCS

def _calls(name, **kw):
    ADAPTERS[name].calls.update(kw)

# ---------------------------------------------------------------------------------------------- iNetX / IENA
_calls("iNetX", setPacketTime=lambda o, *a: o.setPacketTime(*a))

for _n in ("IENA", "IENAM", "IENAQ", "IENAD", "IENAN"):
    _calls(_n, n2=lambda o: o.n2, streamid=lambda o: o.streamid)
    ADAPTERS[_n].setters["n2"] = lambda o, v: setattr(o, "n2", v)
    ADAPTERS[_n].setters["streamid"] = lambda o, v: setattr(o, "streamid", v)

# ---------------------------------------------------------------------------------------------- PcapRecord
import AcraNetwork.Pcap as _pcap

class _Clock:
    """stands in for the module `time` inside AcraNetwork.Pcap while set_current_time runs"""
    def __init__(self, real, value):
        self._real, self._value = real, value
    def time(self):
        return self._value
    def __getattr__(self, k):
        return getattr(self._real, k)

def _with_clock(method):
    def run(o, bits):
        value = struct.unpack(">d", struct.pack(">Q", bits))[0]
        real = _pcap.time
        _pcap.time = _Clock(real, value)
        try:
            return getattr(o, method)()
        finally:
            _pcap.time = real
    return run

_calls("PcapRecord", set_current_time=_with_clock("set_current_time"), setCurrentTime=_with_clock("setCurrentTime"))

# ---------------------------------------------------------------------------------------------- Chapter 11, MPEG
_calls("PCMMinorFrame", payload=lambda o: o.payload)

def _deprecated(method):
    def run(o):
        try:
            getattr(o, method)()
        except DeprecationWarning:
            return "DeprecationWarning"
        return "returned"
    return run

_calls("MPEGTS", NumberOfBlocks=_deprecated("NumberOfBlocks"), FirstCount=_deprecated("FirstCount"),
       LastCount=_deprecated("LastCount"))

import AcraNetwork.Golay as _golay
_calls("Golay", onesincode_old=lambda o, code, size: o._onesincode_old(code, size))

# ---------------------------------------------------------------------------------------------- free functions
import AcraNetwork.SimpleEthernet as _se
import AcraNetwork.IRIG106.Chapter11 as _ch11
import AcraNetwork.MPEG.PMT as _pmt
FUNCS["mactoreadable"] = lambda mac: _se.mactoreadable(mac)
FUNCS["buf_to_printable"] = lambda b: _ch11.buf_to_printable(b).encode("latin-1")
FUNCS["bytes_to_ascii"] = lambda b: _pmt.bytes_to_ascii(b).encode("latin-1")

# ---------------------------------------------------------------------------------------------- iteration cursor
# `call iter` = iter(obj) (`__iter__` alone: rewinds / creates `_index`), `call next` = obj.next() (a direct call of the
# public method, outside any loop); the op `iter` of the line protocol is a complete `for` loop.
CURSOR_CLASSES = ("IENAM", "IENAQ", "IENAD", "IENAN", "NPD", "ParserAlignedPacket", "ARINC429DataPacket",
                  "MILSTD1553DataPacket", "UARTDataPacket", "PCMDataPacket", "MPEGTS")
def _iter_only(o):
    iter(o)
    return None
for _n in CURSOR_CLASSES:
    _calls(_n, next=lambda o: o.next(), iter=_iter_only)
