"""
The per-property check: regeneration -> proof + axiom audit -> correspondence -> oracle search
-> verdict, evidence and replay files.  See DESIGN.md §2 for the verdict table.
"""
import os, sys, json, time, subprocess, re, fcntl, glob, hashlib, importlib, traceback
from . import core

ALLOWED_AXIOMS = {"propext", "Classical.choice", "Quot.sound"}
FORBIDDEN = re.compile(r"\b(sorry|admit|native_decide|bv_decide|implemented_by|unsafe)\b|^\s*axiom\s|maxHeartbeats\s+0")

TRUSTED_BASE = [
    "Lean 4.33.0 kernel (leanchecker re-check in the thorough tier)",
    "axioms allowed in any property theorem: propext, Classical.choice, Quot.sound (audited by #print-axioms-style collection on every run)",
    "harness/extract.py regenerates lean/Acra/Gen/*.lean (constants, struct formats, tables) from /repo on every run",
    "harness/translate.py translates the current source of the pure helper functions of the SRC tables to lean/Acra/Gen/Src/*.lean on every run (restricted subset, refuses anything else; semantics in lean/Acra/Py/IntOps.lean); the theorems src_* tie each translation to the hand-written model for all inputs",
    "harness/translate_methods.py translates whole codec methods (pack / unpack / __eq__ of the classes of the METHODS tables) state-passing to lean/Acra/Gen/Src/Cls/*.lean on every run, over an object structure generated from __init__ under the typing assumption that every carried attribute holds a value of its declared type (never None); the theorems src_<Class>_<method> (Props/Cxx/SrcTieCls.lean) tie each to the hand-written model for all objects in the model's domain and all buffers",
    "hand-written Lean models are tied to the code only by the differential correspondence check on the operations generated in this run",
    "the Lean driver's line parser/printer and harness/core.py canonicalisation",
    "little-endian host for native-order struct codes; zlib.crc32 = IEEE 802.3 CRC-32; socket.inet_aton/ntoa = dotted quad; sorted() stable",
]

class Ctx:
    def __init__(self, pid, tier, seed):
        self.pid, self.tier, self.seed = pid, tier, seed
        self.rng = core.Rng(hashlib.sha256(("%s/%d" % (pid, seed)).encode()).digest())
        self.stats = {}
        self.notes = []
    def scale(self, quick, thorough):
        return thorough if self.tier == "thorough" else quick
    def count(self, key, n=1):
        self.stats[key] = self.stats.get(key, 0) + n

def _jsonable(x):
    """replay records must be JSON: bytes become hex strings, tuples lists, unknown objects their repr"""
    if isinstance(x, (bytes, bytearray)):
        return bytes(x).hex()
    if isinstance(x, dict):
        return {str(k): _jsonable(v) for k, v in x.items()}
    if isinstance(x, (list, tuple)):
        return [_jsonable(v) for v in x]
    if isinstance(x, (str, int, float, bool)) or x is None:
        return x
    return repr(x)

class Failure:
    """A concrete input on which the property fails on the real code."""
    def __init__(self, oracle, args, what, tags=None):
        self.oracle, self.args, self.what, self.tags = oracle, args, what, dict(tags or {})
    def to_json(self):
        return {"oracle": self.oracle, "args": _jsonable(self.args), "what": self.what, "tags": _jsonable(self.tags)}

# ----------------------------------------------------------------------------- lake / proof

class LakeLock:
    def __enter__(self):
        os.makedirs(os.path.join(core.LEAN_DIR, ".lake"), exist_ok=True)
        self.f = open(os.path.join(core.LEAN_DIR, ".lake", "verif.lock"), "w")
        fcntl.flock(self.f, fcntl.LOCK_EX)
        return self
    def __exit__(self, *a):
        fcntl.flock(self.f, fcntl.LOCK_UN)
        self.f.close()

def sh(cmd, cwd=None, timeout=3600):
    p = subprocess.run(cmd, cwd=cwd, stdout=subprocess.PIPE, stderr=subprocess.STDOUT, timeout=timeout)
    out = p.stdout.decode(errors="replace")
    out = "\n".join(l for l in out.split("\n") if "WARNING conda" not in l)
    return p.returncode, out

def regenerate():
    from . import extract
    errors, changed = extract.generate()
    return errors, changed

def source_translated(pid, pr):
    """the Python functions whose current source was translated to Lean on this run for this property
    (harness/translate.py), each with its tie theorem and whether that theorem was built and passed the audit"""
    try:
        from . import translate
        out = []
        for r in translate.LAST_REPORT:
            if r.get("property") != pid:
                continue
            axs = pr["theorems"].get(r.get("tie_theorem"))
            out.append(dict(r, tie_discharged=bool(r.get("translated")) and axs is not None and set(axs) <= ALLOWED_AXIOMS))
        return out
    except Exception as e:
        return [{"error": repr(e)}]

def prop_modules(pid):
    d = os.path.join(core.LEAN_DIR, "Acra", "Props", pid)
    files = sorted(glob.glob(os.path.join(d, "*.lean")))
    return [("Acra.Props.%s.%s" % (pid, os.path.basename(f)[:-5]), f) for f in files]

def source_grep(paths):
    """forbidden constructs outside comments in the given Lean files (and everything they can import
    from this project: we grep the whole Acra tree once)"""
    hits = []
    for root, _, fs in os.walk(os.path.join(core.LEAN_DIR, "Acra")):
        for fn in fs:
            if not fn.endswith(".lean"):
                continue
            p = os.path.join(root, fn)
            txt = open(p).read()
            txt = re.sub(r"/-.*?-/", lambda m: "\n" * m.group(0).count("\n"), txt, flags=re.S)
            for i, line in enumerate(txt.split("\n"), 1):
                code = line.split("--")[0]
                if FORBIDDEN.search(code):
                    hits.append("%s:%d: %s" % (os.path.relpath(p, core.LEAN_DIR), i, line.strip()[:120]))
    return hits

def count_theorems_src(path):
    txt = open(path).read()
    txt = re.sub(r"/-.*?-/", "", txt, flags=re.S)
    return len(re.findall(r"^\s*(?:private\s+|protected\s+)?theorem\s+", txt, flags=re.M))

def prove(pid, thorough=False):
    """Build every theorem file of the property, audit axioms.  Returns dict."""
    res = {"modules": [], "obligations": 0, "discharged": 0, "theorems": {}, "failed": [], "log": ""}
    mods = prop_modules(pid)
    if not mods:
        res["failed"].append("no theorem files for " + pid)
        return res
    with LakeLock():
        # the spec driver imports nothing regenerated (no change to /repo can stop it building); it is rebuilt here so
        # that a checkout whose build output is older than its sources never answers with a stale function table
        sh(["lake", "build", "specdriver"], cwd=core.LEAN_DIR)
        rc, out = sh(["lake", "build", "Acra.Audit", "driver"] + [m for m, _ in mods], cwd=core.LEAN_DIR)
        res["log"] = out[-4000:]
        built = {}
        if rc == 0:
            for m, _ in mods:
                built[m] = True
        else:
            # find out which modules build on their own
            for m, _ in mods:
                rc1, out1 = sh(["lake", "build", m], cwd=core.LEAN_DIR)
                built[m] = rc1 == 0
                if rc1 != 0:
                    names = _broken_theorems(out1)
                    res["failed"].append("module %s does not build%s: %s" % (
                        m, (" (broken: %s)" % ", ".join(names)) if names else "", _first_error(out1)))
            rcd, outd = sh(["lake", "build", "driver"], cwd=core.LEAN_DIR)
            if rcd != 0:
                res["failed"].append("driver does not build: " + _first_error(outd))
            rca, _ = sh(["lake", "build", "Acra.Audit"], cwd=core.LEAN_DIR)
        res["driver_ok"] = os.path.exists(core.DRIVER) and not any("driver does not build" in f for f in res["failed"])
        for m, path in mods:
            n_src = count_theorems_src(path)
            if not built.get(m):
                res["obligations"] += n_src
                res["modules"].append({"module": m, "built": False, "theorems": n_src})
                continue
            audit_src = "import Acra.Audit\nimport %s\n#audit_ns Acra.Props.%s\n" % (m, pid)
            tmp = os.path.join(core.LEAN_DIR, ".lake", "audit_%s_%d.lean" % (m.replace(".", "_"), os.getpid()))
            with open(tmp, "w") as f:
                f.write(audit_src)
            rc2, out2 = sh(["lake", "env", "lean", tmp], cwd=core.LEAN_DIR)
            os.unlink(tmp)
            names = []
            for line in out2.split("\n"):
                if line.startswith("AUDIT "):
                    name, _, axs = line[6:].partition(" :: ")
                    axs = axs.split()
                    names.append(name)
                    good = set(axs) <= ALLOWED_AXIOMS
                    res["theorems"][name] = axs
                    res["obligations"] += 1
                    if good:
                        res["discharged"] += 1
                    else:
                        res["failed"].append("theorem %s depends on axioms %s" % (name, axs))
            if rc2 != 0 or not names:
                res["failed"].append("audit of %s failed: %s" % (m, _first_error(out2)))
                if not names:
                    res["obligations"] += n_src
            res["modules"].append({"module": m, "built": True, "theorems": len(names)})
        hits = source_grep(None)
        if hits:
            res["failed"].append("forbidden constructs in Lean sources: " + "; ".join(hits[:5]))
            res["discharged"] = 0
        if thorough and not res["failed"]:
            rc3, out3 = sh(["lake", "env", "leanchecker"] + [m for m, _ in mods], cwd=core.LEAN_DIR, timeout=7200)
            res["leanchecker"] = "ok" if rc3 == 0 else _first_error(out3)
            if rc3 != 0:
                res["failed"].append("leanchecker rejected the property modules: " + _first_error(out3))
    return res

def _broken_theorems(out):
    """names of the theorems / definitions that enclose the error positions of a failed `lake build`"""
    names = []
    for m in re.finditer(r"error: (\S+?\.lean):(\d+):\d+", out):
        path, line = m.group(1), int(m.group(2))
        if not os.path.isabs(path):
            path = os.path.join(core.LEAN_DIR, path)
        try:
            src = open(path).read().split("\n")
        except OSError:
            continue
        for i in range(min(line, len(src)) - 1, -1, -1):
            mm = re.match(r"\s*(?:private\s+|protected\s+)?(?:theorem|def|lemma|example|instance)\s+(\S+)", src[i])
            if mm:
                if mm.group(1) not in names:
                    names.append(mm.group(1))
                break
    return names

def _first_error(out):
    for line in out.split("\n"):
        if "error" in line:
            return line.strip()[:300]
    return out.strip()[-300:]

# ----------------------------------------------------------------------------- correspondence

def correspondence(lines, ctx, max_report=20):
    """Run the same request lines on the implementation and on the Lean driver; diff."""
    t0 = time.time()
    impl = [core.run_line_impl(l) for l in lines]
    t1 = time.time()
    model = core.run_driver(lines)
    t2 = time.time()
    diffs = []
    timeouts = []
    for l, a, b in zip(lines, impl, model):
        if "timeout" in a:
            timeouts.append(l)
        if a != b:
            diffs.append({"line": l, "impl": a, "model": b})
    diffs = [shrink_diff(d) for d in diffs[:5]] + diffs[5:]
    nontrivial = set()
    for l, a in zip(lines, impl):
        if "ok:" in a or "{" in a or a in ("True", "False"):
            nontrivial.add(l)
    dist = distribution(lines, impl)
    return {"n": len(lines), "diffs": diffs, "timeouts": timeouts, "distinct_nontrivial": len(nontrivial),
            "distribution": dist,
            "impl_s": round(t1 - t0, 2), "model_s": round(t2 - t1, 2),
            "samples": [{"request": l, "answer": a} for l, a in list(zip(lines, impl))[:3]]}

def shrink_diff(d, budget=150):
    """minimise a disagreeing history line: drop operations while model and implementation still disagree"""
    line = d["line"]
    if not line.startswith("H ") or " :: " not in line:
        return d
    hd, body = line.split(" :: ", 1)
    ops = body.split("|")
    i = 0
    best = d
    while i < len(ops) and budget > 0 and len(ops) > 1:
        trial = hd + " :: " + "|".join(ops[:i] + ops[i + 1:])
        budget -= 1
        try:
            a = core.run_line_impl(trial)
            b = core.run_driver([trial])[0]
        except Exception:
            break
        if a != b:
            ops = ops[:i] + ops[i + 1:]
            best = {"line": trial, "impl": a, "model": b, "shrunk_from": d["line"][:400]}
        else:
            i += 1
    return best

def distribution(lines, answers):
    """what the generated stream looked like: request kinds and classes, operation kinds, answer kinds
    (ok / each error kind / unspecified-after-error), and a histogram of byte-string argument lengths"""
    from collections import Counter
    kinds, classes, ops, ans, lens = Counter(), Counter(), Counter(), Counter(), Counter()
    for l, a in zip(lines, answers):
        w = l.split()
        kinds[w[0]] += 1
        if len(w) > 1:
            classes[w[1]] += 1
        body = l.split(" :: ", 1)[1] if " :: " in l else ""
        for op in body.replace("##", "|").split("|"):
            t = op.split()
            if t:
                ops[t[0]] += 1
        for tok in l.replace("|", " ").split():
            if tok.startswith("x") and all(c in "0123456789abcdef" for c in tok[1:]):
                n = (len(tok) - 1) // 2
                b = 0 if n == 0 else 1 << (n.bit_length() - 1)
                lens["%d..%d" % (b, 2 * b - 1 if b else 0)] += 1
        for r in a.split("|"):
            if r.startswith("ok"):
                ans["ok"] += 1
            elif r.startswith("err:"):
                ans[r] += 1
            elif r == "?":
                ans["unspecified-after-error"] += 1
            elif r in ("True", "False"):
                ans["eq=" + r] += 1
            else:
                ans["observation" if "{" in r else r[:20]] += 1
    return {"request_kinds": dict(kinds), "classes": dict(classes), "operations": dict(ops),
            "answers": dict(ans), "bytes_argument_lengths": dict(lens)}

# ----------------------------------------------------------------------------- known findings

def load_known(pid):
    p = os.path.join(core.VERIF, "known_findings.json")
    if not os.path.exists(p):
        return []
    data = json.load(open(p))
    return [e for e in data.get("findings", []) if e.get("property") == pid]

def match_known(f, known):
    for e in known:
        if e.get("status") != "known":
            continue
        m = e.get("match", {})
        if m and all(_match_one(f.tags.get(k), v) for k, v in m.items()):
            return e
    return None

def _match_one(actual, expected):
    if isinstance(expected, dict) and "in" in expected:
        return actual in expected["in"]
    return actual == expected

# ----------------------------------------------------------------------------- main entry

def write_replay(pid, seed, n, payload):
    os.makedirs(core.REPLAYS, exist_ok=True)
    p = os.path.join(core.REPLAYS, "%s-%d-%d.json" % (pid, seed, n))
    with open(p, "w") as f:
        json.dump(payload, f, indent=1, sort_keys=True)
    return p

def run_check(pid, tier, seed):
    t0 = time.time()
    mod = importlib.import_module("harness.props." + pid)
    ctx = Ctx(pid, tier, seed)
    broke = []            # descriptions of a broken tie / proof / correspondence
    # 1. regeneration
    regen_errors, regen_changed = regenerate()
    for e in regen_errors:
        broke.append({"kind": "regeneration", "what": e})
    # 2. proof
    pr = prove(pid, thorough=(tier == "thorough"))
    for f in pr["failed"]:
        broke.append({"kind": "proof", "what": f})
    # 3. correspondence (from here on the implementation's executed lines are recorded for the evidence)
    from . import cov
    lc = cov.LineCov(os.path.join(core.REPO, "AcraNetwork")).start()
    corr = {"n": 0, "diffs": [], "timeouts": [], "distinct_nontrivial": 0, "samples": []}
    lines = []
    budget = 900 if tier == "quick" else 4 * 3600
    hung = []
    try:
        with core.Watch(budget) as w:
            lines = list(mod.correspondence(ctx))
            if pr.get("driver_ok"):
                corr = correspondence(lines, ctx)
                for d in corr["diffs"][:20]:
                    broke.append({"kind": "correspondence", "what": "model and implementation disagree", **d})
            else:
                broke.append({"kind": "correspondence", "what": "driver unavailable, correspondence not run"})
        if w.fired:
            hung.append("generating / running the correspondence stream")
    except Exception as e:
        broke.append({"kind": "correspondence", "what": "harness error: %r" % (e,), "trace": traceback.format_exc()[-1500:]})
    # 4. oracle search on the real code (bigger budget when something broke)
    hints = [b for b in broke if b["kind"] == "correspondence" and "line" in b]
    ctx.search_mode = bool(broke)
    failures = []
    try:
        with core.Watch(budget) as w:
            failures = list(mod.oracles(ctx, hints))
        if w.fired:
            hung.append("the oracle search")
    except Exception as e:
        broke.append({"kind": "oracle", "what": "oracle harness error: %r" % (e,), "trace": traceback.format_exc()[-1500:]})
    lc.stop()
    try:
        impl_cov = lc.report()
    except Exception as e:
        impl_cov = {"error": repr(e)}
    for h in hung:
        failures.append(Failure("watchdog", {"phase": h, "budget_s": budget},
                                "an operation on the real code did not finish: %s exceeded its %d s watchdog" % (h, budget),
                                {"check": "timeout", "phase": h}))
    for l in corr.get("timeouts", []):
        failures.append(Failure("watchdog", {"line": l}, "operation did not finish within the watchdog", {"check": "timeout"}))
    known = load_known(pid)
    unknown, seen_known = [], {}
    for f in failures:
        e = match_known(f, known)
        if e is None:
            unknown.append(f)
        else:
            seen_known.setdefault(e["id"], f)
    # 5. verdict
    out_lines = []
    exit_code = 0
    replays = []
    for e in known:
        if e.get("status") == "known":
            out_lines.append("KNOWN-FINDING: property=%s %s%s" % (pid, e["what"],
                             "" if e["id"] in seen_known else " (not re-observed in this run)"))
    if unknown:
        f = unknown[0]
        rp = write_replay(pid, seed, 0, {"property": pid, "seed": seed, "tier": tier, "failure": f.to_json(),
                                       "broken": broke[:10], "replay": "python3 check.py %s --replay <this file>" % pid})
        out_lines.append("VIOLATION property=%s replay=%s" % (pid, rp))
        out_lines.append("  " + f.what)
        replays.append(rp)
        exit_code = 1
    elif broke:
        rp = write_replay(pid, seed, 0, {"property": pid, "seed": seed, "tier": tier, "failure": None,
                                       "broken": broke[:20],
                                       "note": "a proof obligation, the regeneration or the model/implementation correspondence no longer checks; the oracle search found no input on which the property fails"})
        out_lines.append("VIOLATION property=%s replay=%s no-failing-input-found" % (pid, rp))
        out_lines.append("  " + broke[0]["what"][:300])
        replays.append(rp)
        exit_code = 1
    wall = time.time() - t0
    evid = {
        "property_id": pid, "tier": tier, "seed": seed, "level": "proof",
        "coverage": {
            "obligations": pr["obligations"], "discharged": pr["discharged"],
            "checker_cmd": "cd lean && lake build " + " ".join(m for m, _ in prop_modules(pid)) + "  # then #audit_ns Acra.Props.%s (axioms ⊆ propext, Classical.choice, Quot.sound)" % pid,
            "trusted_base": TRUSTED_BASE + list(getattr(mod, "TRUSTED_EXTRA", [])),
            "theorems": pr["theorems"],
            "modules": pr["modules"],
            "leanchecker": pr.get("leanchecker", "not run in this tier"),
            "regenerated": {"errors": regen_errors, "changed": regen_changed},
            "source_translated": source_translated(pid, pr),
            "evaluations": corr["n"] + ctx.stats.get("oracle_evaluations", 0),
            "distinct_nontrivial": corr["distinct_nontrivial"],
            "rule": getattr(mod, "RULE", "correspondence request lines generated from VERIF_SEED; a line is non-trivial when the implementation's answer contains a successful result; distinct = distinct request text"),
            "samples": corr["samples"] or [{"note": "no correspondence lines"}],
            "traces_validated_against_impl": corr["n"],
            "correspondence": {"lines": corr["n"], "disagreements": len(corr["diffs"]), "impl_s": corr.get("impl_s"), "model_s": corr.get("model_s")},
            "input_distribution": corr.get("distribution", {}),
            "impl_coverage": impl_cov,
            "oracle": {k: v for k, v in ctx.stats.items()},
            "known_findings_listed": [e["id"] for e in known if e.get("status") == "known"],
            "known_findings_reobserved": sorted(seen_known),
            "notes": ctx.notes,
        },
        "assumptions": TRUSTED_BASE,
        "wall_s": round(wall, 2),
        "violations": len(unknown) + (1 if (broke and not unknown) else 0),
    }
    os.makedirs(core.EVIDENCE, exist_ok=True)
    with open(os.path.join(core.EVIDENCE, pid + ".json"), "w") as f:
        json.dump(evid, f, indent=1, sort_keys=True)
    for l in out_lines:
        print(l)
    if exit_code == 0:
        print("OK property=%s tier=%s seed=%d obligations=%d/%d correspondence=%d lines oracle=%s wall=%.1fs" % (
            pid, tier, seed, pr["discharged"], pr["obligations"], corr["n"], ctx.stats.get("oracle_evaluations", 0), wall))
    return exit_code

def run_replay(pid, path):
    mod = importlib.import_module("harness.props." + pid)
    data = json.load(open(path))
    f = data.get("failure")
    if f is None:
        # the file names obligations that no longer checked (regenerated constant / definition, theorem, first disagreeing
        # operation): check THOSE again against the tree as it is now
        print("replay file names a broken obligation, not an input; re-checking it:")
        regen_errors, _ = regenerate()
        pr = prove(pid)
        still = []
        for b in data.get("broken", []):
            kind = b.get("kind")
            if kind == "regeneration":
                if regen_errors:
                    still.append("regeneration: " + regen_errors[0][:200])
            elif kind == "proof":
                if pr["failed"]:
                    still.append("proof: " + pr["failed"][0][:200])
            elif kind == "correspondence" and b.get("line") and pr.get("driver_ok"):
                a = core.run_line_impl(b["line"])
                m = core.run_driver([b["line"]])[0]
                if a != m:
                    still.append("correspondence: model and implementation still disagree on %s" % b["line"][:160])
            elif kind == "correspondence":
                if not pr.get("driver_ok"):
                    still.append("correspondence: driver unavailable")
        for x in still[:5]:
            print("  ", x)
        if still:
            print("VIOLATION property=%s replay=%s no-failing-input-found" % (pid, path))
            return 1
        print("replay: the recorded obligations check again on this tree")
        return 0
    what = mod.replay(f["oracle"], f["args"])
    if what:
        print("VIOLATION property=%s replay=%s" % (pid, path))
        print("  " + what)
        return 1
    print("replay: the recorded input no longer violates %s" % pid)
    return 0
