"""C01 — FTI payload codecs: standard wire layout and exact round trip."""
from ..core import hexb, run_line_impl, run_driver, SPECDRIVER, ADAPTERS, canon, parse_val, pyval
from ..runner import Failure
from .. import gen

ID = "C01"
RULE = ("histories `set fields…|pack|obs` and `unpack bytes|obs|pack` per class: every field at 0, 1, max, sign bit and "
        "random over its width, payload lengths in every padding residue; non-trivial = the implementation returned a "
        "successful result; distinct = distinct request text")

# ---------------------------------------------------------------------------------- iNetX
INETX_FIELDS = [("inetxcontrol", 32), ("streamid", 32), ("sequence", 32), ("ptptimeseconds", 32),
                ("ptptimenanoseconds", 32), ("pif", 32)]

def inetx_cases(ctx):
    rng = ctx.rng
    cases = []
    for n in gen.payload_lengths(rng, n_random=ctx.scale(6, 200)):
        f = {k: rng.boundary(b) for k, b in INETX_FIELDS}
        cases.append((f, rng.bytes_(n)))
    for k, b in INETX_FIELDS:                       # each field over its boundaries, others fixed
        for v in (0, 1, (1 << b) - 1, 1 << (b - 1), (1 << b)):      # the last one does not fit
            f = {kk: 7 for kk, _ in INETX_FIELDS}
            f[k] = v
            cases.append((f, b"\x01\x02\x03"))
    return cases

def inetx_lines(ctx):
    lines = []
    for f, p in inetx_cases(ctx):
        ops = gen.sets({k: str(v) for k, v in f.items()}) + ["set payload " + hexb(p), "pack", "obs"]
        lines.append(gen.H("iNetX", ops))
    return lines

def correspondence(ctx):
    lines = []
    lines += inetx_lines(ctx)
    # decode side: bytes produced by the implementation, decoded into a fresh object, re-encoded
    enc = []
    for l in list(lines):
        a = run_line_impl(l)
        parts = a.split("|")
        for p in parts:
            if p.startswith("ok:x"):
                cls = l.split()[1]
                enc.append((cls, p[3:]))
    for cls, hx in enc:
        lines.append(gen.H(cls, ["unpack " + hx, "obs", "pack", "obs"]))
    return lines

# ---------------------------------------------------------------------------------- oracles
def _spec(lines):
    return run_driver(lines, exe=SPECDRIVER)

def check_inetx_layout(args):
    """pack() == Spec layout; unpack(pack) returns the same fields; re-pack reproduces the bytes"""
    import AcraNetwork.iNetX as inetx
    f, p = args["fields"], bytes.fromhex(args["payload"])
    o = inetx.iNetX()
    for k, v in f.items():
        setattr(o, k, v)
    o.payload = p
    try:
        b = o.pack()
    except Exception as e:
        if all(0 <= v < 2**32 for v in f.values()):
            return "iNetX.pack raised %r on fields that fit their widths" % (e,)
        return None
    if not all(0 <= v < 2**32 for v in f.values()):
        return "iNetX.pack accepted a field that does not fit 32 bits"
    exp = _spec([gen.F("spec.iNetX.encode", str(f["inetxcontrol"]), str(f["streamid"]), str(f["sequence"]),
                       str(f["ptptimeseconds"]), str(f["ptptimenanoseconds"]), str(f["pif"]), hexb(p))])[0]
    if exp != "ok:" + hexb(b):
        return "iNetX.pack emits %s but the iNET-X layout is %s" % (hexb(b), exp)
    q = inetx.iNetX()
    q.unpack(b)
    for k, v in f.items():
        if getattr(q, k) != v:
            return "iNetX round trip changes %s: %r -> %r" % (k, v, getattr(q, k))
    if q.payload != p or q.packetlen != len(b):
        return "iNetX round trip changes payload/packetlen"
    if q.pack() != b:
        return "iNetX re-encode of decoded packet differs"
    return None

ORACLES = {"inetx_layout": check_inetx_layout}

def oracles(ctx, hints):
    fails = []
    n = 0
    for f, p in inetx_cases(ctx)[: ctx.scale(80, 2000)]:
        args = {"fields": f, "payload": p.hex()}
        n += 1
        w = check_inetx_layout(args)
        if w:
            fails.append(Failure("inetx_layout", args, w, {"class": "iNetX", "check": "layout"}))
            break
    ctx.count("oracle_evaluations", n)
    return fails

def replay(name, args):
    return ORACLES[name](args)
