from ._agg import make
globals().update(make("C04"))
