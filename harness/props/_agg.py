"""A property module is the union of what the families (and harness/generic.py) contribute to it."""
from .. import families, generic
from ..runner import Failure

def make(pid, rule=None, trusted_extra=()):
    def correspondence(ctx):
        lines = []
        for m in families.MODULES + [generic]:
            f = getattr(m, "corr_" + pid, None)
            if f is not None:
                before = len(lines)
                lines += list(f(ctx))
                ctx.stats["lines_" + m.__name__.split(".")[-1]] = len(lines) - before
        # corpus of minimised past disagreements runs first
        return generic.corpus_lines(pid) + lines
    def oracles(ctx, hints):
        out = []
        if pid in ("C01", "C02", "C03", "C04", "C05", "C06", "C10", "C14", "C15"):
            out += generic.oracle_no_sharing(ctx)
            out += generic.oracle_input_forms(ctx)
        for m in families.MODULES + [generic]:
            f = getattr(m, "oracles_" + pid, None)
            if f is not None:
                out += list(f(ctx, hints))
        return out
    def replay(name, args):
        table = dict(families.all_oracles())
        table.update(generic.ORACLES)
        return table[name](args)
    d = {"ID": pid, "correspondence": correspondence, "oracles": oracles, "replay": replay,
         "TRUSTED_EXTRA": list(trusted_extra)}
    if rule:
        d["RULE"] = rule
    return d
