"""
Harness core: canonical values, the line protocol on the implementation side, the Lean driver
runner, differential comparison, proof/audit step, evidence and verdict.

Everything random derives from VERIF_SEED.  The implementation is the code in /repo's working
tree (editable install: `import AcraNetwork` resolves there).
"""
import os, sys, json, time, random, subprocess, signal, struct, traceback, hashlib, fcntl, re

VERIF = os.path.dirname(os.path.dirname(os.path.abspath(__file__)))
LEAN_DIR = os.path.join(VERIF, "lean")
DRIVER = os.path.join(LEAN_DIR, ".lake", "build", "bin", "driver")
SPECDRIVER = os.path.join(LEAN_DIR, ".lake", "build", "bin", "specdriver")
REPO = os.environ.get("ACRA_REPO", "/repo")
# Evidence committed under /verif/evidence must describe runs against /repo itself: a run against a scratch copy
# (ACRA_REPO=…, used by tools/seeded.py and tools/regress.py) writes its evidence and replays elsewhere.
EVIDENCE = os.path.join(VERIF, "evidence") if os.path.realpath(REPO) == os.path.realpath("/repo") \
    else os.path.join(VERIF, "evidence", "tmp", "scratch")
REPLAYS = os.path.join(EVIDENCE, "replays")

if REPO not in sys.path:
    sys.path.insert(0, REPO)

import logging
logging.disable(logging.CRITICAL)          # the library logs errors on bad checksums etc.
import warnings
warnings.simplefilter("ignore")

# ----------------------------------------------------------------------------- canonical values

class Obj:
    """A parsed `Name{f=v,…}` value."""
    __slots__ = ("name", "fields")
    def __init__(self, name, fields):
        self.name, self.fields = name, fields
    def __repr__(self):
        return "Obj(%s,%r)" % (self.name, self.fields)

class Str(str):
    pass

DELIMS = set(",;[]{}=| ")

def parse_val(s):
    v, rest = _parse(s, 0)
    if rest != len(s):
        raise ValueError("trailing characters in value %r" % s)
    return v

def _atom(s, i):
    j = i
    while j < len(s) and s[j] not in DELIMS:
        j += 1
    return s[i:j], j

def _parse(s, i):
    if s.startswith("[]", i):
        return [], i + 2
    if i < len(s) and s[i] == "[":
        out = []
        i += 1
        while True:
            v, i = _parse(s, i)
            out.append(v)
            if s[i] == ";":
                i += 1
            elif s[i] == "]":
                return out, i + 1
            else:
                raise ValueError("bad list in %r" % s)
    a, j = _atom(s, i)
    if j < len(s) and s[j] == "{":
        if s.startswith("{}", j):
            return Obj(a, []), j + 2
        j += 1
        fields = []
        while True:
            k, j = _atom(s, j)
            if s[j] != "=":
                raise ValueError("bad object in %r" % s)
            v, j = _parse(s, j + 1)
            fields.append((k, v))
            if s[j] == ",":
                j += 1
            elif s[j] == "}":
                return Obj(a, fields), j + 1
            else:
                raise ValueError("bad object in %r" % s)
    if a == "True":
        return True, j
    if a == "False":
        return False, j
    if a == "None":
        return None, j
    if a.startswith("x"):
        return bytes.fromhex(a[1:]), j
    if a.startswith("q"):
        return Str(a[1:]), j
    return int(a), j

def hexb(b):
    return "x" + bytes(b).hex()

# ----------------------------------------------------------------------------- adapters

class Adapter:
    """Describes one class of the library to the line protocol.

    name     class name used on the wire
    ctor     callable(*opts) -> fresh object
    fields   ordered list of attribute names printed by `obs` (and accepted by `set`)
    types    python types whose instances are printed with this adapter
    pack     callable(obj, *args) -> result         (default obj.pack(*args))
    unpack   callable(obj, bytes, *args) -> result  (default obj.unpack(b, *args))
    getters  {field: callable(obj)} for fields that are not plain attributes
    setters  {field: callable(obj, value)}
    calls    {method: callable(obj, *args)}
    build    callable(dict) -> object, for immutable types (namedtuples)
    eq       callable(a, b) -> bool (default a == b)
    """
    def __init__(self, name, ctor, fields, types=(), pack=None, unpack=None, getters=None,
                 setters=None, calls=None, build=None, eq=None):
        self.name, self.ctor, self.fields = name, ctor, list(fields)
        self.types = tuple(types)
        self.pack = pack or (lambda o, *a: o.pack(*a))
        self.unpack = unpack or (lambda o, b, *a: o.unpack(b, *a))
        self.getters = getters or {}
        self.setters = setters or {}
        self.calls = calls or {}
        self.build = build
        self.eq = eq or (lambda a, b: a == b)

    def get(self, o, f):
        if f in self.getters:
            return self.getters[f](o)
        return getattr(o, f)

    def setf(self, o, f, v):
        if f in self.setters:
            return self.setters[f](o, v)
        if f not in self.fields:
            raise KeyError(f)
        setattr(o, f, v)

ADAPTERS = {}
BY_TYPE = {}

def register(a):
    ADAPTERS[a.name] = a
    for t in a.types:
        BY_TYPE[t] = a
    return a

def canon(v):
    """Python value -> canonical text."""
    if v is None:
        return "None"
    if v is True:
        return "True"
    if v is False:
        return "False"
    if isinstance(v, int):
        return str(int(v))
    if isinstance(v, (bytes, bytearray, memoryview)):
        return hexb(bytes(v))
    if isinstance(v, str):
        return "q" + v
    if isinstance(v, (list, tuple)) and type(v) not in BY_TYPE:
        return "[" + ";".join(canon(x) for x in v) + "]"
    a = BY_TYPE.get(type(v))
    if a is None:
        for t, ad in BY_TYPE.items():
            if type(v) is t:
                a = ad
        if a is None:
            return "q<" + type(v).__name__ + ">"
    return a.name + "{" + ",".join("%s=%s" % (f, canon(a.get(v, f))) for f in a.fields) + "}"

def pyval(v):
    """Parsed canonical value -> Python value (objects are built through their adapter)."""
    if isinstance(v, Obj):
        a = ADAPTERS[v.name]
        d = [(k, pyval(x)) for k, x in v.fields]
        if a.build is not None:
            return a.build(dict(d))
        o = a.ctor()
        for k, x in d:
            a.setf(o, k, x)
        return o
    if isinstance(v, list):
        return [pyval(x) for x in v]
    if isinstance(v, Str):
        return str(v)
    return v

def err_kind(e):
    n = type(e).__name__
    if isinstance(e, struct.error):
        return "struct"
    if n == "PTDPLengthError":
        return "ptdplength"
    if n == "PTDPRemainingData":
        return "ptdpremaining"
    for cls, k in ((IndexError, "index"), (KeyError, "key"), (ValueError, "value"), (TypeError, "type"),
                   (AttributeError, "attribute"), (ZeroDivisionError, "zerodiv"), (OverflowError, "overflow"),
                   (NotImplementedError, "notimplemented"), (StopIteration, "stopiteration"), (OSError, "os")):
        if isinstance(e, cls):
            return k
    if type(e) is Exception:
        return "generic"
    return n.lower()

class Timeout(BaseException):
    pass

_FIRED = [False]

def _alarm(signum, frame):
    # Library code contains bare `except:` clauses that swallow this exception (e.g. Pcap.next turns it into
    # StopIteration), so the event is also recorded in a flag, and the alarm re-arms itself to keep
    # interrupting a loop that keeps swallowing it.
    _FIRED[0] = True
    signal.alarm(1)
    raise Timeout()

WATCHDOG_S = 5

def guarded(fn, seconds=None):
    """Run fn() under the watchdog; returns ('ok', value) | ('err', kind) | ('timeout', None).
    Nests inside an outer Watch/guarded (the outer alarm is re-armed with its remaining time)."""
    old = signal.signal(signal.SIGALRM, _alarm)
    t0 = time.time()
    outer_fired = _FIRED[0]
    _FIRED[0] = False
    prev = signal.alarm(seconds or WATCHDOG_S)
    try:
        try:
            v = fn()
        finally:
            signal.alarm(0)
        if _FIRED[0]:
            return ("timeout", None)
        return ("ok", v)
    except Timeout:
        return ("timeout", None)
    except RecursionError:
        return ("timeout", None) if _FIRED[0] else ("err", "recursion")
    except MemoryError:
        return ("err", "memory")
    except Exception as e:
        if _FIRED[0]:
            return ("timeout", None)
        return ("err", err_kind(e))
    finally:
        signal.alarm(0)
        signal.signal(signal.SIGALRM, old)
        _FIRED[0] = outer_fired
        if prev:
            signal.alarm(max(1, prev - int(time.time() - t0)))

def watched(seconds=60):
    """Decorator for oracle check functions: the body runs under the watchdog; if the library does not
    return in time the check reports that as its finding (a string), other exceptions propagate."""
    import functools
    def deco(fn):
        if getattr(fn, "_watched", False):
            return fn
        @functools.wraps(fn)
        def wrapper(*a, **k):
            old = signal.signal(signal.SIGALRM, _alarm)
            outer = _FIRED[0]
            _FIRED[0] = False
            t0 = time.time()
            prev = signal.alarm(seconds)
            msg = "%s: an operation of the library did not finish within %d s" % (fn.__name__, seconds)
            try:
                try:
                    r = fn(*a, **k)
                finally:
                    signal.alarm(0)
                return msg if _FIRED[0] else r
            except Timeout:
                return msg
            except Exception as e:
                # the check's own assumptions about what the library returns did not hold (wrong type, missing
                # attribute, an exception where none is allowed): that is a finding on this input, not a
                # harness failure
                if _FIRED[0]:
                    return msg
                import traceback as _tb
                last = _tb.extract_tb(e.__traceback__)[-1]
                return "%s: %s: %s while checking this input (at %s:%d)" % (
                    fn.__name__, type(e).__name__, str(e)[:160], os.path.basename(last.filename), last.lineno)
            finally:
                signal.alarm(0)
                signal.signal(signal.SIGALRM, old)
                _FIRED[0] = outer
                if prev:
                    signal.alarm(max(1, prev - int(time.time() - t0)))
        wrapper._watched = True
        return wrapper
    return deco

class Watch:
    """Coarse watchdog around a whole phase of a check (generation, correspondence, oracle search): harness code
    that calls the library outside `guarded` cannot hang the check.  `fired` tells whether it expired."""
    def __init__(self, seconds):
        self.seconds, self.fired = seconds, False
    def __enter__(self):
        self.old = signal.signal(signal.SIGALRM, _alarm)
        _FIRED[0] = False
        signal.alarm(self.seconds)
        return self
    def __exit__(self, et, ev, tb):
        signal.alarm(0)
        signal.signal(signal.SIGALRM, self.old)
        self.fired = _FIRED[0] or et is Timeout
        _FIRED[0] = False
        return et is Timeout          # swallow our own exception; the caller looks at .fired

def _res(st):
    if st[0] == "ok":
        return "ok:" + canon(st[1])
    if st[0] == "timeout":
        return "timeout"
    return "err:" + st[1]

def step_impl(a, o, dirty, op):
    w = op.split()
    if not w:
        return dirty, "bad-op"
    if w[0] == "pack":
        args = [pyval(parse_val(x)) for x in w[1:]]
        st = guarded(lambda: a.pack(o, *args))
        if dirty:
            return True, "?"
        return st[0] != "ok", _res(st)
    if w[0] == "unpack":
        b = parse_val(w[1])
        args = [pyval(parse_val(x)) for x in w[2:]]
        st = guarded(lambda: a.unpack(o, b, *args))
        return st[0] != "ok", _res(st)
    if w[0] == "set":
        v = pyval(parse_val(w[2]))
        st = guarded(lambda: a.setf(o, w[1], v))
        if dirty:
            return True, "?"
        return st[0] != "ok", ("ok" if st[0] == "ok" else _res(st))
    if w[0] == "obs":
        if dirty:
            return True, "?"
        st = guarded(lambda: canon(o))
        return False, (st[1] if st[0] == "ok" else _res(st))
    if w[0] == "iter":
        # walk the object with its own iterator protocol, if it has one (a read-only use)
        def walk():
            if hasattr(o, "__iter__"):
                for _ in o:
                    pass
        st = guarded(walk)
        if dirty:
            return True, "?"
        return st[0] != "ok", ("ok" if st[0] == "ok" else _res(st))
    if w[0] == "call":
        args = [pyval(parse_val(x)) for x in w[2:]]
        st = guarded(lambda: a.calls[w[1]](o, *args))
        if dirty:
            return True, "?"
        return st[0] != "ok", _res(st)
    if w[0] == "len":
        # container protocol: len(obj) (may change the object: iNetX / IENA / iNET pack inside __len__)
        st = guarded(lambda: len(o))
        if dirty:
            return True, "?"
        return st[0] != "ok", _res(st)
    if w[0] == "getitem":
        k = int(w[1])
        st = guarded(lambda: o[k])
        if dirty:
            return True, "?"
        return st[0] != "ok", _res(st)
    return dirty, "bad-op"

def run_ops_impl(a, opts, ops):
    o = a.ctor(*opts)
    dirty = False
    out = []
    for op in ops:
        dirty, r = step_impl(a, o, dirty, op.strip())
        out.append(r)
    return o, dirty, out

FUNCS = {}     # name -> callable(*args) for 'F' lines

# ----------------------------------------------------------------------------- operands of `==` (C14)
FOREIGN_KINDS = ("none", "int", "str", "bytes", "list", "object", "other")
DEFAULT_OTHER = ("UDP", "PTPTime")           # classes used for `@other` when the line names none

def _lib_class(tag):
    """`pkg.mod.Class` -> the class object (for related classes that have no adapter, e.g. the legacy Chapter10)"""
    import importlib
    mod, _, name = tag.rpartition(".")
    return getattr(importlib.import_module(mod), name)

def foreign_operand(kind, tag, left):
    if kind == "none":
        return None
    if kind == "int":
        return 0
    if kind == "str":
        return "x"
    if kind == "bytes":
        return b""
    if kind == "list":
        return []
    if kind == "object":
        return object()
    if kind == "other":
        names = [tag] if tag else list(DEFAULT_OTHER)
        for n in names:
            ad = ADAPTERS.get(n)
            x = ad.ctor() if ad is not None else _lib_class(n)()
            if not isinstance(x, type(left)) and not isinstance(left, type(x)):
                return x
        raise ValueError("no unrelated class among %r" % (names,))
    raise ValueError(kind)

def _eq_ne(x, y):
    """('ok', bool) when `x == y` and `x != y` are consistent booleans; otherwise what went wrong"""
    st = guarded(lambda: x == y)
    if st[0] != "ok":
        return st
    sn = guarded(lambda: x != y)
    if sn[0] != "ok":
        return ("err", "ne-" + str(sn[1]))
    if not isinstance(st[1], bool) or not isinstance(sn[1], bool) or st[1] == sn[1]:
        return ("err", "eq=%r,ne=%r" % (st[1], sn[1]))
    return st

def run_eq_operand(a, oa, toks):
    """right-hand side `@kind[:tag]` (foreign operand) or `@sub:Cls | ops` / `@base:Cls | ops` (related class)"""
    head = toks[0][1:]
    kind, _, tag = head.partition(":")
    if kind in ("sub", "base"):
        ad = ADAPTERS.get(tag)
        if ad is not None:
            x = ad.ctor()
        else:
            x = _lib_class(tag)()
        ok = (issubclass(type(x), type(oa)) if kind == "sub" else issubclass(type(oa), type(x))) and type(x) is not type(oa)
        if not ok:
            return "bad-operand"
        for op in toks[1:]:
            w = op.split()
            if not w:
                continue
            if w[0] != "set":
                return "bad-op"
            # class-level attributes: assigned the way the left operand's adapter assigns them (the related
            # class's own adapter, when it has one, knows the same attribute under the same name)
            st = guarded(lambda: (ad or a).setf(x, w[1], pyval(parse_val(w[2]))))
            if st[0] != "ok":
                return "?"
        st = _eq_ne(oa, x)
    elif kind in FOREIGN_KINDS:
        x = foreign_operand(kind, tag, oa)
        st = _eq_ne(oa, x)
        if st[0] == "ok":
            # the other way round (`None == a`, `other == a`): Python falls back to / first asks the library class
            rv = _eq_ne(x, oa)
            if rv != st:
                return "reflected:" + _res(rv) if rv[0] != "ok" else "reflected:%s" % rv[1]
    else:
        return "bad-operand"
    if st[0] == "ok":
        return "True" if st[1] else "False"
    return _res(st)

def run_line_impl(line):
    line = line.strip()
    if " :: " in line:
        hd, body = line.split(" :: ", 1)
        w = hd.split()
        kind, cls, opts = w[0], w[1], [pyval(parse_val(x)) for x in w[2:]]
        a = ADAPTERS.get(cls)
        if a is None:
            return "unknown-class"
        if kind == "H":
            _, _, out = run_ops_impl(a, opts, body.split("|"))
            return "|".join(out)
        if kind == "E":
            x, y = body.split("##")
            oa, da, _ = run_ops_impl(a, opts, x.split("|"))
            if y.strip().startswith("@"):
                if da:
                    return "?"
                return run_eq_operand(a, oa, [t.strip() for t in y.strip().split("|")])
            ob, db, _ = run_ops_impl(a, opts, y.split("|"))
            if da or db:
                return "?"
            st = guarded(lambda: a.eq(oa, ob))
            if st[0] == "ok":
                return "True" if st[1] else "False"
            return _res(st)
        return "bad-line"
    w = line.split()
    if w and w[0] == "F":
        f = FUNCS.get(w[1])
        if f is None:
            return "unknown-func"
        args = [pyval(parse_val(x)) for x in w[2:]]
        return _res(guarded(lambda: f(*args)))
    return "bad-line"

# ----------------------------------------------------------------------------- Lean driver

def run_driver(lines, exe=None):
    """Feed lines to the compiled Lean driver; returns list of answer lines (same length)."""
    exe = exe or DRIVER
    if not os.path.exists(exe):
        raise RuntimeError("driver executable missing: " + exe)
    data = ("\n".join(lines) + "\n").encode()
    p = subprocess.run([exe], input=data, stdout=subprocess.PIPE, stderr=subprocess.PIPE, timeout=1800)
    if p.returncode != 0:
        raise RuntimeError("driver failed: " + p.stderr.decode()[:500])
    out = p.stdout.decode().split("\n")
    if out and out[-1] == "":
        out.pop()
    if len(out) != len(lines):
        raise RuntimeError("driver answered %d lines for %d requests" % (len(out), len(lines)))
    return out

# ----------------------------------------------------------------------------- PRNG helpers

_DICT = None
def source_dictionary():
    """Fuzzing dictionary read from the CURRENT source of the library (ACRA_REPO / /repo): every integer literal
    >= 16 and every bytes literal of 2..16 bytes that appears anywhere in AcraNetwork/**/*.py (AST constants, so a
    magic number, sync word, sentinel or mask that an edit introduces is in the dictionary of that very run),
    plus the byte-swapped 16/32-bit forms.  Used for field values (`Rng.boundary`), for content planted into payload
    bytes (`Rng.bytes_`) and for directed sweeps over discriminator fields (`Rng.dictionary`)."""
    global _DICT
    if _DICT is not None:
        return _DICT
    import ast
    ints, byts = set(), set()
    root = os.path.join(REPO, "AcraNetwork")
    for d, _, fs in os.walk(root):
        for fn in fs:
            if not fn.endswith(".py"):
                continue
            try:
                tree = ast.parse(open(os.path.join(d, fn), "rb").read())
            except Exception:
                continue
            for n in ast.walk(tree):
                if isinstance(n, ast.Constant):
                    v = n.value
                    if isinstance(v, bool):
                        continue
                    if isinstance(v, int) and 16 <= v < (1 << 64):
                        ints.add(v)
                    elif isinstance(v, bytes) and 2 <= len(v) <= 16:
                        byts.add(v)
    for v in list(ints):
        for w in (2, 4, 8):
            if v < (1 << (8 * w)):
                byts.add(v.to_bytes(w, "big")); byts.add(v.to_bytes(w, "little"))
                if w < 8:
                    ints.add(int.from_bytes(v.to_bytes(w, "big"), "little"))
                break
    for v in list(ints):                     # neighbours of every literal (off-by-one comparisons against a sentinel)
        ints.add(v - 1); ints.add(v + 1)
    _DICT = {"ints": sorted(ints), "bytes": sorted(byts)}
    return _DICT

class Rng(random.Random):
    """PRNG of a run.  `structured` is the probability that `bytes_` returns content with structure instead of
    uniform noise; families whose reference reader assumes generic content switch it off with `with rng.plain():`."""
    structured = 0.3
    def _raw(self, n):
        return bytes(self.getrandbits(8) for _ in range(n)) if n else b""
    def plain(self):
        rng = self
        class _P:
            def __enter__(s):
                s.old = rng.structured; rng.structured = 0.0
            def __exit__(s, *a):
                rng.structured = s.old
        return _P()
    def bytes_(self, n):
        """n content bytes: mostly uniform noise; otherwise one of — a constant byte (0x00 / 0xFF / any), periodic
        content (period 1..16, 188, 2048: equal neighbouring blocks), noise with long runs of 0x00 / 0xFF, noise
        with literals of the library's own source planted in it (sync words, magic numbers, start codes)."""
        if n < 2 or self.random() >= self.structured:
            return self._raw(n)
        c = self.random()
        if c < 0.22:
            return bytes([self.choice([0x00, 0xFF, 0xFF, self.getrandbits(8)])]) * n
        if c < 0.48:
            per = self.choice([1, 2, 2, 3, 4, 4, 8, 8, 16, 188, 2048])
            per = max(1, min(per, n // 2))
            unit = self._raw(per)
            return (unit * (n // per + 1))[:n]
        b = bytearray(self._raw(n))
        if c < 0.70:
            for _ in range(self.randrange(1, 3)):
                ln = min(n, self.choice([4, 8, 9, 12, 16, 32]))
                at = self.randrange(0, n - ln + 1)
                b[at:at + ln] = bytes([self.choice([0x00, 0xFF])]) * ln
            return bytes(b)
        toks = source_dictionary()["bytes"]
        for _ in range(self.randrange(1, 4)):
            if not toks:
                break
            t = self.choice(toks)
            if len(t) > n:
                continue
            at = self.choice([0, n - len(t), self.randrange(0, n - len(t) + 1)])
            b[at:at + len(t)] = t
        return bytes(b)
    def dictionary(self, bits):
        """every source literal (and neighbour / byte-swapped form) that fits an unsigned field of `bits` bits"""
        m = 1 << bits
        return [v for v in source_dictionary()["ints"] if 0 <= v < m]
    def boundary(self, bits, signed=False):
        """a value over a `bits`-wide unsigned field, biased to boundaries and to literals of the library's source"""
        m = (1 << bits) - 1
        c = self.random()
        if c < 0.12: return 0
        if c < 0.24: return 1
        if c < 0.36: return m
        if c < 0.46: return 1 << (bits - 1)
        if c < 0.52: return m - 1
        if c < 0.60 and bits >= 5:
            d = self.dictionary(bits)
            if d:
                return self.choice(d)
        return self.getrandbits(bits)

def seed_from_env():
    try:
        return int(os.environ.get("VERIF_SEED", "0"))
    except ValueError:
        return 0
