# SRC: the pure helper functions whose CURRENT source is translated to Lean on every run by
# harness/translate.py (-> lean/Acra/Gen/Src/<lean>.lean), with the tie theorem that states the
# translation equals the hand-written model (lean/Acra/Props/<prop>/SrcTie.lean).
#   file      path below $ACRA_REPO            func     qualified name in that file
#   lean      module under Acra.Gen.Src        name     Lean def name (default: func)
#   params    {parameter: "int" | "bytes" | "ints" | (Class, [(attribute, type), …])}; annotated int / bytes
#             parameters need no entry
#   ranges    {parameter or obj.attr: (lo, hi)}: hypotheses of the generated definition (needed where exactness of
#             an operation depends on magnitudes, e.g. Decimal's 28 digits)
#   fuel      Python int expression bounding the iterations of the function's `while` loop (evaluated at the loop, over
#             the variables live there); a list of expressions, in source order, when the function has several loops
#   mutates   attributes (int lists) of the first parameter that the method changes by item assignment: the translation
#             returns their final values as a tuple (value semantics) instead of the method's constant return value
#   prefix_upto / from_var   sub-translation of the integer part of a function with a float part
#   prop / theorem           the property the function is anchored in and its tie theorem
_PTP = ("PTPTime", [("seconds", "int"), ("nanoseconds", "int")])
_GOLAY_S = ("Golay", [("SyndromeTable", "ints")])
_GOLAY_SC = ("Golay", [("SyndromeTable", "ints"), ("CorrectTable", "ints")])
_GOLAY_ALL = ("Golay", [("SyndromeTable", "ints"), ("CorrectTable", "ints"), ("ErrorTable", "ints")])
SRC = [
  dict(file="AcraNetwork/SimpleEthernet.py", lean="SimpleEthernet", func="ones_comp_add16",
       params={"num1": "int", "num2": "int"}, prop="C07", theorem="src_ones_comp_add16"),
  dict(file="AcraNetwork/SimpleEthernet.py", lean="SimpleEthernet", func="ip_calc_checksum",
       prop="C07", theorem="src_ip_calc_checksum"),
  dict(file="AcraNetwork/SimpleEthernet.py", lean="SimpleEthernet", func="unpack48",
       prop="C02", theorem="src_unpack48"),
  dict(file="AcraNetwork/SimpleEthernet.py", lean="SimpleEthernet", func="pack48",
       prop="C02", theorem="src_pack48"),
  dict(file="AcraNetwork/MPEG/PES.py", lean="PES", func="pts_to_ts", name="pts_to_ts_pts", prefix_upto="pts",
       prop="C15", theorem="src_pts_to_ts_int"),
  dict(file="AcraNetwork/MPEG/PES.py", lean="PES", func="ts_to_pts", name="ts_to_pts_v", from_var="pts",
       params={"pts": "int"}, prop="C15", theorem="src_ts_to_pts_int"),
  dict(file="AcraNetwork/MPEG/PES.py", lean="PES", func="checksum_stanag",
       prop="C07", theorem="src_checksum_stanag"),
  dict(file="AcraNetwork/IRIG106/Chapter11/__init__.py", lean="Chapter11", func="PTPTime.__sub__",
       params={"self": _PTP, "val": _PTP}, prop="C15", theorem="src_PTPTime_sub"),
  dict(file="AcraNetwork/IRIG106/Chapter11/__init__.py", lean="Chapter11", func="PTPTime.__lt__",
       params={"self": _PTP, "val": _PTP}, prop="C15", theorem="src_PTPTime_lt"),
  dict(file="AcraNetwork/IRIG106/Chapter11/__init__.py", lean="Chapter11", func="PTPTime.__le__",
       params={"self": _PTP, "val": _PTP}, prop="C15", theorem="src_PTPTime_le"),
  dict(file="AcraNetwork/IRIG106/Chapter11/__init__.py", lean="Chapter11", func="PTPTime.__eq__",
       params={"self": _PTP, "__value": _PTP}, prop="C15", theorem="src_PTPTime_eq"),
  # float `%` and `//` by 1e9: exact while |addns| < 2^53; ranges of the wire format as hypotheses
  dict(file="AcraNetwork/IRIG106/Chapter11/__init__.py", lean="Chapter11", func="PTPTime.__add__",
       params={"self": _PTP, "val": _PTP},
       ranges={"self.seconds": (0, 2**32 - 1), "self.nanoseconds": (0, 2**32 - 1),
               "val.seconds": (0, 2**32 - 1), "val.nanoseconds": (0, 2**32 - 1)},
       prop="C15", theorem="src_PTPTime_add"),
  # Decimal arithmetic: exact only while results have <= 28 digits; the attribute ranges are those of the wire
  # format ("<II") and become hypotheses of the generated definition
  dict(file="AcraNetwork/IRIG106/Chapter11/__init__.py", lean="Chapter11", func="PTPTime.to_pinksheet_rtc",
       params={"self": _PTP}, ranges={"self.seconds": (0, 2**32 - 1), "self.nanoseconds": (0, 2**32 - 1)},
       prop="C15", theorem="src_PTPTime_to_pinksheet_rtc"),
  # `int(val / dec) % 10` is a binary64 division: exact to truncation while val + dec < 2^53; range as hypothesis
  dict(file="AcraNetwork/IRIG106/Chapter11/TimeDataFormat.py", lean="TimeDataFormat", func="double_digits_to_bcd",
       ranges={"val": (0, 2**32 - 1)}, prop="C15", theorem="src_double_digits_to_bcd"),
  dict(file="AcraNetwork/IRIG106/Chapter11/__init__.py", lean="Chapter11", func="get_checksum_buf",
       prop="C07", theorem="src_get_checksum_buf"),
  dict(file="AcraNetwork/IRIG106/Chapter11/__init__.py", lean="Chapter11", func="get_checksum_byte_buf",
       prop="C07", theorem="src_get_checksum_byte_buf"),
  dict(file="AcraNetwork/MPEG/PMT.py", lean="PMT", func="crc32mpeg2", params={"msg": "bytes"},
       prop="C07", theorem="src_crc32mpeg2"),
  dict(file="AcraNetwork/__init__.py", lean="Init", func="endianness_swap",
       prop="C17", theorem="src_endianness_swap"),
  # a `while` loop: bounded by `fuel` iterations (Err.fuel beyond); the tie theorem shows the fuel suffices for a >= 0
  dict(file="AcraNetwork/ptptime.py", lean="Ptptime", func="bcdTointConvert", params={"a": "int"}, fuel="a + 1",
       prop="C15", theorem="src_bcdTointConvert"),
  dict(file="AcraNetwork/Golay.py", lean="Golay", func="Golay._init_Table",
       prop="C11", theorem="src_Golay_init_Table"),
  dict(file="AcraNetwork/Golay.py", lean="Golay", func="Golay._syndrome2",
       params={"self": _GOLAY_S, "v1": "int", "v2": "int"}, prop="C11", theorem="src_Golay_syndrome2"),
  dict(file="AcraNetwork/Golay.py", lean="Golay", func="Golay._decode2",
       params={"self": _GOLAY_SC, "v1": "int", "v2": "int"}, prop="C11", theorem="src_Golay_decode2"),
  dict(file="AcraNetwork/Golay.py", lean="Golay", func="Golay._onesincode_old",
       params={"code": "int", "size": "int"}, prop="C11", theorem="src_Golay_onesincode_old"),
  # C17 search algorithms.  `self` carries no state (class KMP has no attributes).  Fuels = those of the hand models:
  # the fall-back loop `while j > 0 and …: j = ret[j - 1]` strictly decreases j (fuel j + 1); Horspool's outer loop
  # advances k by skip[...] >= 1 for a non-empty pattern (fuel n + 1), its inner loop decreases j down to -1 (j + 2:
  # j + 1 iterations and the final test)
  dict(file="AcraNetwork/__init__.py", lean="Init", func="KMP.partial", name="KMP_partial",
       params={"self": ("KMP", []), "pattern": "bytes"}, fuel="j + 1", prop="C17", theorem="src_KMP_partial"),
  dict(file="AcraNetwork/__init__.py", lean="Init", func="KMP.search", name="KMP_search",
       params={"self": ("KMP", []), "T": "bytes", "P": "bytes"}, fuel="j + 1", prop="C17", theorem="src_KMP_search"),
  dict(file="AcraNetwork/SamDec008.py", lean="SamDec008", func="string_matching_boyer_moore_horspool",
       params={"text": "bytes", "pattern": "bytes"}, fuel=["n + 1", "j + 2"], prop="C17", theorem="src_bmh_samdec"),
  dict(file="AcraNetwork/MPEG/H264.py", lean="H264", func="string_matching_boyer_moore_horspool",
       params={"text": "bytes", "pattern": "bytes"}, fuel=["n + 1", "j + 2"], prop="C17", theorem="src_bmh_h264"),
  # the decode tables (C11 / C20).  `_onesincode` is the string idiom bin(code)[2:size+2].count('1'); the slice bound
  # size + 2 must be >= 0, hence the declared range for `size` (the only call passes 24)
  dict(file="AcraNetwork/Golay.py", lean="Golay", func="Golay._onesincode",
       params={"code": "int", "size": "int"}, ranges={"size": (0, 64)}, prop="C11", theorem="src_Golay_onesincode"),
  dict(file="AcraNetwork/Golay.py", lean="Golay", func="Golay._syndrome",
       params={"self": _GOLAY_S, "v": "int"}, prop="C11", theorem="src_Golay_syndrome"),
  dict(file="AcraNetwork/Golay.py", lean="Golay", func="Golay._initgolaydecode",
       params={"self": _GOLAY_ALL}, mutates=["SyndromeTable", "CorrectTable", "ErrorTable"],
       prop="C11", theorem="src_Golay_initgolaydecode"),
]
