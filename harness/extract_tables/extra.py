# Constants of the `extra` family: MPEG/H264.py (H264, NAL), MPEG/ADTS.py, MPEG/STANAG4609.py (the SEI class),
# ParserAligned.ARINC429, SimpleEthernet.IPv6 and the time helpers ptptime.py / nanotime.py.
# Literals that appear only inside a function body (the ADTS sync word, the SEI signature words, the masks
# of timefromsbi …) are read from the function's source text with a regular expression, so an edit to the
# literal changes the generated constant.
_RE = "__import__('re')"
_SRC = "__import__('inspect').getsource"

def _lit(fn, pattern):
    """python expression: the integer literal captured by `pattern` in the source of `fn`"""
    return "int(%s.search(r'%s', %s(%s)).group(1), 0)" % (_RE, pattern, _SRC, fn)

TABLE = {
  "ExtraH264": ("AcraNetwork.MPEG.H264", [
    ("NAL_HEADER", "nat", "NAL_HEADER"),
    ("NAL_HEADER_LEN", "nat", "NAL_HEADER_LEN"),
    ("NAL_TYPE_SEI", "nat", "NAL_TYPES['SEI']"),
    # `self.type & 0x1F`
    ("NAL_TYPE_MASK", "nat", _lit("NAL.unpack", r"self\.type *& *(0[xX][0-9A-Fa-f]+|[0-9]+)")),
    # what H264.unpack hands to the search helper as the pattern: the packed header, decoded
    ("NAL_HEADER_TEXT_LEN", "nat", "len(__import__('struct').pack('>L', NAL_HEADER).decode())"),
    ("PY3", "bool", "PY3"),
  ]),
  "ExtraADTS": ("AcraNetwork.MPEG.ADTS", [
    ("ADTS_SYNC", "nat", _lit("ADTS.unpack", r"sw *!= *(0[xX][0-9A-Fa-f]+|[0-9]+)")),
    ("ADTS_DEFAULT_NO_CRC", "bool", "ADTS().no_crc"),
  ]),
  "ExtraSEI": ("AcraNetwork.MPEG.STANAG4609", [
    ("SEI_UNREG_DATA", "nat", "SEI_UNREG_DATA"),
    ("SEI_SIG1", "nat", _lit("STANAG4609_SEI.unpack", r"sig1 *== *(0[xX][0-9A-Fa-f]+|[0-9]+)")),
    ("SEI_SIG2", "nat", _lit("STANAG4609_SEI.unpack", r"sig2 *== *(0[xX][0-9A-Fa-f]+|[0-9]+)")),
    ("SEI_FIX", "nat", _lit("STANAG4609_SEI.unpack", r"_fix1 *== *(0[xX][0-9A-Fa-f]+|[0-9]+)")),
    ("SEI_FIX2", "nat", _lit("STANAG4609_SEI.unpack", r"_fix2 *== *(0[xX][0-9A-Fa-f]+|[0-9]+)")),
    ("SEI_FIX3", "nat", _lit("STANAG4609_SEI.unpack", r"_fix3 *== *(0[xX][0-9A-Fa-f]+|[0-9]+)")),
    # `float(useconds) / 1.0e6`
    ("SEI_US_PER_S", "nat", "int(float(%s.search(r'float\\(useconds\\) */ *([0-9.eE+]+)', %s(STANAG4609_SEI.unpack)).group(1)))" % (_RE, _SRC)),
  ]),
  "ExtraPA": ("AcraNetwork.ParserAligned", [
    ("A429_MESSAGE_LEN", "nat", "ARINC429.MESSAGE_LEN"),
    ("A429_LABEL_REVERSE", "nats", "ARINC429.LABEL_REVERSE"),
  ]),
  "ExtraNet": ("AcraNetwork.SimpleEthernet", [
    ("IPV6_HEADER_FORMAT", "fmt", "IPv6.IP_HEADER_FORMAT"),
    ("IPV6_HEADER_SIZE", "nat", "IPv6.IP_HEADER_SIZE"),
    ("IPV6_DEFAULT_VERSION", "nat", "IPv6().version"),
    ("IPV6_DEFAULT_NEXT_HEADER", "nat", "IPv6().next_header"),
    ("IPV6_DEFAULT_HOP_LIMIT", "nat", "IPv6().hop_limit"),
    # the three shifts of the first header word: (version << 28) + (traffic_class << 24) + flow_label
    ("IPV6_VERSION_SHIFT", "nat", _lit("IPv6.pack", r"self\.version *<< *([0-9]+)")),
    ("IPV6_TC_SHIFT", "nat", _lit("IPv6.pack", r"self\.traffic_class *<< *([0-9]+)")),
  ]),
  "ExtraTime": ("AcraNetwork.ptptime", [
    # getLeapYear as a table: the value for every year 1900..2200 (the function only reads `.year`)
    ("LEAP_TABLE_FROM", "nat", "1900"),
    ("LEAP_TABLE", "nats", "[getLeapYear(__import__('types').SimpleNamespace(year=y)) for y in range(1900, 2201)]"),
    # `(year-1970)*0x01e13380` in timefromiena
    ("IENA_SECONDS_PER_YEAR", "nat", _lit("timefromiena", r"\(year-1970\)\*(0[xX][0-9A-Fa-f]+|[0-9]+)")),
    # masks and shifts of timefromsbi, in source order
    ("SBI_MASKS", "nats", "[int(x, 0) for x in %s.findall(r'& *(0[xX][0-9A-Fa-f]+)\\)', %s(timefromsbi))]" % (_RE, _SRC)),
    ("SBI_SHIFTS", "nats", "[int(x) for x in %s.findall(r's *>> *([0-9]+)', %s(timefromsbi))]" % (_RE, _SRC)),
  ]),
}
INLINE = {
  "ExtraH264": [("AcraNetwork.MPEG.H264", "H264.unpack", "H264_unpack"),
                ("AcraNetwork.MPEG.H264", "NAL.unpack", "NAL_unpack")],
  "ExtraADTS": [("AcraNetwork.MPEG.ADTS", "ADTS.unpack", "ADTS_unpack")],
  "ExtraSEI": [("AcraNetwork.MPEG.STANAG4609", "STANAG4609_SEI.unpack", "SEI_unpack")],
  "ExtraPA": [("AcraNetwork.ParserAligned", "ARINC429.unpack", "A429_unpack")],
}
