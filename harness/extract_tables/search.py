"""Constants of the `search` family: SAM/DEC decommutation (AcraNetwork/SamDec008.py).

KMP, Horspool and endianness_swap carry no named constants (the alphabet size 256 and the group
sizes 2/4 are literals of the algorithms and are written in the model); everything SamDec008.frames
and SamDecPcap._get_data compare against is read from the source here:
  * module constant PCM_HDR_LEN, the pcap header sizes (through the module's own `pcap` alias),
  * instance attributes set by SamDecPcap.__init__ (stream id, sync word) and the literals of
    SamDecPcap._get_data (minimum record length, offset of the IP protocol byte, UDP protocol number,
    offset of the UDP payload) are read from the function source with a regular expression: a literal
    that can no longer be found is a regeneration error (broken tie), never a silent default,
  * the two inline struct formats (">I" sync word, ">B" protocol byte).
"""

def _src_int(func, regex):
    return ("int(__import__('re').search(%r, __import__('inspect').getsource(%s)).group(1), 0)" % (regex, func))

TABLE = {
  "SamDec": ("AcraNetwork.SamDec008", [
    ("SamDec_PCM_HDR_LEN", "nat", "PCM_HDR_LEN"),
    ("SamDec_streamid", "nat", _src_int("SamDecPcap.__init__", r"self\.streamid\s*=\s*(0[xX][0-9A-Fa-f]+|\d+)")),
    ("SamDec_sync_word", "nat", _src_int("SamDecPcap.__init__", r"self\.sync_word\s*=\s*(0[xX][0-9A-Fa-f]+|\d+)")),
    ("SamDec_UDP_TYPE", "nat", _src_int("SamDecPcap._get_data", r"UDP_TYPE\s*=\s*(0[xX][0-9A-Fa-f]+|\d+)")),
    ("SamDec_min_len", "nat", _src_int("SamDecPcap._get_data", r"len\(rec\.payload\)\s*>\s*(0[xX][0-9A-Fa-f]+|\d+)")),
    ("SamDec_proto_off", "nat", _src_int("SamDecPcap._get_data", r"rec\.payload,\s*(0[xX][0-9A-Fa-f]+|\d+)\)")),
    ("SamDec_data_off", "nat", _src_int("SamDecPcap._get_data", r"rec\.payload\[(0[xX][0-9A-Fa-f]+|\d+):\]")),
    ("SamDec_PCAP_GLOBAL_HEADER_FORMAT", "fmt", "pcap.Pcap.GLOBAL_HEADER_FORMAT"),
    ("SamDec_PCAP_GLOBAL_HEADER_SIZE", "nat", "pcap.Pcap.GLOBAL_HEADER_SIZE"),
    ("SamDec_PCAP_RECORD_HEADER_FORMAT", "fmt", "pcap.Pcap.RECORD_HEADER_FORMAT"),
    ("SamDec_PCAP_RECORD_HEADER_SIZE", "nat", "pcap.Pcap.RECORD_HEADER_SIZE"),
  ]),
}
INLINE = {
  "SamDec": [("AcraNetwork.SamDec008", "SamDec008.frames", "SamDec_frames"),
             ("AcraNetwork.SamDec008", "SamDecPcap._get_data", "SamDec_get_data")],
}
