# Constants of the class AFDX of AcraNetwork/SimpleEthernet.py (family `afdx`).
TABLE = {
  "AFDX": ("AcraNetwork.SimpleEthernet", [
    ("AFDX_HEADERLEN", "nat", "AFDX.HEADERLEN"),
    ("AFDX_DSTMAC_CONST", "nat", "AFDX.DSTMAC_CONST"),
    ("AFDX_SRCMAC_CONST", "nat", "AFDX.SRCMAC_CONST"),
    ("AFDX_MIN_PAYLOAD_LEN", "nat", "AFDX.MIN_PAYLOAD_LEN"),
    # the attribute list of AFDX.__eq__, as written in the source (order matters: the first differing or
    # missing attribute decides the outcome)
    ("AFDX_EQ_ATTRS", "strs",
     "[e.value for n in __import__('ast').walk(__import__('ast').parse(__import__('textwrap').dedent("
     "__import__('inspect').getsource(AFDX.__eq__)))) if isinstance(n, __import__('ast').For) "
     "for e in n.iter.elts]"),
  ]),
}
INLINE = {
  "AFDX": [("AcraNetwork.SimpleEthernet", "AFDX.unpack", "AFDX_unpack"),
           ("AcraNetwork.SimpleEthernet", "AFDX.set_dstmac", "AFDX_set_dstmac"),
           ("AcraNetwork.SimpleEthernet", "AFDX.pack", "AFDX_pack")],
}
