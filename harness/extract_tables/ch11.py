# IRIG 106 Chapter 11 data-type payload codecs (family ch11).  One generated Lean module per Python module.
_P = "AcraNetwork.IRIG106.Chapter11"

TABLE = {
  "Ch11PayTs": (_P, [
    ("TS_CH4", "nat", "TS_CH4"),
    ("TS_IEEE1558", "nat", "TS_IEEE1558"),
  ]),
  "Ch11PCM": (_P + ".PCM", [
    ("DFLT_SYNC_WORD", "nat", "DFLT_SYNC_WORD"),
    ("TS_LEN", "nat", "PCMMinorFrame.TS_LEN"),
    ("ALIGN_16b", "nat", "PCMMinorFrame.ALIGN_16b"),
    ("ALIGN_32b", "nat", "PCMMinorFrame.ALIGN_32b"),
    ("ALIGN_KEYS", "nats", "sorted(PCMMinorFrame.DATA_HEADER_FORMAT.keys())"),
    ("HDR_LEN_KEYS", "nats", "sorted(PCMMinorFrame.DATA_HEADER_LEN.keys())"),
    ("DATA_HEADER_LEN_16", "nat", "PCMMinorFrame.DATA_HEADER_LEN[PCMMinorFrame.ALIGN_16b]"),
    ("DATA_HEADER_LEN_32", "nat", "PCMMinorFrame.DATA_HEADER_LEN[PCMMinorFrame.ALIGN_32b]"),
    ("DATA_HEADER_FORMAT_16", "fmt", "PCMMinorFrame.DATA_HEADER_FORMAT[PCMMinorFrame.ALIGN_16b]"),
    ("DATA_HEADER_FORMAT_32", "fmt", "PCMMinorFrame.DATA_HEADER_FORMAT[PCMMinorFrame.ALIGN_32b]"),
    ("PCM_DATA_FRAME_FILL", "nat", "PCM_DATA_FRAME_FILL"),
    ("MODE_THROUGHPUT", "nat", "MODE_THROUGHPUT"),
    ("MODE_ALIGNMENT", "nat", "MODE_ALIGNMENT"),
    ("DEFAULT_IPTS_SOURCE", "nat", "PCMDataPacket()._ipts_source"),
  ]),
  "Ch11UART": (_P + ".UART", [
    ("ENDIAN_BIG", "nat", "int(Endianness.BIG)"),
    ("ENDIAN_LITTLE", "nat", "int(Endianness.LITTLE)"),
  ]),
  "Ch11MIL1553": (_P + ".MILSTD1553", [
    ("DEFAULT_IPTS_SOURCE", "nat", "MILSTD1553DataPacket()._ipts_source"),
  ]),
  "Ch11ARINC": (_P + ".ARINC429", [
    ("HDR_FORMAT", "fmt", "ARINC429DataWord.HDR_FORMAT"),
    ("HDR_SIZE", "nat", "struct.calcsize(ARINC429DataWord.HDR_FORMAT)"),
    ("LO_SPEED", "nat", "ARINC429DataWord.LO_SPEED"),
    ("HI_SPEED", "nat", "ARINC429DataWord.HI_SPEED"),
  ]),
  "Ch11TimeFmt": (_P + ".TimeDataFormat", [
    ("DATE_FMT_YEAR_AVAIL", "nat", "DATE_FMT_YEAR_AVAIL"),
    ("TDF1_DEFAULT_CSD", "nat", "TimeDataFormat1().channel_specific_data"),
    ("TDF2_DEFAULT_CSD", "nat", "TimeDataFormat2().channel_specific_data"),
    ("TS_STATUS_VALID", "nat", "TS_STATUS_VALID"),
    ("TS_STATUS_IEEE2002", "nat", "TS_STATUS_IEEE2002"),
    ("TS_STATUS_IEEE2008", "nat", "TS_STATUS_IEEE2008"),
  ]),
  "Ch11Computer": (_P + ".ComputerData", [
    ("RCCVER_VALUES", "nats", "[int(x) for x in RCCVER]"),
    ("RCCVER_MISSING", "nat", "int(RCCVER(0))"),
    ("RCCVER_DEFAULT", "nat", "int(ComputerGeneratedFormat1().rccver)"),
    ("FRMT_DEFAULT", "nat", "ComputerGeneratedFormat1().frmt"),
    ("SRCC_DEFAULT", "nat", "ComputerGeneratedFormat1().srcc"),
  ]),
  "Ch11Video": (_P + ".Video", [
    ("IPH_OFFSET", "nat", "IPH_OFFSET"),
    ("TP_OFFSET", "nat", "TP_OFFSET"),
    ("DATASTREAM_DEFAULT", "nat", "int(VideoFormat2().datastream)"),
    ("DATASTREAM_VALUES", "nats", "[int(x) for x in DataStream]"),
  ]),
}

INLINE = {
  "Ch11PayTs": [(_P, "PTPTime.pack", "PTP_pack"), (_P, "PTPTime.unpack", "PTP_unpack"),
                (_P, "RTCTime.pack", "RTC_pack"), (_P, "RTCTime.unpack", "RTC_unpack")],
  "Ch11PCM": [(_P + ".PCM", "PCMMinorFrame.unpack", "MF_unpack"), (_P + ".PCM", "PCMMinorFrame.pack", "MF_pack"),
              (_P + ".PCM", "PCMDataPacket.unpack", "PCM_unpack"), (_P + ".PCM", "PCMDataPacket.pack", "PCM_pack")],
  "Ch11UART": [(_P + ".UART", "UARTDataWord.pack", "UW_pack"), (_P + ".UART", "UARTDataWord.unpack", "UW_unpack"),
               (_P + ".UART", "UARTDataPacket.pack", "UP_pack"), (_P + ".UART", "UARTDataPacket.unpack", "UP_unpack")],
  "Ch11MIL1553": [(_P + ".MILSTD1553", "MILSTD1553Message.pack", "MSG_pack"),
                  (_P + ".MILSTD1553", "MILSTD1553Message.unpack", "MSG_unpack"),
                  (_P + ".MILSTD1553", "MILSTD1553DataPacket.pack", "PKT_pack"),
                  (_P + ".MILSTD1553", "MILSTD1553DataPacket.unpack", "PKT_unpack")],
  "Ch11ARINC": [(_P + ".ARINC429", "ARINC429DataPacket.pack", "PKT_pack"),
                (_P + ".ARINC429", "ARINC429DataPacket.unpack", "PKT_unpack")],
  "Ch11TimeFmt": [(_P + ".TimeDataFormat", "TimeDataFormat1.pack", "TDF1_pack"),
                  (_P + ".TimeDataFormat", "TimeDataFormat1.unpack", "TDF1_unpack"),
                  (_P + ".TimeDataFormat", "TimeDataFormat2.pack", "TDF2_pack"),
                  (_P + ".TimeDataFormat", "TimeDataFormat2.unpack", "TDF2_unpack")],
  "Ch11Analog": [(_P + ".Analog", "Analog.pack", "AN_pack"), (_P + ".Analog", "Analog.unpack", "AN_unpack")],
  "Ch11Computer": [(_P + ".ComputerData", "_ComputerGeneratedData.pack", "CG_pack"),
                   (_P + ".ComputerData", "_ComputerGeneratedData.unpack", "CG_unpack"),
                   (_P + ".ComputerData", "ComputerGeneratedFormat1.pack", "CG1_pack")],
  "Ch11Video": [(_P + ".Video", "VideoFormat2.pack", "VID_pack"), (_P + ".Video", "VideoFormat2.unpack", "VID_unpack")],
}
