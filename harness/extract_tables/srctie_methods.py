# METHODS: the codec classes whose pack / unpack / __eq__ methods are translated WHOLE (state-passing) from their
# CURRENT source on every run by harness/translate_methods.py (-> lean/Acra/Gen/Src/Cls/<lean>.lean), with the tie
# theorem that states the translation equals the hand-written model (lean/Acra/Props/<prop>/SrcTieCls.lean).
#   file     path below $ACRA_REPO               cls      class name in that file
#   lean     module under Acra.Gen.Src.Cls        fields   {attribute: "int" | "bytes" | "bool"} type overrides
#   uses     [(lean module under Acra.Gen.Src, function)] module-level functions of the same file, translated by
#            translate.py (SRC tables), that the methods call
#   methods  [dict(func=method name, name=lean def name (default func), params={parameter: "int" | "bytes" | "bool" |
#             "self" (an object of the same class)}, prop=…, theorem=…, also=[(prop, theorem), …] further properties
#             with a theorem about the same translated method)]; annotated int / bytes parameters need no entry
METHODS = [
  dict(file="AcraNetwork/iNetX.py", cls="iNetX", lean="iNetX", methods=[
      dict(func="pack", prop="C01", theorem="src_iNetX_pack", also=[("C13", "src_iNetX_pack_idempotent")]),
      dict(func="unpack", prop="C01", theorem="src_iNetX_unpack",
           also=[("C09", "src_iNetX_accepts_iff"), ("C13", "src_iNetX_unpack_state_independent")]),
      dict(func="__eq__", params={"other": "self"}, prop="C14", theorem="src_iNetX_eq"),
  ]),
  dict(file="AcraNetwork/IENA.py", cls="IENA", lean="IENA", methods=[
      dict(func="pack", prop="C01", theorem="src_IENA_pack"),
      dict(func="unpack", prop="C01", theorem="src_IENA_unpack"),
      dict(func="__eq__", params={"other": "self"}, prop="C14", theorem="src_IENA_eq"),
  ]),
  dict(file="AcraNetwork/IRIG106/Chapter11/__init__.py", cls="PTPTime", lean="PTPTime", methods=[
      dict(func="pack", prop="C15", theorem="src_PTPTime_pack"),
      dict(func="unpack", params={"buffer": "bytes"}, prop="C15", theorem="src_PTPTime_unpack"),
  ]),
  dict(file="AcraNetwork/IRIG106/Chapter11/__init__.py", cls="RTCTime", lean="RTCTime", methods=[
      dict(func="pack", prop="C15", theorem="src_RTCTime_pack"),
      dict(func="unpack", params={"buffer": "bytes"}, prop="C15", theorem="src_RTCTime_unpack"),
      dict(func="to_rtc", prop="C15", theorem="src_RTCTime_to_rtc"),
  ]),
  dict(file="AcraNetwork/SimpleEthernet.py", cls="UDP", lean="UDP", methods=[
      dict(func="pack", prop="C02", theorem="src_UDP_pack"),
      dict(func="unpack", prop="C02", theorem="src_UDP_unpack"),
  ]),
  dict(file="AcraNetwork/SimpleEthernet.py", cls="ICMP", lean="ICMP", uses=[("SimpleEthernet", "ip_calc_checksum")], methods=[
      dict(func="pack", prop="C02", theorem="src_ICMP_pack"),
  ]),
  dict(file="AcraNetwork/MPEGTS.py", cls="MPEGAdaptionExtension", lean="MPEGAdaptionExtension", methods=[
      dict(func="pack", prop="C06", theorem="src_MPEGAdaptionExtension_pack"),
      dict(func="unpack", params={"buffer": "bytes"}, prop="C06", theorem="src_MPEGAdaptionExtension_unpack"),
  ]),
  dict(file="AcraNetwork/Pcap.py", cls="PcapRecord", lean="PcapRecord", methods=[
      dict(func="pack", prop="C05", theorem="src_PcapRecord_pack"),
      dict(func="unpack", prop="C05", theorem="src_PcapRecord_unpack"),
  ]),
]
