# Constants of the remaining FTI payload codecs: iNET / iNETPackage, NPD and its segments,
# ParserAlignedBlock.  (IENA-Q/D/N constants are already in the IENA table of fti.py.)
TABLE = {
  "iNET": ("AcraNetwork.iNET", [
    ("PKG_FORMAT", "fmt", "iNETPackage.PKG_FORMAT"),
    ("PKG_FORMAT_LEN", "nat", "iNETPackage.PKG_FORMAT_LEN"),
    ("PKG_PAD_BYTE", "bytes", "iNETPackage.PAD_BYTE"),
    ("INET_HEADER_FORMAT", "fmt", "iNET.INET_HEADER_FORMAT"),
    ("INET_HEADER_LENGTH", "nat", "iNET.INET_HEADER_LENGTH"),
    ("INET_DEFAULT_VERSION", "nat", "iNET().version"),
  ]),
  "NPD": ("AcraNetwork.NPD", [
    ("NPD_SEGMENT_HDR_FORMAT", "fmt", "NPDSegment.NPD_SEGMENT_HDR_FORMAT"),
    ("NPD_SEGMENT_HDR_LEN", "nat", "NPDSegment.NPD_SEGMENT_HDR_LEN"),
    ("NPD_HEADER_FORMAT", "fmt", "NPD.NPD_HEADER_FORMAT"),
    ("NPD_HEADER_LENGTH", "nat", "NPD.NPD_HEADER_LENGTH"),
    ("NPD_VERSION", "nat", "NPD.NPD_VERSION"),
    ("NPD_DEFAULT_HDRLEN", "nat", "NPD().hdrlen"),
    # the pad byte literal inside NPDSegment.pack: struct.pack(">B", 0xFF) * pad_len
    ("NPD_SEGMENT_PAD", "nat",
     # searched in the whole module (a helper extracted from pack keeps the tie), multiplier name free
     "int(__import__('re').search(r'struct\\.pack\\(\">B\", *(0[xX][0-9A-Fa-f]+|[0-9]+)\\) *\\* *[A-Za-z_]', "
     "__import__('inspect').getsource(__import__('AcraNetwork.NPD', fromlist=['x']))).group(1), 0)"),
    ("BSL_SYNC_COUNT_MASK", "nat", "RS232Segment.BSL_SYNC_COUNT_MASK"),
    # the data types that select a typed segment class, by class (sorted keys)
    ("NPD_DT_KEYS", "nats", "sorted(NPD.NPD_DT)"),
    ("NPD_DT_RS232", "nats", "sorted(k for k, v in NPD.NPD_DT.items() if v is RS232Segment)"),
    ("NPD_DT_A429", "nats", "sorted(k for k, v in NPD.NPD_DT.items() if v is A429Segment)"),
    ("NPD_DT_ACQ", "nats", "sorted(k for k, v in NPD.NPD_DT.items() if v is ACQSegment)"),
    ("NPD_DT_MIL1553", "nats", "sorted(k for k, v in NPD.NPD_DT.items() if v is MIL1553Segment)"),
    ("NPD_DT_PCMPKT", "nats", "sorted(k for k, v in NPD.NPD_DT.items() if v is PCMPacketizer)"),
  ]),
  "ParserAligned": ("AcraNetwork.ParserAligned", [
    ("PAB_FORMAT", "fmt", "ParserAlignedBlock().format"),
    ("PAB_HEADERLEN", "nat", "ParserAlignedBlock().headerlen"),
    ("PAB_DEFAULT_QUADBYTES", "nat", "ParserAlignedBlock().quadbytes"),
    ("PAB_DEFAULT_BUSID", "nat", "ParserAlignedBlock().busid"),
    ("PAB_DEFAULT_ELAPSEDTIME", "nat", "ParserAlignedBlock().elapsedtime"),
  ]),
}
INLINE = {
  "iNET": [("AcraNetwork.iNET", "iNET.pack", "iNET_pack"), ("AcraNetwork.iNET", "iNET.unpack", "iNET_unpack")],
  "NPD": [("AcraNetwork.NPD", "NPDSegment.pack", "NPDSegment_pack"),
          ("AcraNetwork.NPD", "ACQSegment.unpack", "ACQSegment_unpack"),
          ("AcraNetwork.NPD", "RS232Segment.unpack", "RS232Segment_unpack"),
          ("AcraNetwork.NPD", "RS232Segment.pack", "RS232Segment_pack"),
          ("AcraNetwork.NPD", "MIL1553Segment.unpack", "MIL1553Segment_unpack"),
          ("AcraNetwork.NPD", "NPD.unpack", "NPD_unpack"),
          ("AcraNetwork.NPD", "NPD.pack", "NPD_pack")],
}
