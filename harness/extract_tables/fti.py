TABLE = {
  "iNetX": ("AcraNetwork.iNetX", [
    ("iNetX_DEF_CONTROL_WORD", "nat", "iNetX.DEF_CONTROL_WORD"),
    ("iNetX_INETX_HEADER_FORMAT", "fmt", "iNetX.INETX_HEADER_FORMAT"),
    ("iNetX_INETX_HEADER_LENGTH", "nat", "iNetX.INETX_HEADER_LENGTH"),
  ]),
}
