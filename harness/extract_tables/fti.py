TABLE = {
  "iNetX": ("AcraNetwork.iNetX", [
    ("iNetX_DEF_CONTROL_WORD", "nat", "iNetX.DEF_CONTROL_WORD"),
    ("iNetX_INETX_HEADER_FORMAT", "fmt", "iNetX.INETX_HEADER_FORMAT"),
    ("iNetX_INETX_HEADER_LENGTH", "nat", "iNetX.INETX_HEADER_LENGTH"),
  ]),
}

TABLE["IENA"] = ("AcraNetwork.IENA", [
    ("IENA_HEADER_FORMAT", "fmt", "IENA.IENA_HEADER_FORMAT"),
    ("IENA_HEADER_LENGTH", "nat", "IENA.IENA_HEADER_LENGTH"),
    ("IENA_TRAILER_LENGTH", "nat", "IENA.TRAILER_LENGTH"),
    ("IENAM_FORMAT", "fmt", "IENAM._FORMAT_"),
    ("IENAM_FORMAT_LEN", "nat", "IENAM._FORMAT_LEN_"),
    ("IENAQ_FORMAT", "fmt", "IENAQ._FORMAT_"),
    ("IENAQ_FORMAT_LEN", "nat", "IENAQ._FORMAT_LEN_"),
    ("IENA_DEFAULT_ENDFIELD", "nat", "IENA().endfield"),
])
INLINE = {
  "IENA": [("AcraNetwork.IENA", "IENA.pack", "IENA_pack"), ("AcraNetwork.IENA", "IENA.unpack", "IENA_unpack"),
           ("AcraNetwork.IENA", "IENAM.pack", "IENAM_pack"), ("AcraNetwork.IENA", "IENAQ.pack", "IENAQ_pack"),
           ("AcraNetwork.IENA", "IENAD.unpack", "IENAD_unpack"), ("AcraNetwork.IENA", "IENAN.unpack", "IENAN_unpack")],
}
