TABLE = {
  "Golay": ("AcraNetwork.Golay", [
    ("GOLAY_SIZE", "nat", "GOLAY_SIZE"),
    ("G_P", "nats", "G_P"),
    ("H_P", "nats", "H_P"),
  ]),
  "Chapter7": ("AcraNetwork.Chapter7", [
    ("PTDP_CONTENT_FILL", "nat", "PTDP_CONTENT_FILL"),
    ("PTDP_CONTENT_MAC", "nat", "PTDP_CONTENT_MAC"),
    ("PTDP_FRAGMENT_COMPLETE", "nat", "PTDP_FRAGMENT_COMPLETE"),
    ("PTDP_FRAGMENT_FIRST", "nat", "PTDP_FRAGMENT_FIRST"),
    ("PTDP_FRAGMENT_MIDDLE", "nat", "PTDP_FRAGMENT_MIDDLE"),
    ("PTDP_FRAGMENT_LAST", "nat", "PTDP_FRAGMENT_LAST"),
    ("PTDP_HDR_LEN", "nat", "PTDP_HDR_LEN"),
    ("PTFR_HDR_LEN", "nat", "PTFR_HDR_LEN"),
    ("PTDP_MAX_LEN", "nat", "PTDP_MAX_LEN"),
    ("PTFR_DEFAULT_LEN", "nat", "datapkts_to_ptfr.__defaults__[0]"),
    ("PTFR_DEFAULT_STREAMID", "nat", "datapkts_to_ptfr.__defaults__[1]"),
  ]),
}
INLINE = {
  "Golay": [("AcraNetwork.Golay", "Golay.encode", "Golay_encode"),
            ("AcraNetwork.Golay", "Golay.decode", "Golay_decode")],
  "Chapter7": [("AcraNetwork.Chapter7", "PTFR.add_payload", "PTFR_add_payload"),
               ("AcraNetwork.Chapter7", "PTFR.pack", "PTFR_pack"),
               ("AcraNetwork.Chapter7", "PTFR.unpack", "PTFR_unpack"),
               ("AcraNetwork.Chapter7", "PTFR.get_aligned_payload", "PTFR_gap")],
}
