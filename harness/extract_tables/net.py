# Constants of AcraNetwork/SimpleEthernet.py and AcraNetwork/Pcap.py for the `net` family.
TABLE = {
  "Net": ("AcraNetwork.SimpleEthernet", [
    ("ETH_HEADERLEN", "nat", "Ethernet.HEADERLEN"),
    ("ETH_HEADERLEN_VLAN", "nat", "Ethernet.HEADERLEN_VLAN"),
    ("ETH_TYPE_VLAN", "nat", "int(Ethernet.TYPE_VLAN)"),
    ("ETH_TYPE_IP", "nat", "int(Ethernet.TYPE_IP)"),
    ("ETH_TYPE_ARP", "nat", "int(Ethernet.TYPE_ARP)"),
    ("ETH_ADDR_LENGTH", "nat", "Ethernet.ADDR_LENGTH"),
    ("ETH_DEFAULT_VLANTAG", "nat", "Ethernet().vlantag"),
    ("IP_HEADER_FORMAT", "fmt", "IP.IP_HEADER_FORMAT"),
    ("IP_HEADER_SIZE", "nat", "IP.IP_HEADER_SIZE"),
    ("IP_ADDR_LENGTH", "nat", "IP.ADDR_LENGTH"),
    ("IP_PROTOCOL_UDP", "nat", "IP.PROTOCOL_UDP"),
    ("IP_DEFAULT_TTL", "nat", "IP().ttl"),
    ("IP_DEFAULT_VERSION", "nat", "IP().version"),
    ("IP_DEFAULT_IHL", "nat", "IP().ihl"),
    ("UDP_HEADER_FORMAT", "fmt", "UDP.UDP_HEADER_FORMAT"),
    ("UDP_HEADER_SIZE", "nat", "UDP.UDP_HEADER_SIZE"),
    ("ARP_OPER_REQUEST", "nat", "ARP.OPER_REQUEST"),
    ("ARP_DEFAULT_HARDWARE_TYPE", "nat", "ARP().hardware_type"),
    ("IGMP_MOD", "nat", "MOD"),
    ("IGMP_TYPE_MEMBERSHIP_REPORT", "nat", "IGMPv3.TYPE_MEMBERSHIP_REPORT"),
    ("IGMP_TYPE_REC_CHG_TO_EXCL_MODE", "nat", "IGMPv3.TYPE_REC_CHG_TO_EXCL_MODE"),
    ("IGMP_TYPE_REC_MODE_IS_EXCLUDE", "nat", "IGMPv3.TYPE_REC_MODE_IS_EXCLUDE"),
    # a function of no arguments is a constant: the bytes membership_query() returns today
    ("IGMP_MEMBERSHIP_QUERY", "bytes", "IGMPv3.membership_query()"),
  ]),
  "Pcap": ("AcraNetwork.Pcap", [
    ("GLOBAL_HEADER_FORMAT", "fmt", "Pcap.GLOBAL_HEADER_FORMAT"),
    ("RECORD_HEADER_FORMAT", "fmt", "Pcap.RECORD_HEADER_FORMAT"),
    ("RECORD_HEADER_SIZE", "nat", "Pcap.RECORD_HEADER_SIZE"),
    ("GLOBAL_HEADER_SIZE", "nat", "Pcap.GLOBAL_HEADER_SIZE"),
    # constructor defaults of the global header fields (an object opened on os.devnull in append mode
    # performs no header I/O)
    ("DEFAULT_MAGIC", "nat", "Pcap(os.devnull, mode='a').magic"),
    ("DEFAULT_VERSIONMAJ", "nat", "Pcap(os.devnull, mode='a').versionmaj"),
    ("DEFAULT_VERSIONMIN", "nat", "Pcap(os.devnull, mode='a').versionmin"),
    ("DEFAULT_ZONE", "nat", "Pcap(os.devnull, mode='a').zone"),
    ("DEFAULT_SIGFIGS", "nat", "Pcap(os.devnull, mode='a').sigfigs"),
    ("DEFAULT_SNAPLEN", "nat", "Pcap(os.devnull, mode='a').snaplen"),
    ("DEFAULT_NETWORK", "nat", "Pcap(os.devnull, mode='a').network"),
    # the size limit of one read() in the bounded-piece loop of Pcap.next (`self.fopen.read(min(_todo, 1 << 20))`):
    # the second argument of the `min(_todo, …)` call, read from the AST of the method (fails, = broken tie, when the
    # loop is no longer there)
    ("READ_CHUNK", "nat",
     # anywhere in class Pcap (so that extracting the loop into a helper or renaming its locals keeps the tie): the
     # constant second argument of a `min(<remaining>, <constant>)` that is the argument of a `.read(...)` call
     "(lambda ast, inspect, textwrap: [eval(compile(ast.Expression(c.args[0].args[1]), 'chunk', 'eval'), {}) "
     "for c in ast.walk(ast.parse(textwrap.dedent(inspect.getsource(Pcap)))) "
     "if isinstance(c, ast.Call) and getattr(c.func, 'attr', None) == 'read' and len(c.args) == 1 "
     "and isinstance(c.args[0], ast.Call) and getattr(c.args[0].func, 'id', None) == 'min' and len(c.args[0].args) == 2 "
     "and not any(isinstance(n, ast.Name) for n in ast.walk(c.args[0].args[1]))][0])"
     "(__import__('ast'), __import__('inspect'), __import__('textwrap'))"),
  ]),
}
INLINE = {
  "Net": [("AcraNetwork.SimpleEthernet", "unpack48", "unpack48"),
          ("AcraNetwork.SimpleEthernet", "pack48", "pack48"),
          ("AcraNetwork.SimpleEthernet", "ip_calc_checksum", "ipcs"),
          ("AcraNetwork.SimpleEthernet", "Ethernet.unpack", "Eth_unpack"),
          ("AcraNetwork.SimpleEthernet", "Ethernet.pack", "Eth_pack"),
          ("AcraNetwork.SimpleEthernet", "IP.unpack", "IP_unpack"),
          ("AcraNetwork.SimpleEthernet", "IP.pack", "IP_pack"),
          ("AcraNetwork.SimpleEthernet", "ICMP.pack", "ICMP_pack"),
          ("AcraNetwork.SimpleEthernet", "IGMPv3.join_groups", "IGMP_join"),
          ("AcraNetwork.SimpleEthernet", "ARP.pack", "ARP_pack"),
          ("AcraNetwork.SimpleEthernet", "ARP.unpack", "ARP_unpack")],
}
