"""Constants for the ch10 family: Chapter10UDP, Chapter11 (+PTPTime, RTCTime, checksums), FileParser,
and the binding structure of the deprecated AcraNetwork.Chapter10 package (C19, `EXTRA` generator)."""
import os as _os, ast as _ast, json as _json

_UDP = "AcraNetwork.IRIG106.Chapter10.Chapter10UDP"
_CH11 = "AcraNetwork.IRIG106.Chapter11"
_FP = "AcraNetwork.IRIG106.Chapter10.FileParser"

TABLE = {
  "Ch10UDP": (_UDP, [
    ("CH10_UDP_HEADER_FORMAT1", "fmt", "Chapter10UDP.CH10_UDP_HEADER_FORMAT1"),
    ("CH10_UDP_HEADER_FORMAT2", "fmt", "Chapter10UDP.CH10_UDP_HEADER_FORMAT2"),
    ("CH10_UDP_SEG_HEADER_FORMAT1", "fmt", "Chapter10UDP.CH10_UDP_SEG_HEADER_FORMAT1"),
    ("CH10_UDP_HEADER_LENGTH", "nat", "Chapter10UDP.CH10_UDP_HEADER_LENGTH"),
    ("CH10_UDP_SEG_HEADER_LENGTH", "nat", "Chapter10UDP.CH10_UDP_SEG_HEADER_LENGTH"),
    ("TYPE_FULL", "nat", "Chapter10UDP.TYPE_FULL"),
    ("TYPE_SEG", "nat", "Chapter10UDP.TYPE_SEG"),
    ("DEFAULT_VERSION", "nat", "Chapter10UDP().version"),
  ]),
  "Ch11": (_CH11, [
    ("SYNC_WORD", "nat", "Chapter11.SYNC_WORD"),
    ("CH10_HDR_FORMAT", "fmt", "Chapter11.CH10_HDR_FORMAT"),
    ("CH10_HDR_FORMAT_LEN", "nat", "Chapter11.CH10_HDR_FORMAT_LEN"),
    ("CH10_OPT_HDR_FORMAT", "fmt", "Chapter11.CH10_OPT_HDR_FORMAT"),
    ("CH10_OPT_HDR_FORMAT_LEN", "nat", "Chapter11.CH10_OPT_HDR_FORMAT_LEN"),
    ("TS_RTC", "nat", "TS_RTC"),
    ("TS_SECONDARY", "nat", "TS_SECONDARY"),
    ("TS_CH4", "nat", "TS_CH4"),
    ("TS_IEEE1558", "nat", "TS_IEEE1558"),
    ("TS_ERTC", "nat", "TS_ERTC"),
    ("DEFAULT_DATATYPEVERSION", "nat", "Chapter11().datatypeversion"),
    ("DEFAULT_SYNCPATTERN", "nat", "Chapter11().syncpattern"),
  ]),
}

INLINE = {
  "Ch10UDP": [(_UDP, "Chapter10UDP.unpack", "UDP_unpack"), (_UDP, "Chapter10UDP.pack", "UDP_pack")],
  "Ch11": [(_CH11, "PTPTime.pack", "PTP_pack"), (_CH11, "PTPTime.unpack", "PTP_unpack"),
           (_CH11, "RTCTime.pack", "RTC_pack"), (_CH11, "RTCTime.unpack", "RTC_unpack"),
           (_CH11, "get_checksum_buf", "cksum_buf"), (_CH11, "get_checksum_byte_buf", "cksum_byte_buf"),
           (_CH11, "Chapter11.pack", "Ch11_pack")],
  "Ch10File": [(_FP, "FileParser.next", "FP_next")],
}

# ------------------------------------------------------------------------------------------ C19
def _repo():
    return _os.environ.get("ACRA_REPO", "/repo")

def _mod_path(modname):
    base = _os.path.join(_repo(), *modname.split("."))
    if _os.path.isdir(base):
        return _os.path.join(base, "__init__.py")
    return base + ".py"

def _q(s):
    return _json.dumps(str(s), ensure_ascii=False)

def _strs(l):
    return "[" + ", ".join(_q(x) for x in l) + "]"

def public_names(modname):
    """names a `from modname import *` binds, read from the source with ast: `__all__` when it is a
    literal list, otherwise every top-level binding that does not start with an underscore"""
    tree = _ast.parse(open(_mod_path(modname), encoding="utf-8").read())
    names = []
    allv = None
    def add(n):
        if n not in names:
            names.append(n)
    def targets(t):
        if isinstance(t, _ast.Name):
            add(t.id)
        elif isinstance(t, (_ast.Tuple, _ast.List)):
            for e in t.elts:
                targets(e)
    def walk(body):
        nonlocal allv
        for st in body:
            if isinstance(st, _ast.Import):
                for a in st.names:
                    add(a.asname or a.name.split(".")[0])
            elif isinstance(st, _ast.ImportFrom):
                if st.module == "__future__":
                    for a in st.names:
                        add(a.asname or a.name)
                    continue
                for a in st.names:
                    if a.name == "*":
                        for n in public_names(st.module):
                            add(n)
                    else:
                        add(a.asname or a.name)
            elif isinstance(st, (_ast.FunctionDef, _ast.AsyncFunctionDef, _ast.ClassDef)):
                add(st.name)
            elif isinstance(st, _ast.Assign):
                for t in st.targets:
                    targets(t)
                    if isinstance(t, _ast.Name) and t.id == "__all__":
                        allv = [e.value for e in st.value.elts]
            elif isinstance(st, (_ast.AnnAssign, _ast.AugAssign)):
                targets(st.target)
            elif isinstance(st, (_ast.If, _ast.Try, _ast.With, _ast.For, _ast.While)):
                for fld in ("body", "orelse", "finalbody"):
                    walk(getattr(st, fld, []) or [])
                for h in getattr(st, "handlers", []) or []:
                    walk(h.body)
    walk(tree.body)
    if allv is not None:
        return list(allv)
    return [n for n in names if not n.startswith("_")]

def _stmt(st):
    """(kind, module/detail, names) of one top-level statement of a legacy module"""
    if isinstance(st, _ast.ImportFrom) and st.level == 0:
        if len(st.names) == 1 and st.names[0].name == "*":
            return ("star", st.module, [])
        if all(a.asname is None for a in st.names):
            return ("names", st.module, [a.name for a in st.names])
        return ("other", "ImportFrom-as", [])
    if isinstance(st, _ast.Import) and all(a.asname is None and "." not in a.name for a in st.names):
        return ("import", ",".join(a.name for a in st.names), [a.name for a in st.names])
    if isinstance(st, _ast.Expr) and isinstance(st.value, _ast.Call):
        c = st.value
        f = c.func
        if isinstance(f, _ast.Attribute) and isinstance(f.value, _ast.Name) and f.value.id == "warnings" \
                and f.attr == "warn" and len(c.args) == 2 and not c.keywords \
                and isinstance(c.args[0], _ast.Constant) and isinstance(c.args[0].value, str) \
                and isinstance(c.args[1], _ast.Name):
            return ("warn", c.args[1].id, [])
        return ("other", "Call", [])
    if isinstance(st, _ast.ClassDef):
        bases = [_ast.unparse(b) for b in st.bases]
        return ("class", st.name, bases)
    return ("other", type(st).__name__, [])

def _class_body(cls):
    """([(name, source text of the value)], [other statement kinds]) of a class body; a docstring is skipped"""
    assigns, others = [], []
    for i, st in enumerate(cls.body):
        if isinstance(st, _ast.Assign) and len(st.targets) == 1 and isinstance(st.targets[0], _ast.Name):
            assigns.append((st.targets[0].id, _ast.unparse(st.value)))
        elif i == 0 and isinstance(st, _ast.Expr) and isinstance(st.value, _ast.Constant) and isinstance(st.value.value, str):
            continue
        elif isinstance(st, (_ast.FunctionDef, _ast.AsyncFunctionDef)):
            others.append("def:" + st.name)
        else:
            others.append(type(st).__name__)
    return assigns, others

def legacy_modules():
    d = _os.path.join(_repo(), "AcraNetwork", "Chapter10")
    out = []
    for fn in sorted(_os.listdir(d)):
        if fn.endswith(".py"):
            out.append("AcraNetwork.Chapter10" if fn == "__init__.py" else "AcraNetwork.Chapter10." + fn[:-3])
    return sorted(out)

def namespace_tables():
    legacy = []
    targets = {}
    cls10 = None
    for L in legacy_modules():
        tree = _ast.parse(open(_mod_path(L), encoding="utf-8").read())
        stmts = [_stmt(st) for st in tree.body]
        for k, m, ns in stmts:
            if k in ("star", "names") and m not in targets:
                try:
                    targets[m] = public_names(m)
                except Exception:
                    targets[m] = []
        for st in tree.body:
            if isinstance(st, _ast.ClassDef):
                cls10 = (L, st)
        legacy.append((L, stmts))
    c10 = ([], [], [])
    c11 = []
    if cls10 is not None:
        a, o = _class_body(cls10[1])
        c10 = ([_ast.unparse(b) for b in cls10[1].bases], a, o)
        t = _ast.parse(open(_mod_path(_CH11), encoding="utf-8").read())
        for st in t.body:
            if isinstance(st, _ast.ClassDef) and st.name == "Chapter11":
                c11, _ = _class_body(st)
    return legacy, targets, c10, c11

def gen_namespace(gen_dir):
    legacy, targets, c10, c11 = namespace_tables()
    L = []
    L.append("-- GENERATED by harness/extract.py (harness/extract_tables/ch10.py) from the source text of")
    L.append("-- AcraNetwork/Chapter10/*.py and the modules they import from — do not edit")
    L.append("namespace Acra.Gen.Namespace")
    L.append("/-- legacy module ↦ its top-level statements `(kind, module-or-detail, names)`;")
    L.append("    kinds: star | names | import | warn | class | other -/")
    L.append("def legacy : List (String × List (String × String × List String)) := [")
    rows = []
    for name, stmts in legacy:
        rows.append("  (%s, [%s])" % (_q(name), ", ".join("(%s, %s, %s)" % (_q(k), _q(m), _strs(ns)) for k, m, ns in stmts)))
    L.append(",\n".join(rows))
    L.append("]")
    L.append("/-- module ↦ the names `from module import *` binds (ast: `__all__` or the public top-level bindings) -/")
    L.append("def targetPublic : List (String × List String) := [")
    L.append(",\n".join("  (%s, %s)" % (_q(m), _strs(ns)) for m, ns in sorted(targets.items())))
    L.append("]")
    L.append("/-- `class Chapter10(...)`: bases, class-body assignments (name, source text of the value), other statements -/")
    L.append("def chapter10Bases : List String := %s" % _strs(c10[0]))
    L.append("def chapter10Assigns : List (String × String) := [%s]" % ", ".join("(%s, %s)" % (_q(a), _q(b)) for a, b in c10[1]))
    L.append("def chapter10Others : List String := %s" % _strs(c10[2]))
    L.append("/-- class-body assignments of `Chapter11` -/")
    L.append("def chapter11Assigns : List (String × String) := [%s]" % ", ".join("(%s, %s)" % (_q(a), _q(b)) for a, b in c11))
    L.append("end Acra.Gen.Namespace")
    text = "\n".join(L) + "\n"
    path = _os.path.join(gen_dir, "Namespace.lean")
    old = open(path).read() if _os.path.exists(path) else None
    if old != text:
        with open(path, "w") as f:
            f.write(text)
        return ["Namespace"]
    return []

EXTRA = [gen_namespace]
